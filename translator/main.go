// translator regenerates the Gallina tables under coq/theories/Gen from /repo's
// current source: code that is data in disguise (type switches, keyword lists).
// usage: translator <repo> <outdir>
package main

import (
	"fmt"
	"go/ast"
	"go/parser"
	"go/token"
	"io/ioutil"
	"os"
	"path/filepath"
	"sort"
	"strconv"
	"strings"
)

func die(f string, a ...interface{}) {
	fmt.Fprintf(os.Stderr, "translator: "+f+"\n", a...)
	os.Exit(1)
}

func coqStr(s string) string { return `"` + strings.ReplaceAll(s, `"`, `""`) + `"` }

func coqList(xs []string) string {
	q := make([]string, len(xs))
	for i, x := range xs {
		q[i] = coqStr(x)
	}
	return "[" + strings.Join(q, "; ") + "]"
}

func findFunc(f *ast.File, name string) *ast.FuncDecl {
	for _, d := range f.Decls {
		if fd, ok := d.(*ast.FuncDecl); ok && fd.Name.Name == name {
			return fd
		}
	}
	return nil
}

func strLit(e ast.Expr) (string, bool) {
	bl, ok := e.(*ast.BasicLit)
	if !ok || bl.Kind != token.STRING {
		return "", false
	}
	s, err := strconv.Unquote(bl.Value)
	return s, err == nil
}

// retLit: `return "X"`
func retLit(s ast.Stmt) (string, bool) {
	r, ok := s.(*ast.ReturnStmt)
	if !ok || len(r.Results) != 1 {
		return "", false
	}
	return strLit(r.Results[0])
}

// nnSplit recognises  [if notNull { return A }]; return B   (comments ignored by the parser)
func nnSplit(body []ast.Stmt) (nn, null string, ok bool) {
	switch len(body) {
	case 1:
		x, ok := retLit(body[0])
		return x, x, ok
	case 2:
		ifs, ok := body[0].(*ast.IfStmt)
		if !ok || ifs.Else != nil || ifs.Init != nil {
			return "", "", false
		}
		id, ok := ifs.Cond.(*ast.Ident)
		if !ok || id.Name != "notNull" || len(ifs.Body.List) != 1 {
			return "", "", false
		}
		a, ok1 := retLit(ifs.Body.List[0])
		b, ok2 := retLit(body[1])
		return a, b, ok1 && ok2
	}
	return "", "", false
}

type entry struct {
	names                  []string
	nn, null, nn1, null1   string // nn1/null1: when the column's Length is 1 (MySQL tinyint(1))
}

func typeSwitch(repo, file, fn string) []entry {
	fset := token.NewFileSet()
	f, err := parser.ParseFile(fset, filepath.Join(repo, file), nil, 0)
	if err != nil {
		die("%v", err)
	}
	fd := findFunc(f, fn)
	if fd == nil {
		die("%s: func %s not found", file, fn)
	}
	// notNull := col.NotNull || col.IsArray   must be present
	var sw *ast.SwitchStmt
	sawNotNull := false
	for _, s := range fd.Body.List {
		if as, ok := s.(*ast.AssignStmt); ok && len(as.Lhs) == 1 {
			if id, ok := as.Lhs[0].(*ast.Ident); ok && id.Name == "notNull" {
				if be, ok := as.Rhs[0].(*ast.BinaryExpr); ok && be.Op == token.LOR {
					sawNotNull = exprString(be) == "col.NotNull||col.IsArray"
				}
			}
		}
		if s2, ok := s.(*ast.SwitchStmt); ok {
			if id, ok := s2.Tag.(*ast.Ident); ok && id.Name == "columnType" {
				sw = s2
			}
		}
	}
	if sw == nil || !sawNotNull {
		die("%s: %s has left the recognised shape (switch columnType / notNull := col.NotNull || col.IsArray)", file, fn)
	}
	var out []entry
	for _, c := range sw.Body.List {
		cc := c.(*ast.CaseClause)
		if cc.List == nil {
			continue // default: modelled by hand (Model/GoTypes.v), tied by correspondence
		}
		var e entry
		for _, x := range cc.List {
			s, ok := strLit(x)
			if !ok {
				die("%s: non-literal case in %s", file, fn)
			}
			e.names = append(e.names, s)
		}
		nn, null, ok := nnSplit(cc.Body)
		if ok {
			e.nn, e.null, e.nn1, e.null1 = nn, null, nn, null
		} else if len(cc.Body) == 1 {
			// if col.Length != nil && *col.Length == 1 { A } else { B }
			ifs, ok := cc.Body[0].(*ast.IfStmt)
			if !ok || exprString(ifs.Cond) != "col.Length!=nil&&*col.Length==1" {
				die("%s: case %v of %s has left the recognised shape", file, e.names, fn)
			}
			els, ok := ifs.Else.(*ast.BlockStmt)
			if !ok {
				die("%s: case %v of %s: else shape", file, e.names, fn)
			}
			a, b, ok1 := nnSplit(ifs.Body.List)
			c2, d, ok2 := nnSplit(els.List)
			if !ok1 || !ok2 {
				die("%s: case %v of %s: inner shape", file, e.names, fn)
			}
			e.nn1, e.null1, e.nn, e.null = a, b, c2, d
		} else {
			die("%s: case %v of %s has left the recognised shape", file, e.names, fn)
		}
		out = append(out, e)
	}
	return out
}

func exprString(e ast.Expr) string {
	switch x := e.(type) {
	case *ast.BinaryExpr:
		return exprString(x.X) + x.Op.String() + exprString(x.Y)
	case *ast.Ident:
		return x.Name
	case *ast.SelectorExpr:
		return exprString(x.X) + "." + x.Sel.Name
	case *ast.StarExpr:
		return "*" + exprString(x.X)
	case *ast.BasicLit:
		return x.Value
	case *ast.ParenExpr:
		return "(" + exprString(x.X) + ")"
	case *ast.UnaryExpr:
		return x.Op.String() + exprString(x.X)
	}
	return fmt.Sprintf("<%T>", e)
}

func emitTable(name string, es []entry) string {
	var b strings.Builder
	fmt.Fprintf(&b, "Definition %s : list type_entry :=\n  [ ", name)
	for i, e := range es {
		if i > 0 {
			b.WriteString(";\n    ")
		}
		fmt.Fprintf(&b, "mkTE %s %s %s %s %s", coqList(e.names), coqStr(e.nn), coqStr(e.null), coqStr(e.nn1), coqStr(e.null1))
	}
	b.WriteString(" ].\n")
	return b.String()
}

// reserved keyword switch, exact shape required:
//   func (p *Parser) IsReservedKeyword(s string) bool {
//       switch strings.ToLower(s) { case "a": case "b": ... default: return false }
//       return true }
func keywordList(repo, file string) []string {
	fset := token.NewFileSet()
	f, err := parser.ParseFile(fset, filepath.Join(repo, file), nil, 0)
	if err != nil {
		die("%v", err)
	}
	fd := findFunc(f, "IsReservedKeyword")
	if fd == nil || len(fd.Body.List) != 2 {
		die("%s: IsReservedKeyword has left the recognised shape", file)
	}
	sw, ok := fd.Body.List[0].(*ast.SwitchStmt)
	if !ok || sw.Tag == nil || exprString(sw.Tag) != "<*ast.CallExpr>" {
		die("%s: IsReservedKeyword: switch shape", file)
	}
	if ce := sw.Tag.(*ast.CallExpr); exprString(ce.Fun) != "strings.ToLower" || len(ce.Args) != 1 || exprString(ce.Args[0]) != "s" {
		die("%s: IsReservedKeyword: switch tag is not strings.ToLower(s)", file)
	}
	if r, ok := fd.Body.List[1].(*ast.ReturnStmt); !ok || len(r.Results) != 1 || exprString(r.Results[0]) != "true" {
		die("%s: IsReservedKeyword: final return is not true", file)
	}
	var out []string
	sawDefault := false
	for _, c := range sw.Body.List {
		cc := c.(*ast.CaseClause)
		if cc.List == nil {
			sawDefault = true
			if len(cc.Body) != 1 {
				die("%s: IsReservedKeyword: default shape", file)
			}
			if r, ok := cc.Body[0].(*ast.ReturnStmt); !ok || len(r.Results) != 1 || exprString(r.Results[0]) != "false" {
				die("%s: IsReservedKeyword: default does not return false", file)
			}
			continue
		}
		if len(cc.Body) != 0 {
			die("%s: IsReservedKeyword: case %v has a body", file, exprString(cc.List[0]))
		}
		for _, x := range cc.List {
			s, ok := strLit(x)
			if !ok {
				die("%s: IsReservedKeyword: non-literal case", file)
			}
			out = append(out, s)
		}
	}
	if !sawDefault {
		die("%s: IsReservedKeyword: no default", file)
	}
	sort.Strings(out)
	return out
}

// traversal tables: for every `case *ast.X:` of the big type switch in fn, the
// fields visited, in order.  call is "Walk" (Walk(f, n.F)) or "apply" (a.apply(n, "F", nil, n.F)).
func traversal(repo, file, fn, call string) [][2]interface{} {
	fset := token.NewFileSet()
	f, err := parser.ParseFile(fset, filepath.Join(repo, file), nil, 0)
	if err != nil {
		die("%v", err)
	}
	var fd *ast.FuncDecl
	for _, d := range f.Decls {
		if x, ok := d.(*ast.FuncDecl); ok && x.Name.Name == fn {
			fd = x
		}
	}
	if fd == nil {
		die("%s: func %s not found", file, fn)
	}
	var sw *ast.TypeSwitchStmt
	for _, s := range fd.Body.List {
		if x, ok := s.(*ast.TypeSwitchStmt); ok {
			sw = x
		}
	}
	if sw == nil {
		die("%s: %s: no type switch", file, fn)
	}
	var out [][2]interface{}
	for _, c := range sw.Body.List {
		cc := c.(*ast.CaseClause)
		if cc.List == nil {
			continue
		}
		for _, t := range cc.List {
			name := exprString(t)
			if !strings.HasPrefix(name, "*ast.") {
				if name == "nil" {
					continue
				}
				die("%s: %s: case %s is not *ast.X", file, fn, name)
			}
			kind := strings.TrimPrefix(name, "*ast.")
			fields := []string{}
			ast.Inspect(cc, func(n ast.Node) bool {
				ce, ok := n.(*ast.CallExpr)
				if !ok {
					return true
				}
				switch call {
				case "Walk":
					if id, ok := ce.Fun.(*ast.Ident); ok && id.Name == "Walk" && len(ce.Args) == 2 {
						arg := exprString(ce.Args[1])
						if strings.HasPrefix(arg, "n.") {
							fields = append(fields, strings.TrimPrefix(arg, "n."))
						} else if arg == "item" {
							fields = append(fields, "*Items")
						} else {
							die("%s: %s: case %s: unexpected Walk argument %s", file, fn, kind, arg)
						}
					}
				case "apply":
					if se, ok := ce.Fun.(*ast.SelectorExpr); ok && (se.Sel.Name == "apply" || se.Sel.Name == "applyList") && len(ce.Args) >= 2 {
						nm, ok := strLit(ce.Args[1])
						if !ok {
							die("%s: %s: case %s: apply field is not a literal", file, fn, kind)
						}
						if se.Sel.Name == "applyList" {
							nm = "*" + nm
						}
						fields = append(fields, nm)
					}
				}
				return true
			})
			out = append(out, [2]interface{}{kind, fields})
		}
	}
	return out
}

func emitTraversal(name string, t [][2]interface{}) string {
	var b strings.Builder
	fmt.Fprintf(&b, "Definition %s : list (string * list string) :=\n  [ ", name)
	for i, e := range t {
		if i > 0 {
			b.WriteString(";\n    ")
		}
		fmt.Fprintf(&b, "(%s, %s)", coqStr(e[0].(string)), coqList(e[1].([]string)))
	}
	b.WriteString(" ].\n")
	return b.String()
}


// stringMap: the entries of a package-level `var <name> = map[string]string{ "k": "v", ... }`, sorted by key
func stringMap(repo, file, name string) [][2]string {
	fset := token.NewFileSet()
	f, err := parser.ParseFile(fset, filepath.Join(repo, file), nil, 0)
	if err != nil {
		die("%v", err)
	}
	for _, d := range f.Decls {
		gd, ok := d.(*ast.GenDecl)
		if !ok || gd.Tok != token.VAR {
			continue
		}
		for _, sp := range gd.Specs {
			vs, ok := sp.(*ast.ValueSpec)
			if !ok || len(vs.Names) != 1 || vs.Names[0].Name != name || len(vs.Values) != 1 {
				continue
			}
			cl, ok := vs.Values[0].(*ast.CompositeLit)
			if !ok {
				die("%s: %s is not a composite literal", file, name)
			}
			var out [][2]string
			for _, el := range cl.Elts {
				kv, ok := el.(*ast.KeyValueExpr)
				if !ok {
					die("%s: %s: element is not key: value", file, name)
				}
				k, ok1 := strLit(kv.Key)
				v, ok2 := strLit(kv.Value)
				if !ok1 || !ok2 {
					die("%s: %s: entry is not a pair of string literals", file, name)
				}
				out = append(out, [2]string{k, v})
			}
			sort.Slice(out, func(i, j int) bool { return out[i][0] < out[j][0] })
			return out
		}
	}
	die("%s: variable %s not found", file, name)
	return nil
}

func emitPairs(name string, ps [][2]string) string {
	q := make([]string, len(ps))
	for i, p := range ps {
		q[i] = "(" + coqStr(p[0]) + ", " + coqStr(p[1]) + ")"
	}
	return "Definition " + name + " : list (string * string) :=\n  [" + strings.Join(q, ";\n   ") + "].\n"
}

func main() {
	if len(os.Args) != 3 {
		die("usage: translator <repo> <outdir>")
	}
	repo, outdir := os.Args[1], os.Args[2]
	os.MkdirAll(outdir, 0755)
	var b strings.Builder
	b.WriteString("(** GENERATED by /verif/translator from internal/codegen/golang/{postgresql,mysql}_type.go — do not edit. *)\n")
	b.WriteString("From Coq Require Import List String.\nImport ListNotations.\nOpen Scope string_scope.\n\n")
	b.WriteString("Record type_entry := mkTE { te_names : list string; te_nn : string; te_null : string; te_nn_len1 : string; te_null_len1 : string }.\n\n")
	b.WriteString(emitTable("pg_type_table", typeSwitch(repo, "internal/codegen/golang/postgresql_type.go", "postgresType")))
	b.WriteString("\n")
	b.WriteString(emitTable("my_type_table", typeSwitch(repo, "internal/codegen/golang/mysql_type.go", "mysqlType")))
	write(filepath.Join(outdir, "TypeTables.v"), b.String())

	var k strings.Builder
	k.WriteString("(** GENERATED by /verif/translator from internal/engine/{postgresql,dolphin}/reserved.go — do not edit. *)\n")
	k.WriteString("From Coq Require Import List String.\nImport ListNotations.\nOpen Scope string_scope.\n\n")
	k.WriteString("Definition pg_reserved : list string :=\n  " + coqList(keywordList(repo, "internal/engine/postgresql/reserved.go")) + ".\n\n")
	k.WriteString("Definition my_reserved : list string :=\n  " + coqList(keywordList(repo, "internal/engine/dolphin/reserved.go")) + ".\n")
	write(filepath.Join(outdir, "Reserved.v"), k.String())

	var w strings.Builder
	w.WriteString("(** GENERATED by /verif/translator from internal/sql/astutils/{walk,rewrite}.go — do not edit.\n    For each node kind the child fields in the order astutils.Walk / astutils.Apply visit them;\n    \"*Items\" stands for the elements of a List.  A kind that is absent makes Walk panic. *)\n")
	w.WriteString("From Coq Require Import List String.\nImport ListNotations.\nOpen Scope string_scope.\n\n")
	w.WriteString(emitTraversal("walk_fields", traversal(repo, "internal/sql/astutils/walk.go", "Walk", "Walk")))
	w.WriteString("\n")
	w.WriteString(emitTraversal("apply_fields", traversal(repo, "internal/sql/astutils/rewrite.go", "apply", "apply")))
	write(filepath.Join(outdir, "WalkOrder.v"), w.String())

	var im strings.Builder
	im.WriteString("(** GENERATED by /verif/translator from internal/codegen/golang/imports.go — do not edit.\n    stdlibTypes: Go type name (prefix) |-> standard-library import path. *)\n")
	im.WriteString("From Coq Require Import List String.\nImport ListNotations.\nOpen Scope string_scope.\n\n")
	im.WriteString(emitPairs("stdlib_types", stringMap(repo, "internal/codegen/golang/imports.go", "stdlibTypes")))
	write(filepath.Join(outdir, "ImportTables.v"), im.String())
}

// write only when the content changed, so that make does not rebuild needlessly
func write(path, content string) {
	old, err := ioutil.ReadFile(path)
	if err == nil && string(old) == content {
		return
	}
	if err := ioutil.WriteFile(path, []byte(content), 0644); err != nil {
		die("%v", err)
	}
}
