p='/repo/internal/compiler/resolve.go'
s=open(p).read()
s=s.replace('''	var defaultTable *ast.TableName
	var tables []*ast.TableName
''','''	var defaultTable *ast.TableName
	var tables []*ast.TableName
	// tables that are visible under their own name (range vars without alias)
	unaliased := map[*ast.TableName]bool{}
''',1)
s=s.replace('''		if rv.Alias == nil {
			continue
		}
		aliasMap[*rv.Alias.Aliasname] = fqn''','''		if rv.Alias == nil {
			unaliased[fqn] = true
			continue
		}
		aliasMap[*rv.Alias.Aliasname] = fqn''',1)
s=s.replace('''						for _, fqn := range tables {
							if fqn.Name == alias {
								search = []*ast.TableName{fqn}
							}
						}''','''						for _, fqn := range tables {
							// an aliased table cannot be referred to by its own name
							if fqn.Name == alias && unaliased[fqn] {
								search = []*ast.TableName{fqn}
							}
						}''',1)
open(p,'w').write(s)
