p='/repo/internal/compiler/query_catalog.go'
s=open(p).read()
old='''	cte, exists := qc.ctes[rel.Name]
	if exists {
		return cte, nil
	}
'''
new='''	// a schema-qualified name never refers to a CTE
	if rel.Schema == "" {
		if cte, exists := qc.ctes[rel.Name]; exists {
			return cte, nil
		}
	}
'''
assert old in s
s=s.replace(old,new,1)
open(p,'w').write(s)
