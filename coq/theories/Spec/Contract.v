(** The contract a query command imposes on the generated Go method
    (DESIGN.md Appendix C.3): result shape, driver entry point, obligatory
    structure of the body.  The method is described by what the harness reads
    back from the emitted code with go/parser: result types, the driver call
    reached, and the skeleton of the body as a list of events. *)
From Verif Require Export Base.Str.
Open Scope string_scope.
Open Scope list_scope.

Record method_shape := mkMS {
  ms_results : list string;      (* result types, e.g. ["[]Author"; "error"] *)
  ms_call : string;              (* "QueryRowContext" | "QueryContext" | "ExecContext" | "queryRow" | "query" | "exec" *)
  ms_events : list string;       (* skeleton, see harness/summary.go *)
  ms_scan_count : nat }.         (* number of Scan calls in the body *)

Definition entry_ok (cmd : string) (prepared : bool) (call : string) : bool :=
  let want :=
    if String.eqb cmd ":one" then (if prepared then "queryRow" else "QueryRowContext")
    else if String.eqb cmd ":many" then (if prepared then "query" else "QueryContext")
    else (if prepared then "exec" else "ExecContext") in
  String.eqb call want.

Definition last_is_error (rs : list string) : bool := String.eqb (last rs "") "error".

Fixpoint index_of (x : string) (l : list string) (i : nat) : option nat :=
  match l with [] => None | y :: r => if String.eqb x y then Some i else index_of x r (S i) end.
Definition has_prefix_event (p : string) (l : list string) : bool := existsb (fun e => has_prefix e p) l.
Fixpoint index_of_prefix (p : string) (l : list string) (i : nat) : option nat :=
  match l with [] => None | y :: r => if has_prefix y p then Some i else index_of_prefix p r (S i) end.
Definition before (a b : option nat) : bool :=
  match a, b with Some x, Some y => Nat.ltb x y | _, _ => false end.

(** :many — query error checked before anything else, rows closed on every
    path (defer), Scan error checked inside the loop, Close error checked, Err
    checked, in this order *)
Definition many_body_ok (ev : list string) : bool :=
  let call := index_of_prefix "call:" ev 0 in
  let chk := index_of "cond:err != nil" ev 0 in
  let dfr := index_of "defer:rows.Close" ev 0 in
  let loop := index_of "for{" ev 0 in
  let next := index_of "next:rows" ev 0 in
  let scan := index_of "scan:rows" ev 0 in
  let close := index_of "close:rows" ev 0 in
  let errc := index_of "err:rows" ev 0 in
  before call chk && before chk dfr && before dfr loop && before next scan
  && before scan close && before close errc
  (* each of Scan / Close / Err is followed by its own error check *)
  && (3 <=? List.length (filter (String.eqb "cond:err != nil") ev))%nat
  && has_prefix_event "return:items,nil" ev.

Definition contract_ok (cmd : string) (prepared : bool) (m : method_shape) : bool :=
  entry_ok cmd prepared (ms_call m) && last_is_error (ms_results m) &&
  if String.eqb cmd ":one" then
    Nat.eqb (List.length (ms_results m)) 2 && Nat.eqb (ms_scan_count m) 1
    && negb (has_prefix (hd "" (ms_results m)) "[]" && false)
  else if String.eqb cmd ":many" then
    Nat.eqb (List.length (ms_results m)) 2 && has_prefix (hd "" (ms_results m)) "[]"
    && Nat.eqb (ms_scan_count m) 1 && many_body_ok (ms_events m)
  else if String.eqb cmd ":exec" then
    Nat.eqb (List.length (ms_results m)) 1 && Nat.eqb (ms_scan_count m) 0
  else if String.eqb cmd ":execrows" then
    strs_eqb (ms_results m) ["int64"; "error"] && Nat.eqb (ms_scan_count m) 0
    && has_prefix_event "rowsaffected:" (ms_events m) && mem_str "cond:err != nil" (ms_events m)
  else if String.eqb cmd ":execresult" then
    strs_eqb (ms_results m) ["sql.Result"; "error"] && Nat.eqb (ms_scan_count m) 0
  else false.
