(** Reference semantics of name resolution (DESIGN.md Appendix C.2): what
    PostgreSQL does with the relation and column names of a statement of the
    supported grammar, and the row description it returns when the statement is
    prepared.  Written over the same trees the parser produces, independently of
    sqlc's outputColumns / sourceTables / resolveCatalogRefs. *)
From Verif Require Export Model.Ast Model.Catalog.
Open Scope string_scope.
Open Scope list_scope.

(** a column visible in a scope: its name and, when it is (a plain reference to)
    a column of a base table, that table and the catalog column *)
Record sccol := mkSC { sc_name : string; sc_src : option (string * string * column) }.  (* schema, table, column *)
Record scitem := mkSI { si_name : string; si_cols : list sccol }.
Definition scope := list scitem.

Inductive pgerr :=
| EUndefinedTable (n : string)
| EUndefinedColumn (n : string)
| EAmbiguousColumn (n : string)
| EDuplicateAlias (n : string)
| EUnsupported (what : string).

Inductive pgres (A : Type) := POk (a : A) | PErr (e : pgerr).
Arguments POk {A} a.
Arguments PErr {A} e.
Definition pbind {A B} (r : pgres A) (f : A -> pgres B) : pgres B :=
  match r with POk a => f a | PErr e => PErr e end.
Notation "'pdo' x <- r ; k" := (pbind r (fun x => k)) (at level 200, x pattern, r at level 100, k at level 200).

Definition ctes_t := list (string * list sccol).

Fixpoint assoc_s {A} (l : list (string * A)) (k : string) : option A :=
  match l with [] => None | (k', v) :: r => if String.eqb k' k then Some v else assoc_s r k end.

(** the relation a RangeVar names: a CTE (unqualified name) shadows the catalog;
    unqualified catalog names live in the default schema *)
Definition pg_relation (c : catalog) (ctes : ctes_t) (rv : node) : pgres (list sccol) :=
  let s := str_of "Schemaname" rv in
  let n := str_of "Relname" rv in
  match (if String.eqb s "" then assoc_s ctes n else None) with
  | Some cols => POk cols
  | None =>
      let ns := if String.eqb s "" then cat_default c else s in
      match get_schema c ns with
      | None => PErr (EUndefinedTable n)
      | Some sch =>
          match get_table sch n with
          | None => PErr (EUndefinedTable n)
          | Some t => POk (map (fun col => mkSC (col_name col) (Some (ns, n, col))) (tab_cols t))
          end
      end
  end.

Definition visible_name (rv : node) : string :=
  if is_nil (kid "Alias" rv) then str_of "Relname" rv else str_of "Aliasname" (kid "Alias" rv).

(** resolution of a column reference in a stack of scopes, innermost first *)
Definition cols_named (sc : scope) (cn : string) : list sccol :=
  flat_map (fun it => filter (fun x => String.eqb (sc_name x) cn) (si_cols it)) sc.

Fixpoint resolve_unqualified (stack : list scope) (cn : string) : pgres sccol :=
  match stack with
  | [] => PErr (EUndefinedColumn cn)
  | sc :: outer =>
      match cols_named sc cn with
      | [] => resolve_unqualified outer cn
      | [x] => POk x
      | _ => PErr (EAmbiguousColumn cn)
      end
  end.

Fixpoint resolve_qualified (stack : list scope) (q cn : string) : pgres sccol :=
  match stack with
  | [] => PErr (EUndefinedTable q)
  | sc :: outer =>
      match filter (fun it => String.eqb (si_name it) q) sc with
      | [] => resolve_qualified outer q cn
      | it :: _ =>
          match filter (fun x => String.eqb (sc_name x) cn) (si_cols it) with
          | [] => PErr (EUndefinedColumn cn)
          | x :: _ => POk x
          end
      end
  end.

(** a ColumnRef without star: 1 part = column; 2 parts = item.column;
    3 parts = schema.table.column (the item must be that base table) *)
Definition resolve_ref (stack : list scope) (ref : node) : pgres sccol :=
  match string_items (kid "Fields" ref) with
  | [cn] => resolve_unqualified stack cn
  | [q; cn] => resolve_qualified stack q cn
  | [_; q; cn] => resolve_qualified stack q cn
  | _ => PErr (EUnsupported "column reference")
  end.

Definition is_star (ref : node) : bool := existsb (is_kind "A_Star") (kid_items "Fields" ref).

Fixpoint first_dup (l : list string) : option string :=
  match l with [] => None | x :: r => if mem_str x r then Some x else first_dup r end.

(** ** row description and name checks; recursion through sub-selects on fuel *)
(** parameter forms: $n, sqlc.arg(x), @x, possibly under a cast *)
Definition is_param_form (n : node) : bool :=
  let base (x : node) :=
    is_kind "ParamRef" x
    || (is_kind "FuncCall" x && String.eqb (str_of "Schema" (kid "Func" x)) "sqlc")
    || (is_kind "A_Expr" x && String.eqb (join_list (kid "Name" x) ".") "@") in
  base n || (is_kind "TypeCast" n && base (kid "Arg" n)).

(** the row one query level returns: one entry per non-star target (named by its
    AS alias, else by the column it references), stars expanded over the level's
    scope in from-list order *)
Definition row_step (sc : scope) (stack : list scope) (acc : pgres (list sccol)) (res : node) : pgres (list sccol) :=
  pdo row <- acc;
  let v := kid "Val" res in
  if is_kind "ColumnRef" v then
    if is_star v then
      match string_items (kid "Fields" v) with
      | [] => POk (row ++ flat_map si_cols sc)
      | q :: _ =>
          match filter (fun it => String.eqb (si_name it) q) sc with
          | it :: _ => POk (row ++ si_cols it)
          | [] => PErr (EUndefinedTable q)
          end
      end
    else
      pdo x <- resolve_ref stack v;
      POk (row ++ [mkSC (match str_opt "Name" res with Some a => a | None => sc_name x end) (sc_src x)])
  else
    (* an un-aliased function call is named after the function; other expressions get
       a name nobody can refer to ("?column?"), here "" *)
    let dflt := if is_kind "FuncCall" v then str_of "Name" (kid "Func" v)
                else if is_kind "SubLink" v && Z.eqb (int_of "SubLinkType" v) 0 then "exists"      (* EXISTS (...) is called exists *)
                else "" in
    POk (row ++ [mkSC (match str_opt "Name" res with Some a => a | None => dflt end) None]).
Definition row_of (sc : scope) (stack : list scope) (targets : list node) : pgres (list sccol) :=
  fold_left (row_step sc stack) targets (POk []).

Section WithCatalog.
  Variable c : catalog.
  (** [strict]: every column reference of a level must resolve (PostgreSQL);
      otherwise only those property C10 lists: result / RETURNING lists, INSERT
      and SET targets, and columns compared with a parameter *)
  Variable strict : bool.
  (** [deep]: any column mentioned in a result list must resolve; otherwise only
      result columns that ARE a column reference (and COALESCE arguments) *)
  Variable deep : bool.

  Definition direct_refs (targets : list node) : list node :=
    flat_map (fun t => let v := kid "Val" t in
                if is_kind "ColumnRef" v then [v]
                else if is_kind "CoalesceExpr" v then firstn 1 (filter (is_kind "ColumnRef") (kid_items "Args" v))
                else []) targets.

  (** ColumnRefs of this level that are compared with a parameter *)
  Fixpoint paired_refs (n : node) : list node :=
    match n with
    | Nil => []
    | NList l => (fix go (l : list node) := match l with [] => [] | x :: r => paired_refs x ++ go r end) l
    | Node k _ _ kids =>
        if String.eqb k "SelectStmt" || String.eqb k "SubLink" || String.eqb k "RangeSubselect" then []
        else
          let here :=
            if String.eqb k "A_Expr" then
              let l := kid "Lexpr" n in let r := kid "Rexpr" n in
              let r_has_param := is_param_form r || existsb is_param_form (items r) in
              (if is_kind "ColumnRef" l && r_has_param then [l] else [])
              ++ (if is_kind "ColumnRef" r && is_param_form l then [r] else [])
            else [] in
          here ++ (fix go (l : list (string * node)) :=
                     match l with [] => [] | (_, x) :: r => paired_refs x ++ go r end) kids
    end.

  (** all ColumnRefs below [n] that belong to this query level (sub-selects are
      separate levels and are checked when they are described) *)
  Fixpoint level_refs (n : node) : list node :=
    match n with
    | Nil => []
    | NList l => (fix go (l : list node) := match l with [] => [] | x :: r => level_refs x ++ go r end) l
    | Node k _ _ kids =>
        if String.eqb k "ColumnRef" then [n]
        else if String.eqb k "SelectStmt" || String.eqb k "SubLink" || String.eqb k "RangeSubselect" then []
        else (fix go (l : list (string * node)) :=
                match l with [] => [] | (_, x) :: r => level_refs x ++ go r end) kids
    end.

  Definition check_refs (stack : list scope) (refs : list node) : pgres unit :=
    fold_left (fun acc r => pdo _ <- acc;
                 if is_star r then POk tt else pdo _ <- resolve_ref stack r; POk tt) refs (POk tt).

  (** sub-selects directly below an expression of this level *)
  Fixpoint level_subselects (n : node) : list node :=
    match n with
    | Nil => []
    | NList l => (fix go (l : list node) := match l with [] => [] | x :: r => level_subselects x ++ go r end) l
    | Node k _ _ kids =>
        if String.eqb k "SelectStmt" then [n]
        else (fix go (l : list (string * node)) :=
                match l with [] => [] | (_, x) :: r => level_subselects x ++ go r end) kids
    end.

  Definition target_name (res : node) : option string :=
    match str_opt "Name" res with
    | Some a => Some a
    | None =>
        let v := kid "Val" res in
        if is_kind "ColumnRef" v && negb (is_star v)
        then Some (last (string_items (kid "Fields" v)) "")
        else None
    end.

  Fixpoint describe (fuel : nat) (ctes : ctes_t) (outer : list scope) (stmt : node) {struct fuel}
    : pgres (list sccol) :=
    match fuel with
    | O => PErr (EUnsupported "fuel")
    | S fuel' =>
        (* WITH: each CTE sees the earlier ones *)
        let with_ctes : pgres ctes_t :=
          let w := kid "WithClause" stmt in
          fold_left (fun acc cte =>
                       pdo cs <- acc;
                       if is_kind "CommonTableExpr" cte then
                         pdo cols <- describe fuel' cs outer (kid "Ctequery" cte);
                         POk ((str_of "Ctename" cte, cols) :: cs)
                       else POk cs) (kid_items "Ctes" w) (POk ctes) in
        pdo ctes' <- with_ctes;
        let k := kind_of stmt in
        if String.eqb k "SelectStmt" && Nat.eqb (List.length (kid_items "TargetList" stmt)) 0 && negb (is_nil (kid "Larg" stmt)) then
          (* set operation: both arms are checked, the left one names the result *)
          pdo l <- describe fuel' ctes' outer (kid "Larg" stmt);
          pdo _ <- describe fuel' ctes' outer (kid "Rarg" stmt);
          POk l
        else
          (* the from-items of this level *)
          let fix from_item (fuel : nat) (n : node) : pgres scope :=
            match fuel with
            | O => PErr (EUnsupported "fuel")
            | S f =>
                let k := kind_of n in
                if String.eqb k "RangeVar" then
                  pdo cols <- pg_relation c ctes' n; POk [mkSI (visible_name n) cols]
                else if String.eqb k "RangeSubselect" then
                  pdo cols <- describe fuel' ctes' outer (kid "Subquery" n);
                  POk [mkSI (str_of "Aliasname" (kid "Alias" n)) cols]
                else if String.eqb k "JoinExpr" then
                  pdo l <- from_item f (kid "Larg" n);
                  pdo r <- from_item f (kid "Rarg" n);
                  POk (l ++ r)
                else PErr (EUnsupported "from item")
            end in
          let items_of (l : list node) : pgres scope :=
            fold_left (fun acc n => pdo a <- acc; pdo b <- from_item fuel' n; POk (a ++ b)) l (POk []) in
          let level : pgres (scope * list node * list node) :=   (* scope, targets, other expressions *)
            if String.eqb k "SelectStmt" then
              pdo sc <- items_of (kid_items "FromClause" stmt);
              POk (sc, kid_items "TargetList" stmt,
                   [kid "FromClause" stmt; kid "WhereClause" stmt; kid "GroupClause" stmt; kid "HavingClause" stmt; kid "SortClause" stmt])
            else if String.eqb k "InsertStmt" then
              pdo sc <- items_of [kid "Relation" stmt];
              POk (sc, kid_items "ReturningList" stmt, [])
            else if String.eqb k "UpdateStmt" then
              pdo sc <- items_of (kid "Relation" stmt :: kid_items "FromClause" stmt);
              POk (sc, kid_items "ReturningList" stmt, [kid "WhereClause" stmt; kid "FromClause" stmt])
            else if String.eqb k "DeleteStmt" then
              pdo sc <- items_of (kid "Relation" stmt :: kid_items "UsingClause" stmt);
              POk (sc, kid_items "ReturningList" stmt, [kid "WhereClause" stmt])
            else if String.eqb k "TruncateStmt" then
              pdo sc <- items_of (kid_items "Relations" stmt); POk (sc, [], [])
            else PErr (EUnsupported "statement") in
          pdo lv <- level;
          let '(sc, targets, others) := lv in
          match first_dup (map si_name sc) with
          | Some d => PErr (EDuplicateAlias d)
          | None =>
              let stack := sc :: outer in
              (* INSERT: the source SELECT is its own level; target columns belong to the relation *)
              pdo _ <- (if String.eqb k "InsertStmt" then
                          pdo _ <- check_refs [sc] (map (fun t => Node "ColumnRef" [] [] [("Fields", NList [Node "String" [("Str", str_of "Name" t)] [] []])])
                                                       (kid_items "Cols" stmt));
                          let src := kid "SelectStmt" stmt in
                          if is_kind "SelectStmt" src then pdo _ <- describe fuel' ctes' outer src; POk tt else POk tt
                        else if String.eqb k "UpdateStmt" then
                          (* SET targets name columns of the updated relation; the assigned expressions see the whole scope *)
                          pdo _ <- check_refs [firstn 1 sc] (map (fun t => Node "ColumnRef" [] [] [("Fields", NList [Node "String" [("Str", str_of "Name" t)] [] []])])
                                                              (kid_items "TargetList" stmt));
                          check_refs stack (if strict then level_refs (NList (map (kid "Val") (kid_items "TargetList" stmt))) else [])
                        else POk tt);
              (* every column reference of this level resolves *)
              pdo _ <- check_refs stack (if strict then level_refs (NList others) else paired_refs (NList others));
              pdo _ <- check_refs stack (if deep then level_refs (NList (map (kid "Val") targets)) else direct_refs targets);
              (* sub-selects of this level, with this level as outer scope *)
              pdo _ <- fold_left (fun acc s => pdo _ <- acc; pdo _ <- describe fuel' ctes' stack s; POk tt)
                                 (level_subselects (NList (others ++ map (kid "Val") targets
                                                            ++ (if String.eqb k "UpdateStmt" then map (kid "Val") (kid_items "TargetList" stmt) else []))))
                                 (POk tt);
              (* the row *)
              row_of sc stack targets
          end
    end.
End WithCatalog.

Definition pg_describe (c : catalog) (stmt : node) : pgres (list sccol) :=
  describe c true true (S (node_size stmt)) [] [] stmt.
(** the checks property C10 lists, nothing more *)
Definition pg_names_ok (c : catalog) (stmt : node) : pgres (list sccol) :=
  describe c false true (S (node_size stmt)) [] [] stmt.
(** ... with result lists checked only where a result column is itself a reference *)
Definition pg_names_ok_direct (c : catalog) (stmt : node) : pgres (list sccol) :=
  describe c false false (S (node_size stmt)) [] [] stmt.
