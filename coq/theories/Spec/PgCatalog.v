(** Reference semantics of the DDL fragment of property C08 (DESIGN.md
    Appendix C.1): what PostgreSQL's catalog is after each statement, and which
    statements it rejects for catalog reasons.  Written by the rule table, over
    the same record types as the model but with set-style operations
    ([map]/[filter] on names) instead of index surgery.  Names are unique in a
    PostgreSQL catalog; [pg_exec] is only meaningful on such states ([Inv] in
    Proofs/CatalogFacts.v), and keeps them so. *)
From Verif Require Export Model.Catalog.
Open Scope string_scope.
Open Scope list_scope.

Definition has_schema (c : catalog) (n : string) : bool := existsb (sch_is n) (cat_schemas c).
Definition the_schema (c : catalog) (n : string) : option schema := find_first (sch_is n) (cat_schemas c).
Definition has_rel (s : schema) (n : string) : bool := existsb (tab_is n) (sch_tables s).
Definition has_type (s : schema) (n : string) : bool :=
  existsb (fun t => String.eqb (typ_name t) n) (sch_types s).
(** relations and types of one schema share one name space (a table owns a row type) *)
Definition name_taken (s : schema) (n : string) : bool := has_rel s n || has_type s n.

Definition map_schema (c : catalog) (n : string) (f : schema -> schema) : catalog :=
  mkCat (cat_default c) (map (fun s => if sch_is n s then f s else s) (cat_schemas c)).
Definition map_table (n : string) (f : table -> table) (s : schema) : schema :=
  mkSch (sch_name s) (map (fun t => if tab_is n t then f t else t) (sch_tables s)) (sch_types s) (sch_comment s).
Definition map_col (n : string) (f : column -> column) (t : table) : table :=
  mkTab (tab_name t) (map (fun x => if col_is n x then f x else x) (tab_cols t)) (tab_comment t).
Definition map_type (n : string) (f : typ -> typ) (s : schema) : schema :=
  mkSch (sch_name s) (sch_tables s)
        (map (fun t => if String.eqb (typ_name t) n then f t else t) (sch_types s)) (sch_comment s).

Definition the_rel (c : catalog) (q : qname) : result (schema * table) :=
  match the_schema c (ns_of c q) with
  | None => Err e_schema_nf
  | Some s => match find_first (tab_is (q_name q)) (sch_tables s) with
              | None => Err e_rel_nf
              | Some t => Ok (s, t)
              end
  end.

Definition pg_col (pk : list string) (d : coldef) : column :=
  mkCol (cd_name d) (cd_type d) (cd_notnull d || mem_str (cd_name d) pk) (cd_array d) "".

(** one ALTER TABLE sub-command on a column list *)
Definition pg_alter_cmd (cols : list column) (cmd : alter_cmd) : result (list column) :=
  let has n := existsb (col_is n) cols in
  let upd n f := map (fun x => if col_is n x then f x else x) cols in
  match cmd with
  | AddColumn ine d =>
      if has (cd_name d) then (if ine then Ok cols else Err e_col_ex)
      else Ok (cols ++ [pg_col [] d])
  | DropColumn ie n =>
      if has n then Ok (filter (fun x => negb (col_is n x)) cols)
      else if ie then Ok cols else Err e_col_nf
  | AlterColumnType n ty arr =>
      if has n then Ok (upd n (fun x => mkCol (col_name x) ty (col_notnull x) arr (col_comment x)))
      else Err e_col_nf
  | SetNotNull n =>
      if has n then Ok (upd n (fun x => mkCol (col_name x) (col_type x) true (col_array x) (col_comment x)))
      else Err e_col_nf
  | DropNotNull n =>
      if has n then Ok (upd n (fun x => mkCol (col_name x) (col_type x) false (col_array x) (col_comment x)))
      else Err e_col_nf
  end.

Fixpoint pg_alter_cmds (cols : list column) (cmds : list alter_cmd) : result (list column) :=
  match cmds with
  | [] => Ok cols
  | cmd :: rest => do cols' <- pg_alter_cmd cols cmd; pg_alter_cmds cols' rest
  end.

Fixpoint insert_rel (before : bool) (nb v : string) (l : list string) : list string :=
  match l with
  | [] => [v]
  | x :: r => if String.eqb x nb then (if before then v :: x :: r else x :: v :: r)
              else x :: insert_rel before nb v r
  end.

Definition the_enum (c : catalog) (q : qname) : result (list string) :=
  match the_schema c (ns_of c q) with
  | None => Err e_schema_nf
  | Some s =>
      match find_first (fun t => String.eqb (typ_name t) (q_name q)) (sch_types s) with
      | None => Err e_type_nf
      | Some (Enum _ vals _) => Ok vals
      | Some (Composite _ _) => Err e_not_enum
      end
  end.

(** DROP on a list of names is atomic in PostgreSQL; a failing statement
    aborts the run, so only success/failure matters for failing ones. *)
Fixpoint pg_drop_schemas (c : catalog) (ie : bool) (names : list string) : result catalog :=
  match names with
  | [] => Ok c
  | n :: rest =>
      if has_schema c n
      then pg_drop_schemas (mkCat (cat_default c) (filter (fun s => negb (sch_is n s)) (cat_schemas c))) ie rest
      else if ie then pg_drop_schemas c ie rest else Err e_schema_nf
  end.

Fixpoint pg_drop_tables (c : catalog) (ie : bool) (names : list qname) : result catalog :=
  match names with
  | [] => Ok c
  | q :: rest =>
      match the_rel c q with
      | Ok _ =>
          pg_drop_tables (map_schema c (ns_of c q) (fun s =>
             set_tables s (filter (fun t => negb (tab_is (q_name q) t)) (sch_tables s)))) ie rest
      | _ => if ie then pg_drop_tables c ie rest else Err e_rel_nf
      end
  end.

Fixpoint pg_drop_types (c : catalog) (ie : bool) (names : list qname) : result catalog :=
  match names with
  | [] => Ok c
  | q :: rest =>
      match the_schema c (ns_of c q) with
      | Some s =>
          if has_type s (q_name q)
          then pg_drop_types (map_schema c (ns_of c q) (fun s =>
                 set_types s (filter (fun t => negb (String.eqb (typ_name t) (q_name q))) (sch_types s)))) ie rest
          else if ie then pg_drop_types c ie rest else Err e_type_nf
      | None => if ie then pg_drop_types c ie rest else Err e_schema_nf
      end
  end.

Definition pg_exec (c : catalog) (d : ddl) : result catalog :=
  match d with
  | CreateSchema ine n =>
      if has_schema c n then (if ine then Ok c else Err e_schema_ex)
      else Ok (mkCat (cat_default c) (cat_schemas c ++ [mkSch n [] [] ""]))
  | DropSchema ie names => pg_drop_schemas c ie names
  | CreateTable ine q cols pk =>
      match the_schema c (ns_of c q) with
      | None => Err e_schema_nf
      | Some s =>
          if has_rel s (q_name q) then (if ine then Ok c else Err e_rel_ex)
          else if has_type s (q_name q) then Err e_type_ex
          else if negb (nodup_str (map cd_name cols)) then Err e_col_ex
          else Ok (map_schema c (ns_of c q) (fun s =>
                 set_tables s (sch_tables s ++ [mkTab (q_name q) (map (pg_col pk) cols) ""])))
      end
  | DropTable ie names => pg_drop_tables c ie names
  | RenameTable ie q new =>
      match the_rel c q with
      | Ok (s, _) =>
          if name_taken s new then Err e_rel_ex
          else Ok (map_schema c (ns_of c q) (map_table (q_name q) (fun t => mkTab new (tab_cols t) (tab_comment t))))
      | Err m => if ie && has_schema c (ns_of c q) then Ok c else Err m
      | Panic x => Panic x
      end
  | SetSchema ie q new =>
      match the_rel c q with
      | Ok (_, t) =>
          match the_schema c new with
          | None => Err e_schema_nf
          | Some s2 =>
              if name_taken s2 (q_name q) then Err e_rel_ex
              else
                let c1 := map_schema c (ns_of c q) (fun s =>
                            set_tables s (filter (fun t => negb (tab_is (q_name q) t)) (sch_tables s))) in
                Ok (map_schema c1 new (fun s => set_tables s (sch_tables s ++ [t])))
          end
      | Err m => if ie && has_schema c (ns_of c q) then Ok c else Err m
      | Panic x => Panic x
      end
  | AlterTable ie q cmds =>
      match the_rel c q with
      | Ok (_, t) =>
          do cols <- pg_alter_cmds (tab_cols t) cmds;
          Ok (map_schema c (ns_of c q) (map_table (q_name q) (fun t => set_cols t cols)))
      | Err m => if ie && has_schema c (ns_of c q) then Ok c else Err m
      | Panic x => Panic x
      end
  | RenameColumn ie q old new =>
      match the_rel c q with
      | Ok (_, t) =>
          if negb (existsb (col_is old) (tab_cols t)) then Err e_col_nf
          else if existsb (col_is new) (tab_cols t) then Err e_col_ex
          else Ok (map_schema c (ns_of c q) (map_table (q_name q) (map_col old
                 (fun x => mkCol new (col_type x) (col_notnull x) (col_array x) (col_comment x)))))
      | Err m => if ie && has_schema c (ns_of c q) then Ok c else Err m
      | Panic x => Panic x
      end
  | CreateEnum q vals =>
      match the_schema c (ns_of c q) with
      | None => Err e_schema_nf
      | Some s =>
          if name_taken s (q_name q) then Err e_type_ex
          else if negb (nodup_str vals) then Err e_val_ex
          else Ok (map_schema c (ns_of c q) (fun s => set_types s (sch_types s ++ [Enum (q_name q) vals ""])))
      end
  | CreateComposite q =>
      match the_schema c (ns_of c q) with
      | None => Err e_schema_nf
      | Some s =>
          if name_taken s (q_name q) then Err e_type_ex
          else Ok (map_schema c (ns_of c q) (fun s => set_types s (sch_types s ++ [Composite (q_name q) ""])))
      end
  | AddValue ine q v pos =>
      do vals <- the_enum c q;
      if mem_str v vals then (if ine then Ok c else Err e_val_ex)
      else
        match pos with
        | Some (before, nb) =>
            if mem_str nb vals
            then Ok (map_schema c (ns_of c q) (map_type (q_name q) (set_vals (insert_rel before nb v))))
            else Err e_val_nf
        | None => Ok (map_schema c (ns_of c q) (map_type (q_name q) (set_vals (fun l => l ++ [v]))))
        end
  | RenameValue q old new =>
      do vals <- the_enum c q;
      if negb (mem_str old vals) then Err e_val_nf
      else if mem_str new vals then Err e_val_ex
      else Ok (map_schema c (ns_of c q) (map_type (q_name q)
             (set_vals (map (fun x => if String.eqb x old then new else x)))))
  | DropType ie names => pg_drop_types c ie names
  | CommentSchema n cm =>
      if has_schema c n
      then Ok (map_schema c n (fun s => mkSch (sch_name s) (sch_tables s) (sch_types s) (opt_comment cm)))
      else Err e_schema_nf
  | CommentTable q cm =>
      do _ <- the_rel c q;
      Ok (map_schema c (ns_of c q) (map_table (q_name q) (fun t => mkTab (tab_name t) (tab_cols t) (opt_comment cm))))
  | CommentColumn q col cm =>
      do st <- the_rel c q;
      let (_, t) := st in
      if existsb (col_is col) (tab_cols t)
      then Ok (map_schema c (ns_of c q) (map_table (q_name q) (map_col col
             (fun x => mkCol (col_name x) (col_type x) (col_notnull x) (col_array x) (opt_comment cm)))))
      else Err e_col_nf
  | CommentType q cm =>
      match the_schema c (ns_of c q) with
      | None => Err e_schema_nf
      | Some s =>
          if has_type s (q_name q)
          then Ok (map_schema c (ns_of c q) (map_type (q_name q) (set_type_comment (opt_comment cm))))
          else Err e_type_nf
      end
  end.

Fixpoint pg_run (c : catalog) (ds : list ddl) : result catalog :=
  match ds with
  | [] => Ok c
  | d :: rest => do c' <- pg_exec c d; pg_run c' rest
  end.
