(** The documented type mapping (docs/reference/datatypes.md and the statement
    of property C09) by semantic class — independent of the order or spelling of
    the Go switches. *)
From Verif Require Export Base.Str.
Open Scope string_scope.
Open Scope list_scope.

Inductive tclass :=
| KInt16 | KInt32 | KInt64 | KFloat32 | KFloat64 | KDecimal | KText | KBool | KTime
| KBytes | KJson | KUuid | KInet | KMac.

(** (NOT NULL representation, nullable representation) *)
Definition doc_repr (k : tclass) : string * string :=
  match k with
  | KInt16 => ("int16", "sql.NullInt16")
  | KInt32 => ("int32", "sql.NullInt32")
  | KInt64 => ("int64", "sql.NullInt64")
  | KFloat32 => ("float32", "sql.NullFloat32")
  | KFloat64 => ("float64", "sql.NullFloat64")
  | KDecimal => ("string", "sql.NullString")
  | KText => ("string", "sql.NullString")
  | KBool => ("bool", "sql.NullBool")
  | KTime => ("time.Time", "sql.NullTime")
  | KBytes => ("[]byte", "[]byte")
  | KJson => ("json.RawMessage", "json.RawMessage")
  | KUuid => ("uuid.UUID", "uuid.UUID")
  | KInet => ("net.IP", "net.IP")
  | KMac => ("net.HardwareAddr", "net.HardwareAddr")
  end.

Definition doc_type (k : tclass) (notnull isarray : bool) : string :=
  let elem := if notnull || isarray then fst (doc_repr k) else snd (doc_repr k) in
  if isarray then "[]" +++ elem else elem.

(** PostgreSQL: the type names the engine reports (catalog DataType keys) *)
Definition doc_pg : list (string * tclass) :=
  [ ("integer", KInt32); ("int", KInt32); ("int4", KInt32); ("pg_catalog.int4", KInt32);
    ("serial", KInt32); ("serial4", KInt32); ("pg_catalog.serial4", KInt32);
    ("bigint", KInt64); ("int8", KInt64); ("pg_catalog.int8", KInt64);
    ("bigserial", KInt64); ("serial8", KInt64); ("pg_catalog.serial8", KInt64);
    ("smallint", KInt16); ("int2", KInt16); ("pg_catalog.int2", KInt16);
    ("smallserial", KInt16); ("serial2", KInt16); ("pg_catalog.serial2", KInt16);
    ("float", KFloat64); ("double precision", KFloat64); ("float8", KFloat64); ("pg_catalog.float8", KFloat64);
    ("real", KFloat32); ("float4", KFloat32); ("pg_catalog.float4", KFloat32);
    ("numeric", KDecimal); ("pg_catalog.numeric", KDecimal); ("money", KDecimal);
    ("boolean", KBool); ("bool", KBool); ("pg_catalog.bool", KBool);
    ("json", KJson); ("jsonb", KJson);
    ("bytea", KBytes); ("blob", KBytes); ("pg_catalog.bytea", KBytes);
    ("date", KTime); ("pg_catalog.time", KTime); ("pg_catalog.timetz", KTime); ("timetz", KTime);
    ("pg_catalog.timestamp", KTime); ("pg_catalog.timestamptz", KTime); ("timestamptz", KTime);
    ("text", KText); ("pg_catalog.varchar", KText); ("pg_catalog.bpchar", KText); ("bpchar", KText); ("string", KText);
    ("uuid", KUuid); ("inet", KInet); ("cidr", KInet); ("macaddr", KMac); ("macaddr8", KMac) ].

(** MySQL; tinyint is int32 unless its display width is 1 (then bool) *)
Definition doc_my : list (string * tclass) :=
  [ ("varchar", KText); ("text", KText); ("char", KText); ("tinytext", KText); ("mediumtext", KText); ("longtext", KText);
    ("tinyint", KInt32); ("int", KInt32); ("integer", KInt32); ("smallint", KInt32); ("mediumint", KInt32); ("year", KInt32);
    ("bigint", KInt64);
    ("blob", KBytes); ("binary", KBytes); ("varbinary", KBytes); ("tinyblob", KBytes); ("mediumblob", KBytes); ("longblob", KBytes);
    ("double", KFloat64); ("double precision", KFloat64); ("real", KFloat64);
    ("decimal", KDecimal); ("dec", KDecimal); ("fixed", KDecimal);
    ("date", KTime); ("timestamp", KTime); ("datetime", KTime); ("time", KTime);
    ("boolean", KBool); ("bool", KBool); ("json", KJson) ].

Fixpoint assoc_class (l : list (string * tclass)) (n : string) : option tclass :=
  match l with
  | [] => None
  | (k, c) :: r => if String.eqb k n then Some c else assoc_class r n
  end.

(** Names the documentation does not place in a class: held to the relational
    half only (one representation per nullability, a database/sql Null type or
    the same type when nullable). *)
Definition relational_only_pg : list string :=
  ["ltree"; "lquery"; "ltxtquery"; "interval"; "pg_catalog.interval"; "void"; "any"].
Definition relational_only_my : list string := ["enum"; "any"].

Definition is_null_form (nn null : string) : bool :=
  String.eqb nn null || has_prefix null "sql.Null".
