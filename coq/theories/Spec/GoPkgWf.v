(** The fragment of Go's declaration rules that an emitted package exercises
    (DESIGN.md section 4): one package block, one file block per file, one
    function block per method.  This is an ABSTRACTION of the Go type checker,
    not the type checker; its agreement with `go build` is checked on every
    generated package (property C01). *)
From Verif Require Export Base.Str.
Open Scope string_scope.
Open Scope list_scope.

Record gomethod := mkGM {
  gm_recv : string;              (* receiver type, "" for a plain function *)
  gm_name : string;
  gm_recv_name : string;
  gm_params : list string;       (* parameter names *)
  gm_locals : list string;       (* variables declared at the top level of the body *)
  gm_quals : list string;        (* package qualifiers used INSIDE the scope of a same-named receiver / parameter / local *)
  gm_inner : list string }.      (* variables of a nested block that hide a variable of the function and are then used,
                                    in that block, as the slice of append(x, ..) or the receiver of x.M(..) *)

Record gofile := mkGF {
  gf_name : string;
  gf_imports : list string;      (* the name each import is visible under *)
  gf_quals : list string;        (* qualifiers used anywhere in the file *)
  gf_decls : list string;        (* top-level types, consts, vars, funcs ("_" excluded) *)
  gf_fields : list (string * list string);   (* struct type -> field names *)
  gf_methods : list gomethod }.

Fixpoint first_dup_s (l : list string) : option string :=
  match l with [] => None | x :: r => if mem_str x r then Some x else first_dup_s r end.

Open Scope N_scope.
(** 0 = well-formed; otherwise the first rule that fails:
    1 a top-level identifier declared twice in the package
    2 a type has two methods, two fields, or a field and a method of one name
    3 a file uses a package qualifier it does not import
    4 a file imports a package it does not use
    5 receiver, parameters and top-level locals of a function are not pairwise distinct
    6 a parameter or local shadows a package qualifier the function uses
    7 a variable of a nested block hides a variable of the function that the block still needs *)
Definition pkg_wf (files : list gofile) : N :=
  let decls := filter (fun d => negb (String.eqb d "_")) (flat_map gf_decls files) in
  if negb (nodup_str decls) then 1
  else
    let types := flat_map gf_fields files in
    let methods := flat_map gf_methods files in
    if existsb (fun tf : string * list string =>
         let (ty, fields) := tf in
         let ms := map gm_name (filter (fun m => String.eqb (gm_recv m) ty) methods) in
         negb (nodup_str (fields ++ ms))) types then 2
    else if existsb (fun f => negb (forallb (fun qn => mem_str qn (gf_imports f)) (gf_quals f))) files then 3
    else if existsb (fun f => negb (forallb (fun im => mem_str im (gf_quals f) || String.eqb im "_") (gf_imports f))) files then 4
    else if existsb (fun m => negb (nodup_str (filter (fun x => negb (String.eqb x "_") && negb (String.eqb x ""))
                                                     (gm_recv_name m :: gm_params m ++ gm_locals m)))) methods then 5
    else if existsb (fun m => negb (Nat.eqb (List.length (gm_quals m)) 0)) methods then 6
    else if existsb (fun m => negb (Nat.eqb (List.length (gm_inner m)) 0)) methods then 7
    else 0.
