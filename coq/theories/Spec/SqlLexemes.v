(** A statement as a list of lexemes (comments and white space are trivia), and
    the documented rewrite of named parameters on lexeme lists (property C04). *)
From Verif Require Export Base.Str.
Open Scope string_scope.
Open Scope list_scope.

Definition is_word_char (c : ascii) : bool :=
  let n := N_of_ascii c in
  ((48 <=? n) && (n <=? 57) || (65 <=? n) && (n <=? 90) || (97 <=? n) && (n <=? 122) || (n =? 95) || (n =? 36) || (128 <=? n))%N.

Definition flush (cur : string) (acc : list string) : list string :=
  if String.eqb cur "" then acc else srev cur :: acc.

(** [acc] is reversed; [cur] is the current word, reversed *)
Fixpoint lex (fuel : nat) (s : string) (cur : string) (acc : list string) : list string :=
  match fuel with
  | O => rev (flush cur acc)
  | S f =>
      match s with
      | EmptyString => rev (flush cur acc)
      | String c r =>
          if is_space c then lex f r "" (flush cur acc)
          else if Ascii.eqb c "-" && has_prefix r "-" then
            (* line comment *)
            (fix skip (g : nat) (t : string) : list string :=
               match g with
               | O => rev (flush cur acc)
               | S g' => match t with
                         | EmptyString => rev (flush cur acc)
                         | String d t' => if Ascii.eqb d nl then lex g' t' "" (flush cur acc) else skip g' t'
                         end
               end) f r
          else if Ascii.eqb c "/" && has_prefix r "*" then
            (fix skip (g : nat) (t : string) : list string :=
               match g with
               | O => rev (flush cur acc)
               | S g' => match t with
                         | EmptyString => rev (flush cur acc)
                         | String d t' => if Ascii.eqb d "*" && has_prefix t' "/" then lex g' (drop 1 t') "" (flush cur acc) else skip g' t'
                         end
               end) f (drop 1 r)
          else if Ascii.eqb c "'" || Ascii.eqb c """" then
            (* quoted lexeme, doubled quote = escape *)
            (fix quoted (g : nat) (t : string) (q : string) : list string :=
               match g with
               | O => rev (srev q :: flush cur acc)
               | S g' => match t with
                         | EmptyString => rev (srev q :: flush cur acc)
                         | String d t' =>
                             if Ascii.eqb d c then
                               match t' with
                               | String d2 t'' => if Ascii.eqb d2 c then quoted g' t'' (String d2 (String d q))
                                                  else lex g' t' "" (srev (String d q) :: flush cur acc)
                               | EmptyString => rev (srev (String d q) :: flush cur acc)
                               end
                             else quoted g' t' (String d q)
                         end
               end) f r (String c "")
          else if is_word_char c then lex f r (String c cur) acc
          else lex f r "" (String c "" :: flush cur acc)
      end
  end.
Definition sql_tokens (s : string) : list string := lex (S (String.length s)) s "" [].

(** a quoted lexeme that spans lines (StripComments works on lines) *)
Definition multiline_lexeme (s : string) : bool :=
  existsb (fun t => (has_prefix t "'" || has_prefix t """") && contains_char nl t) (sql_tokens s).

Definition unquote (t : string) : string :=
  if has_prefix t "'" then take (String.length t - 2) (drop 1 t) else t.

Fixpoint assoc_n (l : list (string * nat)) (k : string) : option nat :=
  match l with [] => None | (k', v) :: r => if String.eqb k' k then Some v else assoc_n r k end.

Fixpoint nat_to_string_aux (fuel n : nat) (acc : string) : string :=
  match fuel with
  | O => acc
  | S f => let acc' := String (ascii_of_N (48 + N.of_nat (n mod 10))) acc in
           if Nat.eqb (n / 10) 0 then acc' else nat_to_string_aux f (n / 10) acc'
  end.
Definition nat_to_string (n : nat) : string := nat_to_string_aux 20 n "".

(** a call of sqlc.arg: the function name is an identifier, so its case does not matter (SQLC.ARG(x)) *)
Definition arg_call (ts : list string) : option (string * list string) :=
  match ts with
  | a :: "." :: b :: "(" :: x :: ")" :: rest =>
      if String.eqb (to_lower a) "sqlc" && String.eqb (to_lower b) "arg" then Some (x, rest) else None
  | _ => None
  end.

(** sqlc.arg(x) / sqlc.arg('x') / @x  ->  $n, names numbered in order of first use *)
Fixpoint rewrite_named (fuel : nat) (ts : list string) (names : list (string * nat)) : list string :=
  match fuel with
  | O => ts
  | S f =>
      let number (x : string) (k : list (string * nat) -> string -> list string) :=
        match assoc_n names x with
        | Some n => k names ("$" +++ nat_to_string n)
        | None => let n := S (List.length names) in k (names ++ [(x, n)]) ("$" +++ nat_to_string n)
        end in
      match arg_call ts with
      | Some (x, rest) => number (unquote x) (fun names' t => t :: rewrite_named f rest names')
      | None =>
          match ts with
          | "@" :: x :: rest =>
              if match x with String c _ => is_word_char c | EmptyString => false end
              then number x (fun names' t => t :: rewrite_named f rest names')
              else "@" :: rewrite_named f (x :: rest) names
          | t :: rest => t :: rewrite_named f rest names
          | [] => []
          end
      end
  end.
Definition expected_tokens (stmt_text : string) : list string :=
  let ts := sql_tokens stmt_text in
  let ts := match rev ts with ";" :: r => rev r | _ => ts end in
  rewrite_named (S (List.length ts)) ts [].

(** full-line comments of the statement: lines that start with "--" and are not
    the annotation, and lines that consist of exactly one block comment *)
Definition expected_comments (stmt_text : string) : list string :=
  flat_map (fun l => if has_prefix l "-- name:" then []
                     else if has_prefix l "/* name:" && has_suffix l "*/" then []
                     else if has_prefix l "--" then [drop 2 l]
                     else if has_prefix l "/*"
                             && match String.index 2 "*/" l with Some i => Nat.eqb (i + 2) (String.length l) | None => false end
                          then [trim_suffix (drop 2 l) "*/"]      (* the line IS one block comment *)
                     else [])
           (map drop_cr (split_nl (trim_space stmt_text))).

(** 1-based line of a byte offset *)
Fixpoint count_nl (n : nat) (s : string) : Z :=
  match n, s with
  | S k, String c r => ((if Ascii.eqb c nl then 1 else 0) + count_nl k r)%Z
  | _, _ => 0%Z
  end.
Definition line_of_offset (src : string) (off : Z) : Z := (1 + count_nl (Z.to_nat off) src)%Z.
