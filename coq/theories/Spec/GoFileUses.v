(** Which package qualifiers each emitted Go file mentions — read off the
    templates of internal/codegen/golang/gen.go (dbFile, modelsFile,
    interfaceFile, queryFile), as a function of the values the templates are
    given.  This is the "needed" side of C01's "every import is both needed and
    present"; the "present" side is Model/GoImports.  It is a SPECIFICATION
    (read, not verified); its agreement with the qualifiers that really occur
    in the emitted files is checked on every generated package. *)
From Verif Require Export Model.GoImports.
Open Scope string_scope.
Open Scope list_scope.

Definition dot : ascii := "."%char.

(** the text before the first '.', if there is one *)
Fixpoint before_dot (s : string) : option string :=
  match s with
  | EmptyString => None
  | String c r =>
      if Ascii.eqb c dot then Some EmptyString
      else match before_dot r with Some p => Some (String c p) | None => None end
  end.

(** the package qualifier of a type string: "[]uuid.UUID" |-> uuid, "sql.NullInt32" |-> sql, "int32" |-> none *)
Definition type_qual (t : string) : option string := before_dot (strip_slice t).
Definition quals_of (ts : list string) : list string :=
  flat_map (fun t => match type_qual t with Some q => [q] | None => [] end) ts.

(** {{.Arg.Pair}} / {{.Ret.Type}} mention Type(); an emitted struct mentions its fields' types *)
Definition emitted_fields (v : gvalue) : list string := if gv_emit v then gv_fields v else [].
Definition arg_types (q : gquery) : list string :=
  emitted_fields (gq_arg q) ++ (if gv_is_empty (gq_arg q) then [] else [gv_type (gq_arg q)]).
Definition ret_types (q : gquery) : list string :=
  emitted_fields (gq_ret q) ++ (if gq_has_ret q then [gv_type (gq_ret q)] else []).

(** pq.Array(..) in {{.Arg.Params}} (every command) and {{.Ret.Scan}} (:one, :many) *)
Definition uses_pq_array (q : gquery) : bool :=
  (negb (gv_is_empty (gq_arg q)) && value_slices (gq_arg q)) || (gq_has_ret q && value_slices (gq_ret q)).

Definition query_quals (q : gquery) : list string :=
  quals_of (arg_types q) ++ quals_of (ret_types q)
  ++ (if uses_pq_array q then ["pq"] else [])
  ++ (if String.eqb (gq_cmd q) ":execresult" then ["sql"] else []).

Definition iface_query_quals (q : gquery) : list string :=
  quals_of (if gv_is_empty (gq_arg q) then [] else [gv_type (gq_arg q)])
  ++ quals_of (if gq_has_ret q then [gv_type (gq_ret q)] else [])
  ++ (if String.eqb (gq_cmd q) ":execresult" then ["sql"] else []).

Definition file_uses (i : gimporter) (file : string) : list string :=
  if String.eqb file "db.go" then ["context"; "sql"] ++ (if gi_prepared i then ["fmt"] else [])
  else if String.eqb file "models.go" then
    (if Nat.ltb 0 (gi_nenums i) then ["fmt"] else []) ++ quals_of (List.concat (gi_structs i))
  else if String.eqb file "querier.go" then "context" :: flat_map iface_query_quals (gi_queries i)
  else "context" :: flat_map query_quals (queries_of_file i file).

(** the import path that provides a qualifier when no override renames anything:
    the regenerated stdlibTypes table, then the fixed ones *)
Definition qual_path (q : string) : string :=
  match find (fun p => match before_dot (fst p) with Some q' => String.eqb q q' | None => false end) stdlib_types with
  | Some p => snd p
  | None =>
      if String.eqb q "sql" then "database/sql"
      else if String.eqb q "pq" then "github.com/lib/pq"
      else if String.eqb q "uuid" then "github.com/google/uuid"
      else q                                  (* context, fmt *)
  end.

Definition incl_str (a b : list string) : bool := forallb (fun x => mem_str x b) a.
Definition set_eq_str (a b : list string) : bool := incl_str a b && incl_str b a.

Definition import_paths (fi : file_imports) : list string := fst fi ++ map snd (snd fi).

(** needed = present, for one file (configurations without custom overrides) *)
Definition imports_exact (i : gimporter) (file : string) : bool :=
  set_eq_str (map qual_path (file_uses i file)) (import_paths (imports_of i file)).

(** the two shapes on which the importer's prefix tests and the templates disagree
    (C01 finding classes):
    - a bare (non-struct) parameter or result whose type is a slice of a qualified type:
      the test is made on "[]uuid.UUID" without stripping "[]";
    - (repaired, see known_findings.json) the row struct of a command that scans nothing *)
Definition bare_qualified_slice (v : gvalue) : bool :=
  negb (gv_is_empty v) && is_slice (gv_type v)
  && match type_qual (gv_type v) with Some _ => true | None => false end.
Definition query_in_slice_class (q : gquery) : bool :=
  bare_qualified_slice (gq_arg q) || (gq_has_ret q && bare_qualified_slice (gq_ret q)).
