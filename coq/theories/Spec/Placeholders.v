(** The placeholders of an SQL text, in text order: what a database sees when
    the statement is prepared.  A small lexer: string literals ('..' with ''
    escapes), quoted identifiers ("..", `..`), line comments (-- and, for MySQL,
    #) and block comments do not contain placeholders. *)
From Verif Require Export Base.Str.
Open Scope string_scope.
Open Scope list_scope.

Inductive lex_state := LNormal | LSingle | LDouble | LBack | LLine | LBlock.

Definition is_digit (c : ascii) : bool := let n := N_of_ascii c in ((48 <=? n) && (n <=? 57))%N.
Definition digit_val (c : ascii) : Z := Z.of_N (N_of_ascii c - 48).

Fixpoint take_number (s : string) (acc : Z) : Z * string :=
  match s with
  | String c r => if is_digit c then take_number r (acc * 10 + digit_val c)%Z else (acc, s)
  | EmptyString => (acc, s)
  end.

(** PostgreSQL: numbers of the $n occurrences, in text order.
    [fuel] = length of the text. *)
Fixpoint pg_placeholders (fuel : nat) (st : lex_state) (s : string) : list Z :=
  match fuel with
  | O => []
  | S fuel' =>
      match s with
      | EmptyString => []
      | String c r =>
          match st with
          | LNormal =>
              if Ascii.eqb c "'" then pg_placeholders fuel' LSingle r
              else if Ascii.eqb c """" then pg_placeholders fuel' LDouble r
              else if Ascii.eqb c "-" then
                match r with
                | String "-" r' => pg_placeholders fuel' LLine r'
                | _ => pg_placeholders fuel' LNormal r
                end
              else if Ascii.eqb c "/" then
                match r with
                | String "*" r' => pg_placeholders fuel' LBlock r'
                | _ => pg_placeholders fuel' LNormal r
                end
              else if Ascii.eqb c "$" then
                match r with
                | String d _ =>
                    if is_digit d then
                      let (n, rest) := take_number r 0 in n :: pg_placeholders fuel' LNormal rest
                    else pg_placeholders fuel' LNormal r
                | EmptyString => []
                end
              else pg_placeholders fuel' LNormal r
          | LSingle =>
              if Ascii.eqb c "'" then
                match r with
                | String "'" r' => pg_placeholders fuel' LSingle r'
                | _ => pg_placeholders fuel' LNormal r
                end
              else pg_placeholders fuel' LSingle r
          | LDouble => if Ascii.eqb c """" then pg_placeholders fuel' LNormal r else pg_placeholders fuel' LDouble r
          | LBack => pg_placeholders fuel' LNormal r
          | LLine => if Ascii.eqb c nl then pg_placeholders fuel' LNormal r else pg_placeholders fuel' LLine r
          | LBlock =>
              if Ascii.eqb c "*" then
                match r with
                | String "/" r' => pg_placeholders fuel' LNormal r'
                | _ => pg_placeholders fuel' LBlock r
                end
              else pg_placeholders fuel' LBlock r
          end
      end
  end.
Definition pg_marks (sql : string) : list Z := pg_placeholders (S (String.length sql)) LNormal sql.

(** MySQL: the number of ? marks *)
Fixpoint my_count (fuel : nat) (st : lex_state) (s : string) : nat :=
  match fuel with
  | O => 0
  | S fuel' =>
      match s with
      | EmptyString => 0
      | String c r =>
          match st with
          | LNormal =>
              if Ascii.eqb c "'" then my_count fuel' LSingle r
              else if Ascii.eqb c """" then my_count fuel' LDouble r
              else if Ascii.eqb c "`" then my_count fuel' LBack r
              else if Ascii.eqb c "#" then my_count fuel' LLine r
              else if Ascii.eqb c "-" then
                match r with String "-" r' => my_count fuel' LLine r' | _ => my_count fuel' LNormal r end
              else if Ascii.eqb c "/" then
                match r with String "*" r' => my_count fuel' LBlock r' | _ => my_count fuel' LNormal r end
              else if Ascii.eqb c "?" then S (my_count fuel' LNormal r)
              else my_count fuel' LNormal r
          | LSingle =>
              if Ascii.eqb c "'" then
                match r with String "'" r' => my_count fuel' LSingle r' | _ => my_count fuel' LNormal r end
              else if Ascii.eqb c "\" then
                match r with String _ r' => my_count fuel' LSingle r' | _ => 0 end
              else my_count fuel' LSingle r
          | LDouble => if Ascii.eqb c """" then my_count fuel' LNormal r else my_count fuel' LDouble r
          | LBack => if Ascii.eqb c "`" then my_count fuel' LNormal r else my_count fuel' LBack r
          | LLine => if Ascii.eqb c nl then my_count fuel' LNormal r else my_count fuel' LLine r
          | LBlock =>
              if Ascii.eqb c "*" then
                match r with String "/" r' => my_count fuel' LNormal r' | _ => my_count fuel' LBlock r end
              else my_count fuel' LBlock r
          end
      end
  end.
Definition my_marks (sql : string) : nat := my_count (S (String.length sql)) LNormal sql.

(** 1, 2, ..., n *)
Fixpoint zseq (start : Z) (n : nat) : list Z :=
  match n with O => [] | S k => start :: zseq (start + 1) k end.

Fixpoint dedup_keep_first (seen l : list Z) : list Z :=
  match l with
  | [] => []
  | x :: r => if existsb (Z.eqb x) seen then dedup_keep_first seen r else x :: dedup_keep_first (x :: seen) r
  end.
