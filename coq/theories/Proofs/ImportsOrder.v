(** C13 for the importer (Model/GoImports): the import lists do not depend on the
    order in which queries and tables are declared, nor on the order in which Go
    iterates its maps (stdlibTypes, the std / pkg sets) before sort.Slice. *)
From Coq Require Import List String Bool Arith Sorting.Permutation Sorting.Sorted.
From Verif Require Import Base.Str Gen.ImportTables Model.GoImports Spec.GoFileUses
                          Proofs.ListOps Proofs.CatalogFacts Proofs.SortFacts Proofs.ImportsFacts.
Import ListNotations.
Open Scope string_scope.
Open Scope list_scope.

(** * declaration order *)
Lemma existsb_perm {A} (f : A -> bool) l l' : Permutation l l' -> existsb f l = existsb f l'.
Proof.
  induction 1 as [|x l l' P IH|x y l|l l' l'' P1 IH1 P2 IH2]; simpl.
  - reflexivity.
  - rewrite IH. reflexivity.
  - destruct (f x), (f y); reflexivity.
  - congruence.
Qed.

Lemma filter_perm {A} (f : A -> bool) l l' : Permutation l l' -> Permutation (filter f l) (filter f l').
Proof.
  induction 1 as [|x l l' P IH|x y l|l l' l'' P1 IH1 P2 IH2]; simpl.
  - constructor.
  - destruct (f x); [constructor|]; exact IH.
  - destruct (f x), (f y); try apply Permutation_refl. constructor.
  - eapply Permutation_trans; eassumption.
Qed.

Lemma std_set_ext tbl (u u' : string -> bool) base w :
  (forall N, u N = u' N) -> std_set_tbl tbl u base w = std_set_tbl tbl u' base w.
Proof.
  intros E. unfold std_set_tbl. rewrite (E "sql.Null").
  generalize (if u' "sql.Null" || w then add_str "database/sql" base else base).
  induction tbl as [|r tbl IH]; intros s; simpl; [reflexivity|]. rewrite (E (fst r)). apply IH.
Qed.

Lemma pkg_set_ext (u u' : string -> bool) wpq std ovs :
  (forall N, u N = u' N) -> pkg_set u wpq std ovs = pkg_set u' wpq std ovs.
Proof.
  intros E. unfold pkg_set. rewrite (E "pq.NullTime"), (E "uuid.UUID").
  match goal with |- fold_left _ _ ?a = fold_left _ _ ?b => generalize a end.
  induction ovs as [|o ovs IH]; intros acc; simpl; [reflexivity|]. rewrite (E (ov_type_name o)). apply IH.
Qed.

Lemma uses_type_perm s s' N : Permutation s s' -> uses_type s N = uses_type s' N.
Proof. intros P. unfold uses_type. apply existsb_perm, P. Qed.

Theorem imports_decl_order i i' file :
  Permutation (gi_structs i) (gi_structs i') -> Permutation (gi_queries i) (gi_queries i') ->
  gi_nenums i = gi_nenums i' -> gi_overrides i = gi_overrides i' -> gi_prepared i = gi_prepared i' ->
  imports_of i file = imports_of i' file.
Proof.
  intros Ps Pq En Eo Ep. unfold imports_of.
  destruct (String.eqb file "db.go"); [unfold db_imports; rewrite Ep; reflexivity|].
  destruct (String.eqb file "models.go").
  { unfold model_imports, std_set. rewrite En, Eo.
    rewrite (std_set_ext _ (uses_type (gi_structs i)) (uses_type (gi_structs i'))) by (intros N; apply uses_type_perm, Ps).
    f_equal. apply pkg_set_ext. intros N. apply uses_type_perm, Ps. }
  destruct (String.eqb file "querier.go").
  { unfold interface_imports, std_set. rewrite Eo.
    assert (forall N, iface_uses (gi_queries i) N = iface_uses (gi_queries i') N) as E
      by (intros N; unfold iface_uses; apply existsb_perm, Pq).
    assert (has_execresult (gi_queries i) = has_execresult (gi_queries i')) as Ex
      by (unfold has_execresult; apply existsb_perm, Pq).
    rewrite Ex. rewrite (std_set_ext _ _ _ _ _ E). f_equal. apply pkg_set_ext, E. }
  unfold query_imports, std_set.
  assert (Permutation (queries_of_file i file) (queries_of_file i' file)) as Pf by (unfold queries_of_file; apply filter_perm, Pq).
  assert (forall N, query_uses (queries_of_file i file) N = query_uses (queries_of_file i' file) N) as E
    by (intros N; unfold query_uses; apply existsb_perm, Pf).
  assert (has_execresult (queries_of_file i file) = has_execresult (queries_of_file i' file)) as Ex
    by (unfold has_execresult; apply existsb_perm, Pf).
  assert (slice_scan (queries_of_file i file) = slice_scan (queries_of_file i' file)) as Es
    by (unfold slice_scan; apply existsb_perm, Pf).
  rewrite Ex, Es, Eo. rewrite (std_set_ext _ _ _ _ _ E). f_equal. apply pkg_set_ext, E.
Qed.

(** * map iteration order *)
Lemma add_str_nodup x l : NoDup l -> NoDup (add_str x l).
Proof.
  intros N. unfold add_str. destruct (mem_str x l) eqn:E; [exact N|].
  apply NoDup_app_snoc; [exact N|]. intros H. apply mem_str_In in H. congruence.
Qed.

Lemma fold_std_nodup (uses : string -> bool) tbl s : NoDup s ->
  NoDup (fold_left (fun acc r => if uses (fst r) then add_str (snd r) acc else acc) tbl s).
Proof.
  revert s. induction tbl as [|r tbl IH]; intros s N; simpl; [exact N|].
  apply IH. destruct (uses (fst r)); [apply add_str_nodup|]; exact N.
Qed.

Lemma std_set_tbl_nodup tbl uses base w : NoDup base -> NoDup (std_set_tbl tbl uses base w).
Proof.
  intros N. unfold std_set_tbl. apply fold_std_nodup. destruct (uses "sql.Null" || w); [apply add_str_nodup|]; exact N.
Qed.

Lemma std_set_tbl_In tbl uses base w p :
  In p (std_set_tbl tbl uses base w)
  <-> In p base \/ (p = "database/sql" /\ (uses "sql.Null" || w) = true)
      \/ exists r, In r tbl /\ uses (fst r) = true /\ snd r = p.
Proof.
  unfold std_set_tbl. rewrite fold_std_In. destruct (uses "sql.Null" || w).
  - rewrite add_str_In. intuition.
  - intuition. discriminate.
Qed.

(** the std list handed to the template: any enumeration [e] of the set (the `for path := range std`
    loop) built over any iteration order [tbl'] of stdlibTypes, then sorted *)
Theorem std_list_map_order tbl' e uses base w :
  Permutation stdlib_types tbl' -> NoDup base -> Permutation e (std_set_tbl tbl' uses base w) ->
  sort_by (fun x : string => x) e = sort_by (fun x : string => x) (std_set uses base w).
Proof.
  intros Pt Nb Pe.
  assert (Permutation (std_set_tbl tbl' uses base w) (std_set uses base w)) as P.
  { apply NoDup_Permutation; [apply std_set_tbl_nodup, Nb|apply std_set_tbl_nodup, Nb|].
    intros p. unfold std_set. rewrite !std_set_tbl_In. split; intros [H|[H|[r [Hr H]]]]; auto; right; right; exists r; (split; [|exact H]).
    - eapply Permutation_in; [apply Permutation_sym, Pt|exact Hr].
    - eapply Permutation_in; [exact Pt|exact Hr]. }
  apply sort_by_perm_invariant.
  - rewrite map_id. eapply Permutation_NoDup; [apply Permutation_sym, Pe|apply std_set_tbl_nodup, Nb].
  - eapply Permutation_trans; [exact Pe|exact P].
Qed.

(** the pkg list is sorted by path only: any enumeration of the set gives the same list when no
    two specs share a path ... *)
Theorem pkg_list_map_order (e s : list ispec) :
  NoDup (map snd s) -> Permutation e s -> sort_by (fun x : ispec => snd x) e = sort_by (fun x : ispec => snd x) s.
Proof.
  intros N P. apply sort_by_perm_invariant; [|exact P].
  eapply Permutation_NoDup; [apply Permutation_map, Permutation_sym, P|exact N].
Qed.

(** ... and not otherwise: two overrides with one import path and different aliases come out in
    iteration order (gofmt's import sorting, which runs on every emitted file, hides it: not a
    finding of C13, see DESIGN.md) *)
Lemma pkg_list_same_path_refuted :
  exists e1 e2 : list ispec, Permutation e1 e2
    /\ sort_by (fun x : ispec => snd x) e1 <> sort_by (fun x : ispec => snd x) e2.
Proof.
  exists [("a", "example.com/p"); ("b", "example.com/p")], [("b", "example.com/p"); ("a", "example.com/p")].
  split; [apply perm_swap|]. vm_compute. discriminate.
Qed.
