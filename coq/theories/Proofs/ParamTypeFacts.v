(** resolveCatalogRefs, per context: the type, nullability, array-ness and name
    a parameter receives (C06). *)
From Verif Require Import Model.Compile.
Open Scope string_scope.
Open Scope list_scope.

Definition hits_of (c : catalog) (tables search_in : list tname) (key : string) : list (tname * column) :=
  flat_map (fun t => match typemap_lookup c tables (tn_schema t) (tn_name t) key with
                     | Some col => [(t, col)] | None => [] end) search_in.

Definition param_of_column (names : list (Z * string)) (num : Z) (key : string) (t : tname) (col : column) : param :=
  mkP num (Some (mkQC (param_name names num key) (data_type (col_type col)) (col_notnull col) (col_array col) "" (Some t))).

(** [col OP $n] with an unqualified column that exactly one table in scope has:
    the parameter takes that column's type, nullability and array-ness and is
    named after it (or by the user) *)
Theorem compare_unqualified e tables bare aliases dt names r n lref rest key t col :
  pr_parent r = PNode n -> kind_of n = "A_Expr" ->
  search (is_kind "ColumnRef") (kid "Lexpr" n) = lref :: rest ->
  string_items (kid "Fields" lref) = [key] ->
  hits_of (env_cat e) tables tables key = [(t, col)] ->
  resolve_one e tables bare aliases dt names r = Ok [param_of_column names (ref_number r) key t col].
Proof.
  intros Hp Hk Hs Hi Hh. unfold resolve_one. rewrite Hp, Hk. cbn [String.eqb Ascii.eqb Bool.eqb].
  change (String.eqb "A_Expr" "A_Expr") with true. cbv iota. rewrite Hs, Hi. cbv zeta iota beta.
  change (String.eqb "" "") with true. cbv iota.
  unfold hits_of in Hh. rewrite Hh. reflexivity.
Qed.

(** no table in scope has the column: rejected, naming it; two have it: ambiguous *)
Theorem compare_unqualified_missing e tables bare aliases dt names r n lref rest key :
  pr_parent r = PNode n -> kind_of n = "A_Expr" ->
  search (is_kind "ColumnRef") (kid "Lexpr" n) = lref :: rest ->
  string_items (kid "Fields" lref) = [key] ->
  hits_of (env_cat e) tables tables key = [] ->
  resolve_one e tables bare aliases dt names r = err_at (loc_of lref) (e_col_missing key).
Proof.
  intros Hp Hk Hs Hi Hh. unfold resolve_one. rewrite Hp, Hk.
  change (String.eqb "A_Expr" "A_Expr") with true. cbv iota. rewrite Hs, Hi. cbv zeta iota beta.
  change (String.eqb "" "") with true. cbv iota.
  unfold hits_of in Hh. rewrite Hh. reflexivity.
Qed.
Theorem compare_unqualified_ambiguous e tables bare aliases dt names r n lref rest key h1 h2 hs :
  pr_parent r = PNode n -> kind_of n = "A_Expr" ->
  search (is_kind "ColumnRef") (kid "Lexpr" n) = lref :: rest ->
  string_items (kid "Fields" lref) = [key] ->
  hits_of (env_cat e) tables tables key = h1 :: h2 :: hs ->
  resolve_one e tables bare aliases dt names r = err_at (loc_of lref) (e_col_ambiguous key).
Proof.
  intros Hp Hk Hs Hi Hh. unfold resolve_one. rewrite Hp, Hk.
  change (String.eqb "A_Expr" "A_Expr") with true. cbv iota. rewrite Hs, Hi. cbv zeta iota beta.
  change (String.eqb "" "") with true. cbv iota.
  unfold hits_of in Hh. rewrite Hh. destruct h1. reflexivity.
Qed.

(** [a.col OP $n] with a declared alias: only the aliased table is consulted *)
Theorem compare_aliased e tables bare aliases dt names r n lref rest alias key orig col :
  pr_parent r = PNode n -> kind_of n = "A_Expr" ->
  search (is_kind "ColumnRef") (kid "Lexpr" n) = lref :: rest ->
  string_items (kid "Fields" lref) = [alias; key] -> alias <> "" ->
  assoc aliases alias = Some orig ->
  typemap_lookup (env_cat e) tables (tn_schema orig) (tn_name orig) key = Some col ->
  resolve_one e tables bare aliases dt names r = Ok [param_of_column names (ref_number r) key orig col].
Proof.
  intros Hp Hk Hs Hi Hne Ha Hl. unfold resolve_one. rewrite Hp, Hk.
  change (String.eqb "A_Expr" "A_Expr") with true. cbv iota. rewrite Hs, Hi. cbv zeta iota beta.
  assert (E : String.eqb alias "" = false) by (apply String.eqb_neq; exact Hne). rewrite E, Ha.
  cbn [flat_map]. rewrite Hl. reflexivity.
Qed.

(** [$n::T]: the cast's type *)
Theorem cast_type e tables bare aliases dt names r n col :
  pr_parent r = PNode n -> kind_of n = "TypeCast" -> is_nil (kid "TypeName" n) = false ->
  to_column (kid "TypeName" n) = Ok col ->
  resolve_one e tables bare aliases dt names r
  = Ok [mkP (ref_number r) (Some (mkQC (param_name names (ref_number r) (qc_name col)) (qc_dt col) (qc_nn col) (qc_arr col) "" None))].
Proof.
  intros Hp Hk Hn Hc. unfold resolve_one. rewrite Hp, Hk.
  change (String.eqb "TypeCast" "A_Expr") with false.
  change (String.eqb "TypeCast" "FuncCall") with false.
  change (String.eqb "TypeCast" "ResTarget") with false.
  change (String.eqb "TypeCast" "TypeCast") with true. cbv iota. rewrite Hn, Hc. reflexivity.
Qed.

(** INSERT column list / UPDATE SET target: the target column's type *)
Theorem target_column e tables bare aliases dt names r n key col :
  pr_parent r = PNode n -> kind_of n = "ResTarget" -> str_opt "Name" n = Some key ->
  is_nil (pr_rv r) = false ->
  typemap_lookup (env_cat e) tables (tn_schema (table_of_rangevar (pr_rv r))) (tn_name (table_of_rangevar (pr_rv r))) key = Some col ->
  resolve_one e tables bare aliases dt names r
  = Ok [param_of_column names (ref_number r) key
          (mkTN "" (tn_schema (table_of_rangevar (pr_rv r))) (tn_name (table_of_rangevar (pr_rv r)))) col].
Proof.
  intros Hp Hk Hn Hr Hl. unfold resolve_one. rewrite Hp, Hk.
  change (String.eqb "ResTarget" "A_Expr") with false.
  change (String.eqb "ResTarget" "FuncCall") with false.
  change (String.eqb "ResTarget" "ResTarget") with true. cbv iota. rewrite Hn, Hr. cbn [bind fst snd].
  rewrite Hl. reflexivity.
Qed.
