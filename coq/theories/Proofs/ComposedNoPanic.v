From Verif Require Import Model.Shape Proofs.ShapeFacts Proofs.WalkersNoPanic.
From Verif Require Import Model.Compile Proofs.NoPanicFacts Proofs.ResolveNoPanic Proofs.FindParamsNoPanic Proofs.PanicSources.
Open Scope string_scope.
Open Scope list_scope.

Lemma validate_func_calls_np e raw : no_panic (validate_func_calls e raw).
Proof.
  unfold validate_func_calls. induction (preorder raw) as [|call rest IH]; [exact I|].
  cbv zeta.
  destruct (negb (is_kind "FuncCall" call) || is_nil (kid "Func" call)); [exact IH|].
  match goal with |- no_panic (match ?CHK with _ => _ end) =>
    assert (Hc : no_panic CHK) by (repeat np_step); destruct CHK as [u|m|m]; [|exact I|destruct Hc] end.
  repeat (first [exact IH | np_step]).
Qed.

Lemma is_panic_not {A} (r : result A) : no_panic r -> is_panic_r r -> False.
Proof. destruct r; cbn; auto. Qed.

(** parseQuery never panics on a statement whose (rewritten) tree has the shape the parsers
    produce and whose slice lies inside the file *)
Theorem parse_query_no_panic e raw src positional :
  walk_ok raw = true ->
  no_panic (pluck src (int_of "StmtLocation" raw) (int_of "StmtLen" raw)) ->
  shape_ok (fst (fst (named_parameters (env_engine e) raw))) = true ->
  inserts_ok (kid "Stmt" (fst (fst (named_parameters (env_engine e) raw)))) = true ->
  no_panic (parse_query e raw src positional).
Proof.
  intros Hw Hp Hs Hi.
  destruct (parse_query e raw src positional) as [q|m|m] eqn:E; try exact I.
  exfalso.
  assert (Hpanic : is_panic_r (parse_query e raw src positional)) by (rewrite E; exact I).
  destruct (parse_query_panic_sources e raw src positional Hpanic) as [H|[H|[H|H]]].
  - rewrite Hw in H. discriminate.
  - exact (is_panic_not _ Hp H).
  - exact (is_panic_not _ (validate_func_calls_np e raw) H).
  - cbv zeta in H. destruct H as [H|[H|[[qc H]|[qc H]]]].
    + exact (is_panic_not _ (find_parameters_no_panic _ Hi) H).
    + exact (is_panic_not _ (build_query_catalog_no_panic _ e _ (shape_kid "Stmt" _ Hs)) H).
    + exact (is_panic_not _ (output_columns_no_panic _ e qc _ (shape_kid "Stmt" _ Hs)) H).
    + exact (is_panic_not _ (expand_no_panic _ e qc _ Hs) H).
Qed.
