(** Determinism (C13) of the enum declarations and of the user-defined-type lookup:
    reordering independent CREATE TYPE statements changes neither. *)
From Coq Require Import Sorting.Permutation Sorting.Sorted.
From Verif Require Import Model.GoEnums Proofs.SortFacts.
Open Scope string_scope.
Open Scope list_scope.

Lemma ins_enum_is_ins x l : ins_enum x l = ins ge_name x l.
Proof. induction l as [|y l IH]; cbn [ins_enum ins]; [reflexivity|]. rewrite IH. reflexivity. Qed.

Lemma build_enums_is_sort rn c : build_enums rn c = sort_by ge_name (enums_of rn c (cat_schemas c)).
Proof.
  unfold build_enums, sort_by. induction (enums_of rn c (cat_schemas c)) as [|x l IH]; cbn [fold_right]; [reflexivity|].
  rewrite IH. apply ins_enum_is_ins.
Qed.

Definition typ_name (t : typ) : string := match t with Enum n _ _ => n | Composite n _ => n end.

(** the types of one schema in another order: same declarations (as a set) ... *)
Lemma enums_perm_types rn c sname ts ts' :
  Permutation ts ts' -> Permutation (flat_map (build_enum rn c sname) ts) (flat_map (build_enum rn c sname) ts').
Proof.
  induction 1 as [|x l l' H IH|x y l|l1 l2 l3 H1 IH1 H2 IH2]; cbn [flat_map].
  - constructor.
  - apply Permutation_app_head. exact IH.
  - rewrite !app_assoc. apply Permutation_app_tail. apply Permutation_app_comm.
  - eapply Permutation_trans; eassumption.
Qed.

(** ... and, with pairwise distinct Go names, the same sorted list *)
Theorem enums_sorted_order_independent (l l' : list genum) :
  NoDup (map ge_name l) -> Permutation l l' -> sort_by ge_name l = sort_by ge_name l'.
Proof. apply sort_by_perm_invariant. Qed.

(** the lookup of a user-defined type among the types of a schema does not depend on
    their order when no two carry the same name *)
Lemma scan_types_not_in rn c sname rs rnm nn ts :
  ~ In rnm (map typ_name ts) -> pg_scan_types_r rn c sname rs rnm nn ts = None.
Proof.
  induction ts as [|[n v cm|n cm] ts IH]; intro H; cbn [pg_scan_types_r]; [reflexivity| |];
    cbn [map typ_name In] in H;
    (destruct (String.eqb rnm n) eqn:E; [apply String.eqb_eq in E; subst; exfalso; apply H; left; reflexivity|]);
    cbn [andb]; apply IH; intro Hin; apply H; right; exact Hin.
Qed.

Theorem scan_types_order_independent rn c sname rs rnm nn ts ts' :
  NoDup (map typ_name ts) -> Permutation ts ts' ->
  pg_scan_types_r rn c sname rs rnm nn ts = pg_scan_types_r rn c sname rs rnm nn ts'.
Proof.
  intros Hnd Hp. revert Hnd.
  induction Hp as [|x l l' H IH|x y l|l1 l2 l3 H1 IH1 H2 IH2]; intro Hnd.
  - reflexivity.
  - cbn [map] in Hnd. inversion Hnd as [|? ? Hx Hl]; subst.
    destruct x as [n v cm|n cm]; cbn [pg_scan_types_r]; destruct (String.eqb rnm n && String.eqb rs sname); try reflexivity; apply IH; exact Hl.
  - cbn [map] in Hnd. inversion Hnd as [|? ? Hy Hl]; subst. inversion Hl as [|? ? Hx Hl']; subst.
    assert (Hne : typ_name y <> typ_name x) by (intro E; apply Hy; left; symmetry; exact E).
    destruct x as [n v cm|n cm], y as [n2 v2 cm2|n2 cm2]; cbn [pg_scan_types_r typ_name] in *;
      destruct (String.eqb rnm n) eqn:E1, (String.eqb rnm n2) eqn:E2; cbn [andb]; try reflexivity;
      apply String.eqb_eq in E1; apply String.eqb_eq in E2; subst; contradiction Hne; reflexivity.
  - rewrite IH1 by exact Hnd. apply IH2. apply (Permutation_NoDup (l := map typ_name l1)); [apply Permutation_map; exact H1 | exact Hnd].
Qed.
