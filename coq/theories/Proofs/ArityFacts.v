(** C02 at the level of a whole target list: the number of result columns sqlc
    infers equals the number of columns the rewritten target list spells out. *)
From Coq Require Import Lia.
From Verif Require Import Model.Compile Judge.JQ Proofs.ColumnsFacts Proofs.CompileFacts2.
Open Scope string_scope.
Open Scope list_scope.

Definition is_star_target (res : node) : bool :=
  is_kind "ColumnRef" (kid "Val" res) && has_star_ref (kid "Val" res).

(** columns the SQL text spells out for one target after star expansion: the
    identifiers a star is replaced by, one for anything else *)
Definition sql_target_arity (e : env) (tables : list qtable) (res : node) : nat :=
  if is_star_target res then List.length (expand_cols e tables res (kid "Val" res)) else 1%nat.
Fixpoint sql_arity (e : env) (tables : list qtable) (ts : list node) : nat :=
  match ts with
  | [] => 0%nat
  | t :: r => ((if is_kind "ResTarget" t then sql_target_arity e tables t else 0) + sql_arity e tables r)%nat
  end.

Lemma output_column_refs_one res tables ref cols :
  output_column_refs res tables ref = Ok cols -> List.length cols = 1%nat.
Proof.
  unfold output_column_refs.
  destruct (string_items (kid "Fields" ref)) as [|a [|b [|c l]]]; try discriminate;
    match goal with |- context [match ?x with [] => _ | _ => _ end] => destruct x as [|c1 [|c2 cs]] end;
    unfold err_at; try destruct (loc_of res =? 0)%Z; intros H; try discriminate; inversion H; reflexivity.
Qed.

Lemma cast_column_one res tc c : cast_column res tc = Ok c -> True.
Proof. trivial. Qed.

(** every non-star target contributes exactly one column *)
Theorem target_arity e tables res a :
  target_columns e tables res = Ok a -> List.length a = sql_target_arity e tables res.
Proof.
  unfold target_columns, sql_target_arity, is_star_target, is_kind. cbv zeta.
  destruct (String.eqb (kind_of (kid "Val" res)) "A_Expr") eqn:E1.
  { apply String.eqb_eq in E1. rewrite E1. cbn [String.eqb Ascii.eqb Bool.eqb andb].
    replace (String.eqb "A_Expr" "ColumnRef") with false by reflexivity. cbn [andb].
    repeat match goal with |- context [if ?b then _ else _] => destruct b end; intros H; inversion H; reflexivity. }
  destruct (String.eqb (kind_of (kid "Val" res)) "CaseExpr") eqn:E2.
  { apply String.eqb_eq in E2. rewrite E2.
    replace (String.eqb "CaseExpr" "ColumnRef") with false by reflexivity. cbn [andb].
    destruct (String.eqb (kind_of (kid "Defresult" (kid "Val" res))) "TypeCast").
    - destruct (cast_column res (kid "Defresult" (kid "Val" res))); cbn [bind]; intros H; inversion H; reflexivity.
    - intros H; inversion H; reflexivity. }
  destruct (String.eqb (kind_of (kid "Val" res)) "CoalesceExpr") eqn:E3.
  { apply String.eqb_eq in E3. rewrite E3.
    replace (String.eqb "CoalesceExpr" "ColumnRef") with false by reflexivity. cbn [andb].
    induction (kid_items "Args" (kid "Val" res)) as [|x l IH]; intros H.
    - inversion H; reflexivity.
    - destruct (String.eqb (kind_of x) "ColumnRef"); [|exact (IH H)].
      destruct (output_column_refs res tables x) as [cs|m|m] eqn:Ec; cbn [bind] in H; try discriminate.
      destruct cs as [|c cs]; [exact (IH H)|].
      injection H as <-. pose proof (output_column_refs_one _ _ _ _ Ec) as L. simpl in L |- *. rewrite map_length. exact L. }
  destruct (String.eqb (kind_of (kid "Val" res)) "ColumnRef") eqn:E4.
  { cbn [andb]. destruct (has_star_ref (kid "Val" res)).
    - intros H; inversion H; subst. symmetry. apply star_arity.
    - apply output_column_refs_one. }
  cbn [andb].
  destruct (String.eqb (kind_of (kid "Val" res)) "FuncCall").
  { destruct (resolve_func e (kid "Val" res)); intros H; inversion H; reflexivity. }
  destruct (String.eqb (kind_of (kid "Val" res)) "SubLink").
  { destruct (Z.eqb _ 0); intros H; inversion H; reflexivity. }
  destruct (String.eqb (kind_of (kid "Val" res)) "TypeCast").
  { destruct (cast_column res (kid "Val" res)); cbn [bind]; intros H; inversion H; reflexivity. }
  intros H; inversion H; reflexivity.
Qed.

Theorem targets_arity e tables ts cols :
  targets_columns e tables ts = Ok cols -> List.length cols = sql_arity e tables ts.
Proof.
  revert cols. induction ts as [|t ts IH]; intros cols H; cbn [targets_columns sql_arity] in *.
  - inversion H; reflexivity.
  - destruct (is_kind "ResTarget" t).
    + destruct (target_columns e tables t) as [a|m|m] eqn:Ea; cbn [bind] in H; try discriminate.
      destruct (targets_columns e tables ts) as [b|m|m] eqn:Eb; cbn [bind] in H; try discriminate.
      inversion H; subst. rewrite app_length, (target_arity _ _ _ _ Ea), (IH _ eq_refl). reflexivity.
    + rewrite (IH _ H). reflexivity.
Qed.

(** ... for a statement with a non-empty target list (not the bare set
    operation, which takes the left arm's columns) *)
Theorem statement_arity f e ctes n cols targets t0 ts :
  output_columns (S f) e ctes n = Ok cols ->
  stmt_targets n = Some targets -> items_opt targets = Some (t0 :: ts) ->
  exists tables, source_tables f e ctes n = Ok tables /\ List.length cols = sql_arity e tables (t0 :: ts).
Proof.
  rewrite output_columns_unfold. intros H Ht Hi.
  destruct (source_tables f e ctes n) as [tables|m|m]; cbn [bind] in H; try discriminate.
  exists tables. split; [reflexivity|]. rewrite Ht in H.
  destruct targets as [|its|]; cbn [items_opt] in Hi; try discriminate. inversion Hi; subst its.
  cbn [items] in H. replace (Nat.eqb (List.length (t0 :: ts)) 0) with false in H by reflexivity.
  rewrite Bool.andb_false_r in H. cbn [andb items_opt] in H.
  apply targets_arity. exact H.
Qed.
