(** The Kotlin and Python parameter names (Model/KtPyGen.v): each positional
    bind passes the parameter of its placeholder; names do not depend on the
    order in which the placeholders occur; the three back-ends hand out the
    same suffixes. *)
From Coq Require Import Sorting.Permutation Sorting.Sorted Lia.
From Verif Require Import Model.KtPyGen Proofs.GoStructFacts.
Open Scope string_scope.
Open Scope list_scope.

(** the k-th bind call passes the variable of the k-th column's placeholder number *)
Theorem kt_binding_of_kth cols k p :
  nth_error cols k = Some p -> nth_error (kt_bindings cols) k = Some (kt_name_of cols (fst p)).
Proof. intros H. unfold kt_bindings. rewrite nth_error_map, H. reflexivity. Qed.

(** one bind per column *)
Theorem kt_bindings_length cols : List.length (kt_bindings cols) = List.length cols.
Proof. apply map_length. Qed.

(** ** sorting by id *)
Lemma insert_by_id_perm p l : Permutation (p :: l) (insert_by_id p l).
Proof.
  induction l as [|x l IH]; simpl; [apply Permutation_refl|].
  destruct (fst p <=? fst x)%Z; [apply Permutation_refl|].
  eapply Permutation_trans; [apply perm_swap|]. apply perm_skip, IH.
Qed.
Lemma sort_by_id_perm l : Permutation l (sort_by_id l).
Proof.
  induction l as [|x l IH]; simpl; [constructor|].
  eapply Permutation_trans; [apply perm_skip, IH|]. apply insert_by_id_perm.
Qed.
Definition id_le (a b : Z * string) : Prop := (fst a <= fst b)%Z.
Lemma insert_by_id_sorted p l : Sorted id_le l -> Sorted id_le (insert_by_id p l).
Proof.
  induction l as [|y l IH]; simpl; intros S; [repeat constructor|].
  destruct (fst p <=? fst y)%Z eqn:E.
  - constructor; [exact S|]. constructor. unfold id_le. lia.
  - inversion S as [|? ? S' Hd]; subst. constructor; [apply IH, S'|].
    destruct l as [|z l]; simpl.
    + constructor. unfold id_le. lia.
    + destruct (fst p <=? fst z)%Z eqn:E2; constructor.
      * unfold id_le. lia.
      * inversion Hd; subst. assumption.
Qed.
Lemma sort_by_id_sorted l : Sorted id_le (sort_by_id l).
Proof. induction l as [|x l IH]; simpl; [constructor|]. apply insert_by_id_sorted, IH. Qed.

(** two sorted permutations of each other coincide when equal ids mean equal elements *)
Lemma sorted_perm_unique (l1 l2 : list (Z * string)) :
  (forall a b, In a l1 -> In b l1 -> fst a = fst b -> a = b) ->
  StronglySorted id_le l1 -> StronglySorted id_le l2 -> Permutation l1 l2 -> l1 = l2.
Proof.
  revert l2. induction l1 as [|x l1 IH]; intros l2 Hinj S1 S2 P.
  - apply Permutation_nil in P. congruence.
  - destruct l2 as [|y l2]; [apply Permutation_sym, Permutation_nil in P; discriminate|].
    inversion S1 as [|? ? S1' F1]; subst. inversion S2 as [|? ? S2' F2]; subst.
    rewrite Forall_forall in F1, F2.
    assert (Hx : In x (y :: l2)) by (eapply Permutation_in; [exact P|left; reflexivity]).
    assert (Hy : In y (x :: l1)) by (eapply Permutation_in; [apply Permutation_sym, P|left; reflexivity]).
    assert (x = y) as ->.
    { destruct Hx as [->|Hx]; [reflexivity|]. destruct Hy as [E|Hy]; [auto|].
      apply Hinj; [left; reflexivity|right; exact Hy|].
      specialize (F1 y Hy). specialize (F2 x Hx). unfold id_le in *. lia. }
    f_equal. apply IH; auto.
    + intros a b Ha Hb. apply Hinj; right; assumption.
    + eapply Permutation_cons_inv; exact P.
Qed.

Lemma id_le_trans a b c : id_le a b -> id_le b c -> id_le a c.
Proof. unfold id_le. lia. Qed.

(** the names depend on WHICH placeholders occur, not on the order in which
    they occur in the statement (so they agree with the numbered back-ends) *)
Theorem kt_names_order_independent cols cols' :
  (forall a b, In a cols -> In b cols -> fst a = fst b -> a = b) ->
  Permutation cols cols' -> kt_names cols = kt_names cols'.
Proof.
  intros Hinj P. unfold kt_names. f_equal. apply sorted_perm_unique.
  - intros a b Ha Hb. apply Hinj; eapply Permutation_in; try (apply Permutation_sym, sort_by_id_perm); assumption.
  - apply Sorted_StronglySorted; [exact id_le_trans|apply sort_by_id_sorted].
  - apply Sorted_StronglySorted; [exact id_le_trans|apply sort_by_id_sorted].
  - eapply Permutation_trans; [apply Permutation_sym, sort_by_id_perm|].
    eapply Permutation_trans; [exact P|apply sort_by_id_perm].
Qed.

(** ** the suffixes are those of the Go back-end *)
Definition suffixed (base : string) (s : nat) : string :=
  if Nat.ltb 0 s then base +++ "_" +++ z_to_string (Z.of_nat s) else base.

(** Python arguments = base names with the suffixes of [spec_loop] (what Go's
    columnsToStruct computes for distinct ids, [loop_is_spec]), keyed by the
    argument's own name *)
Theorem py_args_suffixes ps :
  py_args ps = map (fun x => suffixed (fst x) (snd x))
                   (combine (map py_param_base ps) (spec_loop (map (fun p => (fst p, py_param_base p)) ps) [])).
Proof.
  unfold py_args. generalize (@nil (string * nat)).
  induction ps as [|p r IH]; intros seen; simpl; [reflexivity|].
  f_equal; [|apply IH].
  unfold suffixed. simpl. destruct (lookup_s seen (py_param_base p)); reflexivity.
Qed.

(** Kotlin, placeholders already in number order without repetition: base names
    with the suffixes of [spec_loop] keyed by the column name *)
Lemma kt_loop_app byid : forall names seen,
  (forall p, In p byid -> assoc_z names (fst p) = None) -> NoDup (map fst byid) ->
  kt_name_loop byid names seen
  = names ++ map (fun x => (fst (fst x), suffixed (kt_param_base (fst x)) (snd x)))
                 (combine byid (spec_loop byid seen)).
Proof.
  induction byid as [|[i n] r IH]; intros names seen Hn Hd; simpl; [rewrite app_nil_r; reflexivity|].
  pose proof (Hn (i, n) (or_introl eq_refl)) as H00. cbn [fst] in H00. rewrite H00.
  inversion Hd as [|? ? Hnotin Hd']; subst.
  rewrite IH; [|intros q Hq|exact Hd'].
  - rewrite <- app_assoc. simpl. f_equal. f_equal. f_equal.
    unfold suffixed. destruct (lookup_s seen n); reflexivity.
  - assert (Hne : fst q <> i) by (intros E; apply Hnotin; rewrite <- E; apply in_map, Hq).
    pose proof (Hn q (or_intror Hq)) as H0. clear -H0 Hne.
    induction names as [|[k v] names IHn]; simpl in *.
    + destruct (Z.eqb i (fst q)) eqn:E; [apply Z.eqb_eq in E; congruence|reflexivity].
    + destruct (Z.eqb k (fst q)); [discriminate|]. apply IHn. exact H0.
Qed.

Lemma spec_loop_ext cols : forall seen,
  spec_loop cols seen = spec_loop (map (fun p => (fst p, snd p)) cols) seen.
Proof. induction cols as [|[i n] r IH]; intros seen; simpl; [reflexivity|]. f_equal. apply IH. Qed.

Theorem kt_names_suffixes ps :
  StronglySorted (fun a b => (fst a < fst b)%Z) ps ->
  kt_names ps = map (fun x => (fst (fst x), suffixed (kt_param_base (fst x)) (snd x)))
                    (combine ps (spec_loop ps [])).
Proof.
  intros S. unfold kt_names.
  assert (Hs : sort_by_id ps = ps).
  { induction S as [|a l S IH F]; simpl; [reflexivity|]. rewrite IH.
    destruct l as [|b l]; simpl; [reflexivity|].
    rewrite Forall_forall in F. specialize (F b (or_introl eq_refl)).
    destruct (fst a <=? fst b)%Z eqn:E; [reflexivity|lia]. }
  rewrite Hs. rewrite kt_loop_app; [reflexivity|intros p _; reflexivity|].
  clear Hs. induction S as [|a l S IH F]; simpl; constructor; [|exact IH].
  rewrite Forall_forall in F. intros Hin. apply in_map_iff in Hin. destruct Hin as [b [E Hb]].
  specialize (F b Hb). lia.
Qed.

(** ** nullability as printed *)
Lemma prefix_append p x : String.prefix p (p +++ x) = true.
Proof.
  induction p as [|a p IH]; simpl; [destruct x; reflexivity|].
  destruct (Ascii.ascii_dec a a); [exact IH|congruence].
Qed.
Theorem py_nullable_iff inner arr nn :
  has_prefix inner "Optional[" = false -> py_says_nullable (py_type_string inner arr nn) = negb nn.
Proof.
  intros H. unfold py_says_nullable, py_type_string. destruct nn; cbn [negb].
  - destruct arr; [reflexivity|exact H].
  - unfold has_prefix. apply prefix_append.
Qed.

(** a nullable array: Optional in Python, not nullable in Kotlin (the finding
    nullable_array_optional_in_python_only) *)
Theorem nullable_array_disagreement :
  kt_says_nullable (kt_type_string "String" true false) = false /\
  py_says_nullable (py_type_string "str" true false) = true /\
  kt_says_nullable (kt_type_string "String" false false) = true /\
  py_says_nullable (py_type_string "str" false false) = true.
Proof. vm_compute. repeat split; reflexivity. Qed.
