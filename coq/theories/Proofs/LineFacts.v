(** source.LineNumber: bounds on the reported line and column, for every
    source text and every offset. *)
From Coq Require Import Lia.
From Verif Require Import Model.Source.
Open Scope string_scope.
Open Scope list_scope.

Definition is_nl (p : Z * N) : bool := (snd p =? 10)%N.
Definition before (head : Z) (p : Z * N) : bool := (fst p <? head)%Z.

Fixpoint count_nl (rs : list (Z * N)) : Z :=
  match rs with [] => 0%Z | p :: r => ((if is_nl p then 1 else 0) + count_nl r)%Z end.
Fixpoint take_before (head : Z) (rs : list (Z * N)) : list (Z * N) :=
  match rs with [] => [] | p :: r => if before head p then p :: take_before head r else [] end.

Lemma count_nl_nonneg rs : (0 <= count_nl rs)%Z.
Proof. induction rs as [|p r IH]; simpl; [lia|]. destruct (is_nl p); lia. Qed.

Lemma loop_bounds src head : forall rs comment loc line col l c,
  line_number_loop src head rs comment loc line col = Ok (l, c) ->
  (0 <= col)%Z ->
  (line + 1 + count_nl (take_before head rs) <= l <= line + 1 + count_nl rs)%Z /\ (0 <= c)%Z.
Proof.
  induction rs as [|[i ch] rest IH]; intros comment loc line col l c H Hc; simpl in H.
  - inversion H; subst. simpl. lia.
  - set (comment1 := if (ch =? 45)%N
                     then match byte_at src (i + 1) with Some b => if (b =? 45)%N then true else comment | None => comment end
                     else comment) in *.
    assert (E : (if (ch =? 45)%N
                 then match byte_at src (i + 1) with
                      | Some b => Ok (if (b =? 45)%N then true else comment)
                      | None => Ok comment
                      end
                 else Ok comment) = Ok comment1).
    { unfold comment1. destruct (ch =? 45)%N; [|reflexivity]. destruct (byte_at src (i + 1)); reflexivity. }
    rewrite E in H. clear E.
    pose proof (count_nl_nonneg (take_before head rest)) as Hn1.
    pose proof (count_nl_nonneg rest) as Hn2.
    simpl take_before. simpl count_nl. unfold before, is_nl. simpl fst. simpl snd.
    destruct (i <? head)%Z eqn:Ei.
    + apply IH in H; [|destruct (ch =? 10)%N; lia]. simpl count_nl. unfold is_nl. simpl snd.
      destruct (ch =? 10)%N; lia.
    + simpl count_nl.
      destruct (is_space_rune ch) eqn:Es.
      * apply IH in H; [|destruct (ch =? 10)%N; lia]. destruct (ch =? 10)%N; lia.
      * destruct ((if (ch =? 10)%N then false else comment1)) eqn:Ec.
        -- apply IH in H; [|destruct (ch =? 10)%N; lia]. destruct (ch =? 10)%N; lia.
        -- inversion H; subst. destruct (ch =? 10)%N; lia.
Qed.

(** the reported line is at least the line the offset lies on and at most
    the last line of the file; the column is never negative *)
Theorem line_number_bounds src head l c :
  line_number src head = Ok (l, c) ->
  (1 + count_nl (take_before head (runes src)) <= l <= 1 + count_nl (runes src))%Z /\ (0 <= c)%Z.
Proof.
  unfold line_number. intros H. apply loop_bounds in H; [|lia]. lia.
Qed.

(** LineNumber never fails *)
Lemma loop_total src head : forall rs comment loc line col,
  exists l c, line_number_loop src head rs comment loc line col = Ok (l, c).
Proof.
  induction rs as [|[i ch] rest IH]; intros comment loc line col; simpl.
  - eauto.
  - destruct (ch =? 45)%N; [destruct (byte_at src (i + 1))|];
      repeat match goal with
             | |- context [if ?b then _ else _] => destruct b
             end; eauto.
Qed.

(** column >= 1 whenever the text does not end in a line break (the scan can
    then only stop on a character of a line) *)
Fixpoint last_is_nl (rs : list (Z * N)) : bool :=
  match rs with [] => false | [p] => is_nl p | _ :: r => last_is_nl r end.

Lemma space_nl ch : (ch =? 10)%N = true -> is_space_rune ch = true.
Proof. intros H. apply N.eqb_eq in H. subst. reflexivity. Qed.

Lemma loop_col src head : forall rs comment loc line col l c,
  line_number_loop src head rs comment loc line col = Ok (l, c) ->
  (0 <= col)%Z -> (rs = [] -> 1 <= col)%Z -> last_is_nl rs = false -> (1 <= c)%Z.
Proof.
  induction rs as [|[i ch] rest IH]; intros comment loc line col l c H Hc H0 Hl; simpl in H.
  - inversion H; subst. apply H0. reflexivity.
  - set (comment1 := if (ch =? 45)%N
                     then match byte_at src (i + 1) with Some b => if (b =? 45)%N then true else comment | None => comment end
                     else comment) in *.
    assert (E : (if (ch =? 45)%N
                 then match byte_at src (i + 1) with
                      | Some b => Ok (if (b =? 45)%N then true else comment)
                      | None => Ok comment
                      end
                 else Ok comment) = Ok comment1).
    { unfold comment1. destruct (ch =? 45)%N; [|reflexivity]. destruct (byte_at src (i + 1)); reflexivity. }
    rewrite E in H. clear E.
    assert (Hrest : last_is_nl rest = false \/ rest = []).
    { destruct rest as [|q rest']; [right; reflexivity|left]. exact Hl. }
    assert (Hcol2 : (0 <= (if (ch =? 10)%N then 0 else col + 1))%Z) by (destruct (ch =? 10)%N; lia).
    assert (Hempty : rest = [] -> (1 <= (if (ch =? 10)%N then 0 else col + 1))%Z).
    { intros ->. simpl in Hl. unfold is_nl in Hl. simpl in Hl. rewrite Hl. lia. }
    assert (Hl' : last_is_nl rest = false).
    { destruct Hrest as [Hr| ->]; [exact Hr|reflexivity]. }
    destruct (i <? head)%Z.
    + eapply IH; eauto.
    + destruct (is_space_rune ch) eqn:Es.
      * eapply IH; eauto.
      * destruct ((if (ch =? 10)%N then false else comment1)) eqn:Ec.
        -- eapply IH; eauto.
        -- inversion H; subst. destruct (ch =? 10)%N eqn:En; [|lia].
           apply space_nl in En. congruence.
Qed.

Theorem line_number_col src head l c :
  line_number src head = Ok (l, c) -> runes src <> [] -> last_is_nl (runes src) = false -> (1 <= c)%Z.
Proof.
  unfold line_number. intros H Hne Hl. eapply loop_col; eauto; [lia|]. intros E. contradiction.
Qed.

(** ** the upper half: the report is not after the first visible character *)
(** LineNumber's own notion of "inside a -- comment" after a prefix of runes *)
Definition flag_step (src : string) (comment : bool) (p : Z * N) : bool :=
  let comment1 := if (snd p =? 45)%N
                  then match byte_at src (fst p + 1) with Some b => if (b =? 45)%N then true else comment | None => comment end
                  else comment in
  if (snd p =? 10)%N then false else comment1.
Definition flag_after (src : string) (rs : list (Z * N)) (comment : bool) : bool := fold_left (flag_step src) rs comment.

Lemma loop_upper src head : forall pre comment loc line col l c k post,
  line_number_loop src head (pre ++ k :: post) comment loc line col = Ok (l, c) ->
  (head <= fst k)%Z -> is_space_rune (snd k) = false ->
  flag_after src (pre ++ [k]) comment = false ->
  (l <= line + 1 + count_nl pre)%Z.
Proof.
  induction pre as [|[i ch] pre IH]; intros comment loc line col l c [ik chk] post H Hk Hsp Hfl.
  - cbn [app] in *. simpl in H. unfold flag_after in Hfl. cbn [fold_left] in Hfl. unfold flag_step in Hfl. cbn [fst snd] in *.
    set (comment1 := if (chk =? 45)%N
                     then match byte_at src (ik + 1) with Some b => if (b =? 45)%N then true else comment | None => comment end
                     else comment) in *.
    assert (E : (if (chk =? 45)%N
                 then match byte_at src (ik + 1) with
                      | Some b => Ok (if (b =? 45)%N then true else comment)
                      | None => Ok comment
                      end
                 else Ok comment) = Ok comment1).
    { unfold comment1. destruct (chk =? 45)%N; [|reflexivity]. destruct (byte_at src (ik + 1)); reflexivity. }
    rewrite E in H. clear E.
    assert (Hlt : (ik <? head)%Z = false) by (apply Z.ltb_ge; exact Hk). rewrite Hlt, Hsp, Hfl in H.
    assert (Hnl : (chk =? 10)%N = false).
    { destruct (chk =? 10)%N eqn:En; [|reflexivity]. apply space_nl in En. congruence. }
    rewrite Hnl in H. inversion H; subst. simpl. lia.
  - cbn [app] in *. simpl in H. unfold flag_after in Hfl. cbn [fold_left app] in Hfl. fold (flag_after src (pre ++ [(ik, chk)])) in Hfl.
    unfold flag_step at 2 in Hfl. cbn [fst snd] in Hfl.
    set (comment1 := if (ch =? 45)%N
                     then match byte_at src (i + 1) with Some b => if (b =? 45)%N then true else comment | None => comment end
                     else comment) in *.
    assert (E : (if (ch =? 45)%N
                 then match byte_at src (i + 1) with
                      | Some b => Ok (if (b =? 45)%N then true else comment)
                      | None => Ok comment
                      end
                 else Ok comment) = Ok comment1).
    { unfold comment1. destruct (ch =? 45)%N; [|reflexivity]. destruct (byte_at src (i + 1)); reflexivity. }
    rewrite E in H. clear E.
    pose proof (count_nl_nonneg pre) as Hnn.
    cbn [count_nl]. unfold is_nl. cbn [snd].
    destruct (i <? head)%Z.
    + eapply IH in H; eauto. destruct (ch =? 10)%N; lia.
    + destruct (is_space_rune ch).
      * eapply IH in H; eauto. destruct (ch =? 10)%N; lia.
      * destruct (if (ch =? 10)%N then false else comment1) eqn:Ec.
        -- eapply IH in H; eauto. destruct (ch =? 10)%N; lia.
        -- inversion H; subst. destruct (ch =? 10)%N; lia.
Qed.

(** if some rune at or after the offset is neither white space nor inside a
    `--` comment (as LineNumber sees comments), the reported line is not after
    the line of that rune *)
Theorem line_number_upper src head l c pre k post :
  line_number src head = Ok (l, c) ->
  runes src = pre ++ k :: post ->
  (head <= fst k)%Z -> is_space_rune (snd k) = false ->
  flag_after src (pre ++ [k]) false = false ->
  (l <= 1 + count_nl pre)%Z.
Proof.
  unfold line_number. intros H Hr Hk Hsp Hfl. rewrite Hr in H.
  pose proof (loop_upper src head pre false 0 0 0 l c k post H Hk Hsp Hfl) as Hu. lia.
Qed.
