(** sort.Slice by a string key, as used by result.go for enums, structs and
    queries: with pairwise distinct keys the result does not depend on the order
    of the input (nor on the sorting algorithm). *)
From Coq Require Import Sorting.Permutation Sorting.Sorted.
From Verif Require Import Base.Str Proofs.StrFacts.
Open Scope string_scope.
Open Scope list_scope.

Section Keyed.
  Context {A : Type} (key : A -> string).

  Fixpoint ins (x : A) (l : list A) : list A :=
    match l with
    | [] => [x]
    | y :: r => if String.leb (key x) (key y) then x :: y :: r else y :: ins x r
    end.
  Definition sort_by (l : list A) : list A := fold_right ins [] l.

  Definition kle (a b : A) : Prop := String.leb (key a) (key b) = true.
  Definition klt (a b : A) : Prop := slt (key a) (key b).

  Lemma ins_perm x l : Permutation (x :: l) (ins x l).
  Proof.
    induction l as [|y l IH]; simpl; [apply Permutation_refl|].
    destruct (String.leb (key x) (key y)); [apply Permutation_refl|].
    eapply Permutation_trans; [apply perm_swap|]. apply perm_skip, IH.
  Qed.
  Lemma sort_by_perm l : Permutation l (sort_by l).
  Proof.
    induction l as [|x l IH]; simpl; [constructor|].
    eapply Permutation_trans; [apply perm_skip, IH|]. apply ins_perm.
  Qed.

  Lemma leb_false_rev a b : String.leb a b = false -> String.leb b a = true.
  Proof. intros H. destruct (String.leb_total a b) as [E|E]; congruence. Qed.

  Lemma ins_sorted x l : Sorted kle l -> Sorted kle (ins x l).
  Proof.
    induction l as [|y l IH]; simpl; intros S; [repeat constructor|].
    destruct (String.leb (key x) (key y)) eqn:E.
    - constructor; [exact S|]. constructor. exact E.
    - inversion S as [|? ? S' Hd]; subst. constructor; [apply IH, S'|].
      destruct l as [|z l]; simpl.
      + constructor. apply leb_false_rev, E.
      + destruct (String.leb (key x) (key z)) eqn:E2; constructor.
        * apply leb_false_rev, E.
        * inversion Hd; subst. assumption.
  Qed.
  Lemma sort_by_sorted l : Sorted kle (sort_by l).
  Proof. induction l as [|x l IH]; simpl; [constructor|]. apply ins_sorted, IH. Qed.

  Lemma kle_trans a b c : kle a b -> kle b c -> kle a c.
  Proof.
    unfold kle. intros H1 H2. apply leb_slt_or_eq in H1. apply leb_slt_or_eq in H2.
    destruct H1 as [H1|H1], H2 as [H2|H2].
    - apply slt_leb. eapply slt_trans; eassumption.
    - rewrite <- H2. apply slt_leb, H1.
    - rewrite H1. apply slt_leb, H2.
    - rewrite H1, <- H2. destruct (String.leb_total (key b) (key b)); assumption.
  Qed.

  Lemma sorted_strict l : Sorted kle l -> NoDup (map key l) -> StronglySorted klt l.
  Proof.
    intros S N. apply Sorted_StronglySorted in S; [|intros a b c; apply kle_trans].
    induction S as [|a l S IH F]; constructor.
    - apply IH. inversion N; assumption.
    - inversion N as [|? ? Hnotin _]; subst. rewrite Forall_forall in *. intros y Hy.
      destruct (leb_slt_or_eq _ _ (F y Hy)) as [H|H]; [exact H|].
      exfalso. apply Hnotin. rewrite H. apply in_map, Hy.
  Qed.

  Lemma strict_unique (l1 l2 : list A) :
    StronglySorted klt l1 -> StronglySorted klt l2 -> Permutation l1 l2 -> l1 = l2.
  Proof.
    revert l2. induction l1 as [|x l1 IH]; intros l2 S1 S2 P.
    - apply Permutation_nil in P. congruence.
    - destruct l2 as [|y l2]; [apply Permutation_sym, Permutation_nil in P; discriminate|].
      inversion S1 as [|? ? S1' F1]; subst. inversion S2 as [|? ? S2' F2]; subst.
      rewrite Forall_forall in F1, F2.
      assert (x = y) as ->.
      { assert (Hx : In x (y :: l2)) by (eapply Permutation_in; [exact P|left; reflexivity]).
        assert (Hy : In y (x :: l1)) by (eapply Permutation_in; [apply Permutation_sym, P|left; reflexivity]).
        destruct Hx as [->|Hx]; [reflexivity|]. destruct Hy as [->|Hy]; [reflexivity|].
        exfalso. apply (slt_irrefl (key x)). eapply slt_trans; [apply (F1 y Hy)|apply (F2 x Hx)]. }
      f_equal. apply IH; auto. eapply Permutation_cons_inv; exact P.
  Qed.

  (** the order of the input is irrelevant *)
  Theorem sort_by_perm_invariant l l' :
    NoDup (map key l) -> Permutation l l' -> sort_by l = sort_by l'.
  Proof.
    intros N P. apply strict_unique.
    - apply sorted_strict; [apply sort_by_sorted|].
      eapply Permutation_NoDup; [apply Permutation_map, sort_by_perm|exact N].
    - apply sorted_strict; [apply sort_by_sorted|].
      eapply Permutation_NoDup; [apply Permutation_map; eapply Permutation_trans; [exact P|apply sort_by_perm]|exact N].
    - eapply Permutation_trans; [apply Permutation_sym, sort_by_perm|].
      eapply Permutation_trans; [exact P|apply sort_by_perm].
  Qed.

  (** ... and so is the algorithm: ANY function returning a sorted permutation
      (sort.Slice is not stable) gives this list *)
  Theorem any_sort_agrees (sortf : list A -> list A) l :
    (forall x, Permutation x (sortf x)) -> (forall x, Sorted kle (sortf x)) ->
    NoDup (map key l) -> sortf l = sort_by l.
  Proof.
    intros Hp Hs N. apply strict_unique.
    - apply sorted_strict; [apply Hs|]. eapply Permutation_NoDup; [apply Permutation_map, Hp|exact N].
    - apply sorted_strict; [apply sort_by_sorted|]. eapply Permutation_NoDup; [apply Permutation_map, sort_by_perm|exact N].
    - eapply Permutation_trans; [apply Permutation_sym, Hp|apply sort_by_perm].
  Qed.
End Keyed.
