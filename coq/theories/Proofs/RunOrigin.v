(** The queries of an accepted run are exactly the compilations of the statements of its files:
    every per-statement theorem (C02-C07, C10, C20: "parse_query ... = Ok (Some q) -> ...")
    therefore holds for every query of every accepted package, whatever the number of files. *)
From Verif Require Import Model.CompileFiles Proofs.CompileFilesFacts Proofs.CatalogFacts.
Open Scope string_scope.
Open Scope list_scope.

Lemma parse_file_origin e src p q : forall stmts seen,
  In (Ok (Some q)) (parse_file e src p stmts seen) ->
  exists raw, In raw stmts /\ parse_query e raw src p = Ok (Some q).
Proof.
  induction stmts as [|r0 rest IH]; intros seen H; cbn [parse_file] in H; [destruct H|].
  destruct (parse_query e r0 src p) as [[q0|]|m|m] eqn:E.
  - destruct (negb (String.eqb (q_name q0) "") && mem_str (q_name q0) seen).
    + destruct H as [H|H]; [discriminate|]. destruct (IH _ H) as [raw [A B]]. exists raw. split; [right; exact A | exact B].
    + destruct H as [H|H].
      * injection H as <-. exists r0. split; [left; reflexivity | exact E].
      * destruct (IH _ H) as [raw [A B]]. exists raw. split; [right; exact A | exact B].
  - destruct H as [H|H]; [discriminate|]. destruct (IH _ H) as [raw [A B]]. exists raw. split; [right; exact A | exact B].
  - destruct H as [H|H]; [discriminate|]. destruct (IH _ H) as [raw [A B]]. exists raw. split; [right; exact A | exact B].
  - destruct H as [H|H]; [discriminate|]. destruct (IH _ H) as [raw [A B]]. exists raw. split; [right; exact A | exact B].
Qed.

Lemma parse_files_origin e p name q : forall files seen,
  In (name, Ok (Some q)) (parse_files e p files seen) ->
  exists src stmts raw, In (name, src, stmts) files /\ In raw stmts /\ parse_query e raw src p = Ok (Some q).
Proof.
  induction files as [|[[n0 s0] st0] rest IH]; intros seen H; cbn [parse_files] in H; [destruct H|].
  apply in_app_or in H. destruct H as [H|H].
  - apply in_map_iff in H. destruct H as [r [Hr Hin]]. inversion Hr; subst.
    destruct (parse_file_origin _ _ _ _ _ _ Hin) as [raw [A B]].
    exists s0, st0, raw. split; [left; reflexivity | split; assumption].
  - destruct (IH _ H) as [src [stmts [raw [A [B C]]]]]. exists src, stmts, raw. split; [right; exact A | split; assumption].
Qed.

Lemma queries_of_in rs name q : In (name, q) (queries_of rs) <-> In (name, Ok (Some q)) rs.
Proof.
  unfold queries_of. rewrite in_flat_map. split.
  - intros [[n r] [Hin H]]. cbn [fst snd] in H. destruct r as [[q0|]|m|m]; cbn [In] in H; try contradiction.
    destruct H as [H|[]]. inversion H; subst. exact Hin.
  - intro H. exists (name, Ok (Some q)). split; [exact H | left; reflexivity].
Qed.

(** soundness: every query of an accepted run is the compilation of one statement of one file *)
Theorem run_query_origin e p files qs name q :
  compile_queries e p files = Ok qs -> In (name, q) qs ->
  exists src stmts raw, In (name, src, stmts) files /\ In raw stmts /\ parse_query e raw src p = Ok (Some q).
Proof.
  intros H Hin. destruct (accepted_no_diagnostics _ _ _ _ H) as [_ [-> _]].
  apply queries_of_in in Hin. exact (parse_files_origin _ _ _ _ _ _ Hin).
Qed.

(** completeness: in an accepted run every statement that compiles to a query contributes it *)
Lemma parse_file_complete e src p raw q : forall stmts seen,
  In raw stmts -> parse_query e raw src p = Ok (Some q) ->
  In (Ok (Some q)) (parse_file e src p stmts seen) \/ exists m, In (Err m) (parse_file e src p stmts seen).
Proof.
  induction stmts as [|r0 rest IH]; intros seen Hin Hq; [destruct Hin|].
  cbn [parse_file]. destruct Hin as [<-|Hin].
  - rewrite Hq. destruct (negb (String.eqb (q_name q) "") && mem_str (q_name q) seen).
    + right. eexists. left. reflexivity.
    + left. left. reflexivity.
  - destruct (parse_query e r0 src p) as [[q0|]|m|m].
    + destruct (negb (String.eqb (q_name q0) "") && mem_str (q_name q0) seen);
        match goal with |- context [parse_file e src p rest ?S] =>
          destruct (IH S Hin Hq) as [A|[m A]]; [left; right; exact A | right; exists m; right; exact A] end.
    + destruct (IH seen Hin Hq) as [A|[m A]]; [left; right; exact A | right; exists m; right; exact A].
    + right. exists m. left. reflexivity.
    + destruct (IH seen Hin Hq) as [A|[m' A]]; [left; right; exact A | right; exists m'; right; exact A].
Qed.

Lemma parse_files_complete e p name src stmts raw q : forall files seen,
  In (name, src, stmts) files -> In raw stmts -> parse_query e raw src p = Ok (Some q) ->
  In (name, Ok (Some q)) (parse_files e p files seen) \/ exists n m, In (n, Err m) (parse_files e p files seen).
Proof.
  induction files as [|[[n0 s0] st0] rest IH]; intros seen Hf Hin Hq; [destruct Hf|].
  cbn [parse_files]. destruct Hf as [Hf|Hf].
  - injection Hf as -> -> ->.
    destruct (parse_file_complete e src p raw q stmts seen Hin Hq) as [A|[m A]].
    + left. apply in_or_app. left. apply in_map_iff. exists (Ok (Some q)). split; [reflexivity | exact A].
    + right. exists name, m. apply in_or_app. left. apply in_map_iff. exists (Err m). split; [reflexivity | exact A].
  - match goal with |- context [parse_files e p rest ?S] => destruct (IH S Hf Hin Hq) as [A|[n [m A]]] end.
    + left. apply in_or_app. right. exact A.
    + right. exists n, m. apply in_or_app. right. exact A.
Qed.

Theorem run_query_complete e p files qs name src stmts raw q :
  compile_queries e p files = Ok qs ->
  In (name, src, stmts) files -> In raw stmts -> parse_query e raw src p = Ok (Some q) ->
  In (name, q) qs.
Proof.
  intros H Hf Hin Hq. destruct (accepted_no_diagnostics _ _ _ _ H) as [Hd [-> _]].
  apply queries_of_in.
  destruct (parse_files_complete e p name src stmts raw q files [] Hf Hin Hq) as [A|[n [m A]]]; [exact A|].
  apply diagnostics_in in A. rewrite Hd in A. destruct A.
Qed.
