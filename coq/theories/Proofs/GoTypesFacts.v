From Verif Require Import Base.Str Model.Catalog Model.GoTypes Spec.DocTypes Judge.J09.
Open Scope string_scope.
Open Scope list_scope.

(** Arrays are slices of the NOT NULL element type. *)
Lemma go_type_array eng c dt nn len1 :
  go_type eng c dt nn true len1 = "[]" +++ go_type eng c dt true false len1.
Proof.
  unfold go_type. destruct eng; simpl.
  - unfold postgres_type. rewrite orb_true_r. simpl. reflexivity.
  - unfold mysql_type. rewrite orb_true_r. simpl. reflexivity.
Qed.

(** A type name that no arm lists and that names no type of the catalog maps
    to interface{} — for every string. *)
Definition no_type_named (c : catalog) (n : string) : Prop :=
  forall s t, In s (cat_schemas c) -> In t (sch_types s) -> typ_name t <> n.

Lemma pg_scan_types_none c sname rs rn nn ts :
  (forall t, In t ts -> typ_name t <> rn) -> pg_scan_types c sname rs rn nn ts = None.
Proof.
  induction ts as [|t ts IH]; intros H; simpl; [reflexivity|].
  assert (Ht : typ_name t <> rn) by (apply H; left; reflexivity).
  destruct t as [n v cm|n cm]; simpl in Ht.
  - destruct (String.eqb_spec rn n); [congruence|]. simpl. apply IH. intros t' Ht'. apply H. right. exact Ht'.
  - destruct (String.eqb_spec rn n); [congruence|]. simpl. apply IH. intros t' Ht'. apply H. right. exact Ht'.
Qed.

Lemma pg_scan_schemas_none c rs rn nn ss :
  (forall s t, In s ss -> In t (sch_types s) -> typ_name t <> rn) -> pg_scan_schemas c rs rn nn ss = None.
Proof.
  induction ss as [|s ss IH]; intros H; simpl; [reflexivity|].
  destruct (String.eqb (sch_name s) "pg_catalog").
  - apply IH. intros s' t Hs. apply H. right. exact Hs.
  - rewrite pg_scan_types_none.
    + apply IH. intros s' t Hs. apply H. right. exact Hs.
    + intros t Ht. apply (H s t); [left; reflexivity|exact Ht].
Qed.

Lemma unknown_is_interface c dt nn arr :
  lookup_entry pg_type_table dt = None ->
  (forall n, no_type_named c n) ->
  postgres_type c dt nn arr = "interface{}".
Proof.
  intros Hl Hn. unfold postgres_type. rewrite Hl. unfold pg_default.
  destruct (split_on "." dt) as [|a [|b [|d [|e l]]]]; try reflexivity;
    rewrite pg_scan_schemas_none; try reflexivity; intros s t Hs Ht; eapply Hn; eassumption.
Qed.
