(** resolveCatalogRefs describes every reference on its own: the parameter list of a
    reference list is the concatenation of the lists of its parts (nothing one
    reference yields depends on the references before it).  In positional mode the
    same reference is handed over once per occurrence of its placeholder, so this is
    what makes "one bind per ? mark" hold. *)
From Verif Require Import Model.Compile.
Open Scope string_scope.
Open Scope list_scope.

Lemma resolve_refs_cons e rvs r rest names :
  resolve_catalog_refs e rvs (r :: rest) names
  = do a <- resolve_catalog_refs e rvs [r] names; do b <- resolve_catalog_refs e rvs rest names; Ok (a ++ b).
Proof.
  unfold resolve_catalog_refs. cbv zeta.
  match goal with |- context [resolve_one ?E ?T ?B ?A ?D names r] => destruct (resolve_one E T B A D names r) as [a|m|m] end;
    cbn [bind]; [|reflexivity|reflexivity].
  rewrite app_nil_r. reflexivity.
Qed.

Theorem resolve_refs_app e rvs names : forall r1 r2,
  resolve_catalog_refs e rvs (r1 ++ r2) names
  = do a <- resolve_catalog_refs e rvs r1 names; do b <- resolve_catalog_refs e rvs r2 names; Ok (a ++ b).
Proof.
  induction r1 as [|r r1 IH]; intro r2.
  - cbn [app]. change (resolve_catalog_refs e rvs [] names) with (@Ok (list param) []). cbn [bind].
    destruct (resolve_catalog_refs e rvs r2 names); reflexivity.
  - cbn [app]. rewrite resolve_refs_cons, IH, (resolve_refs_cons e rvs r r1).
    destruct (resolve_catalog_refs e rvs [r] names) as [a|m|m]; cbn [bind]; [|reflexivity|reflexivity].
    destruct (resolve_catalog_refs e rvs r1 names) as [b|m|m]; cbn [bind]; [|reflexivity|reflexivity].
    destruct (resolve_catalog_refs e rvs r2 names) as [c|m|m]; cbn [bind]; [|reflexivity|reflexivity].
    rewrite app_assoc. reflexivity.
Qed.

(** a reference that occurs twice in the list (positional mode: a placeholder used
    twice) is described twice, identically *)
Corollary resolve_refs_repeat e rvs names r ps :
  resolve_catalog_refs e rvs [r] names = Ok ps ->
  resolve_catalog_refs e rvs [r; r] names = Ok (ps ++ ps).
Proof.
  intro H. change [r; r] with ([r] ++ [r]). rewrite resolve_refs_app, H. reflexivity.
Qed.
