(** SET col = $n and INSERT (col) VALUES ($n) are typed after [defaultTable], the first RangeVar
    astutils.Search finds in the statement.  That this is the statement's TARGET relation rests on
    the order in which Walk visits the fields of UpdateStmt / InsertStmt / DeleteStmt: re-checked
    against the regenerated walk-order table on every run. *)
From Verif Require Import Model.Ast.
Open Scope string_scope.
Open Scope list_scope.

Definition relation_first (k : string) : bool :=
  match assoc walk_fields k with Some ("Relation" :: _) => true | _ => false end.

Theorem target_relation_visited_first :
  forallb relation_first ["UpdateStmt"; "InsertStmt"; "DeleteStmt"] = true.
Proof. vm_compute. reflexivity. Qed.

(** of a node whose stored children respect the table ([node_order_ok]) the first visited child is
    the Relation, when there is one *)
Lemma subseq_head x xs ys : subseq_of (x :: xs) ys = true -> In x ys.
Proof.
  induction ys as [|y ys IH]; cbn [subseq_of]; [discriminate|].
  destruct (String.eqb x y) eqn:E; [apply String.eqb_eq in E; subst; intros _; left; reflexivity | intro H; right; exact (IH H)].
Qed.

Lemma subseq_first_is_head x xs y ys :
  subseq_of (x :: xs) (y :: ys) = true -> ~ In y ys -> In y (x :: xs) -> x = y.
Proof.
  cbn [subseq_of]. destruct (String.eqb x y) eqn:E; [apply String.eqb_eq in E; auto|].
  intros H Hn Hin. exfalso. destruct Hin as [Hin|Hin]; [subst; rewrite String.eqb_refl in E; discriminate|].
  (* y occurs in xs, which is a subsequence of ys *)
  assert (Hsub : forall a b, subseq_of a b = true -> forall z, In z a -> In z b).
  { induction a as [|a0 a IHa]; intros b Hb z Hz; [destruct Hz|].
    revert Hb. induction b as [|b0 b IHb]; cbn [subseq_of]; [discriminate|].
    destruct (String.eqb a0 b0) eqn:E0.
    - apply String.eqb_eq in E0. subst. intro Hb. destruct Hz as [<-|Hz]; [left; reflexivity | right; exact (IHa b Hb z Hz)].
    - intro Hb. right. exact (IHb Hb). }
  apply Hn. exact (Hsub (x :: xs) ys H y (or_intror Hin)).
Qed.
