(** source.StripComments: exactly the full-line comments (and the annotation)
    are removed; every other line is kept verbatim, in order. *)
From Verif Require Import Model.Source.
Open Scope string_scope.
Open Scope list_scope.

Definition is_annotation (t : string) : bool :=
  has_prefix t "-- name:" || (has_prefix t "/* name:" && has_suffix t "*/").
Definition is_comment_line (t : string) : bool :=
  has_prefix t "--" || block_line t.
Definition comment_text (t : string) : list string :=
  if is_annotation t then []
  else if has_prefix t "--" then [trim_prefix t "--"]
  else if block_line t then [trim_suffix (trim_prefix t "/*") "*/"]
  else [].

Theorem strip_comments_spec sql s cs :
  strip_comments sql = Ok (s, cs) ->
  exists ls, scan_lines_limited (trim_space sql) = Some ls /\
    s = join (String nl "") (filter (fun t => negb (is_annotation t) && negb (is_comment_line t)) ls) /\
    cs = flat_map comment_text ls.
Proof.
  unfold strip_comments. destruct (scan_lines_limited (trim_space sql)) as [ls|]; [|discriminate].
  intros H. exists ls. split; [reflexivity|].
  match type of H with Ok (join _ (fst (fold_left ?st ls ([], []))), _) = _ => set (step := st) in * end.
  assert (G : forall l a b,
            fold_left step l (a, b)
            = (a ++ filter (fun t => negb (is_annotation t) && negb (is_comment_line t)) l, b ++ flat_map comment_text l)).
  { induction l as [|t l IH]; intros a b; cbn [fold_left filter flat_map]; [rewrite !app_nil_r; reflexivity|].
    unfold step at 2. unfold is_annotation, is_comment_line, comment_text, is_annotation.
    destruct (has_prefix t "-- name:") eqn:E1; cbn [orb negb andb fst snd].
    - rewrite IH. reflexivity.
    - destruct (has_prefix t "/* name:" && has_suffix t "*/") eqn:E2; cbn [orb negb andb].
      + rewrite IH. reflexivity.
      + destruct (has_prefix t "--") eqn:E3; cbn [orb negb andb].
        * rewrite IH, <- app_assoc. reflexivity.
        * destruct (block_line t) eqn:E4; cbn [negb andb].
          -- rewrite IH, <- app_assoc. reflexivity.
          -- rewrite IH, <- app_assoc. reflexivity. }
  rewrite (G ls [] []) in H. cbn [fst snd app] in H. inversion H; subst. split; reflexivity.
Qed.
