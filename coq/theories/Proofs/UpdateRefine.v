(** UPDATE <base table> SET ... [WHERE ...] RETURNING <targets> (no FROM):
    reference semantics against sqlc's outputColumns. *)
From Coq Require Import Lia.
From Verif Require Import Model.Compile Spec.PgScope Proofs.ColumnsFacts Proofs.TypeFlowFacts Proofs.ScopeRefine Proofs.ScopeRefineT
  Proofs.CompileFacts2 Proofs.SelectRefine.
Open Scope string_scope.
Open Scope list_scope.

Section SimpleUpdate.
  Variables (e : env) (strict deep : bool) (stmt : node) (targets : list node) (f : nat).
  Hypothesis Hkind : kind_of stmt = "UpdateStmt".
  Hypothesis Hwith : kid "WithClause" stmt = Nil.
  Hypothesis Hret : kid "ReturningList" stmt = NList targets.
  Hypothesis Hrel : kind_of (kid "Relation" stmt) = "RangeVar".
  Hypothesis Hfrom : kid "FromClause" stmt = NList [].
  Let rv := kid "Relation" stmt.
  Let others := [kid "WhereClause" stmt; kid "FromClause" stmt].
  Let set_cols := map (fun t => Node "ColumnRef" [] [] [("Fields", NList [Node "String" [("Str", str_of "Name" t)] [] []])])
                      (kid_items "TargetList" stmt).
  Let set_vals := map (kid "Val") (kid_items "TargetList" stmt).
  (* the SET targets are columns of the relation and, in strict mode, the assigned expressions resolve *)
  Hypothesis Hset : forall sc, spec_scope (env_cat e) [rv] = POk sc ->
    check_refs [firstn 1 sc] set_cols = POk tt /\
    check_refs [sc] (if strict then level_refs (NList set_vals) else []) = POk tt.
  Hypothesis Hothers : (if strict then level_refs (NList others) else paired_refs (NList others)) = [].
  Hypothesis Hsub : level_subselects (NList (others ++ map (kid "Val") targets ++ set_vals)) = [].
  Hypothesis Hvals : (if deep then level_refs (NList (map (kid "Val") targets)) else direct_refs targets) = refs_of targets.
  Hypothesis Hshape : forall sc, spec_scope (env_cat e) [rv] = POk sc ->
    Forall (fun it => NoDup (map sc_name (si_cols it))) sc /\ Forall (target_ok sc) targets.

  Theorem simple_update_refines_t g :
    match describe (env_cat e) strict deep (S (S f)) [] [] stmt, output_columns (S g) e [] stmt with
    | POk row, Ok cols => Forall2 row_rel row cols
    | PErr _, Err _ => True
    | _, _ => False
    end.
  Proof.
    remember (S f) as g1 eqn:Eg1.
    cbn [describe]. rewrite Hwith. cbn [kid_items kid items fold_left pbind].
    rewrite Hkind.
    replace (String.eqb "UpdateStmt" "SelectStmt") with false by reflexivity.
    replace (String.eqb "UpdateStmt" "InsertStmt") with false by reflexivity.
    replace (String.eqb "UpdateStmt" "UpdateStmt") with true by reflexivity.
    cbn [andb]. cbv iota.
    unfold kid_items at 1. rewrite Hfrom. cbn [items fold_left].
    match goal with |- context [?F g1 (kid "Relation" stmt)] => set (FI := F) end.
    assert (Hfi : FI g1 (kid "Relation" stmt) = spec_scope (env_cat e) [rv]).
    { rewrite Eg1. unfold FI. rewrite Hrel. cbn [spec_scope]. unfold rv.
      destruct (pg_relation (env_cat e) [] (kid "Relation" stmt)); reflexivity. }
    rewrite Hfi. cbn [pbind].
    (* sqlc's side *)
    rewrite output_columns_unfold.
    assert (Hsrc : source_tables g e [] stmt = model_scope e [rv]).
    { unfold source_tables. rewrite Hkind.
      replace (String.eqb "UpdateStmt" "DeleteStmt") with false by reflexivity.
      replace (String.eqb "UpdateStmt" "InsertStmt") with false by reflexivity.
      replace (String.eqb "UpdateStmt" "SelectStmt") with false by reflexivity.
      replace (String.eqb "UpdateStmt" "TruncateStmt") with false by reflexivity.
      replace (String.eqb "UpdateStmt" "UpdateStmt") with true by reflexivity.
      cbn [orb]. rewrite Hfrom. cbn [items_opt app bind model_scope]. unfold is_kind, rv. rewrite !Hrel.
      replace (String.eqb "RangeVar" "RangeSubselect") with false by reflexivity.
      replace (String.eqb "RangeVar" "RangeVar") with true by reflexivity.
      destruct (qc_get_table e [] (table_of_rangevar (kid "Relation" stmt))); reflexivity. }
    rewrite Hsrc.
    pose proof (scopes_refine e [rv]) as Hsc.
    destruct (spec_scope (env_cat e) [rv]) as [sc|e1] eqn:Esc; destruct (model_scope e [rv]) as [tables|m|m];
      try contradiction; cbn [pbind bind app]; [|exact I].
    destruct Hsc as [Hrel' Hnames].
    assert (Hnd : NoDup (map si_name sc)) by (rewrite Hnames; repeat constructor; intros []).
    rewrite (first_dup_nodup (map si_name sc) Hnd).
    destruct (Hset sc eq_refl) as [Hs1 Hs2].
    fold set_cols set_vals. rewrite Hs1. cbn [pbind]. rewrite Hs2. cbn [pbind].
    unfold others in Hothers, Hsub. rewrite Hfrom in Hothers, Hsub. cbn [app] in Hsub.
    rewrite Hothers. unfold check_refs at 1. cbn [fold_left pbind].
    unfold kid_items at 1 2 3. rewrite !Hret. cbn [items]. rewrite Hvals.
    fold set_vals. rewrite Hsub. cbn [fold_left pbind].
    unfold stmt_targets. rewrite Hkind.
    replace (String.eqb "UpdateStmt" "DeleteStmt") with false by reflexivity.
    replace (String.eqb "UpdateStmt" "InsertStmt") with false by reflexivity.
    replace (String.eqb "UpdateStmt" "UpdateStmt") with true by reflexivity.
    replace (String.eqb "UpdateStmt" "SelectStmt") with false by reflexivity.
    cbn [orb andb]. rewrite Hret. cbn [items items_opt].
    destruct (Hshape sc eq_refl) as [Hcols Hall].
    pose proof (level_refines_t e sc tables targets Hrel' Hnd Hcols Hall) as Hlev.
    pose proof (check_refs_row sc targets Hall) as Hchk.
    destruct (check_refs [sc] (refs_of targets)) as [[]|e2]; cbn [pbind].
    - unfold kid_items. rewrite Hret. cbn [items]. exact Hlev.
    - destruct Hchk as [e0 He0]. rewrite He0 in Hlev.
      destruct (targets_columns e tables targets); try contradiction; exact I.
  Qed.
End SimpleUpdate.
