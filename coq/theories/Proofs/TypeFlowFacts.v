(** C05: the remaining hops of a column record - a plain reference, a base
    table under an alias, a CTE - copy type, nullability and array-ness. *)
From Verif Require Import Model.Compile Proofs.ColumnsFacts.
Open Scope string_scope.
Open Scope list_scope.

Definition attrs (c : qcol) := (qc_dt c, qc_nn c, qc_arr c).

(** a plain reference: the one result column has the attributes (and owning
    table) of the one candidate in scope; it is named after the column unless
    the target carries an AS alias *)
Lemma ref_cols_as_map res tables al nm :
  flat_map (fun t => if negb (String.eqb al "") && negb (String.eqb (tn_name (qt_rel t)) al) then []
                     else flat_map (fun c => if String.eqb (qc_name c) nm
                                             then [mkQC (some_or (qc_name c) (res_name res)) (qc_dt c) (qc_nn c) (qc_arr c) "" (qc_table c)]
                                             else []) (qt_cols t)) tables
  = map (fun c => mkQC (some_or (qc_name c) (res_name res)) (qc_dt c) (qc_nn c) (qc_arr c) "" (qc_table c))
        (ref_candidates tables al nm).
Proof.
  unfold ref_candidates. induction tables as [|t ts IH]; simpl; [reflexivity|]. rewrite map_app, IH. f_equal.
  destruct (negb (al =? "") && negb (tn_name (qt_rel t) =? al)); [reflexivity|].
  apply (flat_map_filter_map (fun c => qc_name c =? nm)
           (fun c => mkQC (some_or (qc_name c) (res_name res)) (qc_dt c) (qc_nn c) (qc_arr c) "" (qc_table c))).
Qed.

Theorem ref_preserves_types res tables ref alias name cols :
  ref_name_alias ref = Some (alias, name) ->
  output_column_refs res tables ref = Ok cols ->
  exists c, ref_candidates tables alias name = [c] /\
    cols = [mkQC (some_or (qc_name c) (res_name res)) (qc_dt c) (qc_nn c) (qc_arr c) "" (qc_table c)].
Proof.
  unfold ref_name_alias, output_column_refs. intros Hra.
  destruct (string_items (kid "Fields" ref)) as [|p1 [|p2 [|p3 l]]]; try discriminate; inversion Hra; subst;
    cbv zeta; rewrite ref_cols_as_map;
    destruct (ref_candidates tables _ name) as [|c0 [|c2 cs]]; simpl; unfold err_at;
    try destruct (loc_of res =? 0)%Z; intros H; try discriminate;
    inversion H; subst; exists c0; split; reflexivity.
Qed.

(** a base table under an alias keeps its columns *)
Theorem alias_keeps_columns (t : qtable) a :
  qt_cols (mkQT (mkTN (tn_cat (qt_rel t)) (tn_schema (qt_rel t)) a) (qt_cols t)) = qt_cols t.
Proof. reflexivity. Qed.

(** a catalog table seen through the query catalog: every column converted faithfully *)
Theorem catalog_table_columns e rel t qt :
  cat_get_table (env_cat e) rel = Some t -> qc_get_table e [] rel = Ok qt ->
  map attrs (qt_cols qt) = map (fun c => (data_type (col_type c), col_notnull c, col_array c)) (tab_cols t)
  /\ map qc_name (qt_cols qt) = map col_name (tab_cols t).
Proof.
  unfold qc_get_table. cbn [assoc]. intros Ht.
  assert (Hn : (if String.eqb (tn_schema rel) "" then None else None) = @None qtable) by (destruct (String.eqb _ ""); reflexivity).
  rewrite Hn, Ht. intros H. inversion H; subst. cbn [qt_cols].
  rewrite !map_map. split; apply map_ext; intros c; reflexivity.
Qed.

(** CTE columns re-homed to the CTE name keep name and attributes *)
Theorem cte_rehome_attrs rel cols :
  let cols' := map (fun x => mkQC (qc_name x) (qc_dt x) (qc_nn x) (qc_arr x) (qc_scope x) (Some rel)) cols in
  map attrs cols' = map attrs cols /\ map qc_name cols' = map qc_name cols.
Proof. cbv zeta. rewrite !map_map. split; apply map_ext; intros c; reflexivity. Qed.
