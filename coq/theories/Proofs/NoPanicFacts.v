(** Panic-freedom of the transcribed text-level functions (property C18).
    Every Go panic site of the transcribed code is an explicit [Panic] outcome
    of the model, so "never panics" is a statement about which constructors a
    function can return. *)
From Verif Require Import Model.Compile.
Open Scope string_scope.
Open Scope list_scope.

Definition no_panic {A} (r : result A) : Prop := match r with Panic _ => False | _ => True end.

Lemma apply_edit_no_panic s e : no_panic (apply_edit s e).
Proof.
  unfold apply_edit.
  destruct ((zlen s <? e_loc e) || (e_loc e <? 0))%Z; simpl; auto.
  destruct (String.eqb (e_new e) ""); simpl; auto.
  destruct (String.eqb (e_old e) ""); simpl; auto.
  destruct (e_loc e + zlen (e_old e) - 1 <? zlen s)%Z; simpl; auto.
Qed.

(** source.Mutate: for every text and every list of edits *)
Theorem mutate_no_panic raw edits : no_panic (mutate raw edits).
Proof.
  unfold mutate. destruct edits as [|e0 er]; simpl; auto.
  generalize (sort_edits (e0 :: er)). intros l.
  assert (G : forall l acc, no_panic acc -> no_panic (fold_left (fun acc e => do s <- acc; apply_edit s e) l acc)).
  { clear. induction l as [|e l IH]; intros acc H; simpl; auto.
    apply IH. destruct acc as [s| |]; simpl in *; auto. apply apply_edit_no_panic. }
  apply G. simpl. auto.
Qed.

(** source.LineNumber: for every text and every offset (after the bounds fix) *)
Lemma line_number_loop_no_panic src head rs : forall comment loc line col,
  no_panic (line_number_loop src head rs comment loc line col).
Proof.
  induction rs as [|[i ch] rs IH]; intros comment loc line col; simpl; auto.
  destruct (ch =? 45)%N.
  - destruct (byte_at src (i + 1)) as [b|]; simpl.
    + destruct (i <? head)%Z; [apply IH|]. destruct (is_space_rune ch); [apply IH|].
      destruct (if (ch =? 10)%N then false else if (b =? 45)%N then true else comment); [apply IH|simpl; auto].
    + destruct (i <? head)%Z; [apply IH|]. destruct (is_space_rune ch); [apply IH|].
      destruct (if (ch =? 10)%N then false else comment); [apply IH|simpl; auto].
  - simpl. destruct (i <? head)%Z; [apply IH|]. destruct (is_space_rune ch); [apply IH|].
    destruct (if (ch =? 10)%N then false else comment); [apply IH|simpl; auto].
Qed.
Theorem line_number_no_panic src head : no_panic (line_number src head).
Proof. apply line_number_loop_no_panic. Qed.

(** metadata.Parse: for every text and comment syntax *)
Theorem meta_parse_no_panic lines cs : no_panic (meta_parse_lines lines cs).
Proof.
  induction lines as [|line rest IH]; simpl; auto.
  repeat match goal with
  | |- no_panic (if ?b then _ else _) => destruct b
  | |- no_panic (match ?x with _ => _ end) => destruct x
  end; simpl; auto.
Qed.

(** StripComments *)
Theorem strip_comments_no_panic sql : no_panic (strip_comments sql).
Proof. unfold strip_comments. destruct (scan_lines_limited (trim_space sql)); simpl; auto. Qed.
