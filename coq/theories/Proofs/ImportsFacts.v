(** imports.go (Model/GoImports) against the templates (Spec/GoFileUses):
    without custom overrides, over the Go types of the regenerated type tables,
    every emitted file imports exactly the packages it mentions — except for a
    bare parameter / result that is a slice of a qualified type (finding). *)
From Coq Require Import List String Ascii Bool Arith Lia.
From Verif Require Import Base.Str Gen.TypeTables Gen.ImportTables Model.GoImports Spec.GoFileUses Proofs.CatalogFacts.
Import ListNotations.
Open Scope string_scope.
Open Scope list_scope.

(** * the Go types sqlc itself produces *)
Definition table_go_types : list string :=
  flat_map (fun e => [te_nn e; te_null e; te_nn_len1 e; te_null_len1 e]) (pg_type_table ++ my_type_table).
Fixpoint has_dot (s : string) : bool :=
  match s with EmptyString => false | String c r => Ascii.eqb c dot || has_dot r end.
Definition known_qualified : list string := filter has_dot table_go_types.

(** a type string the theorem speaks about: an unqualified name (basic types,
    struct and enum names, slices of them) or a qualified type of the tables,
    possibly as a slice *)
Definition ok_typeb (t : string) : bool := negb (has_dot t) || mem_str (strip_slice t) known_qualified.

(** the importer's prefix rules: type-name prefix |-> import path *)
Definition rules : list (string * string) :=
  ("sql.Null", "database/sql") :: stdlib_types ++ [("pq.NullTime", "github.com/lib/pq"); ("uuid.UUID", "github.com/google/uuid")].

(** * strings *)
Lemma before_dot_none s : has_dot s = false -> before_dot s = None.
Proof.
  induction s as [|c s IH]; simpl; [reflexivity|].
  destruct (Ascii.eqb c dot); simpl; [discriminate|]. intros H. rewrite (IH H). reflexivity.
Qed.

Lemma prefix_has_dot p s : String.prefix p s = true -> has_dot p = true -> has_dot s = true.
Proof.
  revert s. induction p as [|c p IH]; intros s H Hd; simpl in Hd; [discriminate|].
  destruct s as [|d s]; simpl in H; [discriminate|].
  destruct (ascii_dec c d) as [->|ne]; [|discriminate].
  simpl. destruct (Ascii.eqb d dot); simpl in *; [reflexivity|]. apply IH; assumption.
Qed.

Lemma has_dot_drop n s : has_dot (drop n s) = true -> has_dot s = true.
Proof.
  revert s. induction n as [|n IH]; intros s; simpl; [destruct s; auto|].
  destruct s as [|c s]; simpl; [auto|]. intros H. rewrite (IH _ H). apply orb_true_r.
Qed.

Lemma strip_slice_no_dot t : has_dot t = false -> has_dot (strip_slice t) = false.
Proof.
  intros H. unfold strip_slice, trim_prefix. destruct (has_prefix t "[]"); [|exact H].
  destruct (has_dot (drop (String.length "[]") t)) eqn:E; [|reflexivity].
  apply has_dot_drop in E. congruence.
Qed.

(** * the rules agree with the qualifier on the table types (regenerated tables: by computation) *)
Definition rule_sound_on (s : string) : bool :=
  forallb (fun r => negb (has_prefix s (fst r))
                    || match before_dot s with Some q => String.eqb (qual_path q) (snd r) | None => false end) rules.
Definition rule_complete_on (s : string) : bool :=
  match before_dot s with
  | Some q => existsb (fun r => has_prefix s (fst r) && String.eqb (snd r) (qual_path q)) rules
  | None => true
  end.
Lemma known_rules_ok : forallb (fun s => rule_sound_on s && rule_complete_on s) known_qualified = true.
Proof. vm_compute. reflexivity. Qed.

Lemma rules_have_dot : forallb (fun r => has_dot (fst r)) rules = true.
Proof. vm_compute. reflexivity. Qed.
Lemma rules_not_slices : forallb (fun r => negb (has_prefix (fst r) "[")) rules = true.
Proof. vm_compute. reflexivity. Qed.

(** for a stripped ok type: some rule with path p fires iff the qualifier's path is p *)
Definition fires (s p : string) : Prop := exists N, In (N, p) rules /\ has_prefix s N = true.
Definition needs (s p : string) : Prop := exists q, before_dot s = Some q /\ qual_path q = p.

Lemma fires_needs_known s p : In s known_qualified -> (fires s p <-> needs s p).
Proof.
  intros Hin. pose proof known_rules_ok as K. rewrite forallb_forall in K. specialize (K s Hin).
  apply andb_true_iff in K. destruct K as [Ks Kc]. split.
  - intros [N [HN Hp]]. unfold rule_sound_on in Ks. rewrite forallb_forall in Ks. specialize (Ks _ HN). simpl in Ks.
    rewrite Hp in Ks. simpl in Ks. destruct (before_dot s) as [q|] eqn:E; [|discriminate].
    exists q. split; [exact E|]. apply String.eqb_eq, Ks.
  - intros [q [Hq Hp]]. unfold rule_complete_on in Kc. rewrite Hq in Kc. apply existsb_exists in Kc.
    destruct Kc as [[N p'] [Hin' H]]. apply andb_true_iff in H. destruct H as [H1 H2]. simpl in *.
    apply String.eqb_eq in H2. subst. exists N. split; assumption.
Qed.

Lemma fires_needs_nodot s p : has_dot s = false -> (fires s p <-> needs s p).
Proof.
  intros Hd. split.
  - intros [N [HN Hp]]. exfalso. pose proof rules_have_dot as R. rewrite forallb_forall in R. specialize (R _ HN). simpl in R.
    unfold has_prefix in Hp. rewrite (prefix_has_dot _ _ Hp R) in Hd. discriminate.
  - intros [q [Hq _]]. rewrite (before_dot_none _ Hd) in Hq. discriminate.
Qed.

Lemma fires_needs_ok t p : ok_typeb t = true -> (fires (strip_slice t) p <-> needs (strip_slice t) p).
Proof.
  unfold ok_typeb. intros H. apply orb_true_iff in H. destruct H as [H|H].
  - apply fires_needs_nodot, strip_slice_no_dot. destruct (has_dot t); [simpl in H; discriminate H|reflexivity].
  - apply fires_needs_known. apply mem_str_In, H.
Qed.

(** a value type that is not stripped by the importer: same answer unless it is a slice of a qualified type *)
Lemma prefix_of_slice t N : is_slice t = true -> has_prefix N "[" = false -> N <> "" -> has_prefix t N = false.
Proof.
  unfold is_slice, has_prefix. intros Ht HN Hne. destruct N as [|c N]; [congruence|].
  destruct t as [|d t]; [reflexivity|]. cbn [String.prefix] in *.
  destruct (ascii_dec "[" d) as [Hd|Hd]; [|discriminate Ht].
  destruct (ascii_dec "[" c) as [Hc|Hc]; [destruct N; discriminate HN|].
  destruct (ascii_dec c d) as [Hcd|Hcd]; [|reflexivity]. congruence.
Qed.

Lemma fires_unstripped t p :
  ok_typeb t = true ->
  (is_slice t && match type_qual t with Some _ => true | None => false end) = false ->
  (fires t p <-> needs (strip_slice t) p).
Proof.
  intros Hok Hcl. destruct (is_slice t) eqn:Es; simpl in Hcl.
  - (* a slice of an unqualified type: nothing fires, nothing is needed *)
    unfold type_qual in Hcl. split.
    + intros [N [HN Hp]]. exfalso.
      pose proof rules_not_slices as R. rewrite forallb_forall in R. specialize (R _ HN). simpl in R.
      pose proof rules_have_dot as D. rewrite forallb_forall in D. specialize (D _ HN). simpl in D.
      assert (N <> "") by (intros ->; discriminate).
      rewrite (prefix_of_slice t N Es) in Hp; [discriminate| |assumption].
      destruct (has_prefix N "["); [discriminate|reflexivity].
    + intros [q [Hq _]]. rewrite Hq in Hcl. discriminate.
  - assert (strip_slice t = t) as E by (unfold strip_slice, trim_prefix; unfold is_slice in Es; rewrite Es; reflexivity).
    rewrite <- E at 1. apply fires_needs_ok, Hok.
Qed.

(** * sets as lists *)
Lemma add_str_In x y l : In y (add_str x l) <-> y = x \/ In y l.
Proof.
  unfold add_str. destruct (mem_str x l) eqn:E.
  - split; [auto|]. intros [->|H]; [apply mem_str_In, E|exact H].
  - rewrite in_app_iff. simpl. intuition.
Qed.

Lemma incl_str_iff a b : incl_str a b = true <-> (forall x, In x a -> In x b).
Proof.
  unfold incl_str. rewrite forallb_forall. split; intros H x Hx; [apply mem_str_In|apply mem_str_In]; auto.
Qed.
Lemma set_eq_str_iff a b : set_eq_str a b = true <-> (forall x, In x a <-> In x b).
Proof.
  unfold set_eq_str. rewrite andb_true_iff, !incl_str_iff. split.
  - intros [H1 H2] x. split; auto.
  - intros H. split; intros x; apply H.
Qed.

Lemma fold_std_In (uses : string -> bool) (l : list (string * string)) s p :
  In p (fold_left (fun acc r => if uses (fst r) then add_str (snd r) acc else acc) l s)
  <-> In p s \/ exists r, In r l /\ uses (fst r) = true /\ snd r = p.
Proof.
  revert s. induction l as [|r l IH]; intros s; simpl.
  - split; [auto|]. intros [H|[r [[] _]]]. exact H.
  - rewrite IH. destruct (uses (fst r)) eqn:E.
    + rewrite add_str_In. split.
      * intros [[->|H]|[r' [H1 H2]]]; [right; exists r; auto|left; exact H|right; exists r'; tauto].
      * intros [H|[r' [[->|H1] [H2 H3]]]]; [left; right; exact H|left; left; symmetry; exact H3|right; exists r'; tauto].
    + split.
      * intros [H|[r' [H1 H2]]]; [left; exact H|right; exists r'; tauto].
      * intros [H|[r' [[->|H1] [H2 H3]]]]; [left; exact H|congruence|right; exists r'; tauto].
Qed.

Lemma std_set_In uses base w p :
  In p (std_set uses base w)
  <-> In p base \/ (p = "database/sql" /\ (uses "sql.Null" || w) = true)
      \/ exists r, In r stdlib_types /\ uses (fst r) = true /\ snd r = p.
Proof.
  unfold std_set, std_set_tbl. rewrite fold_std_In. destruct (uses "sql.Null" || w).
  - rewrite add_str_In. intuition.
  - intuition. discriminate.
Qed.

Definition no_custom (ovs : list goverride) : Prop := forall o, In o ovs -> ov_custom o = false.

Lemma overridden_no_custom ovs t : no_custom ovs -> overridden ovs t = false.
Proof.
  intros H. unfold overridden. destruct (existsb _ ovs) eqn:E; [|reflexivity].
  apply existsb_exists in E. destruct E as [o [Ho E]]. rewrite (H o Ho) in E. discriminate.
Qed.

Lemma fold_ovs_no_custom (uses : string -> bool) std ovs acc : no_custom ovs ->
  fold_left (fun acc o =>
    if ov_custom o && (negb (mem_str (ov_import_path o) std) || negb (String.eqb (ov_package o) "")) && uses (ov_type_name o)
    then add_spec (ov_package o, ov_import_path o) acc else acc) ovs acc = acc.
Proof.
  revert acc. induction ovs as [|o ovs IH]; intros acc H; simpl; [reflexivity|].
  rewrite (H o (or_introl eq_refl)). simpl. apply IH. intros o' Ho'. apply H. right. exact Ho'.
Qed.

Definition pq_path := "github.com/lib/pq".
Definition uuid_path := "github.com/google/uuid".

Lemma add_spec_In x y l : In y (add_spec x l) <-> y = x \/ In y l.
Proof.
  unfold add_spec. destruct (mem_spec x l) eqn:E.
  - split; [auto|]. intros [->|H]; [|exact H].
    unfold mem_spec in E. apply existsb_exists in E. destruct E as [z [Hz E]].
    unfold spec_eqb in E. apply andb_true_iff in E. destruct E as [E1 E2].
    apply String.eqb_eq in E1, E2. destruct x, z; simpl in *; subst. exact Hz.
  - rewrite in_app_iff. simpl. intuition.
Qed.

Lemma pkg_set_spec_In uses wpq std ovs x : no_custom ovs ->
  In x (pkg_set uses wpq std ovs)
  <-> (x = ("", pq_path) /\ (wpq || uses "pq.NullTime") = true) \/ (x = ("", uuid_path) /\ uses "uuid.UUID" = true).
Proof.
  intros H. unfold pkg_set. rewrite fold_ovs_no_custom by exact H. rewrite !(overridden_no_custom _ _ H). simpl.
  rewrite !andb_true_r. unfold pq_path, uuid_path.
  destruct wpq, (uses "pq.NullTime"), (uses "uuid.UUID"); simpl; rewrite ?add_spec_In; simpl; rewrite ?add_spec_In; simpl;
    intuition (try discriminate; try congruence).
Qed.

Lemma pkg_set_In uses wpq std ovs p : no_custom ovs ->
  In p (map snd (pkg_set uses wpq std ovs))
  <-> (p = pq_path /\ (wpq || uses "pq.NullTime") = true) \/ (p = uuid_path /\ uses "uuid.UUID" = true).
Proof.
  intros H. rewrite in_map_iff. split.
  - intros [x [E HI]]. apply (pkg_set_spec_In _ _ _ _ _ H) in HI. destruct HI as [[-> HI]|[-> HI]]; simpl in E; subst; auto.
  - intros [[-> HI]|[-> HI]]; [exists ("", pq_path)|exists ("", uuid_path)]; (split; [reflexivity|]);
      apply (pkg_set_spec_In _ _ _ _ _ H); auto.
Qed.

Lemma quals_of_In q ts : In q (quals_of ts) <-> exists t, In t ts /\ type_qual t = Some q.
Proof.
  unfold quals_of. rewrite in_flat_map. split.
  - intros [t [Ht H]]. exists t. split; [exact Ht|]. destruct (type_qual t) as [q'|]; simpl in H; [|contradiction].
    destruct H as [->|[]]. reflexivity.
  - intros [t [Ht H]]. exists t. split; [exact Ht|]. rewrite H. simpl. auto.
Qed.

Lemma rules_In N p :
  In (N, p) rules <-> (N = "sql.Null" /\ p = "database/sql") \/ In (N, p) stdlib_types
                      \/ (N = "pq.NullTime" /\ p = pq_path) \/ (N = "uuid.UUID" /\ p = uuid_path).
Proof.
  unfold rules, pq_path, uuid_path. split.
  - intros [H|H]; [inversion H; subst; auto|]. apply in_app_or in H. destruct H as [H|[H|[H|[]]]]; try (inversion H; subst); auto.
  - intros [[-> ->]|[H|[[-> ->]|[-> ->]]]]; [left; reflexivity|right; apply in_or_app; left; exact H
                                             |right; apply in_or_app; right; left; reflexivity
                                             |right; apply in_or_app; right; right; left; reflexivity].
Qed.

(** * one file, abstractly: the importer's `uses` closure looks at the types S after
    stripping "[]" and at the types U as they are *)
Section OneFile.
  Variables (uses : string -> bool) (S U : list string).
  Hypothesis uses_spec : forall N, uses N = true <->
    (exists t, In t S /\ has_prefix (strip_slice t) N = true) \/ (exists t, In t U /\ has_prefix t N = true).
  Hypothesis okS : forall t, In t S -> ok_typeb t = true.
  Hypothesis okU : forall t, In t U -> ok_typeb t = true.
  Hypothesis clsU : forall t, In t U ->
    (is_slice t && match type_qual t with Some _ => true | None => false end) = false.

  Lemma rule_uses p : (exists N, In (N, p) rules /\ uses N = true) <-> In p (map qual_path (quals_of (S ++ U))).
  Proof.
    rewrite in_map_iff. split.
    - intros [N [HN Hu]]. apply uses_spec in Hu. destruct Hu as [[t [Ht Hp]]|[t [Ht Hp]]].
      + assert (fires (strip_slice t) p) as F by (exists N; auto).
        apply (fires_needs_ok _ _ (okS _ Ht)) in F. destruct F as [q [Hq Hpq]].
        exists q. split; [exact Hpq|]. apply quals_of_In. exists t. split; [apply in_or_app; auto|exact Hq].
      + assert (fires t p) as F by (exists N; auto).
        apply (fires_unstripped _ _ (okU _ Ht) (clsU _ Ht)) in F. destruct F as [q [Hq Hpq]].
        exists q. split; [exact Hpq|]. apply quals_of_In. exists t. split; [apply in_or_app; auto|exact Hq].
    - intros [q [Hpq Hq]]. apply quals_of_In in Hq. destruct Hq as [t [Ht Hq]]. apply in_app_or in Ht.
      assert (needs (strip_slice t) p) as Nd by (exists q; auto).
      destruct Ht as [Ht|Ht].
      + apply (fires_needs_ok _ _ (okS _ Ht)) in Nd. destruct Nd as [N [HN Hp]].
        exists N. split; [exact HN|]. apply uses_spec. left. exists t. auto.
      + apply (fires_unstripped _ _ (okU _ Ht) (clsU _ Ht)) in Nd. destruct Nd as [N [HN Hp]].
        exists N. split; [exact HN|]. apply uses_spec. right. exists t. auto.
  Qed.

  Lemma imports_In base w wpq std' ovs p : no_custom ovs ->
    In p (import_paths (std_set uses base w, pkg_set uses wpq std' ovs))
    <-> In p base \/ (p = "database/sql" /\ w = true) \/ (p = pq_path /\ wpq = true)
        \/ In p (map qual_path (quals_of (S ++ U))).
  Proof.
    intros Hno. unfold import_paths. simpl. rewrite in_app_iff, std_set_In, (pkg_set_In _ _ _ _ _ Hno), <- rule_uses.
    rewrite !orb_true_iff. split.
    - intros [[H|[[-> [H|H]]|[r [Hr [Hu <-]]]]]|[[-> [H|H]]|[-> H]]]; auto.
      + right; right; right. exists "sql.Null". split; [apply rules_In; auto|exact H].
      + right; right; right. exists (fst r). split; [apply rules_In; right; left; destruct r; exact Hr|exact Hu].
      + right; right; right. exists "pq.NullTime". split; [apply rules_In; auto|exact H].
      + right; right; right. exists "uuid.UUID". split; [apply rules_In; auto 6|exact H].
    - intros [H|[[-> H]|[[-> H]|[N [HN Hu]]]]].
      + left; left; exact H.
      + left; right; left; auto.
      + right; left; auto.
      + apply rules_In in HN. destruct HN as [[-> ->]|[HN|[[-> ->]|[-> ->]]]].
        * left; right; left; auto.
        * left; right; right. exists (N, p). auto.
        * right; left; auto.
        * right; right; auto.
  Qed.
End OneFile.

(** * the four kinds of files *)
Definition ok_value (v : gvalue) : bool := ok_typeb (gv_type v) && forallb ok_typeb (gv_fields v).
Definition ok_query (q : gquery) : bool := ok_value (gq_ret q) && ok_value (gq_arg q).
Definition ok_importer (i : gimporter) : bool :=
  forallb (forallb ok_typeb) (gi_structs i) && forallb ok_query (gi_queries i).

Lemma quals_of_app a b : quals_of (a ++ b) = quals_of a ++ quals_of b.
Proof. unfold quals_of. apply flat_map_app. Qed.

Lemma qual_path_consts :
  qual_path "context" = "context" /\ qual_path "fmt" = "fmt" /\ qual_path "sql" = "database/sql" /\ qual_path "pq" = pq_path.
Proof. vm_compute. repeat split. Qed.

Lemma db_exact i : imports_exact i "db.go" = true.
Proof.
  unfold imports_exact. change (imports_of i "db.go") with (db_imports i).
  change (file_uses i "db.go") with (["context"; "sql"] ++ (if gi_prepared i then ["fmt"] else [])).
  unfold db_imports. destruct (gi_prepared i); vm_compute; reflexivity.
Qed.

Lemma uses_type_spec structs N :
  uses_type structs N = true <-> exists t, In t (List.concat structs) /\ has_prefix (strip_slice t) N = true.
Proof.
  unfold uses_type. rewrite existsb_exists. split.
  - intros [fs [Hfs H]]. apply existsb_exists in H. destruct H as [t [Ht H]]. exists t. split; [|exact H].
    apply in_concat. exists fs. auto.
  - intros [t [Ht H]]. apply in_concat in Ht. destruct Ht as [fs [Hfs Ht]]. exists fs. split; [exact Hfs|].
    apply existsb_exists. exists t. auto.
Qed.

Lemma models_exact i :
  no_custom (gi_overrides i) -> forallb (forallb ok_typeb) (gi_structs i) = true -> imports_exact i "models.go" = true.
Proof.
  intros Hno Hok. unfold imports_exact. apply set_eq_str_iff. intros p.
  change (imports_of i "models.go") with (model_imports i).
  change (file_uses i "models.go") with ((if Nat.ltb 0 (gi_nenums i) then ["fmt"] else []) ++ quals_of (List.concat (gi_structs i))).
  unfold model_imports.
  set (uses := uses_type (gi_structs i)).
  assert (forall std', In p (import_paths (std_set uses [] false, pkg_set uses false std' (gi_overrides i)))
                       <-> In p (map qual_path (quals_of (List.concat (gi_structs i))))) as Core.
  { intros std'. rewrite (imports_In uses (List.concat (gi_structs i)) []); [| | | | |exact Hno].
    - rewrite app_nil_r. simpl. intuition; discriminate.
    - intros N. unfold uses. rewrite uses_type_spec. split; [auto|]. intros [H|[t [[] _]]]. exact H.
    - intros t Ht. apply in_concat in Ht. destruct Ht as [fs [Hfs Ht]].
      rewrite forallb_forall in Hok. specialize (Hok _ Hfs). rewrite forallb_forall in Hok. apply Hok, Ht.
    - intros t [].
    - intros t []. }
  rewrite map_app, in_app_iff.
  destruct (Nat.ltb 0 (gi_nenums i)).
  - unfold import_paths in *. simpl fst in *. simpl snd in *. rewrite in_app_iff, add_str_In.
    specialize (Core (add_str "fmt" (std_set uses [] false))). rewrite in_app_iff in Core.
    destruct qual_path_consts as [_ [Hf _]]. simpl map. rewrite Hf. simpl In. rewrite <- Core. intuition.
  - simpl map. simpl In. rewrite <- (Core (std_set uses [] false)). intuition.
Qed.

(** the types a query shows un-stripped to the importer (Ret.Type(), Arg.Type()) *)
Definition bare_types (q : gquery) : list string :=
  (if gq_has_ret q then [gv_type (gq_ret q)] else []) ++ (if gv_is_empty (gq_arg q) then [] else [gv_type (gq_arg q)]).
Definition struct_types (q : gquery) : list string := emitted_fields (gq_ret q) ++ emitted_fields (gq_arg q).

Lemma bare_types_ok qs t :
  forallb ok_query qs = true -> In t (flat_map bare_types qs) -> ok_typeb t = true.
Proof.
  intros Hok Ht. apply in_flat_map in Ht. destruct Ht as [q [Hq Ht]].
  rewrite forallb_forall in Hok. specialize (Hok _ Hq). unfold ok_query, ok_value in Hok.
  apply andb_true_iff in Hok. destruct Hok as [H1 H2]. apply andb_true_iff in H1, H2. destruct H1 as [H1 _], H2 as [H2 _].
  unfold bare_types in Ht. apply in_app_or in Ht. destruct Ht as [Ht|Ht].
  - destruct (gq_has_ret q); [destruct Ht as [<-|[]]; exact H1|destruct Ht].
  - destruct (gv_is_empty (gq_arg q)); [destruct Ht|destruct Ht as [<-|[]]; exact H2].
Qed.

Lemma struct_types_ok qs t :
  forallb ok_query qs = true -> In t (flat_map struct_types qs) -> ok_typeb t = true.
Proof.
  intros Hok Ht. apply in_flat_map in Ht. destruct Ht as [q [Hq Ht]].
  rewrite forallb_forall in Hok. specialize (Hok _ Hq). unfold ok_query, ok_value in Hok.
  apply andb_true_iff in Hok. destruct Hok as [H1 H2]. apply andb_true_iff in H1, H2. destruct H1 as [_ H1], H2 as [_ H2].
  rewrite forallb_forall in H1, H2.
  unfold struct_types, emitted_fields in Ht. apply in_app_or in Ht. destruct Ht as [Ht|Ht].
  - destruct (gv_emit (gq_ret q)); [apply H1, Ht|destruct Ht].
  - destruct (gv_emit (gq_arg q)); [apply H2, Ht|destruct Ht].
Qed.

Lemma has_ret_not_empty q : gq_has_ret q = true -> gv_is_empty (gq_ret q) = false.
Proof. unfold gq_has_ret. intros H. apply andb_true_iff in H. destruct H as [_ H]. destruct (gv_is_empty (gq_ret q)); [discriminate|reflexivity]. Qed.

Lemma bare_types_cls qs t :
  (forall q, In q qs -> query_in_slice_class q = false) -> In t (flat_map bare_types qs) ->
  (is_slice t && match type_qual t with Some _ => true | None => false end) = false.
Proof.
  intros Hc Ht. apply in_flat_map in Ht. destruct Ht as [q [Hq Ht]]. specialize (Hc _ Hq).
  unfold query_in_slice_class in Hc. apply orb_false_iff in Hc. destruct Hc as [Ha Hr].
  unfold bare_types in Ht. apply in_app_or in Ht. destruct Ht as [Ht|Ht].
  - destruct (gq_has_ret q) eqn:E; [|destruct Ht]. destruct Ht as [<-|[]]. simpl in Hr.
    unfold bare_qualified_slice in Hr. rewrite (has_ret_not_empty _ E) in Hr. simpl in Hr. exact Hr.
  - destruct (gv_is_empty (gq_arg q)) eqn:E; [destruct Ht|]. destruct Ht as [<-|[]].
    unfold bare_qualified_slice in Ha. rewrite E in Ha. simpl in Ha. exact Ha.
Qed.

Lemma iface_uses_spec qs N :
  iface_uses qs N = true <-> exists t, In t (flat_map bare_types qs) /\ has_prefix t N = true.
Proof.
  unfold iface_uses. rewrite existsb_exists. split.
  - intros [q [Hq H]]. apply orb_true_iff in H. destruct H as [H|H]; apply andb_true_iff in H; destruct H as [H1 H2].
    + exists (gv_type (gq_ret q)). split; [|exact H2]. apply in_flat_map. exists q. split; [exact Hq|].
      unfold bare_types. rewrite H1. simpl. auto.
    + exists (gv_type (gq_arg q)). split; [|exact H2]. apply in_flat_map. exists q. split; [exact Hq|].
      unfold bare_types. destruct (gv_is_empty (gq_arg q)); [discriminate|]. apply in_or_app. right. simpl. auto.
  - intros [t [Ht H]]. apply in_flat_map in Ht. destruct Ht as [q [Hq Ht]]. exists q. split; [exact Hq|].
    unfold bare_types in Ht. apply in_app_or in Ht. destruct Ht as [Ht|Ht].
    + destruct (gq_has_ret q); [|destruct Ht]. destruct Ht as [<-|[]]. rewrite H. reflexivity.
    + destruct (gv_is_empty (gq_arg q)); [destruct Ht|]. destruct Ht as [<-|[]]. rewrite H. simpl. apply orb_true_r.
Qed.

Lemma has_execresult_In qs : has_execresult qs = true <-> exists q, In q qs /\ gq_cmd q = ":execresult".
Proof.
  unfold has_execresult. rewrite existsb_exists. split; intros [q [Hq H]]; exists q; (split; [exact Hq|]);
    [apply String.eqb_eq, H|apply String.eqb_eq, H].
Qed.

Lemma iface_quals_In qs p :
  In p (map qual_path (flat_map iface_query_quals qs))
  <-> In p (map qual_path (quals_of (flat_map bare_types qs))) \/ (p = "database/sql" /\ has_execresult qs = true).
Proof.
  destruct qual_path_consts as [_ [_ [Hsql _]]].
  rewrite !in_map_iff. split.
  - intros [x [Hx Hin]]. apply in_flat_map in Hin. destruct Hin as [q [Hq Hin]].
    unfold iface_query_quals in Hin. rewrite !in_app_iff in Hin. destruct Hin as [Hin|[Hin|Hin]].
    + left. exists x. split; [exact Hx|]. apply quals_of_In in Hin. destruct Hin as [t [Ht Hq']]. apply quals_of_In. exists t. split; [|exact Hq'].
      apply in_flat_map. exists q. split; [exact Hq|]. unfold bare_types. apply in_or_app. right. exact Ht.
    + left. exists x. split; [exact Hx|]. apply quals_of_In in Hin. destruct Hin as [t [Ht Hq']]. apply quals_of_In. exists t. split; [|exact Hq'].
      apply in_flat_map. exists q. split; [exact Hq|]. unfold bare_types. apply in_or_app. left. exact Ht.
    + right. destruct (String.eqb (gq_cmd q) ":execresult") eqn:E; [|destruct Hin]. destruct Hin as [<-|[]].
      split; [congruence|]. apply has_execresult_In. exists q. split; [exact Hq|apply String.eqb_eq, E].
  - intros [[x [Hx Hin]]|[-> He]].
    + exists x. split; [exact Hx|]. apply quals_of_In in Hin. destruct Hin as [t [Ht Hq']].
      apply in_flat_map in Ht. destruct Ht as [q [Hq Ht]]. apply in_flat_map. exists q. split; [exact Hq|].
      unfold iface_query_quals. rewrite !in_app_iff. unfold bare_types in Ht. apply in_app_or in Ht. destruct Ht as [Ht|Ht].
      * right; left. apply quals_of_In. exists t. auto.
      * left. apply quals_of_In. exists t. auto.
    + apply has_execresult_In in He. destruct He as [q [Hq He]]. exists "sql". split; [exact Hsql|].
      apply in_flat_map. exists q. split; [exact Hq|]. unfold iface_query_quals. rewrite !in_app_iff. right; right.
      rewrite He. simpl. auto.
Qed.

Lemma querier_exact i :
  no_custom (gi_overrides i) -> forallb ok_query (gi_queries i) = true ->
  (forall q, In q (gi_queries i) -> query_in_slice_class q = false) ->
  imports_exact i "querier.go" = true.
Proof.
  intros Hno Hok Hcls. unfold imports_exact. apply set_eq_str_iff. intros p.
  change (imports_of i "querier.go") with (interface_imports i).
  change (file_uses i "querier.go") with ("context" :: flat_map iface_query_quals (gi_queries i)).
  unfold interface_imports.
  rewrite (imports_In (iface_uses (gi_queries i)) [] (flat_map bare_types (gi_queries i))); [| | | | |exact Hno].
  - simpl app. simpl map. destruct qual_path_consts as [Hc _]. rewrite Hc. simpl In. rewrite iface_quals_In.
    intuition; discriminate.
  - intros N. rewrite iface_uses_spec. split; [auto|]. intros [[t [[] _]]|H]. exact H.
  - intros t [].
  - intros t Ht. eapply bare_types_ok; eauto.
  - intros t Ht. eapply bare_types_cls; eauto.
Qed.

(** query files *)
Lemma fields_use_spec v N :
  fields_use v N = true <-> exists t, In t (emitted_fields v) /\ has_prefix (strip_slice t) N = true.
Proof.
  unfold fields_use, emitted_fields. destruct (gv_emit v); simpl.
  - apply existsb_exists.
  - split; [discriminate|]. intros [t [[] _]].
Qed.

Lemma fields_use_not_empty v N : fields_use v N = true -> gv_is_empty v = false.
Proof.
  intros H. apply fields_use_spec in H. destruct H as [t [Ht _]]. unfold emitted_fields in Ht.
  destruct (gv_emit v); [|destruct Ht]. unfold gv_fields in Ht. unfold gv_is_empty, gv_is_struct.
  destruct (gv_struct v); [|destruct Ht]. simpl. apply andb_false_r.
Qed.

Lemma query_uses_spec gq N :
  query_uses gq N = true <->
  (exists t, In t (flat_map struct_types gq) /\ has_prefix (strip_slice t) N = true)
  \/ (exists t, In t (flat_map bare_types gq) /\ has_prefix t N = true).
Proof.
  unfold query_uses. rewrite existsb_exists. split.
  - intros [q [Hq H]]. rewrite !orb_true_iff in H. destruct H as [[H|H]|H].
    + left. apply fields_use_spec in H. destruct H as [t [Ht H]]. exists t. split; [|exact H].
      apply in_flat_map. exists q. split; [exact Hq|]. unfold struct_types. apply in_or_app. auto.
    + right. apply andb_true_iff in H. destruct H as [H1 H2]. exists (gv_type (gq_ret q)). split; [|exact H2].
      apply in_flat_map. exists q. split; [exact Hq|]. unfold bare_types. rewrite H1. simpl. auto.
    + apply andb_true_iff in H. destruct H as [H1 H2]. unfold value_uses in H2. apply orb_true_iff in H2. destruct H2 as [H2|H2].
      * left. apply fields_use_spec in H2. destruct H2 as [t [Ht H]]. exists t. split; [|exact H].
        apply in_flat_map. exists q. split; [exact Hq|]. unfold struct_types. apply in_or_app. auto.
      * right. exists (gv_type (gq_arg q)). split; [|exact H2].
        apply in_flat_map. exists q. split; [exact Hq|]. unfold bare_types.
        destruct (gv_is_empty (gq_arg q)); [discriminate|]. apply in_or_app. right. simpl. auto.
  - intros [[t [Ht H]]|[t [Ht H]]]; apply in_flat_map in Ht; destruct Ht as [q [Hq Ht]]; exists q; (split; [exact Hq|]).
    + unfold struct_types in Ht. apply in_app_or in Ht. destruct Ht as [Ht|Ht].
      * assert (fields_use (gq_ret q) N = true) as F by (apply fields_use_spec; exists t; auto). rewrite F. reflexivity.
      * assert (fields_use (gq_arg q) N = true) as F by (apply fields_use_spec; exists t; auto).
        rewrite (fields_use_not_empty _ _ F). unfold value_uses. rewrite F. simpl. apply orb_true_r.
    + unfold bare_types in Ht. apply in_app_or in Ht. destruct Ht as [Ht|Ht].
      * destruct (gq_has_ret q); [|destruct Ht]. destruct Ht as [<-|[]]. rewrite H. simpl. rewrite orb_true_r. reflexivity.
      * destruct (gv_is_empty (gq_arg q)); [destruct Ht|]. destruct Ht as [<-|[]]. unfold value_uses. rewrite H. simpl.
        rewrite !orb_true_r. reflexivity.
Qed.

Lemma slice_scan_In gq : slice_scan gq = true <-> exists q, In q gq /\ uses_pq_array q = true.
Proof.
  unfold slice_scan, uses_pq_array. rewrite existsb_exists. split; intros [q [Hq H]]; exists q; (split; [exact Hq|]);
    rewrite orb_comm; exact H.
Qed.

Lemma query_quals_In gq p :
  In p (map qual_path (flat_map query_quals gq))
  <-> In p (map qual_path (quals_of (flat_map struct_types gq ++ flat_map bare_types gq)))
      \/ (p = pq_path /\ slice_scan gq = true) \/ (p = "database/sql" /\ has_execresult gq = true).
Proof.
  destruct qual_path_consts as [_ [_ [Hsql Hpq]]].
  rewrite !in_map_iff. split.
  - intros [x [Hx Hin]]. apply in_flat_map in Hin. destruct Hin as [q [Hq Hin]].
    unfold query_quals in Hin. rewrite !in_app_iff in Hin. destruct Hin as [Hin|[Hin|[Hin|Hin]]].
    + left. exists x. split; [exact Hx|]. apply quals_of_In in Hin. destruct Hin as [t [Ht Hq']]. apply quals_of_In. exists t. split; [|exact Hq'].
      unfold arg_types in Ht. apply in_app_or in Ht. apply in_or_app. destruct Ht as [Ht|Ht].
      * left. apply in_flat_map. exists q. split; [exact Hq|]. unfold struct_types. apply in_or_app. auto.
      * right. apply in_flat_map. exists q. split; [exact Hq|]. unfold bare_types. apply in_or_app. auto.
    + left. exists x. split; [exact Hx|]. apply quals_of_In in Hin. destruct Hin as [t [Ht Hq']]. apply quals_of_In. exists t. split; [|exact Hq'].
      unfold ret_types in Ht. apply in_app_or in Ht. apply in_or_app. destruct Ht as [Ht|Ht].
      * left. apply in_flat_map. exists q. split; [exact Hq|]. unfold struct_types. apply in_or_app. auto.
      * right. apply in_flat_map. exists q. split; [exact Hq|]. unfold bare_types. apply in_or_app. auto.
    + right; left. destruct (uses_pq_array q) eqn:E; [|destruct Hin]. destruct Hin as [<-|[]].
      split; [congruence|]. apply slice_scan_In. exists q. auto.
    + right; right. destruct (String.eqb (gq_cmd q) ":execresult") eqn:E; [|destruct Hin]. destruct Hin as [<-|[]].
      split; [congruence|]. apply has_execresult_In. exists q. split; [exact Hq|apply String.eqb_eq, E].
  - intros [[x [Hx Hin]]|[[-> He]|[-> He]]].
    + exists x. split; [exact Hx|]. apply quals_of_In in Hin. destruct Hin as [t [Ht Hq']].
      apply in_app_or in Ht. destruct Ht as [Ht|Ht]; apply in_flat_map in Ht; destruct Ht as [q [Hq Ht]];
        apply in_flat_map; exists q; (split; [exact Hq|]); unfold query_quals; rewrite !in_app_iff.
      * unfold struct_types in Ht. apply in_app_or in Ht. destruct Ht as [Ht|Ht].
        -- right; left. apply quals_of_In. exists t. split; [|exact Hq']. unfold ret_types. apply in_or_app. auto.
        -- left. apply quals_of_In. exists t. split; [|exact Hq']. unfold arg_types. apply in_or_app. auto.
      * unfold bare_types in Ht. apply in_app_or in Ht. destruct Ht as [Ht|Ht].
        -- right; left. apply quals_of_In. exists t. split; [|exact Hq']. unfold ret_types. apply in_or_app. auto.
        -- left. apply quals_of_In. exists t. split; [|exact Hq']. unfold arg_types. apply in_or_app. auto.
    + apply slice_scan_In in He. destruct He as [q [Hq He]]. exists "pq". split; [exact Hpq|].
      apply in_flat_map. exists q. split; [exact Hq|]. unfold query_quals. rewrite !in_app_iff. right; right; left.
      rewrite He. simpl. auto.
    + apply has_execresult_In in He. destruct He as [q [Hq He]]. exists "sql". split; [exact Hsql|].
      apply in_flat_map. exists q. split; [exact Hq|]. unfold query_quals. rewrite !in_app_iff. right; right; right.
      rewrite He. simpl. auto.
Qed.

Lemma query_file_exact i file :
  String.eqb file "db.go" = false -> String.eqb file "models.go" = false -> String.eqb file "querier.go" = false ->
  no_custom (gi_overrides i) -> forallb ok_query (gi_queries i) = true ->
  (forall q, In q (gi_queries i) -> query_in_slice_class q = false) ->
  imports_exact i file = true.
Proof.
  intros E1 E2 E3 Hno Hok Hcls. unfold imports_exact. apply set_eq_str_iff. intros p.
  unfold imports_of, file_uses. rewrite E1, E2, E3. unfold query_imports.
  set (gq := queries_of_file i file).
  assert (forall q, In q gq -> In q (gi_queries i)) as Sub by (intros q Hq; apply filter_In in Hq; tauto).
  assert (forallb ok_query gq = true) as Hok'.
  { apply forallb_forall. intros q Hq. rewrite forallb_forall in Hok. apply Hok, Sub, Hq. }
  rewrite (imports_In (query_uses gq) (flat_map struct_types gq) (flat_map bare_types gq)); [| | | | |exact Hno].
  - simpl map. destruct qual_path_consts as [Hc _]. rewrite Hc. simpl In. rewrite query_quals_In. intuition.
  - intros N. apply query_uses_spec.
  - intros t Ht. eapply struct_types_ok; eauto.
  - intros t Ht. eapply bare_types_ok; eauto.
  - intros t Ht. eapply bare_types_cls; [|exact Ht]. intros q Hq. apply Hcls, Sub, Hq.
Qed.

(** * every file *)
Theorem imports_needed_present i file :
  no_custom (gi_overrides i) -> ok_importer i = true ->
  (forall q, In q (gi_queries i) -> query_in_slice_class q = false) ->
  imports_exact i file = true.
Proof.
  intros Hno Hok Hcls. unfold ok_importer in Hok. apply andb_true_iff in Hok. destruct Hok as [Hs Hq].
  destruct (String.eqb file "db.go") eqn:E1; [apply String.eqb_eq in E1; subst; apply db_exact|].
  destruct (String.eqb file "models.go") eqn:E2; [apply String.eqb_eq in E2; subst; apply models_exact; assumption|].
  destruct (String.eqb file "querier.go") eqn:E3; [apply String.eqb_eq in E3; subst; apply querier_exact; assumption|].
  apply query_file_exact; assumption.
Qed.

(** the slice class is real: a bare []uuid.UUID result, nothing else in the file uses uuid *)
Definition slice_witness : gimporter :=
  mkGI [] 0 [mkGQ ":one" "query.sql" (mkGV false "ids" "[]uuid.UUID" None) (mkGV false "" "" None)] [] false.
Lemma imports_refuted_bare_slice :
  ok_importer slice_witness = true /\ imports_exact slice_witness "query.sql" = false.
Proof. vm_compute. split; reflexivity. Qed.

(** the hypotheses are satisfiable by a package with structs, enums, a params struct, a row struct,
    a model struct result, an :execresult and a slice parameter inside a struct *)
Definition imports_example : gimporter :=
  mkGI [["int32"; "sql.NullString"; "[]uuid.UUID"; "time.Time"]; ["json.RawMessage"; "Status"]] 1
       [mkGQ ":many" "query.sql" (mkGV false "i" "" (Some ("Author", ["int32"; "sql.NullString"; "[]uuid.UUID"; "time.Time"])))
                                 (mkGV true "arg" "" (Some ("ListParams", ["[]string"; "net.IP"])));
        mkGQ ":exec" "query.sql" (mkGV true "i" "" (Some ("TouchRow", ["sql.NullInt32"; "time.Time"]))) (mkGV false "id" "uuid.UUID" None);
        mkGQ ":execresult" "other.sql" (mkGV false "" "" None) (mkGV false "name" "string" None)] [] true.
Lemma imports_example_ok :
  ok_importer imports_example = true
  /\ forallb (fun q => negb (query_in_slice_class q)) (gi_queries imports_example) = true
  /\ import_paths (imports_of imports_example "query.sql")
     = ["context"; "database/sql"; "net"; "time"; "github.com/lib/pq"; "github.com/google/uuid"].
Proof. vm_compute. repeat split. Qed.

(** every Go type of the regenerated type tables, and every slice of one, is a type the theorem speaks about *)
Lemma table_types_ok :
  forallb (fun t => ok_typeb t && ok_typeb ("[]" +++ t)) table_go_types = true.
Proof. vm_compute. reflexivity. Qed.
