(** C06: a comparison with a QUALIFIED column, q.col OP $n, over base tables:
    sqlc resolves the qualifier to the relation the reference semantics
    resolves it to - an alias, or the own name of a table that has no alias. *)
From Coq Require Import Lia.
From Verif Require Import Model.Compile Spec.PgScope Proofs.ColumnsFacts Proofs.ParamTypeFacts Proofs.SelectRefine Proofs.ParamRefine.
Open Scope string_scope.
Open Scope list_scope.

(** association lists with pairwise distinct keys *)
Lemma assoc_in_nodup {A} (l : list (string * A)) k v :
  NoDup (map fst l) -> In (k, v) l -> assoc l k = Some v.
Proof.
  induction l as [|[k' v'] l IH]; intros Hn Hin; [destruct Hin|]. simpl in *.
  inversion Hn as [|? ? Hnotin Hn']; subst.
  destruct Hin as [E|Hin].
  - inversion E; subst. rewrite String.eqb_refl. reflexivity.
  - destruct (String.eqb k' k) eqn:Ek.
    + apply String.eqb_eq in Ek. subst. exfalso. apply Hnotin. apply (in_map fst) in Hin. exact Hin.
    + apply IH; assumption.
Qed.
Lemma assoc_notin {A} (l : list (string * A)) k : ~ In k (map fst l) -> assoc l k = None.
Proof.
  induction l as [|[k' v'] l IH]; intros H; [reflexivity|]. simpl in *.
  destruct (String.eqb k' k) eqn:Ek; [apply String.eqb_eq in Ek; subst; tauto|]. apply IH. tauto.
Qed.

Definition alias_pairs (rvs : list node) : list (string * tname) :=
  flat_map (fun rv => if is_nil (kid "Alias" rv) then []
                      else [(str_of "Aliasname" (kid "Alias" rv), table_of_rangevar rv)]) rvs.
Definition bare_of (rvs : list node) : list tname :=
  map table_of_rangevar (filter (fun rv => is_nil (kid "Alias" rv)) rvs).

Lemma alias_names_visible rvs k : In k (map fst (alias_pairs rvs)) -> In k (map visible_name rvs).
Proof.
  induction rvs as [|rv r IH]; simpl; [auto|]. unfold visible_name at 1.
  destruct (is_nil (kid "Alias" rv)); simpl; [intros H; right; apply IH, H|].
  intros [H|H]; [left; exact H|right; apply IH, H].
Qed.
Lemma alias_pairs_nodup rvs : NoDup (map visible_name rvs) -> NoDup (map fst (alias_pairs rvs)).
Proof.
  induction rvs as [|rv r IH]; simpl; intros Hn; [constructor|]. inversion Hn as [|? ? Hnotin Hn']; subst.
  unfold visible_name in Hnotin. destruct (is_nil (kid "Alias" rv)); simpl; [apply IH, Hn'|].
  constructor; [|apply IH, Hn']. intros Hc. apply Hnotin, alias_names_visible, Hc.
Qed.

Lemma bare_names_visible rvs k : In k (map tn_name (bare_of rvs)) -> In k (map visible_name rvs).
Proof.
  unfold bare_of. induction rvs as [|rv r IH]; simpl; [auto|]. unfold visible_name at 1.
  destruct (is_nil (kid "Alias" rv)); simpl; [|intros H; right; apply IH, H].
  intros [H|H]; [left; exact H|right; apply IH, H].
Qed.
Lemma bare_nodup rvs : NoDup (map visible_name rvs) -> NoDup (map tn_name (bare_of rvs)).
Proof.
  unfold bare_of. induction rvs as [|rv r IH]; simpl; intros Hn; [constructor|]. inversion Hn as [|? ? Hnotin Hn']; subst.
  unfold visible_name in Hnotin. destruct (is_nil (kid "Alias" rv)); simpl; [|apply IH, Hn'].
  constructor; [|apply IH, Hn']. intros Hc. apply Hnotin. apply (bare_names_visible r). exact Hc.
Qed.

Lemma find_first_nodup (l : list tname) q t :
  NoDup (map tn_name l) -> In t l -> tn_name t = q ->
  find_first (fun x => String.eqb (tn_name x) q) l = Some t.
Proof.
  induction l as [|x l IH]; intros Hn Hin Hq; [destruct Hin|]. simpl in *.
  inversion Hn as [|? ? Hnotin Hn']; subst.
  destruct Hin as [->|Hin]; [rewrite String.eqb_refl; reflexivity|].
  destruct (String.eqb (tn_name x) (tn_name t)) eqn:E.
  - apply String.eqb_eq in E. exfalso. apply Hnotin. rewrite E. apply in_map, Hin.
  - apply IH; auto.
Qed.

(** the search list sqlc derives from a qualifier that IS a visible relation name *)
Theorem qualifier_search rvs rv q :
  NoDup (map visible_name rvs) -> In rv rvs -> visible_name rv = q ->
  (match assoc (rev (alias_pairs rvs)) q with
   | Some orig => [orig]
   | None => match find_first (fun t => String.eqb (tn_name t) q) (rev (bare_of rvs)) with
             | Some t => [t]
             | None => map table_of_rangevar rvs
             end
   end) = [table_of_rangevar rv].
Proof.
  intros Hn Hin Hq. unfold visible_name in Hq.
  destruct (is_nil (kid "Alias" rv)) eqn:Ea.
  - (* own name *)
    assert (Hno : ~ In q (map fst (rev (alias_pairs rvs)))).
    { rewrite map_rev, <- in_rev. intros Hc.
      (* an alias q elsewhere would be a second relation visible as q *)
      clear -Hn Hin Hq Ea Hc. induction rvs as [|x r IH]; [destruct Hin|]. simpl in *.
      inversion Hn as [|? ? Hnotin Hn']; subst.
      destruct Hin as [->|Hin].
      + rewrite Ea in Hc. simpl in Hc. apply Hnotin. unfold visible_name at 1. rewrite Ea.
        apply alias_names_visible, Hc.
      + destruct (is_nil (kid "Alias" x)) eqn:Ex; simpl in Hc.
        * apply IH; auto.
        * destruct Hc as [Hc|Hc]; [|apply IH; auto].
          apply Hnotin. unfold visible_name at 1. rewrite Ex. rewrite Hc.
          apply in_map_iff. exists rv. split; [unfold visible_name; rewrite Ea; reflexivity|exact Hin]. }
    rewrite (assoc_notin _ _ Hno).
    rewrite (find_first_nodup (rev (bare_of rvs)) q (table_of_rangevar rv)); [reflexivity| | |].
    + rewrite map_rev. apply NoDup_rev, bare_nodup, Hn.
    + rewrite <- in_rev. unfold bare_of. apply in_map, filter_In. split; assumption.
    + unfold table_of_rangevar. exact Hq.
  - (* alias *)
    rewrite (assoc_in_nodup (rev (alias_pairs rvs)) q (table_of_rangevar rv)); [reflexivity| |].
    + rewrite map_rev. apply NoDup_rev, alias_pairs_nodup, Hn.
    + rewrite <- in_rev. unfold alias_pairs. apply in_flat_map. exists rv. split; [exact Hin|].
      rewrite Ea. left. rewrite Hq. reflexivity.
Qed.

Lemma spec_names c : forall rvs sc, spec_scope c rvs = POk sc -> map si_name sc = map visible_name rvs.
Proof.
  induction rvs as [|rv r IH]; intros sc Hs; cbn [spec_scope] in Hs; [inversion Hs; reflexivity|].
  destruct (pg_relation c [] rv) as [cols|e1]; cbn [pbind] in Hs; [|discriminate].
  destruct (spec_scope c r) as [rest|e2]; cbn [pbind] in Hs; [|discriminate].
  inversion Hs; subst. simpl. f_equal. apply IH. reflexivity.
Qed.

Lemma spec_item c : forall rvs sc rv q,
  spec_scope c rvs = POk sc -> NoDup (map visible_name rvs) -> In rv rvs -> visible_name rv = q ->
  exists cols, pg_relation c [] rv = POk cols /\ filter (fun it => String.eqb (si_name it) q) sc = [mkSI q cols].
Proof.
  induction rvs as [|x r IH]; intros sc rv q Hs Hn Hin Hq; [destruct Hin|]. cbn [spec_scope] in Hs.
  destruct (pg_relation c [] x) as [cols|e1] eqn:Ep; cbn [pbind] in Hs; [|discriminate].
  destruct (spec_scope c r) as [rest|e2] eqn:Er; cbn [pbind] in Hs; [|discriminate].
  inversion Hs; subst. inversion Hn as [|? ? Hnotin Hn']; subst. cbn [filter si_name].
  destruct Hin as [->|Hin].
  - rewrite String.eqb_refl. exists cols. split; [exact Ep|]. f_equal.
    (* no other item carries the name *)
    assert (Hnone : forall l, ~ In (visible_name rv) (map si_name l) -> filter (fun it => String.eqb (si_name it) (visible_name rv)) l = []).
    { induction l as [|y l IHl]; simpl; intros H; [reflexivity|].
      destruct (String.eqb (si_name y) (visible_name rv)) eqn:E; [apply String.eqb_eq in E; exfalso; apply H; left; exact E|].
      apply IHl. intros Hc. apply H. right. exact Hc. }
    apply Hnone. rewrite (spec_names c r rest Er). exact Hnotin.
  - destruct (String.eqb (visible_name x) (visible_name rv)) eqn:E.
    + apply String.eqb_eq in E. exfalso. apply Hnotin. rewrite E. apply in_map, Hin.
    + eapply IH; eauto.
Qed.

Section CompareQ.
  Variables (e : env) (rvs : list node).
  Let c := env_cat e.
  Let tables := map table_of_rangevar rvs.
  Hypothesis Hcols : forall t tb, cat_get_table c t = Some tb -> NoDup (map col_name (tab_cols tb)).
  Hypothesis Hnd : NoDup (map visible_name rvs).

  (** q.col OP $n where q is the visible name of a relation in scope *)
  Theorem compare_qualified_refines sc dt names r n lref rest rv q key :
    spec_scope c rvs = POk sc -> In rv rvs -> visible_name rv = q -> q <> "" ->
    pr_parent r = PNode n -> kind_of n = "A_Expr" ->
    search (is_kind "ColumnRef") (kid "Lexpr" n) = lref :: rest ->
    string_items (kid "Fields" lref) = [q; key] ->
    match resolve_qualified [sc] q key with
    | POk x => exists col, src_col x = Some col /\
                 resolve_one e tables (bare_of rvs) (rev (alias_pairs rvs)) dt names r
                 = Ok [param_of_column names (ref_number r) key (table_of_rangevar rv) col]
    | PErr _ => exists m, resolve_one e tables (bare_of rvs) (rev (alias_pairs rvs)) dt names r = Err m
    end.
  Proof.
    intros Hs Hin Hq Hne Hp Hk Hl Hf.
    destruct (spec_item c rvs sc rv q Hs Hnd Hin Hq) as [cols [Hrel Hitem]].
    pose proof (one_table e rvs Hcols rv key cols Hin Hrel) as Hone. fold c tables in Hone.
    pose proof (qualifier_search rvs rv q Hnd Hin Hq) as Hsearch.
    (* sqlc's side *)
    unfold resolve_one. rewrite Hp, Hk.
    change (String.eqb "A_Expr" "A_Expr") with true. cbv iota. rewrite Hl, Hf. cbv zeta iota beta.
    assert (Eq : String.eqb q "" = false) by (apply String.eqb_neq; exact Hne). rewrite Eq.
    fold tables in Hsearch. rewrite Hsearch. cbn [flat_map]. rewrite app_nil_r.
    (* the reference semantics' side *)
    cbn [resolve_qualified]. rewrite Hitem. cbn [si_cols].
    (* the columns called key of that relation *)
    assert (Hsrc : Forall (fun x => exists col, src_col x = Some col) cols).
    { pose proof (scope_cols_have_src e rvs sc Hs) as H. fold c in H.
      assert (Hi : In (mkSI q cols) sc).
      { assert (Hi' : In (mkSI q cols) (filter (fun it => String.eqb (si_name it) q) sc)) by (rewrite Hitem; left; reflexivity).
        apply filter_In in Hi'. tauto. }
      rewrite Forall_forall in H. exact (H _ Hi). }
    assert (Hle : (List.length (filter (fun x => String.eqb (sc_name x) key) cols) <= 1)%nat).
    { (* distinct column names of the catalog table *)
      unfold pg_relation in Hrel. cbn [assoc_s] in Hrel.
      assert (Hns : (if String.eqb (str_of "Schemaname" rv) "" then None else None) = @None (list sccol)) by (destruct (String.eqb _ ""); reflexivity).
      rewrite Hns in Hrel.
      destruct (get_schema c (if String.eqb (str_of "Schemaname" rv) "" then cat_default c else str_of "Schemaname" rv)) as [s|] eqn:Es; [|discriminate].
      destruct (get_table s (str_of "Relname" rv)) as [tb|] eqn:Et; [|discriminate].
      inversion Hrel; subst cols. apply ScopeRefine.filter_nodup_le1. rewrite map_map. cbn [sc_name].
      apply (Hcols (table_of_rangevar rv) tb). unfold cat_get_table, table_of_rangevar. cbn [tn_schema tn_name]. rewrite Es. exact Et. }
    unfold c in Hone |- *.
    destruct (filter (fun x => String.eqb (sc_name x) key) cols) as [|x [|x2 A]] eqn:Ef; simpl in Hle; try lia.
    - cbn [flat_map] in Hone.
      destruct (typemap_lookup (env_cat e) tables (tn_schema (table_of_rangevar rv)) (tn_name (table_of_rangevar rv)) key); [discriminate|].
      unfold err_at. destruct (loc_of lref =? 0)%Z; eauto.
    - assert (Hx : exists col, src_col x = Some col).
      { rewrite Forall_forall in Hsrc. apply Hsrc.
        assert (Hi : In x (filter (fun x => String.eqb (sc_name x) key) cols)) by (rewrite Ef; left; reflexivity).
        apply filter_In in Hi. tauto. }
      destruct Hx as [col Hcol]. cbn [flat_map] in Hone. rewrite Hcol in Hone. cbn [app] in Hone.
      destruct (typemap_lookup (env_cat e) tables (tn_schema (table_of_rangevar rv)) (tn_name (table_of_rangevar rv)) key) as [col'|]; [|discriminate].
      injection Hone as <-. exists col'. split; [exact Hcol|reflexivity].
  Qed.
End CompareQ.
