(** parse_query as a whole: an accepted query passed every stage. *)
From Verif Require Import Model.Compile Judge.JQ Proofs.ColumnsFacts.
Open Scope string_scope.
Open Scope list_scope.

(** every stage of parseQuery succeeded, and the query is assembled from the
    stages' results *)
Theorem parse_query_inv e raw src positional q :
  parse_query e raw src positional = Ok (Some q) ->
  let raw2 := fst (fst (named_parameters (env_engine e) raw)) in
  let names := snd (fst (named_parameters (env_engine e) raw)) in
  let stmt2 := kid "Stmt" raw2 in
  exists raw_sql refs0 qc ex expanded,
    walk_ok raw = true /\ param_style_ok raw = true /\ param_ref_gap raw = None /\
    supported_stmt (kind_of (kid "Stmt" raw)) = true /\
    pluck src (int_of "StmtLocation" raw) (int_of "StmtLen" raw) = Ok raw_sql /\
    meta_parse (trim_space raw_sql) (comment_syntax_of (env_engine e)) = Ok (q_name q, q_cmd q) /\
    cmd_ok (kid "Stmt" raw) (q_cmd q) = true /\
    find_parameters stmt2 = Ok refs0 /\
    resolve_catalog_refs e (search (is_kind "RangeVar") stmt2)
      (if positional then positional_refs refs0 else sort_refs (unique_refs [] refs0)) names = Ok (q_params q) /\
    build_query_catalog (fuel_of raw) e stmt2 = Ok qc /\
    output_columns (fuel_of raw) e qc stmt2 = Ok (q_columns q) /\
    expand (fuel_of raw) e qc raw2 = Ok ex /\
    strip_comments expanded = Ok (q_sql q, q_comments q).
Proof.
  unfold parse_query. intros H.
  destruct (walk_ok raw); [|discriminate]. cbn [negb] in H.
  destruct (param_style_ok raw); [|discriminate]. cbn [negb] in H.
  destruct (param_ref_gap raw) eqn:Eg; [discriminate|].
  destruct (negb (is_kind "RawStmt" raw)); [discriminate|].
  cbv zeta in H.
  destruct (supported_stmt (kind_of (kid "Stmt" raw))); [|discriminate]. cbn [negb] in H.
  destruct (is_kind "InsertStmt" (kid "Stmt" raw) && negb (insert_stmt_ok (kid "Stmt" raw))); [discriminate|].
  match type of H with bind ?x _ = _ => destruct x as [raw_sql|m|m] eqn:Epl; cbn [bind] in H; try discriminate end.
  destruct (String.eqb raw_sql ""); [discriminate|].
  match type of H with bind ?x _ = _ => destruct x as [u|m|m]; cbn [bind] in H; try discriminate end.
  match type of H with bind ?x _ = _ => destruct x as [[name cmd]|m|m] eqn:Em; cbn [bind] in H; try discriminate end.
  destruct (cmd_ok (kid "Stmt" raw) cmd) eqn:Ec; [|discriminate]. cbn [negb] in H.
  destruct (named_parameters (env_engine e) raw) as [[raw2 names] edits0] eqn:En. cbn [fst snd].
  match type of H with bind ?x _ = _ => destruct x as [refs0|m|m] eqn:Ef; cbn [bind] in H; try discriminate end.
  match type of H with bind ?x _ = _ => destruct x as [params|m|m] eqn:Ep; cbn [bind] in H; try discriminate end.
  match type of H with bind ?x _ = _ => destruct x as [qc|m|m] eqn:Eq; cbn [bind] in H; try discriminate end.
  match type of H with bind ?x _ = _ => destruct x as [cols|m|m] eqn:Eo; cbn [bind] in H; try discriminate end.
  match type of H with bind ?x _ = _ => destruct x as [ex|m|m] eqn:Ex; cbn [bind] in H; try discriminate end.
  match type of H with bind ?x _ = _ => destruct x as [expanded|m|m] eqn:Emu; cbn [bind] in H; try discriminate end.
  match type of H with bind ?x _ = _ => destruct x as [sc|m|m] eqn:Es; cbn [bind] in H; try discriminate end.
  inversion H; subst. cbn [q_name q_cmd q_params q_columns q_sql q_comments].
  exists raw_sql, refs0, qc, ex, expanded. destruct sc as [s c]. cbn [fst snd]. repeat split; auto.
Qed.

(** outputColumns at the top of a statement = sourceTables, then the targets *)
Lemma output_columns_unfold f e ctes n :
  output_columns (S f) e ctes n =
  (do tables <- source_tables f e ctes n;
   match stmt_targets n with
   | None => Err "outputColumns: unsupported node type"
   | Some targets =>
       if String.eqb (kind_of n) "SelectStmt" && Nat.eqb (List.length (items targets)) 0 && negb (is_nil (kid "Larg" n))
       then output_columns f e ctes (kid "Larg" n)
       else match items_opt targets with
            | None => Panic "nil dereference: targets.Items"
            | Some ts => targets_columns e tables ts
            end
   end).
Proof. reflexivity. Qed.

Lemma targets_columns_each e tables ts cols :
  targets_columns e tables ts = Ok cols ->
  forall t, In t ts -> is_kind "ResTarget" t = true -> exists a, target_columns e tables t = Ok a.
Proof.
  revert cols. induction ts as [|x ts IH]; intros cols H t Hin Hk; [destruct Hin|].
  cbn [targets_columns] in H.
  destruct (is_kind "ResTarget" x) eqn:Ex.
  - destruct (target_columns e tables x) as [a|m|m] eqn:Ea; cbn [bind] in H; try discriminate.
    destruct (targets_columns e tables ts) as [b|m|m] eqn:Eb; cbn [bind] in H; try discriminate.
    destruct Hin as [->|Hin]; [eauto|]. eapply IH; eauto.
  - destruct Hin as [->|Hin]; [congruence|]. eapply IH; eauto.
Qed.

Lemma target_plain_ref e tables res :
  kind_of (kid "Val" res) = "ColumnRef" -> has_star_ref (kid "Val" res) = false ->
  target_columns e tables res = output_column_refs res tables (kid "Val" res).
Proof.
  intros Hk Hs. unfold target_columns. rewrite Hk, Hs.
  replace (String.eqb "ColumnRef" "A_Expr") with false by reflexivity.
  replace (String.eqb "ColumnRef" "CaseExpr") with false by reflexivity.
  replace (String.eqb "ColumnRef" "CoalesceExpr") with false by reflexivity.
  replace (String.eqb "ColumnRef" "ColumnRef") with true by reflexivity. reflexivity.
Qed.

(** C10, accepting direction at the top query level: if outputColumns accepts
    the statement then the relations of its from-list all resolved
    ([source_tables] succeeded) and EVERY plain column reference of its result /
    RETURNING list has exactly one candidate among the columns in scope. *)
Theorem accepted_targets_resolve f e ctes n cols :
  output_columns (S f) e ctes n = Ok cols ->
  exists tables, source_tables f e ctes n = Ok tables /\
    forall targets res alias name,
      stmt_targets n = Some targets -> In res (items targets) ->
      is_kind "ResTarget" res = true -> kind_of (kid "Val" res) = "ColumnRef" ->
      has_star_ref (kid "Val" res) = false ->
      ref_name_alias (kid "Val" res) = Some (alias, name) ->
      List.length (ref_candidates tables alias name) = 1%nat.
Proof.
  rewrite output_columns_unfold. intros H.
  destruct (source_tables f e ctes n) as [tables|m|m] eqn:Es; cbn [bind] in H; try discriminate.
  exists tables. split; [reflexivity|].
  intros targets res alias name Ht Hin Hk Hv Hstar Hra. rewrite Ht in H.
  destruct (items targets) as [|x xs] eqn:Ei; [destruct Hin|].
  replace (Nat.eqb (List.length (x :: xs)) 0) with false in H by reflexivity.
  rewrite Bool.andb_false_r in H. cbn [andb] in H.
  destruct targets as [|its|]; cbn [items] in Ei; try discriminate. subst its. cbn [items_opt] in H.
  destruct (targets_columns_each _ _ _ _ H res Hin Hk) as [a Ha].
  rewrite (target_plain_ref _ _ _ Hv Hstar) in Ha.
  pose proof (column_ref_decision res tables (kid "Val" res) alias name Hra) as D.
  rewrite Ha in D. tauto.
Qed.

(** ... and for a whole accepted query *)
Theorem accepted_query_targets_resolve e raw src positional q :
  parse_query e raw src positional = Ok (Some q) ->
  let stmt2 := kid "Stmt" (fst (fst (named_parameters (env_engine e) raw))) in
  exists qc tables, build_query_catalog (fuel_of raw) e stmt2 = Ok qc /\
    source_tables (node_size raw) e qc stmt2 = Ok tables /\
    forall targets res alias name,
      stmt_targets stmt2 = Some targets -> In res (items targets) ->
      is_kind "ResTarget" res = true -> kind_of (kid "Val" res) = "ColumnRef" ->
      has_star_ref (kid "Val" res) = false ->
      ref_name_alias (kid "Val" res) = Some (alias, name) ->
      List.length (ref_candidates tables alias name) = 1%nat.
Proof.
  intros H. destruct (parse_query_inv _ _ _ _ _ H) as (raw_sql & refs0 & qc & ex & expanded & I).
  decompose [and] I. clear I. intros stmt2.
  match goal with Ho : output_columns (fuel_of raw) _ _ _ = Ok _ |- _ =>
    unfold fuel_of in Ho; destruct (accepted_targets_resolve _ _ _ _ _ Ho) as [tables [Hs Hall]] end.
  exists qc, tables. repeat split; auto.
Qed.

(** rejecting direction: a plain result reference without exactly one candidate
    makes outputColumns fail (so the query yields no code) *)
Theorem unresolved_target_rejects f e ctes n tables targets res alias name :
  source_tables f e ctes n = Ok tables ->
  stmt_targets n = Some targets -> In res (items targets) ->
  is_kind "ResTarget" res = true -> kind_of (kid "Val" res) = "ColumnRef" ->
  has_star_ref (kid "Val" res) = false ->
  ref_name_alias (kid "Val" res) = Some (alias, name) ->
  List.length (ref_candidates tables alias name) <> 1%nat ->
  forall cols, output_columns (S f) e ctes n <> Ok cols.
Proof.
  intros Hs Ht Hin Hk Hv Hstar Hra Hne cols H.
  destruct (accepted_targets_resolve _ _ _ _ _ H) as [tables' [Hs' Hall]].
  rewrite Hs in Hs'. inversion Hs'; subst tables'.
  apply Hne. eapply Hall; eauto.
Qed.

(** the relations a statement reads from / writes to *)
Definition source_items (n : node) : option (list node) :=
  let k := kind_of n in
  if String.eqb k "DeleteStmt" || String.eqb k "InsertStmt" then Some [kid "Relation" n]
  else if String.eqb k "SelectStmt" then Some (from_items (kid "FromClause" n))
  else if String.eqb k "TruncateStmt" then Some (search (is_kind "RangeVar") (kid "Relations" n))
  else if String.eqb k "UpdateStmt" then
    match items_opt (kid "FromClause" n) with Some l => Some (l ++ [kid "Relation" n]) | None => None end
  else None.

(** if sourceTables accepts, every relation named in the statement exists -
    as a CTE of the statement or as a table of the catalog *)
Theorem accepted_relations_exist f e ctes n tables :
  source_tables f e ctes n = Ok tables ->
  exists its, source_items n = Some its /\
    forall it, In it its -> is_kind "RangeSubselect" it = false -> is_kind "RangeVar" it = true ->
      exists t, qc_get_table e ctes (table_of_rangevar it) = Ok t.
Proof.
  unfold source_tables, source_items. cbv zeta.
  set (loop := fix go (l : list node) : result (list qtable) := _).
  assert (L : forall l ts, loop l = Ok ts ->
            forall it, In it l -> is_kind "RangeSubselect" it = false -> is_kind "RangeVar" it = true ->
              exists t, qc_get_table e ctes (table_of_rangevar it) = Ok t).
  { induction l as [|x l IH]; intros ts H it Hin Hns Hrv; [destruct Hin|].
    unfold loop in H. cbn [kid] in H. fold loop in H.
    destruct (is_kind "RangeSubselect" x) eqn:Ex.
    - destruct Hin as [->|Hin]; [congruence|].
      destruct (output_columns f e ctes (kid "Subquery" x)) as [c|m|m]; cbn [bind] in H; try discriminate.
      destruct (is_nil (kid "Alias" x)); [discriminate|].
      destruct (loop l) as [r|m|m] eqn:El; cbn [bind] in H; try discriminate. eapply IH; eauto.
    - destruct (is_kind "RangeVar" x) eqn:Er; [|discriminate].
      destruct (qc_get_table e ctes (table_of_rangevar x)) as [t|m|m] eqn:Eq; cbn [bind] in H; try discriminate.
      destruct (loop l) as [r|m|m] eqn:El; cbn [bind] in H; try discriminate.
      destruct Hin as [->|Hin]; [eauto|]. eapply IH; eauto. }
  intros H.
  destruct (String.eqb (kind_of n) "DeleteStmt" || String.eqb (kind_of n) "InsertStmt").
  { cbn [bind] in H. eexists; split; [reflexivity|]. eapply L; eauto. }
  destruct (String.eqb (kind_of n) "SelectStmt").
  { cbn [bind] in H. eexists; split; [reflexivity|]. eapply L; eauto. }
  destruct (String.eqb (kind_of n) "TruncateStmt").
  { cbn [bind] in H. eexists; split; [reflexivity|]. eapply L; eauto. }
  destruct (String.eqb (kind_of n) "UpdateStmt"); [|discriminate].
  destruct (items_opt (kid "FromClause" n)) as [l|]; [|discriminate].
  cbn [bind] in H. eexists; split; [reflexivity|]. eapply L; eauto.
Qed.

(** a relation resolves iff a CTE (for an unqualified name) or a catalog table of that name exists *)
Theorem relation_resolves_iff e ctes rel :
  (exists t, qc_get_table e ctes rel = Ok t) <->
  ((tn_schema rel = "" /\ assoc ctes (tn_name rel) <> None) \/ cat_get_table (env_cat e) rel <> None).
Proof.
  unfold qc_get_table. destruct (String.eqb (tn_schema rel) "") eqn:Es.
  - apply String.eqb_eq in Es. destruct (assoc ctes (tn_name rel)) as [t|].
    + split; [intros _; left; split; [exact Es|discriminate]|eauto].
    + destruct (cat_get_table (env_cat e) rel) as [t|].
      * split; [intros _; right; discriminate|eauto].
      * split; [intros [t H]; discriminate|intros [[_ H]|H]; congruence].
  - apply String.eqb_neq in Es. destruct (cat_get_table (env_cat e) rel) as [t|].
    + split; [intros _; right; discriminate|eauto].
    + split; [intros [t H]; discriminate|intros [[H _]|H]; congruence].
Qed.
