(** findParameters never panics on a tree in which every INSERT ... SELECT / VALUES carries its
    TargetList and ValuesLists lists (the parsers always fill them in; the check evaluates the
    predicate on every tree they produce) *)
From Verif Require Import Model.Compile Proofs.NoPanicFacts Proofs.ResolveNoPanic.
Open Scope string_scope.
Open Scope list_scope.

Section NodeInd.
  Variable P : node -> Prop.
  Hypothesis HNil : P Nil.
  Hypothesis HList : forall l, Forall P l -> P (NList l).
  Hypothesis HNode : forall k s i kids, Forall (fun p : string * node => P (snd p)) kids -> P (Node k s i kids).
  Fixpoint node_ind' (n : node) : P n :=
    match n with
    | Nil => HNil
    | NList l => HList l ((fix go (l : list node) : Forall P l :=
                             match l with [] => Forall_nil _ | x :: r => Forall_cons x (node_ind' x) (go r) end) l)
    | Node k s i kids =>
        HNode k s i kids ((fix go (l : list (string * node)) : Forall (fun p : string * node => P (snd p)) l :=
                             match l with [] => Forall_nil _ | p :: r => Forall_cons p (node_ind' (snd p)) (go r) end) kids)
    end.
End NodeInd.

Lemma insert_pairs_np cols rel : forall vals i unwrap acc, no_panic (insert_pairs cols rel i vals unwrap acc).
Proof.
  induction vals as [|v rest IH]; intros i unwrap acc; cbn [insert_pairs]; [exact I|].
  destruct (is_kind "ParamRef" (if unwrap then if is_kind "ResTarget" v then kid "Val" v else Nil else v)); [|apply IH].
  destruct (nth_node cols i); apply IH.
Qed.

Lemma insert_rows_np cols rel : forall rows acc, no_panic (insert_rows cols rel rows acc).
Proof.
  induction rows as [|r rest IH]; intro acc; cbn [insert_rows]; [exact I|].
  destruct (items_opt r); [|apply IH].
  apply no_panic_bind; [apply insert_pairs_np | intro; apply IH].
Qed.

Lemma visit_param_np st n acc : insert_ok n = true -> no_panic (visit_param st n acc).
Proof.
  intro H. unfold visit_param. cbv zeta.
  destruct (String.eqb (kind_of n) "A_Expr" || String.eqb (kind_of n) "FuncCall" || String.eqb (kind_of n) "ResTarget" || String.eqb (kind_of n) "TypeCast"); [exact I|].
  destruct (String.eqb (kind_of n) "InsertStmt") eqn:Ek.
  - unfold insert_ok, is_kind in H. rewrite Ek in H. cbn [andb] in H.
    destruct (is_kind "SelectStmt" (kid "SelectStmt" n)) eqn:Es; [|exact I].
    unfold is_kind in Es. rewrite Es in H.
    destruct (items_opt (kid "TargetList" (kid "SelectStmt" n))) as [tl|]; [|discriminate].
    destruct (items_opt (kid "ValuesLists" (kid "SelectStmt" n))) as [vl|]; [|discriminate].
    apply no_panic_bind; [apply insert_pairs_np|]. intro a1.
    apply no_panic_bind; [apply insert_rows_np|]. intro a2. exact I.
  - repeat match goal with
           | |- no_panic (if ?b then _ else _) => destruct b
           | |- no_panic (Ok _) => exact I
           | |- no_panic (match ?x with _ => _ end) => destruct x
           end.
Qed.

Lemma forallb_app_true {A} (f : A -> bool) l1 l2 : forallb f (l1 ++ l2) = true -> forallb f l1 = true /\ forallb f l2 = true.
Proof. rewrite forallb_app. apply Bool.andb_true_iff. Qed.

Theorem walk_params_no_panic : forall n st acc, inserts_ok n = true -> no_panic (walk_params st n acc).
Proof.
  induction n as [|l IHl|k s i kids IHk] using node_ind'; intros st acc H.
  - cbn [walk_params]. pose proof (visit_param_np st Nil acc eq_refl) as Hv.
    destruct (visit_param st Nil acc) as [[[st'|] acc']|m|m]; try exact I. destruct Hv.
  - unfold inserts_ok in H. cbn [preorder forallb] in H. apply Bool.andb_true_iff in H. destruct H as [H0 Hk].
    cbn [walk_params]. pose proof (visit_param_np st (NList l) acc H0) as Hv.
    destruct (visit_param st (NList l) acc) as [[[st'|] acc']|m|m]; try exact I; [|destruct Hv].
    clear Hv H0. revert acc'. induction l as [|x r IHr]; intro acc'; [exact I|].
    inversion IHl as [|? ? Hx Hr]; subst.
    apply forallb_app_true in Hk. destruct Hk as [Hk1 Hk2].
    pose proof (Hx st' acc' Hk1) as Hw. destruct (walk_params st' x acc') as [a|m|m]; [|exact I|destruct Hw].
    apply IHr; assumption.
  - unfold inserts_ok in H. cbn [preorder forallb] in H. apply Bool.andb_true_iff in H. destruct H as [H0 Hk].
    cbn [walk_params]. pose proof (visit_param_np st (Node k s i kids) acc H0) as Hv.
    destruct (visit_param st (Node k s i kids) acc) as [[[st'|] acc']|m|m]; try exact I; [|destruct Hv].
    clear Hv H0. revert acc'. induction kids as [|[f x] r IHr]; intro acc'; [exact I|].
    inversion IHk as [|? ? Hx Hr]; subst. cbn [snd] in Hx.
    destruct (walk_visible k f) eqn:Ev.
    + apply forallb_app_true in Hk. destruct Hk as [Hk1 Hk2].
      pose proof (Hx st' acc' Hk1) as Hw. destruct (walk_params st' x acc') as [a|m|m]; [|exact I|destruct Hw].
      apply IHr; assumption.
    + apply IHr; assumption.
Qed.

Theorem find_parameters_no_panic root : inserts_ok root = true -> no_panic (find_parameters root).
Proof.
  intro H. unfold find_parameters. apply no_panic_bind; [apply walk_params_no_panic; exact H | intro; exact I].
Qed.
