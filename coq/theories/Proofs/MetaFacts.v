(** Annotation parsing and command validation (property C11). *)
From Verif Require Import Model.Compile.
Open Scope string_scope.
Open Scope list_scope.

(** Whatever the text and the engine's comment syntax: an accepted annotation
    carries an identifier and one of the five commands; no annotation gives ("",""). *)
Theorem meta_parse_sound lines cs n c :
  meta_parse_lines lines cs = Ok (n, c) ->
  (n = "" /\ c = "") \/ (mem_str c commands = true /\ valid_query_name n = true).
Proof.
  induction lines as [|line rest IH]; simpl; intros H.
  - inversion H. left. split; reflexivity.
  - repeat match type of H with
    | context [if ?b then _ else _] => destruct b eqn:?; try (apply IH; exact H); try discriminate
    | context [match ?x with _ => _ end] => destruct x eqn:?; try (apply IH; exact H); try discriminate
    end; try (apply IH; exact H).
    all: inversion H; subst; right; split;
      match goal with Hc : negb ?x = false |- ?x = true => apply negb_false_iff in Hc; exact Hc end.
Qed.

(** validate.Cmd: :one / :many on INSERT/UPDATE/DELETE without RETURNING is rejected, and only that *)
Theorem cmd_ok_spec stmt cmd :
  cmd_ok stmt cmd = false <->
  (cmd = ":many" \/ cmd = ":one") /\
  (kind_of stmt = "DeleteStmt" \/ kind_of stmt = "InsertStmt" \/ kind_of stmt = "UpdateStmt") /\
  kid_items "ReturningList" stmt = [].
Proof.
  unfold cmd_ok. split.
  - intros H.
    destruct (cmd =? ":many") eqn:Em; destruct (cmd =? ":one") eqn:Eo; simpl in H; try discriminate.
    all: assert (Hc : cmd = ":many" \/ cmd = ":one")
           by (first [left; apply String.eqb_eq; exact Em | right; apply String.eqb_eq; exact Eo]).
    all: destruct (kind_of stmt =? "DeleteStmt") eqn:Ed; destruct (kind_of stmt =? "InsertStmt") eqn:Ei;
         destruct (kind_of stmt =? "UpdateStmt") eqn:Eu; simpl in H; try discriminate.
    all: (split; [exact Hc|split;
           [first [left; apply String.eqb_eq; exact Ed | right; left; apply String.eqb_eq; exact Ei | right; right; apply String.eqb_eq; exact Eu]|]]).
    all: destruct (kid_items "ReturningList" stmt); simpl in H; [reflexivity|discriminate].
  - intros [[-> | ->] [Hk Hr]]; simpl; rewrite Hr; simpl;
      destruct Hk as [-> | [-> | ->]]; reflexivity.
Qed.

(** compile.go: a second statement with a name already used in the file is an
    error line and contributes no query *)
Theorem duplicate_name_rejected e src pos raw rest seen q :
  parse_query e raw src pos = Ok (Some q) -> q_name q <> "" -> mem_str (q_name q) seen = true ->
  exists m, hd (Ok None) (parse_file e src pos (raw :: rest) seen) = Err m.
Proof.
  intros H Hn Hs. simpl. rewrite H, Hs.
  destruct (String.eqb_spec (q_name q) ""); [contradiction|]. simpl. eexists; reflexivity.
Qed.
