From Verif Require Import Model.Shape Proofs.ShapeFacts.
From Verif Require Import Model.Compile Proofs.NoPanicFacts Proofs.ResolveNoPanic Proofs.FindParamsNoPanic.
Open Scope string_scope.
Open Scope list_scope.

Lemma output_column_refs_np res tables ref : no_panic (output_column_refs res tables ref).
Proof. unfold output_column_refs. cbv zeta. repeat np_step. Qed.

Lemma cast_column_np res tc : no_panic (cast_column res tc).
Proof. unfold cast_column. repeat np_step. Qed.

Lemma target_columns_np e tables res : no_panic (target_columns e tables res).
Proof.
  unfold target_columns. cbv zeta.
  destruct (String.eqb (kind_of (kid "Val" res)) "A_Expr"); [repeat np_step|].
  destruct (String.eqb (kind_of (kid "Val" res)) "CaseExpr").
  { destruct (is_kind "TypeCast" (kid "Defresult" (kid "Val" res))); [|exact I].
    apply no_panic_bind; [apply cast_column_np | intro; exact I]. }
  destruct (String.eqb (kind_of (kid "Val" res)) "CoalesceExpr").
  { induction (kid_items "Args" (kid "Val" res)) as [|a r IH]; [exact I|].
    destruct (is_kind "ColumnRef" a); [|exact IH].
    apply no_panic_bind; [apply output_column_refs_np|]. intros [|c cs]; [exact IH | exact I]. }
  destruct (String.eqb (kind_of (kid "Val" res)) "ColumnRef").
  { destruct (has_star_ref (kid "Val" res)); [exact I | apply output_column_refs_np]. }
  destruct (String.eqb (kind_of (kid "Val" res)) "FuncCall"); [repeat np_step|].
  destruct (String.eqb (kind_of (kid "Val" res)) "SubLink"); [repeat np_step|].
  destruct (String.eqb (kind_of (kid "Val" res)) "TypeCast"); [|exact I].
  apply no_panic_bind; [apply cast_column_np | intro; exact I].
Qed.

Lemma targets_columns_np e tables : forall ts, no_panic (targets_columns e tables ts).
Proof.
  induction ts as [|t rest IH]; cbn [targets_columns]; [exact I|].
  destruct (is_kind "ResTarget" t); [|exact IH].
  apply no_panic_bind; [apply target_columns_np|]. intro a. apply no_panic_bind; [exact IH | intro; exact I].
Qed.

Lemma qc_get_table_np e ctes rel : no_panic (qc_get_table e ctes rel).
Proof. unfold qc_get_table. repeat np_step. Qed.

Lemma is_list_items n : is_list n = true -> exists l, items_opt n = Some l.
Proof. destruct n; try discriminate. eexists; reflexivity. Qed.

(** the local conditions, read off [node_shape_ok] *)
Lemma shape_update n : shape_ok n = true -> String.eqb (kind_of n) "UpdateStmt" = true -> exists l, items_opt (kid "FromClause" n) = Some l.
Proof.
  intros H Hk. apply shape_here in H. unfold node_shape_ok in H. repeat (apply Bool.andb_true_iff in H; destruct H as [H ?]).
  unfold is_kind in H. rewrite Hk in H. cbn in H. apply is_list_items. exact H.
Qed.
Lemma shape_subselect it : shape_ok it = true -> is_kind "RangeSubselect" it = true -> is_nil (kid "Alias" it) = false.
Proof.
  intros H Hk. apply shape_here in H. unfold node_shape_ok in H. repeat (apply Bool.andb_true_iff in H; destruct H as [H ?]).
  rewrite Hk in H2. cbn in H2. apply Bool.negb_true_iff. exact H2.
Qed.
Lemma shape_targets n t : shape_ok n = true -> stmt_targets n = Some t -> exists l, items_opt t = Some l.
Proof.
  intros H Ht. apply shape_here in H. unfold node_shape_ok in H. repeat (apply Bool.andb_true_iff in H; destruct H as [H ?]).
  rewrite Ht in H1. apply is_list_items. exact H1.
Qed.
Lemma shape_with n : shape_ok n = true -> is_nil (kid "WithClause" n) = false -> exists l, items_opt (kid "Ctes" (kid "WithClause" n)) = Some l.
Proof.
  intros H Hw. apply shape_here in H. unfold node_shape_ok in H. repeat (apply Bool.andb_true_iff in H; destruct H as [H ?]).
  rewrite Hw in H0. cbn in H0. apply is_list_items. exact H0.
Qed.

(** the loop of sourceTables over the from-list items, for any function [oc] standing for the
    recursive call of outputColumns *)
Lemma st_loop_np (oc : node -> result (list qcol)) e ctes :
  (forall x, shape_ok x = true -> no_panic (oc x)) ->
  forall l, (forall it, In it l -> shape_ok it = true) ->
  no_panic ((fix go (l : list node) : result (list qtable) :=
     match l with
     | [] => Ok []
     | it :: rest =>
         if is_kind "RangeSubselect" it then
           do cols <- oc (kid "Subquery" it);
           if is_nil (kid "Alias" it) then Panic "nil dereference: n.Alias.Aliasname" else
           do r <- go rest;
           Ok (mkQT (mkTN "" "" (str_of "Aliasname" (kid "Alias" it))) cols :: r)
         else if is_kind "RangeVar" it then
           let fqn := table_of_rangevar it in
           do t <- qc_get_table e ctes fqn;
           let t' := if is_nil (kid "Alias" it) then t
                     else mkQT (mkTN (tn_cat (qt_rel t)) (tn_schema (qt_rel t)) (str_of "Aliasname" (kid "Alias" it))) (qt_cols t) in
           do r <- go rest; Ok (t' :: r)
         else Err "sourceTable: unsupported list item type"
     end) l).
Proof.
  intros Hoc. induction l as [|it rest IH]; intro Hl; [exact I|].
  assert (Hit : shape_ok it = true) by (apply Hl; left; reflexivity).
  assert (Hrest : forall x, In x rest -> shape_ok x = true) by (intros x Hx; apply Hl; right; exact Hx).
  destruct (is_kind "RangeSubselect" it) eqn:Ek.
  - apply no_panic_bind; [apply Hoc; apply shape_kid; exact Hit|]. intro cols.
    rewrite (shape_subselect it Hit Ek).
    apply no_panic_bind; [exact (IH Hrest) | intro; exact I].
  - destruct (is_kind "RangeVar" it); [|exact I].
    cbv zeta. apply no_panic_bind; [apply qc_get_table_np|]. intro t.
    apply no_panic_bind; [exact (IH Hrest) | intro; exact I].
Qed.

(** the items sourceTables starts from are nodes of the statement *)
Lemma st_items_shape n l :
  shape_ok n = true ->
  (let k := kind_of n in
   if String.eqb k "DeleteStmt" || String.eqb k "InsertStmt" then Ok [kid "Relation" n]
   else if String.eqb k "SelectStmt" then Ok (from_items (kid "FromClause" n))
   else if String.eqb k "TruncateStmt" then Ok (search (is_kind "RangeVar") (kid "Relations" n))
   else if String.eqb k "UpdateStmt" then
     match items_opt (kid "FromClause" n) with
     | Some l => Ok (l ++ [kid "Relation" n])
     | None => Panic "nil dereference: n.FromClause.Items"
     end
   else Err "sourceTables: unsupported node type") = Ok l ->
  forall it, In it l -> shape_ok it = true.
Proof.
  intros H. cbv zeta.
  destruct (String.eqb (kind_of n) "DeleteStmt" || String.eqb (kind_of n) "InsertStmt").
  { intro E. injection E as <-. intros it [<-|[]]. apply shape_kid. exact H. }
  destruct (String.eqb (kind_of n) "SelectStmt").
  { intro E. injection E as <-. intros it Hit. unfold from_items in Hit. exact (shape_search _ _ it (shape_kid "FromClause" n H) Hit). }
  destruct (String.eqb (kind_of n) "TruncateStmt").
  { intro E. injection E as <-. intros it Hit. exact (shape_search _ _ it (shape_kid "Relations" n H) Hit). }
  destruct (String.eqb (kind_of n) "UpdateStmt"); [|discriminate].
  destruct (items_opt (kid "FromClause" n)) as [l0|] eqn:El; [|discriminate].
  intro E. injection E as <-. intros it Hit. apply in_app_or in Hit. destruct Hit as [Hit|[<-|[]]].
  - exact (shape_items_opt _ l0 it (shape_kid "FromClause" n H) El Hit).
  - apply shape_kid. exact H.
Qed.

Lemma st_items_np n :
  shape_ok n = true ->
  no_panic (let k := kind_of n in
   if String.eqb k "DeleteStmt" || String.eqb k "InsertStmt" then Ok [kid "Relation" n]
   else if String.eqb k "SelectStmt" then Ok (from_items (kid "FromClause" n))
   else if String.eqb k "TruncateStmt" then Ok (search (is_kind "RangeVar") (kid "Relations" n))
   else if String.eqb k "UpdateStmt" then
     match items_opt (kid "FromClause" n) with
     | Some l => Ok (l ++ [kid "Relation" n])
     | None => Panic "nil dereference: n.FromClause.Items"
     end
   else Err "sourceTables: unsupported node type").
Proof.
  intro H. cbv zeta.
  destruct (String.eqb (kind_of n) "DeleteStmt" || String.eqb (kind_of n) "InsertStmt"); [exact I|].
  destruct (String.eqb (kind_of n) "SelectStmt"); [exact I|].
  destruct (String.eqb (kind_of n) "TruncateStmt"); [exact I|].
  destruct (String.eqb (kind_of n) "UpdateStmt") eqn:Ek; [|exact I].
  destruct (shape_update n H Ek) as [l ->]. exact I.
Qed.

Theorem output_columns_no_panic : forall fuel e ctes n, shape_ok n = true -> no_panic (output_columns fuel e ctes n).
Proof.
  induction fuel as [|fuel IH]; intros e ctes n H; [exact I|].
  cbn [output_columns]. cbv zeta.
  match goal with |- no_panic (bind (bind ?LST ?LOOP) ?K) =>
    pose proof (st_items_np n H) as Hl; pose proof (st_items_shape n) as Hs; cbv zeta in Hl, Hs;
    destruct LST as [l|m|m] eqn:El; cbn [bind]; [|exact I|destruct Hl]
  end.
  apply no_panic_bind.
  - apply (st_loop_np (output_columns fuel e ctes) e ctes (fun x Hx => IH e ctes x Hx) l). exact (Hs l H eq_refl).
  - intro tables. destruct (stmt_targets n) as [targets|] eqn:Et; [|exact I].
    destruct (String.eqb (kind_of n) "SelectStmt" && Nat.eqb (List.length (items targets)) 0 && negb (is_nil (kid "Larg" n))).
    + apply IH. apply shape_kid. exact H.
    + destruct (shape_targets n targets H Et) as [ts ->]. apply targets_columns_np.
Qed.

Theorem source_tables_no_panic fuel e ctes n : shape_ok n = true -> no_panic (source_tables fuel e ctes n).
Proof.
  intro H. unfold source_tables. cbv zeta.
  match goal with |- no_panic (bind ?LST ?LOOP) =>
    pose proof (st_items_np n H) as Hl; pose proof (st_items_shape n) as Hs; cbv zeta in Hl, Hs;
    destruct LST as [l|m|m] eqn:El; cbn [bind]; [|exact I|destruct Hl]
  end.
  apply (st_loop_np (output_columns fuel e ctes) e ctes (fun x Hx => output_columns_no_panic fuel e ctes x Hx) l).
  exact (Hs l H eq_refl).
Qed.

Theorem build_query_catalog_no_panic fuel e stmt : shape_ok stmt = true -> no_panic (build_query_catalog fuel e stmt).
Proof.
  intro H. unfold build_query_catalog. cbv zeta.
  destruct (String.eqb (kind_of stmt) "InsertStmt" || String.eqb (kind_of stmt) "UpdateStmt" || String.eqb (kind_of stmt) "SelectStmt"); [|exact I].
  destruct (is_nil (kid "WithClause" stmt)) eqn:Ew; [exact I|].
  destruct (shape_with stmt H Ew) as [ctes Ec]. rewrite Ec.
  assert (Hc : forall c, In c ctes -> shape_ok c = true).
  { intros c Hin. exact (shape_items_opt _ ctes c (shape_kid "Ctes" _ (shape_kid "WithClause" stmt H)) Ec Hin). }
  generalize (@nil (string * qtable)). clear Ec.
  induction ctes as [|c rest IH]; intro qc; [exact I|].
  destruct (is_kind "CommonTableExpr" c).
  - apply no_panic_bind; [apply output_columns_no_panic; apply shape_kid; apply Hc; left; reflexivity|].
    intro cols. apply IH. intros x Hx. apply Hc. right. exact Hx.
  - apply IH. intros x Hx. apply Hc. right. exact Hx.
Qed.

Lemma expand_target_np e loc tables res : no_panic (expand_target e loc tables res).
Proof. unfold expand_target. cbv zeta. repeat np_step. Qed.

Lemma expand_stmt_np fuel e ctes loc n : shape_ok n = true -> no_panic (expand_stmt fuel e ctes loc n).
Proof.
  intro H. unfold expand_stmt.
  apply no_panic_bind; [apply source_tables_no_panic; exact H|]. intro tables.
  destruct (stmt_targets n) as [targets|] eqn:Et; [|exact I].
  destruct (shape_targets n targets H Et) as [ts ->].
  induction ts as [|t rest IH]; [exact I|].
  apply no_panic_bind; [apply expand_target_np|]. intro a. apply no_panic_bind; [exact IH | intro; exact I].
Qed.

Theorem expand_no_panic fuel e ctes raw : shape_ok raw = true -> no_panic (expand fuel e ctes raw).
Proof.
  intro H. unfold expand. cbv zeta.
  match goal with |- no_panic (_ (search ?P raw)) =>
    assert (Hs : forall s, In s (search P raw) -> shape_ok s = true) by (intros s Hs; exact (shape_search P raw s H Hs));
    induction (search P raw) as [|s rest IH]; [exact I|]
  end.
  apply no_panic_bind; [apply expand_stmt_np; apply Hs; left; reflexivity|]. intro a.
  apply no_panic_bind; [apply IH; intros x Hx; apply Hs; right; exact Hx | intro; exact I].
Qed.
