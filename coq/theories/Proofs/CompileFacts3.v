(** parse_query as a whole: where the embedded SQL comes from (C04). *)
From Coq Require Import Sorting.Permutation.
From Verif Require Import Model.Compile Judge.JQ Proofs.SourceFacts.
Open Scope string_scope.
Open Scope list_scope.

Theorem parse_query_sql e raw src positional q :
  parse_query e raw src positional = Ok (Some q) ->
  exists raw_sql edits expanded,
    pluck src (int_of "StmtLocation" raw) (int_of "StmtLen" raw) = Ok raw_sql /\
    mutate raw_sql edits = Ok expanded /\
    strip_comments expanded = Ok (q_sql q, q_comments q) /\
    (* the edits are those of the parameter rewrite followed by those of star expansion *)
    exists refs0 qc ex,
      find_parameters (kid "Stmt" (fst (fst (named_parameters (env_engine e) raw)))) = Ok refs0 /\
      expand (fuel_of raw) e qc (fst (fst (named_parameters (env_engine e) raw))) = Ok ex /\
      edits = (if positional
               then map (fun r => mkEdit (loc_of (pr_ref r) - int_of "StmtLocation" (fst (fst (named_parameters (env_engine e) raw))))
                                         ("$" +++ z_to_string (ref_number r)) "?") refs0
               else snd (named_parameters (env_engine e) raw)) ++ ex.
Proof.
  unfold parse_query. intros H.
  destruct (walk_ok raw); [|discriminate]. cbn [negb] in H.
  destruct (param_style_ok raw); [|discriminate]. cbn [negb] in H.
  destruct (param_ref_gap raw) eqn:Eg; [discriminate|].
  destruct (negb (is_kind "RawStmt" raw)); [discriminate|].
  cbv zeta in H.
  destruct (supported_stmt (kind_of (kid "Stmt" raw))); [|discriminate]. cbn [negb] in H.
  destruct (is_kind "InsertStmt" (kid "Stmt" raw) && negb (insert_stmt_ok (kid "Stmt" raw))); [discriminate|].
  match type of H with bind ?x _ = _ => destruct x as [raw_sql|m|m] eqn:Epl; cbn [bind] in H; try discriminate end.
  destruct (String.eqb raw_sql ""); [discriminate|].
  match type of H with bind ?x _ = _ => destruct x as [u|m|m]; cbn [bind] in H; try discriminate end.
  match type of H with bind ?x _ = _ => destruct x as [[name cmd]|m|m] eqn:Em; cbn [bind] in H; try discriminate end.
  destruct (cmd_ok (kid "Stmt" raw) cmd) eqn:Ec; [|discriminate]. cbn [negb] in H.
  destruct (named_parameters (env_engine e) raw) as [[raw2 names] edits0] eqn:En.
  match type of H with bind ?x _ = _ => destruct x as [refs0|m|m] eqn:Ef; cbn [bind] in H; try discriminate end.
  match type of H with bind ?x _ = _ => destruct x as [params|m|m] eqn:Ep; cbn [bind] in H; try discriminate end.
  match type of H with bind ?x _ = _ => destruct x as [qc|m|m] eqn:Eq; cbn [bind] in H; try discriminate end.
  match type of H with bind ?x _ = _ => destruct x as [cols|m|m] eqn:Eo; cbn [bind] in H; try discriminate end.
  match type of H with bind ?x _ = _ => destruct x as [ex|m|m] eqn:Ex; cbn [bind] in H; try discriminate end.
  match type of H with bind (mutate _ ?ed) _ = _ => destruct (mutate raw_sql ed) as [expanded|m|m] eqn:Emu; cbn [bind] in H; try discriminate;
    exists raw_sql, ed, expanded end.
  match type of H with bind ?x _ = _ => destruct x as [sc|m|m] eqn:Es; cbn [bind] in H; try discriminate end.
  inversion H; subst. cbn [q_sql q_comments]. destruct sc as [s c]. cbn [fst snd].
  repeat split; auto. exists refs0, qc, ex. repeat split; auto.
Qed.

(** C04 on the composed model: if the statement's text is cut into segments such
    that the edits parse_query computed are (in any order) the edits of those
    segments - each Old text standing where its Location says -, the embedded
    SQL is StripComments of the text with exactly those segments exchanged and
    every other byte unchanged. *)
Theorem compiled_sql_is_edited_source e raw src positional q :
  parse_query e raw src positional = Ok (Some q) ->
  exists raw_sql edits expanded,
    pluck src (int_of "StmtLocation" raw) (int_of "StmtLen" raw) = Ok raw_sql /\
    mutate raw_sql edits = Ok expanded /\
    forall segs tail,
      raw_sql = text_of segs tail -> segs <> [] -> Forall seg_ok segs ->
      Permutation edits (edits_of 0 segs) ->
      strip_comments (result_of segs tail) = Ok (q_sql q, q_comments q).
Proof.
  intros H. destruct (parse_query_sql _ _ _ _ _ H) as (raw_sql & edits & expanded & Hp & Hm & Hs & _).
  exists raw_sql, edits, expanded. split; [exact Hp|]. split; [exact Hm|].
  intros segs tail Ht Hne Hok Hperm. subst raw_sql.
  rewrite (mutate_segments segs tail edits Hne Hok Hperm) in Hm. inversion Hm; subst. exact Hs.
Qed.
