(** C13: buildQueries sorts by method name - the queries the templates receive do not depend on
    the order of the statements in the files nor on the order of the files, as long as the
    method names are pairwise distinct (which the compiler guarantees: C11_accepted_names_distinct). *)
From Coq Require Import Sorting.Permutation Sorting.Sorted.
From Verif Require Import Model.GoGen Proofs.SortFacts.
Open Scope string_scope.
Open Scope list_scope.

Lemma ins_q_is_ins x l : ins_q x l = ins qo_method x l.
Proof. induction l as [|y l IH]; cbn [ins_q ins]; [reflexivity|]. rewrite IH. reflexivity. Qed.

Lemma sorted_queries_is_sort l : fold_right ins_q [] l = sort_by qo_method l.
Proof. unfold sort_by. induction l as [|x l IH]; cbn [fold_right]; [reflexivity|]. rewrite IH. apply ins_q_is_ins. Qed.

Theorem queries_order_independent l l' :
  NoDup (map qo_method l) -> Permutation l l' -> fold_right ins_q [] l = fold_right ins_q [] l'.
Proof. intros Hn Hp. rewrite !sorted_queries_is_sort. apply sort_by_perm_invariant; assumption. Qed.
