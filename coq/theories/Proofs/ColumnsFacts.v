(** Facts about output_columns.go / expand.go as transcribed in Model/Query.v
    (properties C02, C05, C07, C10). *)
From Verif Require Import Model.Compile.
Open Scope string_scope.
Open Scope list_scope.

(** * one star: what inference adds and what the rewrite writes have equal length *)
Lemma flat_map_length_eq {A B C} (f : A -> list B) (g : A -> list C) l :
  (forall x, List.length (f x) = List.length (g x)) ->
  List.length (flat_map f l) = List.length (flat_map g l).
Proof.
  intros H. induction l as [|x l IH]; simpl; [reflexivity|].
  rewrite !app_length, IH, H. reflexivity.
Qed.

Theorem star_arity e tables res ref :
  List.length (expand_cols e tables res ref) = List.length (star_columns res tables ref).
Proof.
  unfold expand_cols, star_columns. apply flat_map_length_eq. intros t.
  destruct (negb (join_list (kid "Fields" ref) "." =? "") && negb (join_list (kid "Fields" ref) "." =? tn_name (qt_rel t)));
    [reflexivity|]. rewrite !map_length. reflexivity.
Qed.

(** * the column record is preserved hop by hop *)
Definition same_type (a b : qcol) : Prop :=
  qc_dt a = qc_dt b /\ qc_nn a = qc_nn b /\ qc_arr a = qc_arr b /\ qc_table a = qc_table b.

Theorem star_preserves_types res tables ref :
  Forall (fun q => exists t c, In t tables /\ In c (qt_cols t) /\ same_type q c
                               /\ (res_name res = None -> qc_name q = qc_name c))
         (star_columns res tables ref).
Proof.
  unfold star_columns. rewrite Forall_forall. intros q Hq.
  apply in_flat_map in Hq as [t [Ht Hq]].
  destruct (negb (join_list (kid "Fields" ref) "." =? "") && negb (join_list (kid "Fields" ref) "." =? tn_name (qt_rel t)));
    [contradiction|].
  apply in_map_iff in Hq as [c [Hc Hin]]. subst q.
  exists t, c. repeat split; auto. simpl. intros ->. reflexivity.
Qed.

Theorem convert_column_faithful rel c :
  let q := convert_column rel c in
  qc_name q = col_name c /\ qc_dt q = data_type (col_type c) /\ qc_nn q = col_notnull c
  /\ qc_arr q = col_array c /\ qc_table q = Some rel.
Proof. simpl. repeat split. Qed.

(** * outputColumnRefs: accepted iff exactly one column in scope has the name *)
Definition ref_candidates (tables : list qtable) (alias name : string) : list qcol :=
  flat_map (fun t =>
    if negb (String.eqb alias "") && negb (String.eqb (tn_name (qt_rel t)) alias) then []
    else filter (fun c => String.eqb (qc_name c) name) (qt_cols t)) tables.

Lemma flat_map_filter_map {A B} (p : A -> bool) (f : A -> B) l :
  flat_map (fun c => if p c then [f c] else []) l = map f (filter p l).
Proof.
  induction l as [|x l IH]; simpl; [reflexivity|].
  destruct (p x); simpl; rewrite IH; reflexivity.
Qed.

Lemma candidates_length res tables alias name :
  List.length (flat_map (fun t =>
          if negb (String.eqb alias "") && negb (String.eqb (tn_name (qt_rel t)) alias) then []
          else flat_map (fun c =>
                 if String.eqb (qc_name c) name
                 then [mkQC (some_or (qc_name c) (res_name res)) (qc_dt c) (qc_nn c) (qc_arr c) "" (qc_table c)]
                 else []) (qt_cols t)) tables)
  = List.length (ref_candidates tables alias name).
Proof.
  unfold ref_candidates. apply flat_map_length_eq. intros t.
  destruct (negb (alias =? "") && negb (tn_name (qt_rel t) =? alias)); [reflexivity|].
  rewrite (flat_map_filter_map (fun c => qc_name c =? name)
             (fun c => mkQC (some_or (qc_name c) (res_name res)) (qc_dt c) (qc_nn c) (qc_arr c) "" (qc_table c))).
  apply map_length.
Qed.

Definition ref_name_alias (ref : node) : option (string * string) :=
  match string_items (kid "Fields" ref) with
  | [name] => Some ("", name)
  | [alias; name] => Some (alias, name)
  | _ => None
  end.

Theorem column_ref_decision res tables ref alias name :
  ref_name_alias ref = Some (alias, name) ->
  match output_column_refs res tables ref with
  | Ok cols => List.length (ref_candidates tables alias name) = 1%nat /\ List.length cols = 1%nat
  | Err _ => List.length (ref_candidates tables alias name) <> 1%nat
  | Panic _ => False
  end.
Proof.
  unfold ref_name_alias, output_column_refs. intros H.
  destruct (string_items (kid "Fields" ref)) as [|p1 [|p2 [|p3 l]]]; try discriminate.
  - inversion H; subst. pose proof (candidates_length res tables "" name) as L.
    match goal with |- context [match ?l with [] => _ | _ => _ end] => set (cols := l) in * end.
    destruct cols as [|c1 [|c2 cs]]; unfold err_at; try destruct (loc_of res =? 0)%Z; simpl in L |- *; rewrite <- L; simpl; auto; lia.
  - inversion H; subst. pose proof (candidates_length res tables alias name) as L.
    match goal with |- context [match ?l with [] => _ | _ => _ end] => set (cols := l) in * end.
    destruct cols as [|c1 [|c2 cs]]; unfold err_at; try destruct (loc_of res =? 0)%Z; simpl in L |- *; rewrite <- L; simpl; auto; lia.
Qed.
