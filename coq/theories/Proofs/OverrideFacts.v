From Verif Require Import Model.GoTypes.
Open Scope string_scope.
Open Scope list_scope.

Lemma find_first_app_none {A} (p : A -> bool) l x :
  find_first p l = None -> find_first p (l ++ [x]) = if p x then Some x else None.
Proof.
  induction l as [|y l IH]; simpl; intros H; [reflexivity|].
  destruct (p y); [discriminate|]. apply IH, H.
Qed.
Lemma find_first_app_some {A} (p : A -> bool) l x y :
  find_first p l = Some y -> find_first p (l ++ [x]) = Some y.
Proof.
  induction l as [|z l IH]; simpl; intros H; [discriminate|].
  destruct (p z); [exact H|]. apply IH, H.
Qed.

Definition matches_column (o : gov) (default_schema : string) (tbl : option (string * string * string)) (colname : string) : bool :=
  negb (String.eqb (gov_gotype o) "") && negb (String.eqb (gov_column o) "")
  && String.eqb (gov_colname o) colname && same_table_name tbl o default_schema.
Definition matches_dbtype (o : gov) (dt : string) (not_null : bool) : bool :=
  negb (String.eqb (gov_gotype o) "") && negb (String.eqb (gov_dbtype o) "")
  && String.eqb (gov_dbtype o) dt && negb (Bool.eqb (gov_nullable o) not_null).

(** Adding one column override changes the Go type of a column only if that
    column is the one the override names (same catalog, schema-or-default, table
    and column name) — every other column of every table keeps its type. *)
Theorem column_override_only ovs o eng c tbl colname dt nn arr len1 :
  gov_dbtype o = "" ->
  go_type_ov (ovs ++ [o]) eng c tbl colname dt nn arr len1 <> go_type_ov ovs eng c tbl colname dt nn arr len1 ->
  matches_column o (cat_default c) tbl colname = true.
Proof.
  intros Hdb H. unfold go_type_ov in H.
  destruct (column_override ovs (cat_default c) tbl colname) as [o1|] eqn:E1.
  - unfold column_override in *. rewrite (find_first_app_some _ _ _ _ E1) in H. congruence.
  - unfold column_override in *. rewrite (find_first_app_none _ _ o E1) in H.
    fold (matches_column o (cat_default c) tbl colname) in H.
    destruct (matches_column o (cat_default c) tbl colname); [reflexivity|].
    exfalso. apply H. clear H.
    destruct (dbtype_override ovs dt (nn || arr)) as [o2|] eqn:E2; unfold dbtype_override in *.
    + rewrite (find_first_app_some _ _ _ _ E2). reflexivity.
    + rewrite (find_first_app_none _ _ o E2). rewrite Hdb. simpl. rewrite andb_false_r. reflexivity.
Qed.

(** ... and where it applies, the column has the override's type in every position *)
Theorem column_override_applies ovs o eng c tbl colname dt nn arr len1 :
  column_override ovs (cat_default c) tbl colname = None ->
  matches_column o (cat_default c) tbl colname = true ->
  go_type_ov (ovs ++ [o]) eng c tbl colname dt nn arr len1 = gov_gotype o.
Proof.
  intros E1 Hm. unfold go_type_ov, column_override in *. rewrite (find_first_app_none _ _ o E1).
  fold (matches_column o (cat_default c) tbl colname). rewrite Hm. reflexivity.
Qed.

(** A database-type override changes all and only the columns of that type with the matching nullability. *)
Theorem dbtype_override_only ovs o eng c tbl colname dt nn arr len1 :
  gov_column o = "" ->
  go_type_ov (ovs ++ [o]) eng c tbl colname dt nn arr len1 <> go_type_ov ovs eng c tbl colname dt nn arr len1 ->
  matches_dbtype o dt (nn || arr) = true.
Proof.
  intros Hc H. unfold go_type_ov in H.
  assert (Ecol : column_override (ovs ++ [o]) (cat_default c) tbl colname = column_override ovs (cat_default c) tbl colname).
  { unfold column_override. destruct (find_first _ ovs) eqn:E.
    - apply (find_first_app_some _ _ _ _ E).
    - rewrite (find_first_app_none _ _ o E). rewrite Hc. simpl. rewrite andb_false_r. reflexivity. }
  rewrite Ecol in H. destruct (column_override ovs (cat_default c) tbl colname); [congruence|].
  destruct (dbtype_override ovs dt (nn || arr)) as [o2|] eqn:E2; unfold dbtype_override in *.
  - rewrite (find_first_app_some _ _ _ _ E2) in H. congruence.
  - rewrite (find_first_app_none _ _ o E2) in H. fold (matches_dbtype o dt (nn || arr)) in H.
    destruct (matches_dbtype o dt (nn || arr)); [reflexivity|congruence].
Qed.
