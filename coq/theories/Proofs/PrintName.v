(** printFileErr names (Model/Driver.v print_name) *)
From Verif Require Import Base.Str Model.Driver.
Open Scope string_scope.
Open Scope list_scope.

Lemma prefix_append p s : String.prefix p (p +++ s) = true.
Proof. induction p as [|c p IH]; cbn; [destruct s; reflexivity|]. destruct (Ascii.ascii_dec c c); [exact IH|contradiction]. Qed.

Lemma drop_append p s : drop (String.length p) (p +++ s) = s.
Proof. induction p as [|c p IH]; cbn; [reflexivity | exact IH]. Qed.

(** a file below the configuration directory is named relative to it *)
Theorem print_name_inside dir rel : print_name dir (dir +++ "/" +++ rel) = rel.
Proof.
  unfold print_name, trim_prefix, has_prefix.
  replace (dir +++ "/" +++ rel) with ((dir +++ "/") +++ rel).
  - rewrite prefix_append, drop_append. reflexivity.
  - induction dir as [|c d IH]; cbn; [reflexivity|]. f_equal. exact IH.
Qed.

(** any other file keeps its name - in particular a file in a SIBLING directory whose name merely
    extends the configuration directory's (db-queries next to db) *)
Theorem print_name_outside dir file : has_prefix file (dir +++ "/") = false -> print_name dir file = file.
Proof. unfold print_name, trim_prefix. intros ->. reflexivity. Qed.

Example print_name_sibling :
  print_name "/w/db" "/w/db-queries/authors.sql" = "/w/db-queries/authors.sql"
  /\ print_name "/w/db" "/w/db/q/authors.sql" = "q/authors.sql".
Proof. vm_compute. split; reflexivity. Qed.
