(** parse_query as a whole: what the success of the composed model says about
    the parameter list (used by C03). *)
From Coq Require Import Sorting.Permutation Sorting.Sorted Lia.
From Verif Require Import Model.Compile Spec.Placeholders Judge.JQ Judge.J03 Proofs.ParamsFacts.
Open Scope string_scope.
Open Scope list_scope.

(** every parameter one reference resolves to carries the reference's number *)
Lemma resolve_one_numbers e tables aliases dt names r ps :
  resolve_one e tables aliases dt names r = Ok ps -> Forall (fun p => p_num p = ref_number r) ps.
Proof.
  unfold resolve_one. intros H.
  destruct (pr_parent r) as [n| |] eqn:Ep.
  2,3: inversion H; subst; repeat constructor.
  destruct (String.eqb (kind_of n) "A_Expr").
  { destruct (search (is_kind "ColumnRef") (kid "Lexpr" n)) as [|lref rest].
    - inversion H; subst. repeat constructor.
    - repeat match type of H with
             | context [match ?x with _ => _ end] => destruct x eqn:?; try discriminate
Show.
