(** One query level: sqlc's inference of the result row (targets_columns over
    the tables sourceTables found) against the reference semantics (row_of over
    the scope of Spec/PgScope.v) - acceptance, arity, order and names agree for
    result lists made of stars and column references.  (C02, C07, C10.) *)
From Coq Require Import Lia.
From Verif Require Import Model.Compile Spec.PgScope Proofs.ColumnsFacts.
Open Scope string_scope.
Open Scope list_scope.

(** an item of the reference scope and a table of sqlc's scope describe the
    same relation: same visible name, same column names in order *)
Definition item_rel (it : scitem) (t : qtable) : Prop :=
  si_name it = tn_name (qt_rel t) /\ map sc_name (si_cols it) = map qc_name (qt_cols t).
Definition scope_rel (sc : scope) (tables : list qtable) : Prop := Forall2 item_rel sc tables.

(** ** base tables: pg_relation and QueryCatalog.GetTable agree *)
Theorem base_relation_refines e rv :
  match pg_relation (env_cat e) [] rv, qc_get_table e [] (table_of_rangevar rv) with
  | POk cols, Ok t => map sc_name cols = map qc_name (qt_cols t)
  | PErr _, Err _ => True
  | _, _ => False
  end.
Proof.
  unfold pg_relation, qc_get_table, cat_get_table, table_of_rangevar. cbn [tn_schema tn_name assoc assoc_s].
  destruct (String.eqb (str_of "Schemaname" rv) ""); cbn [assoc_s];
    (destruct (get_schema (env_cat e) _) as [s|]; [|exact I]);
    (destruct (get_table s (str_of "Relname" rv)) as [t|]; [|exact I]);
    cbn [qt_cols]; rewrite !map_map; apply map_ext; intros c; reflexivity.
Qed.

(** ** filtering by name commutes with the relation *)
Lemma names_filter_length (a : list sccol) (b : list qcol) cn :
  map sc_name a = map qc_name b ->
  map sc_name (filter (fun x => String.eqb (sc_name x) cn) a) = map qc_name (filter (fun c => String.eqb (qc_name c) cn) b).
Proof.
  revert b. induction a as [|x a IH]; intros [|y b] H; simpl in *; try discriminate; [reflexivity|].
  injection H as Hx Hr. rewrite Hx. destruct (String.eqb (qc_name y) cn); simpl; [rewrite Hx; f_equal|]; apply IH; exact Hr.
Qed.

Lemma scope_all_cols sc tables :
  scope_rel sc tables -> map sc_name (flat_map si_cols sc) = map qc_name (flat_map qt_cols tables).
Proof.
  induction 1 as [|it t sc tables [_ Hc] _ IH]; simpl; [reflexivity|]. rewrite !map_app, Hc, IH. reflexivity.
Qed.

Lemma scope_cols_named sc tables cn :
  scope_rel sc tables ->
  map sc_name (cols_named sc cn) = map qc_name (ref_candidates tables "" cn).
Proof.
  unfold cols_named, ref_candidates. cbn [String.eqb negb andb].
  induction 1 as [|it t sc tables [_ Hc] _ IH]; simpl; [reflexivity|].
  rewrite !map_app, IH, (names_filter_length _ _ cn Hc). reflexivity.
Qed.

(** the items / tables called q: none, or exactly one related pair *)
Lemma scope_named sc tables q :
  scope_rel sc tables -> NoDup (map si_name sc) ->
  (filter (fun it => String.eqb (si_name it) q) sc = [] /\
   filter (fun t => String.eqb (tn_name (qt_rel t)) q) tables = []) \/
  (exists it t, filter (fun it => String.eqb (si_name it) q) sc = [it] /\
                filter (fun t => String.eqb (tn_name (qt_rel t)) q) tables = [t] /\ item_rel it t).
Proof.
  induction 1 as [|it t sc tables Hr Hrest IH]; intros Hn; simpl; [left; auto|].
  inversion Hn as [|? ? Hnotin Hn']; subst. destruct Hr as [Hname Hc]. rewrite <- Hname.
  destruct (String.eqb (si_name it) q) eqn:E.
  - right. exists it, t. apply String.eqb_eq in E.
    assert (Hnone : filter (fun it0 => String.eqb (si_name it0) q) sc = []).
    { clear -Hnotin E. induction sc as [|x sc IHs]; simpl; [reflexivity|].
      destruct (String.eqb (si_name x) q) eqn:E2.
      - apply String.eqb_eq in E2. exfalso. apply Hnotin. left. congruence.
      - apply IHs. intros Hc. apply Hnotin. right. exact Hc. }
    destruct (IH Hn') as [[H1 H2]|[it' [t' [H1 _]]]]; [|rewrite Hnone in H1; discriminate].
    rewrite H1, H2. repeat split; auto.
  - destruct (IH Hn') as [[H1 H2]|[it' [t' [H1 [H2 H3]]]]]; [left|right; exists it', t']; auto.
Qed.

(** candidates of a qualified reference = the named columns of the tables called q *)
Lemma candidates_qualified tables q cn :
  q <> "" ->
  ref_candidates tables q cn
  = flat_map (fun t => filter (fun c => String.eqb (qc_name c) cn) (qt_cols t))
             (filter (fun t => String.eqb (tn_name (qt_rel t)) q) tables).
Proof.
  intros Hq. unfold ref_candidates. apply String.eqb_neq in Hq. rewrite Hq. cbn [negb andb].
  induction tables as [|t ts IH]; simpl; [reflexivity|].
  destruct (String.eqb (tn_name (qt_rel t)) q); simpl; rewrite IH; reflexivity.
Qed.

(** ** the shapes of result targets covered *)
Inductive simple_target (sc : scope) (res : node) : Prop :=
| ST_star_all : is_kind "ResTarget" res = true -> kind_of (kid "Val" res) = "ColumnRef" ->
    is_star (kid "Val" res) = true -> string_items (kid "Fields" (kid "Val" res)) = [] ->
    res_name res = None -> simple_target sc res
| ST_star_of q : is_kind "ResTarget" res = true -> kind_of (kid "Val" res) = "ColumnRef" ->
    is_star (kid "Val" res) = true -> string_items (kid "Fields" (kid "Val" res)) = [q] -> q <> "" ->
    res_name res = None -> In q (map si_name sc) -> simple_target sc res
| ST_col cn : is_kind "ResTarget" res = true -> kind_of (kid "Val" res) = "ColumnRef" ->
    is_star (kid "Val" res) = false -> string_items (kid "Fields" (kid "Val" res)) = [cn] -> simple_target sc res
| ST_qcol q cn : is_kind "ResTarget" res = true -> kind_of (kid "Val" res) = "ColumnRef" ->
    is_star (kid "Val" res) = false -> string_items (kid "Fields" (kid "Val" res)) = [q; cn] -> q <> "" ->
    simple_target sc res.

Definition names_agree (d : list sccol) (a : list qcol) : Prop := map sc_name d = map qc_name a.

Lemma target_model_form e tables res :
  kind_of (kid "Val" res) = "ColumnRef" ->
  target_columns e tables res =
  if has_star_ref (kid "Val" res) then Ok (star_columns res tables (kid "Val" res))
  else output_column_refs res tables (kid "Val" res).
Proof.
  intros Hk. unfold target_columns. rewrite Hk.
  replace (String.eqb "ColumnRef" "A_Expr") with false by reflexivity.
  replace (String.eqb "ColumnRef" "CaseExpr") with false by reflexivity.
  replace (String.eqb "ColumnRef" "CoalesceExpr") with false by reflexivity.
  replace (String.eqb "ColumnRef" "ColumnRef") with true by reflexivity. reflexivity.
Qed.

From Verif Require Import Proofs.TypeFlowFacts.

Lemma star_columns_all_names res tables ref :
  string_items (kid "Fields" ref) = [] -> res_name res = None ->
  map qc_name (star_columns res tables ref) = map qc_name (flat_map qt_cols tables).
Proof.
  intros Hs Hn. unfold star_columns, join_list. rewrite Hs, Hn. cbn [String.concat String.eqb negb andb].
  induction tables as [|t ts IH]; [reflexivity|]. cbn [flat_map]. rewrite !map_app, IH. f_equal.
  rewrite map_map. apply map_ext. intros c. reflexivity.
Qed.

Lemma star_columns_of_names res tables ref q :
  string_items (kid "Fields" ref) = [q] -> q <> "" -> res_name res = None ->
  map qc_name (star_columns res tables ref)
  = map qc_name (flat_map qt_cols (filter (fun t => String.eqb (tn_name (qt_rel t)) q) tables)).
Proof.
  intros Hs Hq Hn. unfold star_columns, join_list. rewrite Hs, Hn. cbn [String.concat].
  apply String.eqb_neq in Hq. rewrite Hq. cbn [negb andb].
  induction tables as [|t ts IH]; [reflexivity|]. cbn [flat_map filter].
  rewrite (String.eqb_sym q (tn_name (qt_rel t))).
  destruct (String.eqb (tn_name (qt_rel t)) q); cbn [negb flat_map app]; rewrite ?map_app, IH; [f_equal|reflexivity].
  rewrite map_map. apply map_ext. intros c. reflexivity.
Qed.

Lemma filter_nodup_le1 (l : list sccol) cn :
  NoDup (map sc_name l) -> (List.length (filter (fun x => String.eqb (sc_name x) cn) l) <= 1)%nat.
Proof.
  induction l as [|x l IH]; simpl; intros Hn; [lia|]. inversion Hn as [|? ? Hnotin Hn']; subst.
  destruct (String.eqb (sc_name x) cn) eqn:E; [|apply IH, Hn'].
  apply String.eqb_eq in E. simpl.
  assert (filter (fun y => String.eqb (sc_name y) cn) l = []) as ->; [|simpl; lia].
  clear -Hnotin E. induction l as [|y l IHl]; simpl; [reflexivity|].
  destruct (String.eqb (sc_name y) cn) eqn:E2.
  - apply String.eqb_eq in E2. exfalso. apply Hnotin. left. congruence.
  - apply IHl. intros Hc. apply Hnotin. right. exact Hc.
Qed.

Lemma in_names_filter sc q :
  In q (map si_name sc) -> filter (fun it => String.eqb (si_name it) q) sc <> [].
Proof.
  induction sc as [|it sc IH]; simpl; intros H; [destruct H|].
  destruct (String.eqb (si_name it) q) eqn:E; [discriminate|].
  destruct H as [H|H]; [apply String.eqb_neq in E; congruence|apply IH, H].
Qed.

(** one result target *)
Lemma target_refines e sc tables res row :
  scope_rel sc tables -> NoDup (map si_name sc) ->
  Forall (fun it => NoDup (map sc_name (si_cols it))) sc ->
  simple_target sc res ->
  match row_step sc [sc] (POk row) res, target_columns e tables res with
  | POk r', Ok a => exists d, r' = row ++ d /\ names_agree d a
  | PErr _, Err _ => True
  | _, _ => False
  end.
Proof.
  intros Hrel Hnd Hcols Hst. unfold row_step. cbn [pbind].
  destruct Hst as [Hk Hv Hstar Hf Hn | q Hk Hv Hstar Hf Hq Hn Hin | cn Hk Hv Hstar Hf | q cn Hk Hv Hstar Hf Hq];
    rewrite (target_model_form e tables res Hv);
    unfold is_kind at 1; rewrite Hv; replace (String.eqb "ColumnRef" "ColumnRef") with true by reflexivity;
    change (has_star_ref (kid "Val" res)) with (is_star (kid "Val" res)); rewrite Hstar, ?Hf.
  - (* * *)
    eexists. split; [reflexivity|]. unfold names_agree.
    rewrite (star_columns_all_names _ _ _ Hf Hn). apply scope_all_cols, Hrel.
  - (* q.* *)
    destruct (scope_named sc tables q Hrel Hnd) as [[H1 _]|[it [t [H1 [H2 [_ Hc]]]]]].
    + exfalso. exact (in_names_filter sc q Hin H1).
    + rewrite H1. eexists. split; [reflexivity|]. unfold names_agree.
      rewrite (star_columns_of_names _ _ _ q Hf Hq Hn), H2. simpl. rewrite app_nil_r. exact Hc.
  - (* column *)
    unfold resolve_ref. rewrite Hf. cbn [resolve_unqualified].
    unfold output_column_refs. rewrite Hf. cbv zeta. rewrite ref_cols_as_map.
    pose proof (scope_cols_named sc tables cn Hrel) as Hcn.
    destruct (cols_named sc cn) as [|x [|x2 A]]; destruct (ref_candidates tables "" cn) as [|c [|c2 B]];
      simpl in Hcn; try discriminate; cbn [pbind map]; unfold err_at; try destruct (loc_of res =? 0)%Z; try exact I.
    all: eexists; split; [reflexivity|]; unfold names_agree; simpl; unfold res_name;
      injection Hcn as Hcn; destruct (str_opt "Name" res); simpl; congruence.
  - (* q.column *)
    unfold resolve_ref. rewrite Hf. cbn [resolve_qualified].
    unfold output_column_refs. rewrite Hf. cbv zeta. rewrite ref_cols_as_map, (candidates_qualified tables q cn Hq).
    destruct (scope_named sc tables q Hrel Hnd) as [[H1 H2]|[it [t [H1 [H2 [_ Hc]]]]]]; rewrite H1, H2.
    + simpl. unfold err_at. destruct (loc_of res =? 0)%Z; exact I.
    + simpl. rewrite app_nil_r.
      pose proof (names_filter_length _ _ cn Hc) as Hfl.
      assert (Hle : (List.length (filter (fun x => String.eqb (sc_name x) cn) (si_cols it)) <= 1)%nat).
      { apply filter_nodup_le1. rewrite Forall_forall in Hcols. apply Hcols.
        assert (Hi : In it (filter (fun it0 => String.eqb (si_name it0) q) sc)) by (rewrite H1; left; reflexivity).
        apply filter_In in Hi. tauto. }
      destruct (filter (fun x => String.eqb (sc_name x) cn) (si_cols it)) as [|x [|x2 A]];
        destruct (filter (fun c => String.eqb (qc_name c) cn) (qt_cols t)) as [|c [|c2 B]];
        simpl in Hfl, Hle; try discriminate; try lia; cbn [pbind map]; unfold err_at; try destruct (loc_of res =? 0)%Z; try exact I.
      all: eexists; split; [reflexivity|]; unfold names_agree; simpl; unfold res_name;
        injection Hfl as Hfl; destruct (str_opt "Name" res); simpl; congruence.
Qed.

Lemma row_fold_err sc stack targets e0 :
  fold_left (row_step sc stack) targets (PErr e0) = PErr e0.
Proof. induction targets as [|t ts IH]; simpl; [reflexivity|]. exact IH. Qed.

Lemma level_refines_gen e sc tables targets : forall row,
  scope_rel sc tables -> NoDup (map si_name sc) ->
  Forall (fun it => NoDup (map sc_name (si_cols it))) sc ->
  Forall (simple_target sc) targets ->
  match fold_left (row_step sc [sc]) targets (POk row), targets_columns e tables targets with
  | POk r', Ok cols => exists d, r' = row ++ d /\ names_agree d cols
  | PErr _, Err _ => True
  | _, _ => False
  end.
Proof.
  induction targets as [|t ts IH]; intros row Hrel Hnd Hcols Hall; cbn [fold_left targets_columns].
  - exists []. split; [rewrite app_nil_r; reflexivity|reflexivity].
  - inversion Hall as [|? ? Hst Hall']; subst.
    assert (Hk : is_kind "ResTarget" t = true) by (destruct Hst; assumption). rewrite Hk.
    pose proof (target_refines e sc tables t row Hrel Hnd Hcols Hst) as Ht.
    destruct (row_step sc [sc] (POk row) t) as [r1|e1]; destruct (target_columns e tables t) as [a|m|m];
      try contradiction; cbn [bind].
    + destruct Ht as [d1 [-> Hd1]].
      specialize (IH (row ++ d1) Hrel Hnd Hcols Hall').
      destruct (fold_left (row_step sc [sc]) ts (POk (row ++ d1))) as [r2|e2];
        destruct (targets_columns e tables ts) as [b|m|m]; try contradiction; cbn [bind]; [|exact I].
      destruct IH as [d2 [-> Hd2]]. exists (d1 ++ d2). split; [rewrite app_assoc; reflexivity|].
      unfold names_agree in *. rewrite !map_app, Hd1, Hd2. reflexivity.
    + rewrite row_fold_err. exact I.
Qed.

(** One query level.  Given related scopes (same relation names, same column
    names in order; distinct relation names; distinct column names per
    relation), a result list of stars and column references is accepted by
    sqlc's inference iff the reference semantics accepts it, and then both
    produce the same number of columns with the same names in the same order. *)
Theorem level_refines e sc tables targets :
  scope_rel sc tables -> NoDup (map si_name sc) ->
  Forall (fun it => NoDup (map sc_name (si_cols it))) sc ->
  Forall (simple_target sc) targets ->
  match row_of sc [sc] targets, targets_columns e tables targets with
  | POk row, Ok cols => map sc_name row = map qc_name cols
  | PErr _, Err _ => True
  | _, _ => False
  end.
Proof.
  intros Hrel Hnd Hcols Hall. unfold row_of.
  pose proof (level_refines_gen e sc tables targets [] Hrel Hnd Hcols Hall) as H.
  destruct (fold_left (row_step sc [sc]) targets (POk [])) as [r|e1];
    destruct (targets_columns e tables targets) as [c|m|m]; try contradiction; [|exact I].
  destruct H as [d [-> Hd]]. exact Hd.
Qed.
