(** Positional (JDBC) parameters: sorting the found references by source
    location yields exactly the statement's placeholders in text order. *)
From Coq Require Import Sorting.Permutation Sorting.Sorted Lia.
From Verif Require Import Model.Query Proofs.ParamsFacts.
Open Scope string_scope.
Open Scope list_scope.

Section ZKeyed.
  Context {A : Type} (key : A -> Z).
  Definition zkle (a b : A) : Prop := (key a <= key b)%Z.
  Definition zklt (a b : A) : Prop := (key a < key b)%Z.

  Lemma zsorted_strict l : Sorted zkle l -> NoDup (map key l) -> StronglySorted zklt l.
  Proof.
    intros S N. apply Sorted_StronglySorted in S; [|intros a b c; unfold zkle; lia].
    induction S as [|a l S IH F]; constructor.
    - apply IH. inversion N; assumption.
    - inversion N as [|? ? Hnotin _]; subst. rewrite Forall_forall in *. intros y Hy.
      specialize (F y Hy). unfold zkle in F. unfold zklt.
      destruct (Z.eq_dec (key a) (key y)) as [E|E]; [|lia].
      exfalso. apply Hnotin. rewrite E. apply in_map, Hy.
  Qed.

  Lemma zstrict_unique (l1 l2 : list A) :
    StronglySorted zklt l1 -> StronglySorted zklt l2 -> Permutation l1 l2 -> l1 = l2.
  Proof.
    revert l2. induction l1 as [|x l1 IH]; intros l2 S1 S2 P.
    - apply Permutation_nil in P. congruence.
    - destruct l2 as [|y l2]; [apply Permutation_sym, Permutation_nil in P; discriminate|].
      inversion S1 as [|? ? S1' F1]; subst. inversion S2 as [|? ? S2' F2]; subst.
      rewrite Forall_forall in F1, F2.
      assert (x = y) as ->.
      { assert (Hx : In x (y :: l2)) by (eapply Permutation_in; [exact P|left; reflexivity]).
        assert (Hy : In y (x :: l1)) by (eapply Permutation_in; [apply Permutation_sym, P|left; reflexivity]).
        destruct Hx as [->|Hx]; [reflexivity|]. destruct Hy as [->|Hy]; [reflexivity|].
        exfalso. specialize (F1 y Hy). specialize (F2 x Hx). unfold zklt in *. lia. }
      f_equal. apply IH; auto. eapply Permutation_cons_inv; exact P.
  Qed.

  Lemma zstrict_nodup l : StronglySorted zklt l -> NoDup (map key l).
  Proof.
    induction 1 as [|a l S IH F]; simpl; constructor; [|exact IH].
    rewrite Forall_forall in F. intros Hin. apply in_map_iff in Hin. destruct Hin as [y [E Hy]].
    specialize (F y Hy). unfold zklt in F. lia.
  Qed.
End ZKeyed.

Lemma insert_ref_loc_perm r l : Permutation (r :: l) (insert_ref_loc r l).
Proof.
  induction l as [|y l IH]; simpl; [apply Permutation_refl|].
  destruct (ref_loc r <=? ref_loc y)%Z; [apply Permutation_refl|].
  eapply Permutation_trans; [apply perm_swap|]. apply perm_skip, IH.
Qed.
Lemma sort_refs_loc_perm l : Permutation l (sort_refs_loc l).
Proof.
  induction l as [|x l IH]; simpl; [constructor|].
  eapply Permutation_trans; [apply perm_skip, IH|]. apply insert_ref_loc_perm.
Qed.

Lemma insert_ref_loc_sorted r l : Sorted (zkle ref_loc) l -> Sorted (zkle ref_loc) (insert_ref_loc r l).
Proof.
  induction l as [|y l IH]; simpl; intros S; [repeat constructor|].
  destruct (ref_loc r <=? ref_loc y)%Z eqn:E.
  - constructor; [exact S|]. constructor. unfold zkle. lia.
  - inversion S as [|? ? S' Hd]; subst. constructor; [apply IH, S'|].
    destruct l as [|z l]; simpl.
    + constructor. unfold zkle. lia.
    + destruct (ref_loc r <=? ref_loc z)%Z eqn:E2; constructor.
      * unfold zkle. lia.
      * inversion Hd; subst. assumption.
Qed.
Lemma sort_refs_loc_sorted l : Sorted (zkle ref_loc) (sort_refs_loc l).
Proof. induction l as [|x l IH]; simpl; [constructor|]. apply insert_ref_loc_sorted, IH. Qed.

(** a placeholder occurrence: (byte offset, number) *)
Definition mark_of (r : pref) : Z * Z := (ref_loc r, ref_number r).

Lemma sorted_map_mark l : Sorted (zkle ref_loc) l -> Sorted (zkle (@fst Z Z)) (map mark_of l).
Proof.
  induction 1 as [|a l S IH Hd]; simpl; constructor; [exact IH|].
  destruct Hd; simpl; constructor. exact H.
Qed.

(** The parameter list of positional mode is the statement's placeholders in
    text order — whatever order the tree walk found them in. *)
Theorem binds_text_order (refs : list pref) (marks : list (Z * Z)) :
  StronglySorted (zklt (@fst Z Z)) marks ->
  Permutation (map mark_of refs) marks ->
  map mark_of (sort_refs_loc refs) = marks.
Proof.
  intros S P. apply (zstrict_unique (@fst Z Z)); [|exact S|].
  - apply zsorted_strict; [apply sorted_map_mark, sort_refs_loc_sorted|].
    eapply Permutation_NoDup; [|apply (zstrict_nodup _ _ S)].
    apply Permutation_map, Permutation_sym.
    eapply Permutation_trans; [|exact P]. apply Permutation_map, Permutation_sym, sort_refs_loc_perm.
  - eapply Permutation_trans; [|exact P]. apply Permutation_map, Permutation_sym, sort_refs_loc_perm.
Qed.

(** stable: references already in text order are left alone *)
Lemma sort_refs_loc_id l : StronglySorted (zkle ref_loc) l -> sort_refs_loc l = l.
Proof.
  induction 1 as [|a l S IH F]; simpl; [reflexivity|]. rewrite IH.
  destruct l as [|b l]; simpl; [reflexivity|].
  rewrite Forall_forall in F. specialize (F b (or_introl eq_refl)). unfold zkle in F.
  destruct (ref_loc a <=? ref_loc b)%Z eqn:E; [reflexivity|lia].
Qed.

(** each occurrence is described by the first reference to its number: the
    number is unchanged ... *)
Lemma first_ref_number firsts r : ref_number (first_ref firsts r) = ref_number r.
Proof.
  unfold first_ref. destruct (filter _ firsts) as [|f fs] eqn:E; [reflexivity|].
  assert (H : In f (filter (fun f => Z.eqb (ref_number f) (ref_number r)) firsts)) by (rewrite E; left; reflexivity).
  apply filter_In in H. destruct H as [_ H]. apply Z.eqb_eq in H. exact H.
Qed.
Theorem positional_numbers l : map ref_number (positional_refs l) = map ref_number (sort_refs_loc l).
Proof.
  unfold positional_refs. rewrite map_map. apply map_ext. intros r. apply first_ref_number.
Qed.

(** ... and it is one of the references the numbered mode keeps *)
Theorem positional_refs_are_first l r : In r (positional_refs l) -> In r (unique_refs [] l).
Proof.
  unfold positional_refs. rewrite in_map_iff. intros [x [Hx Hin]].
  assert (Hl : In x l) by (eapply Permutation_in; [apply Permutation_sym, sort_refs_loc_perm|exact Hin]).
  destruct (unique_refs_numbers [] l) as [_ H].
  assert (Hn : In (ref_number x) (map ref_number (unique_refs [] l))).
  { apply H. split; [apply in_map, Hl|intros []]. }
  apply in_map_iff in Hn. destruct Hn as [f [Hf Hfin]].
  unfold first_ref in Hx.
  destruct (filter (fun f0 => Z.eqb (ref_number f0) (ref_number x)) (unique_refs [] l)) as [|g gs] eqn:E.
  - exfalso. assert (Hc : In f (filter (fun f0 => Z.eqb (ref_number f0) (ref_number x)) (unique_refs [] l))).
    { apply filter_In. split; [exact Hfin|]. apply Z.eqb_eq. exact Hf. }
    rewrite E in Hc. exact Hc.
  - subst r. assert (Hg : In g (filter (fun f0 => Z.eqb (ref_number f0) (ref_number x)) (unique_refs [] l))) by (rewrite E; left; reflexivity).
    apply filter_In in Hg. tauto.
Qed.
