(** Refinement proof for property C08: on catalogs with unique names the
    transcribed [Catalog.Update] and the PostgreSQL reference semantics agree
    statement by statement, and both keep names unique. *)
From Verif Require Import Base.Str Base.Result Model.Catalog Spec.PgCatalog Proofs.ListOps.
Open Scope string_scope.
Open Scope list_scope.

Definition typ_ok (t : typ) : Prop :=
  match t with Enum _ vals _ => NoDup vals | Composite _ _ => True end.
Definition table_ok (t : table) : Prop := NoDup (map col_name (tab_cols t)).
Definition schema_ok (s : schema) : Prop :=
  NoDup (map tab_name (sch_tables s)) /\ NoDup (map typ_name (sch_types s))
  /\ Forall table_ok (sch_tables s) /\ Forall typ_ok (sch_types s).
(** No two schemas, relations of a schema, types of a schema, columns of a
    table or labels of an enum share a name. *)
Definition Inv (c : catalog) : Prop :=
  NoDup (map sch_name (cat_schemas c)) /\ Forall schema_ok (cat_schemas c).

Definition agree (a b : result catalog) : Prop :=
  match a, b with
  | Ok x, Ok y => x = y /\ Inv x
  | Err _, Err _ => True
  | _, _ => False
  end.

Lemma Inv_initial : Inv pg_initial.
Proof.
  split.
  - simpl. repeat constructor; simpl; intuition discriminate.
  - repeat constructor.
Qed.

Lemma mem_str_In x l : mem_str x l = true <-> In x l.
Proof.
  induction l as [|y l IH]; simpl; [split; [discriminate|tauto]|].
  rewrite orb_true_iff, IH. split; intros [H|H]; auto.
  - left. apply String.eqb_eq in H. auto.
  - left. subst. apply String.eqb_refl.
Qed.

Lemma nodup_str_NoDup l : nodup_str l = true -> NoDup l.
Proof.
  induction l as [|x l IH]; simpl; intros H; [constructor|].
  apply andb_true_iff in H as [H1 H2]. constructor; auto.
  intros Hin. apply mem_str_In in Hin. rewrite Hin in H1. discriminate.
Qed.

Lemma mem_str_false x l : mem_str x l = false -> ~ In x l.
Proof. intros H Hin. apply mem_str_In in Hin. congruence. Qed.

(** * schema-level plumbing *)
Lemma with_schema_map c n f : Inv c -> with_schema c n f = map_schema c n f.
Proof.
  intros [N _]. unfold with_schema, map_schema. f_equal.
  exact (upd_first_map sch_name n f _ N).
Qed.

Lemma Inv_map_schema c n f :
  Inv c ->
  (forall s, In s (cat_schemas c) -> sch_name s = n -> schema_ok s ->
             sch_name (f s) = sch_name s /\ schema_ok (f s)) ->
  Inv (map_schema c n f).
Proof.
  intros [N F] H. split; simpl.
  - rewrite map_map. erewrite map_ext_in; [exact N|].
    intros s Hs. simpl. unfold sch_is. destruct (String.eqb_spec (sch_name s) n) as [E|E]; [|reflexivity].
    rewrite Forall_forall in F. apply (H s Hs E (F s Hs)).
  - rewrite Forall_forall in *. intros s' Hs'. apply in_map_iff in Hs' as [s [Es Hs]]. subst s'.
    unfold sch_is. destruct (String.eqb_spec (sch_name s) n) as [E|E]; [|auto].
    apply (H s Hs E (F s Hs)).
Qed.

Lemma the_schema_in c n s : the_schema c n = Some s -> In s (cat_schemas c) /\ sch_name s = n.
Proof.
  unfold the_schema. intros H. apply find_first_some in H as [H1 H2].
  split; [exact H1|]. apply String.eqb_eq, H2.
Qed.

Lemma Inv_schema_ok c n s : Inv c -> the_schema c n = Some s -> schema_ok s.
Proof.
  intros [_ F] H. apply the_schema_in in H as [H _]. rewrite Forall_forall in F. auto.
Qed.

(** the schema found by name is the only one with that name *)
Lemma same_schema c n s s' :
  Inv c -> the_schema c n = Some s -> In s' (cat_schemas c) -> sch_name s' = n -> s' = s.
Proof.
  intros [N _] H. unfold the_schema in H. revert H N.
  induction (cat_schemas c) as [|x l IH]; simpl; [discriminate|].
  unfold sch_is at 1. intros H N Hin En. inversion N as [|? ? Hx N']; subst.
  destruct (String.eqb_spec (sch_name x) (sch_name s')) as [E|E].
  - inversion H; subst. destruct Hin as [->|Hin]; [reflexivity|].
    exfalso. apply Hx. rewrite E. apply in_map, Hin.
  - destruct Hin as [->|Hin]; [congruence|]. apply IH; auto.
Qed.

Lemma has_schema_the c n : has_schema c n = match the_schema c n with Some _ => true | None => false end.
Proof. apply existsb_find_first. Qed.
Lemma has_rel_get s n : has_rel s n = match get_table s n with Some _ => true | None => false end.
Proof. apply existsb_find_first. Qed.
Lemma has_type_get s n : has_type s n = match get_type s n with Some _ => true | None => false end.
Proof. apply (existsb_find_first (enum_is n)). Qed.

Lemma with_table_map s n f : schema_ok s -> with_table s n f = map_table n f s.
Proof.
  intros [N _]. unfold with_table, map_table. f_equal.
  exact (upd_first_map tab_name n f _ N).
Qed.
Lemma with_type_map s n f : schema_ok s -> with_type s n f = map_type n f s.
Proof.
  intros (_ & N & _). unfold with_type, map_type. f_equal.
  exact (upd_first_map typ_name n f _ N).
Qed.

Lemma get_table_in s n t : get_table s n = Some t -> In t (sch_tables s) /\ tab_name t = n.
Proof.
  unfold get_table. intros H. apply find_first_some in H as [H1 H2].
  split; [exact H1|]. apply String.eqb_eq, H2.
Qed.
Lemma get_table_notin s n : get_table s n = None -> ~ In n (map tab_name (sch_tables s)).
Proof. apply (find_first_none_notin tab_name). Qed.
Lemma get_type_notin s n : get_type s n = None -> ~ In n (map typ_name (sch_types s)).
Proof. apply (find_first_none_notin typ_name). Qed.
Lemma get_type_in s n t : get_type s n = Some t -> In t (sch_types s) /\ typ_name t = n.
Proof.
  unfold get_type. intros H. apply find_first_some in H as [H1 H2].
  split; [exact H1|]. apply String.eqb_eq, H2.
Qed.

Lemma schema_ok_map_table s n f :
  schema_ok s ->
  (forall t, In t (sch_tables s) -> tab_name t = n -> table_ok t -> tab_name (f t) = tab_name t /\ table_ok (f t)) ->
  schema_ok (map_table n f s) /\ sch_name (map_table n f s) = sch_name s.
Proof.
  intros (N1 & N2 & F1 & F2) H. split; [|reflexivity]. unfold schema_ok; simpl. repeat split; auto.
  - rewrite map_map. erewrite map_ext_in; [exact N1|].
    intros t Ht. simpl. unfold tab_is. destruct (String.eqb_spec (tab_name t) n) as [E|E]; [|reflexivity].
    rewrite Forall_forall in F1. apply (H t Ht E (F1 t Ht)).
  - rewrite Forall_forall in *. intros t' Ht'. apply in_map_iff in Ht' as [t [Et Ht]]. subst t'.
    unfold tab_is. destruct (String.eqb_spec (tab_name t) n) as [E|E]; [|auto].
    apply (H t Ht E (F1 t Ht)).
Qed.

Lemma schema_ok_map_type s n f :
  schema_ok s ->
  (forall t, In t (sch_types s) -> typ_name t = n -> typ_ok t -> typ_name (f t) = typ_name t /\ typ_ok (f t)) ->
  schema_ok (map_type n f s) /\ sch_name (map_type n f s) = sch_name s.
Proof.
  intros (N1 & N2 & F1 & F2) H. split; [|reflexivity]. unfold schema_ok; simpl. repeat split; auto.
  - rewrite map_map. erewrite map_ext_in; [exact N2|].
    intros t Ht. simpl. destruct (String.eqb_spec (typ_name t) n) as [E|E]; [|reflexivity].
    rewrite Forall_forall in F2. apply (H t Ht E (F2 t Ht)).
  - rewrite Forall_forall in *. intros t' Ht'. apply in_map_iff in Ht' as [t [Et Ht]]. subst t'.
    destruct (String.eqb_spec (typ_name t) n) as [E|E]; [|auto].
    apply (H t Ht E (F2 t Ht)).
Qed.

Lemma Forall_app_snoc {A} (P : A -> Prop) l x : Forall P l -> P x -> Forall P (l ++ [x]).
Proof. intros. apply Forall_app. split; auto. Qed.

Lemma Forall_filter {A} (P : A -> Prop) p l : Forall P l -> Forall P (filter p l).
Proof.
  rewrite !Forall_forall. intros H x Hx. apply filter_In in Hx. apply H, Hx.
Qed.

Lemma del_last_sch n l : NoDup (map sch_name l) ->
  del_last (sch_is n) l = filter (fun s => negb (sch_is n s)) l.
Proof. exact (del_last_filter sch_name n l). Qed.
Lemma del_first_tab n l : NoDup (map tab_name l) ->
  del_first (tab_is n) l = filter (fun t => negb (tab_is n t)) l.
Proof. exact (del_first_filter tab_name n l). Qed.
Lemma del_first_typ n l : NoDup (map typ_name l) ->
  del_first (enum_is n) l = filter (fun t => negb (String.eqb (typ_name t) n)) l.
Proof. exact (del_first_filter typ_name n l). Qed.
Lemma del_first_col n l : NoDup (map col_name l) ->
  del_first (col_is n) l = filter (fun x => negb (col_is n x)) l.
Proof. exact (del_first_filter col_name n l). Qed.
Lemma upd_first_col n f l : NoDup (map col_name l) ->
  upd_first (col_is n) f l = map (fun x => if col_is n x then f x else x) l.
Proof. exact (upd_first_map col_name n f l). Qed.

(** * Statement by statement *)
Lemma step_create_schema c ine n : Inv c -> agree (update c (CreateSchema ine n)) (pg_exec c (CreateSchema ine n)).
Proof.
  intros I. simpl. unfold create_schema. rewrite has_schema_the.
  change (get_schema c n) with (the_schema c n).
  destruct (the_schema c n) as [s|] eqn:E.
  - destruct ine; simpl; auto.
  - simpl. split; [reflexivity|]. destruct I as [N F]. split; simpl.
    + apply (nodup_snoc sch_name); [exact N|]. simpl. apply (find_first_none_notin sch_name), E.
    + apply Forall_app_snoc; [exact F|]. repeat split; constructor.
Qed.

Lemma step_drop_schemas names : forall c ie, Inv c ->
  agree (drop_schemas c ie names) (pg_drop_schemas c ie names).
Proof.
  induction names as [|n names IH]; intros c ie I; simpl.
  - auto.
  - fold (has_schema c n). destruct (has_schema c n) eqn:E.
    + destruct I as [N F]. rewrite (del_last_sch n _ N).
      apply IH. split; simpl; [apply (nodup_filter sch_name), N|apply Forall_filter, F].
    + destruct ie; simpl; auto.
Qed.

Lemma col_of_def_names pk cols : map col_name (map (col_of_def pk) cols) = map cd_name cols.
Proof. rewrite map_map. reflexivity. Qed.

Lemma step_create_table c ine q cols pk : Inv c ->
  agree (update c (CreateTable ine q cols pk)) (pg_exec c (CreateTable ine q cols pk)).
Proof.
  intros I. cbn [update pg_exec]. unfold create_table.
  change (get_schema c (ns_of c q)) with (the_schema c (ns_of c q)).
  destruct (the_schema c (ns_of c q)) as [s|] eqn:Es; [|simpl; auto].
  rewrite has_rel_get.
  destruct (get_table s (q_name q)) as [t|] eqn:Et.
  - destruct ine; simpl; auto.
  - change (existsb (enum_is (q_name q)) (sch_types s)) with (has_type s (q_name q)).
    rewrite has_type_get.
    destruct (nodup_str (map cd_name cols)) eqn:En; cbn [negb].
    2:{ destruct (get_type s (q_name q)); simpl; auto. }
    destruct (get_type s (q_name q)) eqn:Ety; [simpl; auto|].
    rewrite with_schema_map by assumption. split; [reflexivity|].
    apply Inv_map_schema; [assumption|].
    intros s' Hs' En' Hok. split; [reflexivity|].
    assert (s' = s) as -> by (eapply same_schema; eassumption).
    destruct Hok as (N1 & N2 & F1 & F2). unfold schema_ok; simpl. repeat split; auto.
    + apply (nodup_snoc tab_name); [exact N1|]. simpl. apply get_table_notin, Et.
    + apply Forall_app_snoc; [exact F1|]. unfold table_ok; simpl.
      rewrite col_of_def_names. apply nodup_str_NoDup, En.
Qed.

Lemma the_rel_lookup c q : the_rel c q = lookup_table c q.
Proof. reflexivity. Qed.

Lemma Inv_drop_table c ns n : Inv c ->
  Inv (map_schema c ns (fun s => set_tables s (filter (fun t => negb (tab_is n t)) (sch_tables s)))).
Proof.
  intros I. apply Inv_map_schema; [exact I|].
  intros s _ _ (N1 & N2 & F1 & F2). split; [reflexivity|].
  unfold schema_ok; simpl. repeat split; auto.
  - apply (nodup_filter tab_name), N1.
  - apply Forall_filter, F1.
Qed.

Lemma step_drop_tables names : forall c ie, Inv c ->
  agree (drop_tables c ie names) (pg_drop_tables c ie names).
Proof.
  induction names as [|q names IH]; intros c ie I; cbn [drop_tables pg_drop_tables]; [simpl; auto|].
  unfold the_rel. change (get_schema c (ns_of c q)) with (the_schema c (ns_of c q)).
  destruct (the_schema c (ns_of c q)) as [s|] eqn:Es.
  - change (find_first (tab_is (q_name q)) (sch_tables s)) with (get_table s (q_name q)).
    destruct (get_table s (q_name q)) as [t|] eqn:Et.
    + rewrite with_schema_map by assumption.
      assert (E : map_schema c (ns_of c q) (fun s0 => set_tables s0 (del_first (tab_is (q_name q)) (sch_tables s0)))
                = map_schema c (ns_of c q) (fun s0 => set_tables s0 (filter (fun t => negb (tab_is (q_name q) t)) (sch_tables s0)))).
      { unfold map_schema. f_equal. apply map_ext_in. intros s' Hs'.
        destruct (sch_is (ns_of c q) s'); [|reflexivity].
        destruct I as [_ F]. rewrite Forall_forall in F. destruct (F s' Hs') as (N1 & _).
        rewrite del_first_tab by assumption. reflexivity. }
      rewrite E. apply IH. apply Inv_drop_table, I.
    + destruct ie; [apply IH, I|simpl; auto].
  - destruct ie; [apply IH, I|simpl; auto].
Qed.

Lemma step_rename_table c q new : Inv c ->
  (forall s, the_schema c (ns_of c q) = Some s -> has_type s new = false) ->
  agree (update c (RenameTable false q new)) (pg_exec c (RenameTable false q new)).
Proof.
  intros I Hty. cbn [update pg_exec]. unfold rename_table, lookup_table, the_rel.
  change (get_schema c (ns_of c q)) with (the_schema c (ns_of c q)).
  destruct (the_schema c (ns_of c q)) as [s|] eqn:Es; [|simpl; auto].
  change (find_first (tab_is (q_name q)) (sch_tables s)) with (get_table s (q_name q)).
  destruct (get_table s (q_name q)) as [t|] eqn:Et; [|simpl; auto].
  cbn [bind]. unfold name_taken. rewrite (Hty s eq_refl), orb_false_r, has_rel_get.
  destruct (get_table s new) as [t'|] eqn:Enew; [simpl; auto|].
  rewrite with_schema_map by assumption.
  assert (Hok : schema_ok s) by (eapply Inv_schema_ok; eassumption).
  assert (E : map_schema c (ns_of c q) (fun s0 => with_table s0 (q_name q) (fun t0 => mkTab new (tab_cols t0) (tab_comment t0)))
            = map_schema c (ns_of c q) (map_table (q_name q) (fun t0 => mkTab new (tab_cols t0) (tab_comment t0)))).
  { unfold map_schema. f_equal. apply map_ext_in. intros s' Hs'.
    destruct (sch_is (ns_of c q) s'); [|reflexivity].
    destruct I as [_ F]. rewrite Forall_forall in F. apply with_table_map, F, Hs'. }
  rewrite E. split; [reflexivity|].
  apply Inv_map_schema; [exact I|].
  intros s' Hs' En' _. split; [reflexivity|].
  assert (s' = s) as -> by (eapply same_schema; eassumption).
  destruct Hok as (N1 & N2 & F1 & F2). unfold schema_ok; simpl. repeat split; auto.
  - apply (nodup_rename tab_name (q_name q) new); auto. apply get_table_notin, Enew.
  - rewrite Forall_forall in *. intros x Hx. apply in_map_iff in Hx as [y [Hy Hin]]. subst x.
    destruct (tab_is (q_name q) y); [|auto]. apply (F1 y Hin).
Qed.

Lemma map_schema_ext c n f g :
  (forall s, In s (cat_schemas c) -> sch_name s = n -> f s = g s) ->
  map_schema c n f = map_schema c n g.
Proof.
  intros H. unfold map_schema. f_equal. apply map_ext_in. intros s Hs.
  unfold sch_is. destruct (String.eqb_spec (sch_name s) n); auto.
Qed.

Lemma Inv_in_ok c s : Inv c -> In s (cat_schemas c) -> schema_ok s.
Proof. intros [_ F] H. rewrite Forall_forall in F. auto. Qed.

Lemma step_set_schema c q new : Inv c ->
  (forall s, the_schema c new = Some s -> has_type s (q_name q) = false) ->
  agree (update c (SetSchema false q new)) (pg_exec c (SetSchema false q new)).
Proof.
  intros I Hty. cbn [update pg_exec]. unfold set_schema, the_rel.
  change (get_schema c (ns_of c q)) with (the_schema c (ns_of c q)).
  destruct (the_schema c (ns_of c q)) as [s|] eqn:Es; [|simpl; auto].
  change (find_first (tab_is (q_name q)) (sch_tables s)) with (get_table s (q_name q)).
  destruct (get_table s (q_name q)) as [t|] eqn:Et; [|simpl; auto].
  change (get_schema c new) with (the_schema c new).
  destruct (the_schema c new) as [s2|] eqn:Es2; [|simpl; auto].
  unfold name_taken. rewrite (Hty s2 eq_refl), orb_false_r, has_rel_get.
  destruct (get_table s2 (q_name q)) as [t'|] eqn:Et2; [simpl; auto|].
  rewrite (with_schema_map c (ns_of c q)) by assumption.
  rewrite (map_schema_ext c (ns_of c q) _
            (fun s0 => set_tables s0 (filter (fun t0 => negb (tab_is (q_name q) t0)) (sch_tables s0)))).
  2:{ intros s' Hs' _. destruct (Inv_in_ok c s' I Hs') as (N1 & _).
      rewrite del_first_tab by assumption. reflexivity. }
  assert (I1 : Inv (map_schema c (ns_of c q)
            (fun s0 => set_tables s0 (filter (fun t0 => negb (tab_is (q_name q) t0)) (sch_tables s0)))))
    by (apply Inv_drop_table, I).
  rewrite with_schema_map by assumption.
  split; [reflexivity|].
  apply Inv_map_schema; [exact I1|].
  intros s' Hs' En' Hok'. split; [reflexivity|].
  destruct Hok' as (N1 & N2 & F1 & F2). unfold schema_ok; simpl. repeat split; auto.
  - apply (nodup_snoc tab_name); [exact N1|]. simpl.
    (* s' is the image of a schema of c named [new]: either s2 filtered (when ns = new) or s2 itself *)
    simpl in Hs'. apply in_map_iff in Hs' as [s0 [E0 Hs0]].
    assert (Hn0 : sch_name s0 = new).
    { subst s'. destruct (sch_is (ns_of c q) s0); simpl in En'; exact En'. }
    assert (s0 = s2) as -> by (exact (same_schema c new s2 s0 I Es2 Hs0 Hn0)).
    subst s'. apply get_table_notin in Et2.
    destruct (get_table_in _ _ _ Et) as [_ Htn]. rewrite Htn.
    destruct (sch_is (ns_of c q) s2); simpl; [|exact Et2].
    intros Hin. apply Et2. apply in_map_iff in Hin as [y [Hy Hin]].
    apply filter_In in Hin as [Hin _]. rewrite <- Hy. apply in_map, Hin.
  - apply Forall_app_snoc; [exact F1|].
    apply get_table_in in Et as [Hin _].
    destruct (Inv_schema_ok c _ s I Es) as (_ & _ & Ft & _).
    rewrite Forall_forall in Ft. apply Ft, Hin.
Qed.

(** ALTER TABLE sub-commands on a column list with unique names *)
Definition plain_cmd (k : alter_cmd) : bool :=
  match k with AddColumn true _ => false | _ => true end.

Definition agree_cols (a b : result (list column)) : Prop :=
  match a, b with
  | Ok x, Ok y => x = y /\ NoDup (map col_name x)
  | Err _, Err _ => True
  | _, _ => False
  end.

Lemma has_col_notin n cols : has_col n cols = false -> ~ In n (map col_name cols).
Proof.
  unfold has_col. rewrite (existsb_find_first (col_is n)).
  destruct (find_first (col_is n) cols) eqn:E; [discriminate|].
  intros _. apply (find_first_none_notin col_name), E.
Qed.

Lemma alter_cmd_agree cols k :
  NoDup (map col_name cols) -> plain_cmd k = true ->
  agree_cols (alter_cmd_step cols k) (pg_alter_cmd cols k).
Proof.
  intros N Hp. destruct k as [ine d|ie n|n ty arr|n|n]; cbn [alter_cmd_step pg_alter_cmd];
    fold (has_col (cd_name d) cols) || fold (has_col n cols).
  - destruct ine; [discriminate|].
    destruct (has_col (cd_name d) cols) eqn:E; simpl; auto.
    split; [reflexivity|]. apply (nodup_snoc col_name); auto. apply has_col_notin, E.
  - destruct (has_col n cols) eqn:E.
    + rewrite del_first_col by assumption. simpl. split; [reflexivity|]. apply (nodup_filter col_name), N.
    + destruct ie; simpl; auto.
  - destruct (has_col n cols) eqn:E; simpl; auto.
    rewrite upd_first_col by assumption. split; [reflexivity|].
    apply (nodup_map_upd col_name); auto.
  - destruct (has_col n cols) eqn:E; simpl; auto.
    rewrite upd_first_col by assumption. split; [reflexivity|].
    apply (nodup_map_upd col_name); auto.
  - destruct (has_col n cols) eqn:E; simpl; auto.
    rewrite upd_first_col by assumption. split; [reflexivity|].
    apply (nodup_map_upd col_name); auto.
Qed.

Lemma alter_cmds_agree cmds : forall cols,
  NoDup (map col_name cols) -> forallb plain_cmd cmds = true ->
  agree_cols (alter_cmds cols cmds) (pg_alter_cmds cols cmds).
Proof.
  induction cmds as [|k cmds IH]; intros cols N Hp; simpl.
  - auto.
  - simpl in Hp. apply andb_true_iff in Hp as [Hk Hp].
    pose proof (alter_cmd_agree cols k N Hk) as H.
    destruct (alter_cmd_step cols k) as [a| |]; destruct (pg_alter_cmd cols k) as [b| |]; simpl in *; try tauto.
    destruct H as [-> Na]. apply IH; auto.
Qed.

(** replacing the column list of one table *)
Lemma Inv_set_cols c ns n cols : Inv c -> NoDup (map col_name cols) ->
  Inv (map_schema c ns (map_table n (fun t => set_cols t cols))).
Proof.
  intros I Nc. apply Inv_map_schema; [exact I|].
  intros s Hs _ Hok. destruct (schema_ok_map_table s n (fun t => set_cols t cols) Hok) as [H1 H2].
  - intros t _ _ _. split; [reflexivity|exact Nc].
  - split; [exact H2|exact H1].
Qed.

Lemma with_table_schema c ns n f : Inv c ->
  with_schema c ns (fun s => with_table s n f) = map_schema c ns (map_table n f).
Proof.
  intros I. rewrite with_schema_map by assumption.
  apply map_schema_ext. intros s Hs _. apply with_table_map. eapply Inv_in_ok; eassumption.
Qed.

Lemma step_alter_table c q cmds : Inv c -> cmds <> [] -> forallb plain_cmd cmds = true ->
  agree (update c (AlterTable false q cmds)) (pg_exec c (AlterTable false q cmds)).
Proof.
  intros I Hne Hp. cbn [update pg_exec]. unfold alter_table.
  destruct cmds as [|k0 cmds0]; [congruence|]. set (cmds := k0 :: cmds0) in *.
  rewrite <- the_rel_lookup. unfold the_rel.
  destruct (the_schema c (ns_of c q)) as [s|] eqn:Es; [|simpl; auto].
  change (find_first (tab_is (q_name q)) (sch_tables s)) with (get_table s (q_name q)).
  destruct (get_table s (q_name q)) as [t|] eqn:Et; [|simpl; auto].
  assert (Nt : NoDup (map col_name (tab_cols t))).
  { destruct (Inv_schema_ok c _ s I Es) as (_ & _ & Ft & _). rewrite Forall_forall in Ft.
    apply Ft. apply (get_table_in _ _ _ Et). }
  pose proof (alter_cmds_agree cmds (tab_cols t) Nt Hp) as H.
  destruct (alter_cmds (tab_cols t) cmds) as [a| |]; destruct (pg_alter_cmds (tab_cols t) cmds) as [b| |];
    simpl in H; try tauto; cbn [bind]; simpl; auto.
  destruct H as [-> Na]. rewrite with_table_schema by assumption.
  split; [reflexivity|]. apply Inv_set_cols; assumption.
Qed.

Lemma step_rename_column c q old new : Inv c ->
  agree (update c (RenameColumn false q old new)) (pg_exec c (RenameColumn false q old new)).
Proof.
  intros I. cbn [update pg_exec]. unfold rename_column. rewrite <- the_rel_lookup. unfold the_rel.
  destruct (the_schema c (ns_of c q)) as [s|] eqn:Es; [|simpl; auto].
  change (find_first (tab_is (q_name q)) (sch_tables s)) with (get_table s (q_name q)).
  destruct (get_table s (q_name q)) as [t|] eqn:Et; [|simpl; auto].
  cbn [bind]. fold (has_col old (tab_cols t)). fold (has_col new (tab_cols t)).
  destruct (has_col new (tab_cols t)) eqn:En; destruct (has_col old (tab_cols t)) eqn:Eo; simpl; auto.
  rewrite with_table_schema by assumption.
  assert (Hok : schema_ok s) by (eapply Inv_schema_ok; eassumption).
  assert (E : map_schema c (ns_of c q) (map_table (q_name q) (fun t0 => set_cols t0
                (upd_first (col_is old) (fun x => mkCol new (col_type x) (col_notnull x) (col_array x) (col_comment x)) (tab_cols t0))))
            = map_schema c (ns_of c q) (map_table (q_name q) (map_col old
                (fun x => mkCol new (col_type x) (col_notnull x) (col_array x) (col_comment x))))).
  { apply map_schema_ext. intros s' Hs' _. unfold map_table. f_equal.
    apply map_ext_in. intros t' Ht'. destruct (tab_is (q_name q) t'); [|reflexivity].
    unfold set_cols, map_col. f_equal.
    destruct (Inv_in_ok c s' I Hs') as (_ & _ & Ft & _). rewrite Forall_forall in Ft.
    apply upd_first_col, Ft, Ht'. }
  rewrite E. split; [reflexivity|].
  apply Inv_map_schema; [exact I|].
  intros s' Hs' En' Hok'.
  assert (s' = s) as -> by (exact (same_schema c _ s s' I Es Hs' En')).
  destruct (schema_ok_map_table s (q_name q)
     (map_col old (fun x => mkCol new (col_type x) (col_notnull x) (col_array x) (col_comment x))) Hok) as [H1 H2].
  - intros t' Ht' Hn' Hok''. split; [reflexivity|].
    assert (t' = t) as ->.
    { destruct Hok as (N1 & _). exact (find_first_unique tab_name (q_name q) _ t t' N1 Et Ht' Hn'). }
    unfold table_ok, map_col; simpl.
    apply (nodup_rename col_name old new); auto. apply has_col_notin, En.
  - split; [exact H2|exact H1].
Qed.

Lemma step_create_type c q t : Inv c -> typ_name t = q_name q -> typ_ok t ->
  agree (create_type c q t)
        (match the_schema c (ns_of c q) with
         | None => Err e_schema_nf
         | Some s => if name_taken s (q_name q) then Err e_type_ex
                     else Ok (map_schema c (ns_of c q) (fun s => set_types s (sch_types s ++ [t])))
         end).
Proof.
  intros I Hn Hok. unfold create_type.
  change (get_schema c (ns_of c q)) with (the_schema c (ns_of c q)).
  destruct (the_schema c (ns_of c q)) as [s|] eqn:Es; [|simpl; auto].
  unfold name_taken. rewrite has_rel_get, has_type_get.
  destruct (get_table s (q_name q)) as [t'|] eqn:Et; [simpl; auto|].
  destruct (get_type s (q_name q)) as [t'|] eqn:Ety; [simpl; auto|].
  cbn [orb]. rewrite with_schema_map by assumption. split; [reflexivity|].
  apply Inv_map_schema; [exact I|].
  intros s' Hs' En' (N1 & N2 & F1 & F2). split; [reflexivity|].
  assert (s' = s) as -> by (exact (same_schema c _ s s' I Es Hs' En')).
  unfold schema_ok; simpl. repeat split; auto.
  - apply (nodup_snoc typ_name); [exact N2|]. rewrite Hn. apply get_type_notin, Ety.
  - apply Forall_app_snoc; assumption.
Qed.

Lemma step_create_enum c q vals : Inv c -> nodup_str vals = true ->
  agree (update c (CreateEnum q vals)) (pg_exec c (CreateEnum q vals)).
Proof.
  intros I Hv. cbn [update pg_exec].
  pose proof (step_create_type c q (Enum (q_name q) vals "") I eq_refl (nodup_str_NoDup _ Hv)) as H.
  destruct (the_schema c (ns_of c q)) as [s|]; [|exact H].
  destruct (name_taken s (q_name q)); [exact H|]. rewrite Hv. exact H.
Qed.

Lemma step_create_composite c q : Inv c ->
  agree (update c (CreateComposite q)) (pg_exec c (CreateComposite q)).
Proof.
  intros I. cbn [update pg_exec].
  exact (step_create_type c q (Composite (q_name q) "") I eq_refl Logic.I).
Qed.

Lemma the_enum_lookup c q : the_enum c q = lookup_enum c q.
Proof. reflexivity. Qed.

Lemma with_type_schema c ns n f : Inv c ->
  with_schema c ns (fun s => with_type s n f) = map_schema c ns (map_type n f).
Proof.
  intros I. rewrite with_schema_map by assumption.
  apply map_schema_ext. intros s Hs _. apply with_type_map. eapply Inv_in_ok; eassumption.
Qed.

(** updating the labels of the enum named [n] in schema [ns] *)
Lemma Inv_set_vals c q f s vals cm :
  Inv c -> the_schema c (ns_of c q) = Some s -> get_type s (q_name q) = Some (Enum (q_name q) vals cm) ->
  NoDup (f vals) ->
  Inv (map_schema c (ns_of c q) (map_type (q_name q) (set_vals f))).
Proof.
  intros I Es Ety Nf. apply Inv_map_schema; [exact I|].
  intros s' Hs' En' Hok.
  assert (s' = s) as -> by (exact (same_schema c _ s s' I Es Hs' En')).
  destruct (schema_ok_map_type s (q_name q) (set_vals f) Hok) as [H1 H2].
  - intros t Ht Hn _.
    assert (t = Enum (q_name q) vals cm) as ->.
    { destruct Hok as (_ & N2 & _). exact (find_first_unique typ_name (q_name q) _ _ t N2 Ety Ht Hn). }
    split; [reflexivity|exact Nf].
  - split; [exact H2|exact H1].
Qed.

Lemma lookup_enum_some c q vals :
  lookup_enum c q = Ok vals ->
  exists s cm, the_schema c (ns_of c q) = Some s /\ get_type s (q_name q) = Some (Enum (q_name q) vals cm).
Proof.
  unfold lookup_enum. change (get_schema c (ns_of c q)) with (the_schema c (ns_of c q)).
  destruct (the_schema c (ns_of c q)) as [s|]; [|discriminate].
  destruct (get_type s (q_name q)) as [[n v cm|n cm]|] eqn:E; try discriminate.
  intros H. inversion H; subst. exists s, cm. split; [reflexivity|].
  destruct (get_type_in _ _ _ E) as [_ Hn]. simpl in Hn. subst n. exact E.
Qed.

Lemma lookup_enum_no_panic c q m : lookup_enum c q <> Panic m.
Proof.
  unfold lookup_enum. destruct (get_schema c (ns_of c q)) as [s|]; [|discriminate].
  destruct (get_type s (q_name q)) as [[? ? ?|? ?]|]; discriminate.
Qed.
Lemma the_rel_no_panic c q m : the_rel c q <> Panic m.
Proof.
  unfold the_rel. destruct (the_schema c (ns_of c q)) as [s|]; [|discriminate].
  destruct (find_first (tab_is (q_name q)) (sch_tables s)); discriminate.
Qed.

Lemma step_add_value c ine q v : Inv c ->
  agree (update c (AddValue ine q v None)) (pg_exec c (AddValue ine q v None)).
Proof.
  intros I. cbn [update pg_exec]. unfold add_value. change (the_enum c q) with (lookup_enum c q).
  destruct (lookup_enum c q) as [vals|m|m] eqn:El; cbn [bind]; simpl; auto;
    [|exact (lookup_enum_no_panic _ _ _ El)].
  destruct (mem_str v vals) eqn:Ev.
  - destruct ine; simpl; auto.
  - rewrite with_type_schema by assumption. split; [reflexivity|].
    destruct (lookup_enum_some _ _ _ El) as (s & cm & Es & Ety).
    eapply Inv_set_vals; try eassumption.
    assert (Nv : NoDup vals).
    { destruct (Inv_schema_ok c _ s I Es) as (_ & _ & _ & F2). rewrite Forall_forall in F2.
      apply (F2 _ (proj1 (get_type_in _ _ _ Ety))). }
    apply NoDup_app_snoc; [exact Nv|apply mem_str_false, Ev].
Qed.

Lemma replace_first_map old new l : NoDup l ->
  replace_first old new l = map (fun x => if String.eqb x old then new else x) l.
Proof.
  intros N. unfold replace_first.
  apply (upd_first_map (fun x : string => x) old (fun _ => new) l). rewrite map_id. exact N.
Qed.

Lemma step_rename_value c q old new : Inv c ->
  agree (update c (RenameValue q old new)) (pg_exec c (RenameValue q old new)).
Proof.
  intros I. cbn [update pg_exec]. unfold rename_value. change (the_enum c q) with (lookup_enum c q).
  destruct (lookup_enum c q) as [vals|m|m] eqn:El; cbn [bind]; simpl; auto;
    [|exact (lookup_enum_no_panic _ _ _ El)].
  destruct (mem_str old vals) eqn:Eo; simpl; auto.
  destruct (mem_str new vals) eqn:En; simpl; auto.
  rewrite with_type_schema by assumption.
  destruct (lookup_enum_some _ _ _ El) as (s & cm & Es & Ety).
  assert (Nv : NoDup vals).
  { destruct (Inv_schema_ok c _ s I Es) as (_ & _ & _ & F2). rewrite Forall_forall in F2.
    apply (F2 _ (proj1 (get_type_in _ _ _ Ety))). }
  assert (E : map_schema c (ns_of c q) (map_type (q_name q) (set_vals (replace_first old new)))
            = map_schema c (ns_of c q) (map_type (q_name q) (set_vals (map (fun x => if String.eqb x old then new else x))))).
  { apply map_schema_ext. intros s' Hs' En'.
    assert (s' = s) as -> by (exact (same_schema c _ s s' I Es Hs' En')).
    unfold map_type. f_equal. apply map_ext_in. intros t Ht.
    destruct (String.eqb_spec (typ_name t) (q_name q)) as [Hn|Hn]; [|reflexivity].
    assert (t = Enum (q_name q) vals cm) as ->.
    { destruct (Inv_schema_ok c _ s I Es) as (_ & N2 & _).
      exact (find_first_unique typ_name (q_name q) _ _ t N2 Ety Ht Hn). }
    simpl. rewrite replace_first_map by assumption. reflexivity. }
  rewrite E. split; [reflexivity|].
  eapply Inv_set_vals; try eassumption.
  rewrite <- (map_id (map _ vals)).
  apply (nodup_rename (fun x : string => x) old new (fun _ => new)); auto.
  - rewrite map_id. exact Nv.
  - rewrite map_id. apply mem_str_false, En.
Qed.

Lemma step_drop_types names : forall c ie, Inv c ->
  agree (drop_types c ie names) (pg_drop_types c ie names).
Proof.
  induction names as [|q names IH]; intros c ie I; cbn [drop_types pg_drop_types]; [simpl; auto|].
  change (get_schema c (ns_of c q)) with (the_schema c (ns_of c q)).
  destruct (the_schema c (ns_of c q)) as [s|] eqn:Es.
  - rewrite has_type_get.
    destruct (get_type s (q_name q)) as [t|] eqn:Et.
    + rewrite with_schema_map by assumption.
      rewrite (map_schema_ext c (ns_of c q) _
         (fun s0 => set_types s0 (filter (fun t0 => negb (String.eqb (typ_name t0) (q_name q))) (sch_types s0)))).
      2:{ intros s' Hs' _. destruct (Inv_in_ok c s' I Hs') as (_ & N2 & _).
          rewrite del_first_typ by assumption. reflexivity. }
      apply IH. apply Inv_map_schema; [exact I|].
      intros s' _ _ (N1 & N2 & F1 & F2). split; [reflexivity|].
      unfold schema_ok; simpl. repeat split; auto.
      * apply (nodup_filter typ_name), N2.
      * apply Forall_filter, F2.
    + destruct ie; [apply IH, I|simpl; auto].
  - destruct ie; [apply IH, I|simpl; auto].
Qed.

Lemma step_comment_schema c n cm : Inv c ->
  agree (update c (CommentSchema n cm)) (pg_exec c (CommentSchema n cm)).
Proof.
  intros I. cbn [update pg_exec]. unfold comment_schema. rewrite has_schema_the.
  change (get_schema c n) with (the_schema c n).
  destruct (the_schema c n) as [s|]; [|simpl; auto].
  rewrite with_schema_map by assumption. split; [reflexivity|].
  apply Inv_map_schema; [exact I|]. intros s' _ _ Hok. split; [reflexivity|exact Hok].
Qed.

Lemma step_comment_table c q cm : Inv c ->
  agree (update c (CommentTable q cm)) (pg_exec c (CommentTable q cm)).
Proof.
  intros I. cbn [update pg_exec]. unfold comment_table. rewrite <- the_rel_lookup.
  destruct (the_rel c q) as [[s t]|m|m] eqn:Er; cbn [bind]; simpl; auto;
    [|exact (the_rel_no_panic _ _ _ Er)].
  rewrite with_table_schema by assumption. split; [reflexivity|].
  apply Inv_map_schema; [exact I|]. intros s' _ _ Hok.
  destruct (schema_ok_map_table s' (q_name q) (fun t0 => mkTab (tab_name t0) (tab_cols t0) (opt_comment cm)) Hok) as [H1 H2].
  - intros t' _ _ Ht. split; [reflexivity|exact Ht].
  - split; [exact H2|exact H1].
Qed.

Lemma step_comment_column c q col cm : Inv c ->
  agree (update c (CommentColumn q col cm)) (pg_exec c (CommentColumn q col cm)).
Proof.
  intros I. cbn [update pg_exec]. unfold comment_column. rewrite <- the_rel_lookup.
  destruct (the_rel c q) as [[s t]|m|m] eqn:Er; cbn [bind]; simpl; auto;
    [|exact (the_rel_no_panic _ _ _ Er)].
  fold (has_col col (tab_cols t)). destruct (has_col col (tab_cols t)); simpl; auto.
  rewrite with_table_schema by assumption.
  set (f := fun x => mkCol (col_name x) (col_type x) (col_notnull x) (col_array x) (opt_comment cm)).
  assert (E : map_schema c (ns_of c q) (map_table (q_name q) (fun t0 => set_cols t0 (upd_first (col_is col) f (tab_cols t0))))
            = map_schema c (ns_of c q) (map_table (q_name q) (map_col col f))).
  { apply map_schema_ext. intros s' Hs' _. unfold map_table. f_equal.
    apply map_ext_in. intros t' Ht'. destruct (tab_is (q_name q) t'); [|reflexivity].
    unfold set_cols, map_col. f_equal.
    destruct (Inv_in_ok c s' I Hs') as (_ & _ & Ft & _). rewrite Forall_forall in Ft.
    apply upd_first_col, Ft, Ht'. }
  rewrite E. split; [reflexivity|].
  apply Inv_map_schema; [exact I|]. intros s' _ _ Hok.
  destruct (schema_ok_map_table s' (q_name q) (map_col col f) Hok) as [H1 H2].
  - intros t' _ _ Ht. split; [reflexivity|].
    unfold table_ok, map_col; simpl. apply (nodup_map_upd col_name); auto.
  - split; [exact H2|exact H1].
Qed.

Lemma step_comment_type c q cm : Inv c ->
  agree (update c (CommentType q cm)) (pg_exec c (CommentType q cm)).
Proof.
  intros I. cbn [update pg_exec]. unfold comment_type.
  change (get_schema c (ns_of c q)) with (the_schema c (ns_of c q)).
  destruct (the_schema c (ns_of c q)) as [s|]; [|simpl; auto].
  rewrite has_type_get. destruct (get_type s (q_name q)); [|simpl; auto].
  rewrite with_type_schema by assumption. split; [reflexivity|].
  apply Inv_map_schema; [exact I|]. intros s' _ _ Hok.
  destruct (schema_ok_map_type s' (q_name q) (set_type_comment (opt_comment cm)) Hok) as [H1 H2].
  - intros t' _ _ Ht. destruct t'; simpl; auto.
  - split; [exact H2|exact H1].
Qed.

(** * The refinement step and its lift to every history *)
From Verif Require Import Judge.J08.

Theorem step_agree c d :
  Inv c -> wf_ddl d = true -> known_trigger c d = 0%N -> agree (update c d) (pg_exec c d).
Proof.
  intros I Hwf Hk. destruct d as [ine n|ie names|ine q cols pk|ie names|ie q new|ie q new|ie q cmds
                                 |ie q old new|q vals|q|ine q v pos|q old new|ie names|n cm|q cm|q col cm|q cm].
  - apply step_create_schema, I.
  - apply step_drop_schemas, I.
  - apply step_create_table, I.
  - apply step_drop_tables, I.
  - destruct ie; [discriminate|]. apply step_rename_table; [exact I|].
    intros s Es. cbn [known_trigger] in Hk. rewrite Es in Hk.
    destruct (has_type s new); [discriminate|reflexivity].
  - destruct ie; [discriminate|]. apply step_set_schema; [exact I|].
    intros s Es. cbn [known_trigger] in Hk. rewrite Es in Hk.
    destruct (has_type s (q_name q)); [discriminate|reflexivity].
  - destruct ie; [discriminate|]. apply step_alter_table; [exact I| |].
    + destruct cmds; [discriminate|discriminate].
    + cbn [known_trigger] in Hk.
      destruct (existsb (fun k => match k with AddColumn true _ => true | _ => false end) cmds) eqn:E; [discriminate|].
      clear -E. induction cmds as [|k cmds IH]; [reflexivity|].
      simpl in *. apply orb_false_iff in E as [E1 E2]. rewrite (IH E2), andb_true_r.
      destruct k as [[|] ?| | | |]; simpl in *; congruence.
  - destruct ie; [discriminate|]. apply step_rename_column, I.
  - apply step_create_enum; [exact I|]. cbn [known_trigger] in Hk.
    destruct (nodup_str vals); [reflexivity|discriminate].
  - apply step_create_composite, I.
  - destruct pos; [discriminate|]. apply step_add_value, I.
  - apply step_rename_value, I.
  - apply step_drop_types, I.
  - apply step_comment_schema, I.
  - apply step_comment_table, I.
  - apply step_comment_column, I.
  - apply step_comment_type, I.
Qed.

(** no statement of the history falls in a known-finding class, evaluated
    along the reference run *)
Fixpoint no_known (c : catalog) (ds : list ddl) : bool :=
  match ds with
  | [] => true
  | d :: rest =>
      N.eqb (known_trigger c d) 0 &&
      match pg_exec c d with Ok c' => no_known c' rest | _ => true end
  end.

Theorem history_agree ds : forall c,
  Inv c -> forallb wf_ddl ds = true -> no_known c ds = true ->
  agree (build c ds) (pg_run c ds).
Proof.
  induction ds as [|d ds IH]; intros c I Hwf Hk.
  - simpl. auto.
  - cbn [forallb] in Hwf. apply andb_true_iff in Hwf as [Hwf1 Hwf2].
    cbn [no_known] in Hk. apply andb_true_iff in Hk as [Hk1 Hk2]. apply N.eqb_eq in Hk1.
    pose proof (step_agree c d I Hwf1 Hk1) as H.
    cbn [build pg_run].
    destruct (update c d) as [c1|m1|m1]; destruct (pg_exec c d) as [c2|m2|m2]; simpl in H; try tauto.
    destruct H as [-> I1]. cbn [bind]. apply IH; assumption.
Qed.
