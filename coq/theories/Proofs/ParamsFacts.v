(** List-level facts behind property C03: numbering of the parameter list. *)
From Coq Require Import Sorting.Permutation Sorting.Sorted.
From Verif Require Import Model.Compile Spec.Placeholders Judge.JQ Judge.J03.
Open Scope string_scope.
Open Scope list_scope.

Lemma mem_z_In z l : mem_z z l = true <-> In z l.
Proof.
  unfold mem_z. rewrite existsb_exists. split.
  - intros [x [Hx E]]. apply Z.eqb_eq in E. subst. exact Hx.
  - intros H. exists z. split; [exact H|apply Z.eqb_refl].
Qed.

Lemma mem_z_false z l : mem_z z l = false <-> ~ In z l.
Proof. rewrite <- mem_z_In. destruct (mem_z z l); split; congruence. Qed.

(** * uniqueParamRefs keeps the first reference of every number *)
Lemma unique_refs_numbers seen l :
  NoDup (map ref_number (unique_refs seen l))
  /\ (forall z, In z (map ref_number (unique_refs seen l)) <-> In z (map ref_number l) /\ ~ In z seen).
Proof.
  revert seen. induction l as [|r l IH]; intros seen; simpl.
  - split; [constructor|]. intros z. tauto.
  - destruct (mem_z (ref_number r) seen) eqn:E.
    + destruct (IH seen) as [N H]. split; [exact N|].
      intros z. rewrite H. apply mem_z_In in E. split.
      * intros [H1 H2]. auto.
      * intros [[Heq|H1] H2]; [subst z; contradiction|auto].
    + destruct (IH (ref_number r :: seen)) as [N H]. apply mem_z_false in E. split.
      * simpl. constructor; [|exact N]. rewrite H. simpl. tauto.
      * intros z. simpl. rewrite H. simpl. split.
        -- intros [Heq|[H1 H2]]; [subst z; auto|]. split; [auto|]. tauto.
        -- intros [[Heq|H1] H2]; [auto|].
           destruct (Z.eq_dec (ref_number r) z) as [Heq|Hne]; [auto|]. right. split; [exact H1|]. tauto.
Qed.

(** * the insertion sort on reference numbers *)
Lemma insert_ref_perm r l : Permutation (r :: l) (insert_ref r l).
Proof.
  induction l as [|x l IH]; simpl; [apply Permutation_refl|].
  destruct (ref_number r <=? ref_number x)%Z; [apply Permutation_refl|].
  eapply Permutation_trans; [apply perm_swap|]. apply perm_skip, IH.
Qed.

Lemma sort_refs_perm l : Permutation l (sort_refs l).
Proof.
  induction l as [|x l IH]; simpl; [constructor|].
  eapply Permutation_trans; [apply perm_skip, IH|]. apply insert_ref_perm.
Qed.

Definition num_le (a b : pref) : Prop := (ref_number a <= ref_number b)%Z.

Lemma insert_ref_sorted r l : Sorted num_le l -> Sorted num_le (insert_ref r l).
Proof.
  induction l as [|x l IH]; simpl; intros S.
  - repeat constructor.
  - destruct (Z.leb_spec (ref_number r) (ref_number x)) as [Hle|Hgt].
    + constructor; [exact S|]. constructor. exact Hle.
    + inversion S as [|? ? S' Hd]; subst. constructor; [apply IH, S'|].
      destruct l as [|y l]; simpl.
      * constructor. unfold num_le. lia.
      * destruct (Z.leb_spec (ref_number r) (ref_number y)); constructor; unfold num_le; try lia.
        inversion Hd; subst. assumption.
Qed.

Lemma sort_refs_sorted l : Sorted num_le (sort_refs l).
Proof. induction l as [|x l IH]; simpl; [constructor|]. apply insert_ref_sorted, IH. Qed.

Lemma sorted_map_numbers l : Sorted num_le l -> Sorted Z.le (map ref_number l).
Proof.
  induction 1 as [|a l' S IH Hd]; simpl; constructor; auto.
  destruct Hd; simpl; constructor. assumption.
Qed.

(** The parameter numbers after uniqueParamRefs + sort: strictly increasing,
    and exactly the numbers that were found. *)
Theorem sorted_unique_numbers l :
  let ns := map ref_number (sort_refs (unique_refs [] l)) in
  StronglySorted Z.lt ns /\ (forall z, In z ns <-> In z (map ref_number l)).
Proof.
  intros ns. destruct (unique_refs_numbers [] l) as [N H].
  assert (P : Permutation (map ref_number (unique_refs [] l)) ns)
    by (apply Permutation_map, sort_refs_perm).
  split.
  - assert (Nns : NoDup ns) by (eapply Permutation_NoDup; eassumption).
    assert (S : Sorted Z.le ns) by (apply sorted_map_numbers, sort_refs_sorted).
    apply Sorted_StronglySorted in S; [|intros x y z; apply Z.le_trans].
    clear -S Nns. induction S as [|a l' S IH F]; constructor.
    + apply IH. inversion Nns; assumption.
    + inversion Nns as [|? ? Hnotin _]; subst. rewrite Forall_forall in *.
      intros y Hy. specialize (F y Hy). assert (a <> y) by (intros ->; contradiction). lia.
  - intros z. split.
    + intros Hz. eapply Permutation_in in Hz; [|apply Permutation_sym, P]. apply H in Hz. tauto.
    + intros Hz. eapply Permutation_in; [exact P|]. apply H. simpl. tauto.
Qed.

(** * validate.ParamRef: no gap means the numbers are exactly 1..k *)
Lemma first_gap_none seen i fuel :
  first_gap seen i fuel = None -> forall j, (i <= j < i + Z.of_nat fuel)%Z -> In j seen.
Proof.
  revert i. induction fuel as [|fuel IH]; intros i H j Hj; [lia|].
  simpl in H. destruct (mem_z i seen) eqn:E; [|discriminate].
  destruct (Z.eq_dec i j) as [->|Hne]; [apply mem_z_In, E|].
  apply (IH (i + 1)%Z H). lia.
Qed.

Lemma zseq_In start n z : In z (zseq start n) <-> (start <= z < start + Z.of_nat n)%Z.
Proof.
  revert start. induction n as [|n IH]; intros start; simpl; [lia|].
  rewrite IH. lia.
Qed.

Lemma zseq_length start n : List.length (zseq start n) = n.
Proof. revert start; induction n; intros; simpl; auto. Qed.

Lemma zseq_NoDup start n : NoDup (zseq start n).
Proof.
  revert start. induction n as [|n IH]; intros start; simpl; constructor; [|apply IH].
  rewrite zseq_In. lia.
Qed.

Lemma dedup_z_spec l : NoDup (dedup_z l) /\ forall z, In z (dedup_z l) <-> In z l.
Proof.
  induction l as [|x l [N H]]; simpl; [split; [constructor|tauto]|].
  destruct (mem_z x l) eqn:E.
  - split; [exact N|]. intros z. rewrite H. apply mem_z_In in E. split; [tauto|]. intros [->|Hz]; auto.
  - apply mem_z_false in E. split.
    + constructor; [rewrite H; exact E|exact N].
    + intros z. simpl. rewrite H. tauto.
Qed.

(** With k distinct placeholder numbers and no gap, the numbers are 1..k. *)
Theorem no_gap_numbers nums :
  first_gap (dedup_z nums) 1 (List.length (dedup_z nums)) = None ->
  forall z, In z nums <-> (1 <= z <= Z.of_nat (List.length (dedup_z nums)))%Z.
Proof.
  intros H. destruct (dedup_z_spec nums) as [N Hin].
  set (d := dedup_z nums) in *. set (k := List.length d) in *.
  assert (Hincl : incl (zseq 1 k) d).
  { intros j Hj. apply zseq_In in Hj. apply (first_gap_none _ _ _ H). lia. }
  assert (P : Permutation (zseq 1 k) d).
  { apply NoDup_Permutation_bis; [apply zseq_NoDup|rewrite zseq_length; unfold k; lia|exact Hincl]. }
  intros z. rewrite <- Hin. split.
  - intros Hz. eapply Permutation_in in Hz; [|apply Permutation_sym, P]. apply zseq_In in Hz. lia.
  - intros Hz. eapply Permutation_in; [exact P|]. apply zseq_In. lia.
Qed.

(** a strictly increasing list whose elements are exactly 1..k is [1; ...; k] *)
Lemma strictly_sorted_unique (l1 l2 : list Z) :
  StronglySorted Z.lt l1 -> StronglySorted Z.lt l2 -> (forall z, In z l1 <-> In z l2) -> l1 = l2.
Proof.
  revert l2. induction l1 as [|x l1 IH]; intros l2 S1 S2 H.
  - destruct l2 as [|y l2]; [reflexivity|]. exfalso. apply (H y). left; reflexivity.
  - destruct l2 as [|y l2]; [exfalso; apply (H x); left; reflexivity|].
    inversion S1 as [|? ? S1' F1]; subst. inversion S2 as [|? ? S2' F2]; subst.
    rewrite Forall_forall in F1, F2.
    assert (x = y) as ->.
    { assert (Hx : In x (y :: l2)) by (apply H; left; reflexivity).
      assert (Hy : In y (x :: l1)) by (apply H; left; reflexivity).
      destruct Hx as [->|Hx]; [reflexivity|]. destruct Hy as [->|Hy]; [reflexivity|].
      specialize (F1 y Hy). specialize (F2 x Hx). lia. }
    f_equal. apply IH; auto. intros z. split; intros Hz.
    + assert (Hz' : In z (y :: l2)) by (apply H; right; exact Hz).
      destruct Hz' as [->|]; [specialize (F1 _ Hz); lia|assumption].
    + assert (Hz' : In z (y :: l1)) by (apply H; right; exact Hz).
      destruct Hz' as [->|]; [specialize (F2 _ Hz); lia|assumption].
Qed.

Lemma zseq_sorted start n : StronglySorted Z.lt (zseq start n).
Proof.
  revert start. induction n as [|n IH]; intros start; simpl; constructor; [apply IH|].
  rewrite Forall_forall. intros z Hz. apply zseq_In in Hz. lia.
Qed.

(** The composite list fact: references found for numbers without a gap, made
    unique and sorted, are numbered exactly 1, 2, ..., k. *)
Theorem params_numbered (refs : list pref) (nums : list Z) :
  (forall z, In z (map ref_number refs) <-> In z nums) ->
  first_gap (dedup_z nums) 1 (List.length (dedup_z nums)) = None ->
  map ref_number (sort_refs (unique_refs [] refs)) = zseq 1 (List.length (dedup_z nums)).
Proof.
  intros Hsame Hgap. destruct (sorted_unique_numbers refs) as [S Hin].
  apply strictly_sorted_unique; [exact S|apply zseq_sorted|].
  intros z. rewrite Hin, Hsame, (no_gap_numbers nums Hgap), zseq_In. lia.
Qed.
