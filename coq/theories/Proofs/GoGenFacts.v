(** Facts about Model/GoGen.build_queries (result.go buildQueries): what the
    value a method returns / takes says about the query's columns / parameters. *)
From Coq Require Import List String Bool Arith ZArith Lia.
From Verif Require Import Base.Str Base.Result Model.Catalog Model.GoNames Model.GoTypes Model.GoStruct Model.Compile Model.GoGen.
Import ListNotations.
Open Scope string_scope.
Open Scope list_scope.

Lemma find_first_some {A} (p : A -> bool) l x : find_first p l = Some x -> In x l /\ p x = true.
Proof.
  induction l as [|y l IH]; simpl; [discriminate|]. destruct (p y) eqn:E.
  - intros H. inversion H; subst. auto.
  - intros H. destruct (IH H). auto.
Qed.

(** field [k] of a struct / column [k] of a query *)
Definition field_name (f : gfield) : string := fst (fst f).
Definition field_type (f : gfield) : string := snd (fst f).

(** fields_same says, position by position, what the reuse loop compares *)
Lemma fields_same_nth st c tbl pos fs cols k f col :
  fields_same st c tbl pos fs cols = true ->
  nth_error fs k = Some f -> nth_error cols k = Some col ->
  field_name f = struct_name_r st (column_name col (pos + k))
  /\ field_type f = go_type_of st c col
  /\ same_table c col tbl = true.
Proof.
  revert pos cols k. induction fs as [|[[fn ft] ftag] fs IH]; intros pos cols k H Hf Hc.
  - destruct k; discriminate.
  - destruct cols as [|col0 cols]; [simpl in H; discriminate|].
    simpl in H. apply andb_true_iff in H. destruct H as [H Hrest].
    apply andb_true_iff in H. destruct H as [H Ht]. apply andb_true_iff in H. destruct H as [Hn Hty].
    destruct k as [|k]; simpl in Hf, Hc.
    + inversion Hf; subst. inversion Hc; subst. rewrite Nat.add_0_r. unfold field_name, field_type. simpl.
      apply String.eqb_eq in Hn, Hty. auto.
    + destruct (IH (S pos) cols k Hrest Hf Hc) as [A [B C]]. replace (pos + S k) with (S pos + k) by lia. auto.
Qed.

(** C05, the model-type clause (soundness): when a method with two or more result columns returns a
    model struct, that struct is one of the catalog's model structs, it has exactly as many fields as
    the query has columns, and position by position the field carries the column's name (Go-cased),
    the column's Go type, and the column really belongs to that struct's table *)
Theorem reuse_sound st c structs name cols v s :
  build_ret st c structs name cols = Ok v -> vo_emit v = false -> vo_struct v = Some s ->
  In s structs /\ List.length (gst_fields s) = List.length cols
  /\ forall k f col, nth_error (gst_fields s) k = Some f -> nth_error cols k = Some col ->
       field_name f = struct_name_r st (column_name col k)
       /\ field_type f = go_type_of st c col
       /\ same_table c col (gst_table s) = true.
Proof.
  unfold build_ret. destruct cols as [|c0 [|c1 cols]].
  - intros H _ Hs. inversion H; subst. discriminate.
  - intros H _ Hs. inversion H; subst. discriminate.
  - destruct (reuse_struct st c structs (c0 :: c1 :: cols)) as [s'|] eqn:R.
    + intros H _ Hs. inversion H; subst. simpl in Hs. inversion Hs; subst.
      unfold reuse_struct in R. apply find_first_some in R. destruct R as [Hin Hp].
      apply andb_true_iff in Hp. destruct Hp as [Hl Hf]. apply Nat.eqb_eq in Hl.
      split; [exact Hin|]. split; [exact Hl|].
      intros k f col Hk Hc. exact (fields_same_nth _ _ _ 0 _ _ k f col Hf Hk Hc).
    + intros H He _. destruct (columns_to_struct st c (name +++ "Row") (index_from 0 (c0 :: c1 :: cols))); simpl in H; try discriminate.
      inversion H; subst. discriminate.
Qed.

(** columnsToStruct: one field per column, in order, typed by goType of that column *)
Lemma cts_fields_types st c cols names sfx fs :
  List.length names = List.length cols -> List.length sfx = List.length cols ->
  cts_fields st c cols names sfx = Ok fs ->
  map field_type fs = map (go_type_of st c) cols.
Proof.
  revert names sfx fs. induction cols as [|col cols IH]; intros names sfx fs Hn Hs H.
  - destruct names, sfx; simpl in H; inversion H; reflexivity.
  - destruct names as [|nm names]; [discriminate|]. destruct sfx as [|s sfx]; [discriminate|].
    simpl in H. destruct (field_tag st (with_suffix nm s)); simpl in H; try discriminate.
    destruct (cts_fields st c cols names sfx) as [rest| |] eqn:E; simpl in H; try discriminate.
    inversion H; subst. simpl. unfold field_type at 1. simpl. f_equal.
    apply (IH names sfx rest); [simpl in Hn; lia|simpl in Hs; lia|exact E].
Qed.

Lemma col_names_length pos cols : List.length (col_names pos cols) = List.length cols.
Proof. revert pos. induction cols as [|c cols IH]; intros pos; simpl; [reflexivity|]. rewrite IH. reflexivity. Qed.

Lemma suffixes_loop_length cols seen sfx : List.length (suffixes_loop cols seen sfx) = List.length cols.
Proof.
  revert seen sfx. induction cols as [|[id nm] cols IH]; intros seen sfx; simpl; [reflexivity|]. rewrite IH. reflexivity.
Qed.

Theorem columns_to_struct_types st c name cols s :
  columns_to_struct st c name cols = Ok s ->
  gst_name s = name /\ map field_type (gst_fields s) = map (fun p => go_type_of st c (snd p)) cols.
Proof.
  unfold columns_to_struct. intros H.
  destruct (cts_fields st c (map snd cols) (col_names 0 (map snd cols))
              (suffixes_of (combine (map fst cols) (col_names 0 (map snd cols))))) as [fs| |] eqn:E; simpl in H; try discriminate.
  inversion H; subst. simpl. split; [reflexivity|].
  assert (List.length (suffixes_of (combine (map fst cols) (col_names 0 (map snd cols)))) = List.length (map snd cols)) as Hs.
  { unfold suffixes_of. rewrite suffixes_loop_length, combine_length, col_names_length, !map_length. lia. }
  rewrite (cts_fields_types _ _ _ _ _ _ (col_names_length _ _) Hs E). rewrite map_map. reflexivity.
Qed.

(** C02 / C05 on the Go side: whatever a query with columns [cols] returns, its Go types are, in
    order, goType of the columns: the single value, the fresh row struct, or the reused model struct *)
Definition ret_types_of (v : gval_out) : list string :=
  match vo_struct v with Some s => map field_type (gst_fields s) | None => if String.eqb (vo_typ v) "" then [] else [vo_typ v] end.

Lemma nth_error_ext {A} (l l' : list A) : (forall k, nth_error l k = nth_error l' k) -> l = l'.
Proof.
  revert l'. induction l as [|x l IH]; intros [|y l'] H; try reflexivity.
  - specialize (H 0%nat). discriminate.
  - specialize (H 0%nat). discriminate.
  - pose proof (H 0%nat) as H0. simpl in H0. inversion H0; subst. f_equal. apply IH. intros k. exact (H (S k)).
Qed.

Theorem ret_types_are_column_types st c structs name cols v :
  build_ret st c structs name cols = Ok v ->
  (forall col, In col cols -> go_type_of st c col <> "") ->
  ret_types_of v = map (go_type_of st c) cols.
Proof.
  intros H Hne. pose proof H as H0. unfold build_ret in H. destruct cols as [|c0 [|c1 cols]].
  - inversion H; subst. reflexivity.
  - inversion H; subst. unfold ret_types_of. simpl.
    destruct (String.eqb (go_type_of st c c0) "") eqn:E; [|reflexivity].
    apply String.eqb_eq in E. exfalso. apply (Hne c0); simpl; auto.
  - destruct (reuse_struct st c structs (c0 :: c1 :: cols)) as [s|] eqn:R.
    + inversion H; subst. unfold ret_types_of. cbn [vo_struct].
      destruct (reuse_sound _ _ _ _ _ _ s H0 eq_refl eq_refl) as [_ [Hl Hk]].
      apply nth_error_ext. intros k. rewrite !nth_error_map.
      destruct (nth_error (gst_fields s) k) as [f|] eqn:Ef; destruct (nth_error (c0 :: c1 :: cols) k) as [col|] eqn:Ec; simpl.
      * destruct (Hk k f col Ef Ec) as [_ [Ht _]]. rewrite Ht. reflexivity.
      * apply nth_error_None in Ec. assert (k < List.length (gst_fields s))%nat by (apply nth_error_Some; congruence). lia.
      * apply nth_error_None in Ef. assert (k < List.length (c0 :: c1 :: cols))%nat by (apply nth_error_Some; congruence). lia.
      * reflexivity.
    + destruct (columns_to_struct st c (name +++ "Row") (index_from 0 (c0 :: c1 :: cols))) as [s| |] eqn:E; simpl in H; try discriminate.
      inversion H; subst. unfold ret_types_of. cbn [vo_struct].
      destruct (columns_to_struct_types _ _ _ _ _ E) as [_ Ht]. rewrite Ht.
      generalize 0%nat. generalize (c0 :: c1 :: cols). induction l as [|x l IH]; intros n; simpl; [reflexivity|]. rewrite IH. reflexivity.
Qed.

(** C06 on the Go side: the argument (single value or Params struct) carries, in parameter order,
    goType of the column each parameter was resolved to *)
Theorem arg_types_are_param_types st c name ps v :
  build_arg st c name ps = Ok v ->
  (forall p, In p ps -> go_type_of st c (param_col p) <> "") ->
  ret_types_of v = map (fun p => go_type_of st c (param_col p)) ps.
Proof.
  intros H Hne. unfold build_arg in H. destruct ps as [|p0 [|p1 ps]].
  - inversion H; subst. reflexivity.
  - inversion H; subst. unfold ret_types_of. simpl.
    destruct (String.eqb (go_type_of st c (param_col p0)) "") eqn:E; [|reflexivity].
    apply String.eqb_eq in E. exfalso. apply (Hne p0); simpl; auto.
  - destruct (columns_to_struct st c (name +++ "Params") (map (fun p => (p_num p, param_col p)) (p0 :: p1 :: ps))) as [s| |] eqn:E;
      simpl in H; try discriminate.
    inversion H; subst. unfold ret_types_of. cbn [vo_struct].
    destruct (columns_to_struct_types _ _ _ _ _ E) as [_ Ht]. rewrite Ht. rewrite map_map. reflexivity.
Qed.

(** non-vacuity: a catalog with one table, a query selecting both columns in order reuses the model
    struct; selecting them in the other order builds a Row struct with the same types swapped *)
Definition gg_cat : catalog :=
  mkCat "public" [mkSch "public" [mkTab "authors" [mkCol "id" (mkQ "pg_catalog" "int4") true false ""; mkCol "bio" (mkQ "" "text") false false ""] ""] [] ""].
Definition gg_st : gsettings := mkGS [] [] false false "".
Definition gg_structs : list gstruct := [mkGSt "Author" ("public", "authors") [("ID", "int32", ""); ("Bio", "sql.NullString", "")]].
Definition gg_col (n dt : string) (nn : bool) : qcol := mkQC n dt nn false "" (Some (mkTN "" "" "authors")).
Example reuse_example :
  build_ret gg_st gg_cat gg_structs "Get" [gg_col "id" "pg_catalog.int4" true; gg_col "bio" "text" false]
    = Ok (mkVO false "i" "" (Some (mkGSt "Author" ("public", "authors") [("ID", "int32", ""); ("Bio", "sql.NullString", "")])))
  /\ build_ret gg_st gg_cat gg_structs "Get" [gg_col "bio" "text" false; gg_col "id" "pg_catalog.int4" true]
    = Ok (mkVO true "i" "" (Some (mkGSt "GetRow" ("", "") [("Bio", "sql.NullString", ""); ("ID", "int32", "")]))).
Proof. vm_compute. split; reflexivity. Qed.

(** without renames the rename-aware goType is the goType of Model/GoTypes.v (C09, C15) *)
Lemma struct_name_rn_nil n : struct_name_rn [] n = struct_name n.
Proof. reflexivity. Qed.
Lemma pg_scan_types_r_nil c sname rs rnm nn ts : pg_scan_types_r [] c sname rs rnm nn ts = pg_scan_types c sname rs rnm nn ts.
Proof. induction ts as [|[n v cm|n cm] ts IH]; simpl; [reflexivity| |]; rewrite IH; reflexivity. Qed.
Lemma pg_scan_schemas_r_nil c rs rnm nn ss : pg_scan_schemas_r [] c rs rnm nn ss = pg_scan_schemas c rs rnm nn ss.
Proof. induction ss as [|s ss IH]; simpl; [reflexivity|]. rewrite IH, pg_scan_types_r_nil. reflexivity. Qed.
Theorem go_type_ov_r_nil ovs c tbl colname dt nn arr :
  pg_go_type_ov_r [] ovs c tbl colname dt nn arr = go_type_ov ovs PostgreSQL c tbl colname dt nn arr false.
Proof.
  unfold pg_go_type_ov_r, go_type_ov, postgres_type_r, postgres_type, pg_default_r, pg_default.
  destruct (column_override ovs (cat_default c) tbl colname); [reflexivity|].
  destruct (dbtype_override ovs dt (nn || arr)); [reflexivity|].
  destruct (lookup_entry pg_type_table dt); [reflexivity|].
  destruct (split_on "." dt) as [|a [|b [|d [|e l]]]]; try reflexivity; rewrite pg_scan_schemas_r_nil; reflexivity.
Qed.
