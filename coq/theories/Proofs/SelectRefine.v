(** A whole simple SELECT: reference semantics (Spec/PgScope.describe) against
    sqlc's outputColumns. *)
From Coq Require Import Lia.
From Verif Require Import Model.Compile Spec.PgScope Proofs.ColumnsFacts Proofs.TypeFlowFacts Proofs.ScopeRefine Proofs.ScopeRefineT Proofs.CompileFacts2.
Open Scope string_scope.
Open Scope list_scope.

(** the scope both sides build from a from-list of base tables *)
Fixpoint spec_scope (c : catalog) (rvs : list node) : pgres scope :=
  match rvs with
  | [] => POk []
  | rv :: r => pdo cols <- pg_relation c [] rv; pdo rest <- spec_scope c r; POk (mkSI (visible_name rv) cols :: rest)
  end.

Lemma first_dup_nodup l : NoDup l -> first_dup l = None.
Proof.
  induction 1 as [|x l Hn _ IH]; simpl; [reflexivity|].
  destruct (mem_str x l) eqn:E; [|exact IH].
  exfalso. apply Hn. clear -E. induction l as [|y l IHl]; simpl in *; [discriminate|].
  destruct (String.eqb x y) eqn:E2; [left; apply String.eqb_eq in E2; congruence|right; apply IHl, E].
Qed.

Definition cr_step (stack : list scope) (acc : pgres unit) (r : node) : pgres unit :=
  pdo _ <- acc; if is_star r then POk tt else pdo _ <- resolve_ref stack r; POk tt.
Lemma cr_fold_err stack refs e0 : fold_left (cr_step stack) refs (PErr e0) = PErr e0.
Proof. induction refs as [|x xs IH]; simpl; [reflexivity|exact IH]. Qed.

(** the column references that ARE result targets *)
Definition refs_of (targets : list node) : list node :=
  flat_map (fun t => if is_kind "ColumnRef" (kid "Val" t) then [kid "Val" t] else []) targets.

(** if every plain reference of the result list resolves, so do the checks of
    the list; if one does not, the row is an error as well *)
Lemma check_refs_row sc targets :
  Forall (target_ok sc) targets ->
  match check_refs [sc] (refs_of targets) with
  | POk _ => True
  | PErr _ => exists e0, row_of sc [sc] targets = PErr e0
  end.
Proof.
  unfold check_refs, row_of. change (fun acc r => pdo _ <- acc; if is_star r then POk tt else pdo _ <- resolve_ref [sc] r; POk tt)
    with (cr_step [sc]). intros Hall.
  assert (G : forall row, match fold_left (cr_step [sc]) (refs_of targets) (POk tt) with
                          | POk _ => True
                          | PErr _ => exists e0, fold_left (row_step sc [sc]) targets (POk row) = PErr e0
                          end).
  { induction Hall as [|t ts Hst _ IH]; intros row; [exact I|].
    unfold refs_of. cbn [flat_map fold_left]. fold (refs_of ts).
    destruct Hst as [Hst|Hk Hop].
    - assert (Hv : is_kind "ColumnRef" (kid "Val" t) = true) by (destruct Hst; unfold is_kind; rewrite H0; reflexivity).
      rewrite Hv. cbn [app fold_left].
      unfold cr_step at 2. unfold row_step at 2. cbn [pbind]. rewrite Hv.
      destruct (is_star (kid "Val" t)) eqn:Es.
      + destruct Hst as [Hk Hvk Hstar Hf Hn | q Hk Hvk Hstar Hf Hq Hn Hin | cn Hk Hvk Hstar Hf | q cn Hk Hvk Hstar Hf Hq]; try congruence.
        * rewrite Hf. apply IH.
        * rewrite Hf.
          destruct (filter (fun it => String.eqb (si_name it) q) sc) as [|it its] eqn:Ef; [exfalso; exact (in_names_filter sc q Hin Ef)|].
          apply IH.
      + destruct (resolve_ref [sc] (kid "Val" t)) as [x|e1]; cbn [pbind].
        * apply IH.
        * rewrite cr_fold_err, row_fold_err. eauto.
    - assert (Hnc : is_kind "ColumnRef" (kid "Val" t) = false).
      { unfold opaque_kind in Hop. cbn [mem_str] in Hop. apply Bool.negb_true_iff in Hop.
        apply Bool.orb_false_iff in Hop. destruct Hop as [Hop _]. unfold is_kind. exact Hop. }
      rewrite Hnc. cbn [app]. unfold row_step at 2. cbn [pbind]. rewrite Hnc. apply IH. }
  apply (G []).
Qed.

(** sqlc's sourceTables loop over a from-list of base tables *)
Fixpoint model_scope (e : env) (rvs : list node) : result (list qtable) :=
  match rvs with
  | [] => Ok []
  | it :: rest =>
      do t <- qc_get_table e [] (table_of_rangevar it);
      let t' := if is_nil (kid "Alias" it) then t
                else mkQT (mkTN (tn_cat (qt_rel t)) (tn_schema (qt_rel t)) (str_of "Aliasname" (kid "Alias" it))) (qt_cols t) in
      do r <- model_scope e rest; Ok (t' :: r)
  end.

Lemma scopes_refine e rvs :
  match spec_scope (env_cat e) rvs, model_scope e rvs with
  | POk sc, Ok tables => scope_rel_t sc tables /\ map si_name sc = map visible_name rvs
  | PErr _, Err _ => True
  | _, _ => False
  end.
Proof.
  induction rvs as [|rv r IH]; cbn [spec_scope model_scope]; [split; [constructor|reflexivity]|].
  pose proof (base_relation_refines_t e rv) as Hb.
  destruct (pg_relation (env_cat e) [] rv) as [cols|e1]; destruct (qc_get_table e [] (table_of_rangevar rv)) as [t|m|m] eqn:Eq;
    try contradiction; cbn [pbind bind]; [|exact I].
  destruct (spec_scope (env_cat e) r) as [sc|e2]; destruct (model_scope e r) as [tables|m|m]; try contradiction; cbn [pbind bind]; [|exact I].
  destruct IH as [Hrel Hnames]. split; [|cbn [map si_name]; f_equal; exact Hnames].
  constructor; [|exact Hrel]. unfold item_rel_t. cbn [si_name si_cols]. unfold visible_name.
  assert (Hn : tn_name (qt_rel t) = str_of "Relname" rv).
  { unfold qc_get_table in Eq. cbn [assoc] in Eq.
    assert (Hn0 : (if String.eqb (tn_schema (table_of_rangevar rv)) "" then None else None) = @None qtable) by (destruct (String.eqb _ ""); reflexivity).
    rewrite Hn0 in Eq. destruct (cat_get_table (env_cat e) (table_of_rangevar rv)); [|discriminate].
    inversion Eq; subst. reflexivity. }
  destruct (is_nil (kid "Alias" rv)); cbn [qt_rel qt_cols tn_name]; split; auto.
Qed.

(** a from-item: a base table, or a JOIN tree over base tables; [d] bounds its depth *)
Inductive join_tree : nat -> node -> list node -> Prop :=
| JT_rv d n : kind_of n = "RangeVar" -> join_tree (S d) n [n]
| JT_join d n l r : kind_of n = "JoinExpr" ->
    join_tree d (kid "Larg" n) l -> join_tree d (kid "Rarg" n) r -> join_tree (S d) n (l ++ r).

Lemma join_tree_leaves d n l : join_tree d n l -> Forall (fun rv => kind_of rv = "RangeVar") l.
Proof.
  induction 1 as [d n Hk|d n l r Hk _ IHl _ IHr]; [repeat constructor; exact Hk|].
  apply Forall_app. split; assumption.
Qed.

Lemma spec_scope_app c l r :
  spec_scope c (l ++ r) = pdo a <- spec_scope c l; pdo b <- spec_scope c r; POk (a ++ b).
Proof.
  induction l as [|x l IH]; cbn [app spec_scope pbind].
  - destruct (spec_scope c r); reflexivity.
  - destruct (pg_relation c [] x) as [cols|e1]; cbn [pbind]; [|reflexivity].
    rewrite IH. destruct (spec_scope c l) as [a|e2]; cbn [pbind]; [|reflexivity].
    destruct (spec_scope c r) as [b|e3]; cbn [pbind]; reflexivity.
Qed.

(** the reference semantics' from_item (a local fixpoint of describe, here any
    function with its unfolding equations) on a join tree *)
Lemma from_item_tree (e : env) (FI : nat -> node -> pgres scope) :
  (forall f n, kind_of n = "RangeVar" ->
     FI (S f) n = pdo cols <- pg_relation (env_cat e) [] n; POk [mkSI (visible_name n) cols]) ->
  (forall f n, kind_of n = "JoinExpr" ->
     FI (S f) n = pdo l <- FI f (kid "Larg" n); pdo r <- FI f (kid "Rarg" n); POk (l ++ r)) ->
  forall d n l, join_tree d n l -> FI d n = spec_scope (env_cat e) l.
Proof.
  intros Hrv Hj. induction 1 as [d n Hk|d n l r Hk _ IHl _ IHr].
  - rewrite (Hrv d n Hk). cbn [spec_scope]. destruct (pg_relation (env_cat e) [] n); reflexivity.
  - rewrite (Hj d n Hk), IHl, IHr, spec_scope_app. reflexivity.
Qed.

Lemma spec_from_fold (e : env) (fi : node -> pgres scope) (d : nat) :
  (forall n l, join_tree d n l -> fi n = spec_scope (env_cat e) l) ->
  forall fitems leavess acc, Forall2 (join_tree d) fitems leavess ->
  fold_left (fun (acc : pgres (list scitem)) n => pdo a <- acc; pdo b <- fi n; POk (a ++ b)) fitems (POk acc)
  = pdo r <- spec_scope (env_cat e) (List.concat leavess); POk (acc ++ r).
Proof.
  intros Hfi. induction fitems as [|x l IH]; intros leavess acc Hl; inversion Hl as [|? lv ? lvs Hx Hl']; subst;
    cbn [fold_left List.concat spec_scope pbind].
  - rewrite app_nil_r. reflexivity.
  - rewrite (Hfi x lv Hx), spec_scope_app.
    destruct (spec_scope (env_cat e) lv) as [a|e1]; cbn [pbind].
    + rewrite (IH lvs (acc ++ a) Hl'). destruct (spec_scope (env_cat e) (List.concat lvs)) as [r|e2]; cbn [pbind]; [|reflexivity].
      rewrite <- app_assoc. reflexivity.
    + clear. induction l as [|y l IHl]; cbn [fold_left pbind]; [reflexivity|exact IHl].
Qed.

Section SimpleSelect.
  Variables (e : env) (strict deep : bool) (stmt : node) (targets rvs fitems : list node) (leavess : list (list node)) (f : nat).
  Hypothesis Hkind : kind_of stmt = "SelectStmt".
  Hypothesis Hwith : kid "WithClause" stmt = Nil.
  Hypothesis Htl : kid "TargetList" stmt = NList targets.
  Hypothesis Hne : targets <> [].
  Hypothesis Hfrom : kid "FromClause" stmt = NList fitems.
  (* every from-item is a base table or a JOIN tree over base tables (of depth at most the fuel) *)
  Hypothesis Htrees : Forall2 (join_tree (S f)) fitems leavess.
  Hypothesis Hrvs : rvs = List.concat leavess.
  (* what the walker finds in the from-list: the base tables themselves *)
  Hypothesis Hwalk : from_items (kid "FromClause" stmt) = rvs.
  (* no column references or sub-selects outside the result list *)
  Let others := [kid "FromClause" stmt; kid "WhereClause" stmt; kid "GroupClause" stmt; kid "HavingClause" stmt; kid "SortClause" stmt].
  (* strict: no column reference outside the result list; otherwise: none that is paired with a parameter *)
  Hypothesis Hothers : (if strict then level_refs (NList others) else paired_refs (NList others)) = [].
  Hypothesis Hsub : level_subselects (NList (others ++ map (kid "Val") targets ++ [])) = [].
  (* deep: no column reference hidden inside a result expression; otherwise: only direct ones are looked at *)
  Hypothesis Hvals : (if deep then level_refs (NList (map (kid "Val") targets)) else direct_refs targets) = refs_of targets.
  Hypothesis Hnd : NoDup (map visible_name rvs).
  Hypothesis Hshape : forall sc, spec_scope (env_cat e) rvs = POk sc ->
    Forall (fun it => NoDup (map sc_name (si_cols it))) sc /\ Forall (target_ok sc) targets.

  Lemma Hrv : Forall (fun rv => kind_of rv = "RangeVar") rvs.
  Proof.
    rewrite Hrvs. pose proof Htrees as Ht. clear -Ht. induction Ht as [|n l ns ls Hn Hns IH]; cbn [List.concat]; [constructor|].
    apply Forall_app. split; [eapply join_tree_leaves; exact Hn|exact IH].
  Qed.

  Theorem simple_select_refines_t g :
    match describe (env_cat e) strict deep (S (S f)) [] [] stmt, output_columns (S g) e [] stmt with
    | POk row, Ok cols => Forall2 row_rel row cols
    | PErr _, Err _ => True
    | _, _ => False
    end.
  Proof.
    pose proof Hrv as Hrv'.
    remember (S f) as g1 eqn:Eg1.
    cbn [describe]. rewrite Hwith. cbn [kid_items kid items fold_left pbind].
    rewrite Hkind. unfold kid_items at 1. rewrite Htl. cbn [items].
    replace (String.eqb "SelectStmt" "SelectStmt") with true by reflexivity.
    destruct targets as [|t0 ts] eqn:Et; [congruence|]. rewrite <- Et in *.
    replace (Nat.eqb (List.length targets) 0) with false by (rewrite Et; reflexivity).
    cbn [andb]. cbv iota.
    (* the scope of the reference semantics *)
    match goal with |- context [fold_left (fun acc n => pdo a <- acc; pdo b <- ?F g1 n; POk (a ++ b)) _ _] => set (FI := F) end.
    assert (Hfi : forall n l, join_tree g1 n l -> FI g1 n = spec_scope (env_cat e) l).
    { apply (from_item_tree e FI).
      - intros f0 n Hn. unfold FI. rewrite Hn. reflexivity.
      - intros f0 n Hn. unfold FI. rewrite Hn. reflexivity. }
    unfold kid_items at 1. unfold others in Hothers, Hsub. rewrite Hfrom in Hothers, Hsub |- *. cbn [items].
    pose proof (spec_from_fold e (FI g1) g1 Hfi fitems leavess []) as Hfold.
    specialize (Hfold Htrees).
    match goal with |- context [fold_left ?F fitems ?A] =>
      replace (fold_left F fitems A) with (pdo r <- spec_scope (env_cat e) (List.concat leavess); POk ([] ++ r))
        by (symmetry; exact Hfold) end.
    cbn [app]. rewrite <- Hrvs.
    (* sqlc's side *)
    rewrite output_columns_unfold.
    assert (Hsrc : source_tables g e [] stmt = model_scope e rvs).
    { unfold source_tables. rewrite Hkind.
      replace (String.eqb "SelectStmt" "DeleteStmt") with false by reflexivity.
      replace (String.eqb "SelectStmt" "InsertStmt") with false by reflexivity.
      replace (String.eqb "SelectStmt" "SelectStmt") with true by reflexivity.
      cbn [orb bind]. rewrite Hwalk. clear -Hrv'.
      match goal with |- ?L rvs = _ => set (loop := L) end.
      induction Hrv' as [|x l Hx Hl IH]; [reflexivity|].
      unfold loop. cbn [model_scope]. fold loop. unfold is_kind. rewrite Hx.
      replace (String.eqb "RangeVar" "RangeSubselect") with false by reflexivity.
      replace (String.eqb "RangeVar" "RangeVar") with true by reflexivity.
      destruct (qc_get_table e [] (table_of_rangevar x)); cbn [bind]; [|reflexivity..].
      rewrite IH by exact Hl. reflexivity. }
    rewrite Hsrc.
    pose proof (scopes_refine e rvs) as Hsc.
    destruct (spec_scope (env_cat e) rvs) as [sc|e1] eqn:Esc; destruct (model_scope e rvs) as [tables|m|m];
      try contradiction; cbn [pbind bind]; [|exact I].
    destruct Hsc as [Hrel Hnames].
    rewrite (first_dup_nodup (map si_name sc)) by (rewrite Hnames; exact Hnd).
    replace (String.eqb "SelectStmt" "InsertStmt") with false by reflexivity.
    replace (String.eqb "SelectStmt" "UpdateStmt") with false by reflexivity.
    cbn [pbind]. rewrite Hothers. unfold check_refs at 1. cbn [fold_left pbind].
    unfold kid_items. rewrite !Htl. cbn [items]. rewrite Hvals.
    rewrite Hsub. cbn [fold_left pbind].
    (* the model's targets *)
    unfold stmt_targets. rewrite Hkind.
    replace (String.eqb "SelectStmt" "DeleteStmt") with false by reflexivity.
    replace (String.eqb "SelectStmt" "InsertStmt") with false by reflexivity.
    replace (String.eqb "SelectStmt" "UpdateStmt") with false by reflexivity.
    replace (String.eqb "SelectStmt" "SelectStmt") with true by reflexivity.
    cbn [orb]. rewrite Htl. cbn [items items_opt].
    replace (Nat.eqb (List.length targets) 0) with false by (rewrite Et; reflexivity).
    rewrite Bool.andb_false_r. cbn [andb].
    destruct (Hshape sc eq_refl) as [Hcols Hall].
    pose proof (level_refines_t e sc tables targets Hrel ltac:(rewrite Hnames; exact Hnd) Hcols Hall) as Hlev.
    pose proof (check_refs_row sc targets Hall) as Hchk.
    destruct (check_refs [sc] (refs_of targets)) as [[]|e2]; cbn [pbind].
    - exact Hlev.
    - destruct Hchk as [e0 He0]. rewrite He0 in Hlev.
      destruct (targets_columns e tables targets); try contradiction; exact I.
  Qed.

  (** arity *)
  Theorem simple_select_arity g :
    match describe (env_cat e) strict deep (S (S f)) [] [] stmt, output_columns (S g) e [] stmt with
    | POk row, Ok cols => List.length row = List.length cols
    | PErr _, Err _ => True
    | _, _ => False
    end.
  Proof.
    pose proof (simple_select_refines_t g) as H.
    destruct (describe (env_cat e) strict deep (S (S f)) [] [] stmt); destruct (output_columns (S g) e [] stmt); auto.
    clear -H. induction H; simpl; congruence.
  Qed.

  (** acceptance only (C10) *)
  Theorem simple_select_decision g :
    (exists row, describe (env_cat e) strict deep (S (S f)) [] [] stmt = POk row)
    <-> (exists cols, output_columns (S g) e [] stmt = Ok cols).
  Proof.
    pose proof (simple_select_refines_t g) as H.
    destruct (describe (env_cat e) strict deep (S (S f)) [] [] stmt) as [row|e1]; destruct (output_columns (S g) e [] stmt) as [cols|m|m];
      try contradiction; split; intros [x Hx]; try discriminate; eauto.
  Qed.
End SimpleSelect.

