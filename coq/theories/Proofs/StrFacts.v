(** Lemmas about the byte-string functions of Base/Str.v. *)
From Coq Require Import Sorting.Permutation Sorting.Sorted.
From Verif Require Import Base.Str.
Open Scope string_scope.
Open Scope list_scope.

Lemma append_nil_r s : s +++ "" = s.
Proof. induction s; simpl; congruence. Qed.

Lemma append_assoc (a b c : string) : (a +++ b) +++ c = a +++ (b +++ c).
Proof. induction a; simpl; congruence. Qed.

Lemma length_append (a b : string) : String.length (a +++ b) = String.length a + String.length b.
Proof. induction a; simpl; congruence. Qed.

(** * prefix *)
Lemma prefix_app p s : String.prefix p (p +++ s) = true.
Proof.
  induction p as [|c p IH]; simpl.
  - destruct s; reflexivity.
  - destruct (ascii_dec c c); [exact IH|congruence].
Qed.

Lemma prefix_inv p s : String.prefix p s = true -> exists r, s = p +++ r.
Proof.
  revert s; induction p as [|c p IH]; intros s H.
  - exists s; reflexivity.
  - destruct s as [|d s]; simpl in H; [discriminate|].
    destruct (ascii_dec c d); [|discriminate]. subst d.
    destruct (IH _ H) as [r ->]. exists r; reflexivity.
Qed.

Lemma prefix_nil_l s : String.prefix "" s = true.
Proof. destruct s; reflexivity. Qed.

(** * split / join *)
Definition no_char (d : ascii) (s : string) : Prop := contains_char d s = false.

Lemma no_char_cons d c s : no_char d (String c s) <-> Ascii.eqb d c = false /\ no_char d s.
Proof.
  unfold no_char, contains_char; simpl. rewrite orb_false_iff. tauto.
Qed.

Lemma split_on_nonempty d s : split_on d s <> [].
Proof.
  induction s as [|c s IH]; simpl; [discriminate|].
  destruct (Ascii.eqb c d); [discriminate|].
  destruct (split_on d s); [congruence|discriminate].
Qed.

Lemma split_on_no_char d s : no_char d s -> split_on d s = [s].
Proof.
  induction s as [|c s IH]; intros H; [reflexivity|].
  apply no_char_cons in H as [Hc Hs]. simpl.
  rewrite Ascii.eqb_sym, Hc, (IH Hs). reflexivity.
Qed.

Lemma split_on_app d x rest :
  no_char d x -> split_on d (x +++ String d rest) = x :: split_on d rest.
Proof.
  induction x as [|c x IH]; intros H; simpl.
  - rewrite Ascii.eqb_refl. reflexivity.
  - apply no_char_cons in H as [Hc Hs].
    rewrite Ascii.eqb_sym, Hc, (IH Hs). reflexivity.
Qed.

Lemma split_join d ls :
  ls <> [] -> Forall (no_char d) ls ->
  split_on d (join (String d "") ls) = ls.
Proof.
  induction ls as [|x ls IH]; intros Hne HF; [congruence|].
  inversion HF as [|? ? Hx Hls]; subst.
  destruct ls as [|y ls].
  - simpl. apply split_on_no_char; assumption.
  - change (join (String d "") (x :: y :: ls))
      with (x +++ String d "" +++ join (String d "") (y :: ls)).
    change (String d "" +++ join (String d "") (y :: ls))
      with (String d (join (String d "") (y :: ls))).
    rewrite split_on_app by assumption.
    rewrite IH; [reflexivity|discriminate|assumption].
Qed.

(** * scanning *)
Lemma remove_last_if_empty_app a x b :
  x <> "" -> exists b', remove_last_if_empty (a ++ x :: b) = a ++ x :: b'.
Proof.
  intros Hx. induction a as [|y a IH]; simpl.
  - destruct b as [|z b].
    + exists []. destruct (String.eqb_spec x ""); congruence.
    + exists (remove_last_if_empty (z :: b)). reflexivity.
  - destruct IH as [b' IH]. exists b'.
    destruct (a ++ x :: b) as [|z l] eqn:E.
    + destruct a; discriminate.
    + change (remove_last_if_empty (y :: z :: l)) with (y :: remove_last_if_empty (z :: l)).
      rewrite IH. reflexivity.
Qed.

Lemma take_while_app_stop {A} (p : A -> bool) a x b :
  Forall (fun y => p y = true) a -> p x = false ->
  take_while p (a ++ x :: b) = a.
Proof.
  intros Ha Hx. induction Ha as [|y a Hy _ IH]; simpl.
  - rewrite Hx. reflexivity.
  - rewrite Hy, IH. reflexivity.
Qed.

Lemma take_while_all {A} (p : A -> bool) a :
  Forall (fun y => p y = true) a -> take_while p a = a.
Proof.
  intros Ha. induction Ha as [|y a Hy _ IH]; simpl; [reflexivity|].
  rewrite Hy, IH. reflexivity.
Qed.

(** * the byte order on strings is a strict total order *)
Lemma ascii_compare_refl c : Ascii.compare c c = Eq.
Proof. unfold Ascii.compare. apply N.compare_refl. Qed.

Lemma N_of_ascii_inj a b : N_of_ascii a = N_of_ascii b -> a = b.
Proof.
  intros H. rewrite <- (ascii_N_embedding a), <- (ascii_N_embedding b), H. reflexivity.
Qed.

Lemma ascii_compare_eq a b : Ascii.compare a b = Eq -> a = b.
Proof. unfold Ascii.compare. intros H. apply N.compare_eq in H. apply N_of_ascii_inj, H. Qed.

Lemma ascii_compare_lt_trans a b c :
  Ascii.compare a b = Lt -> Ascii.compare b c = Lt -> Ascii.compare a c = Lt.
Proof.
  unfold Ascii.compare. rewrite !N.compare_lt_iff. lia.
Qed.

Definition slt (a b : string) : Prop := String.compare a b = Lt.

Lemma slt_irrefl a : ~ slt a a.
Proof.
  unfold slt. induction a as [|c a IH]; simpl; [discriminate|].
  rewrite ascii_compare_refl. exact IH.
Qed.

Lemma slt_trans a b c : slt a b -> slt b c -> slt a c.
Proof.
  unfold slt. revert b c. induction a as [|x a IH]; intros [|y b] [|z c]; simpl; try discriminate; auto.
  destruct (Ascii.compare x y) eqn:Exy; try discriminate.
  - apply ascii_compare_eq in Exy; subst y.
    destruct (Ascii.compare x z) eqn:Exz; try discriminate; auto.
    intros H1 H2. eapply IH; eassumption.
  - intros _. destruct (Ascii.compare y z) eqn:Eyz; try discriminate.
    + apply ascii_compare_eq in Eyz; subst z. rewrite Exy. reflexivity.
    + rewrite (ascii_compare_lt_trans _ _ _ Exy Eyz). reflexivity.
Qed.

Lemma leb_slt_or_eq a b : String.leb a b = true -> slt a b \/ a = b.
Proof.
  unfold String.leb, slt. destruct (String.compare a b) eqn:E; try discriminate.
  - right. apply String.compare_eq_iff, E.
  - left; reflexivity.
Qed.

Lemma slt_leb a b : slt a b -> String.leb a b = true.
Proof. unfold slt, String.leb. intros ->. reflexivity. Qed.

(** A sorted list without duplicates is determined by its elements. *)
Lemma sorted_perm_unique (l1 l2 : list string) :
  StronglySorted slt l1 -> StronglySorted slt l2 -> Permutation l1 l2 -> l1 = l2.
Proof.
  revert l2. induction l1 as [|x l1 IH]; intros l2 S1 S2 P.
  - apply Permutation_nil in P. congruence.
  - destruct l2 as [|y l2]; [apply Permutation_sym, Permutation_nil in P; discriminate|].
    inversion S1 as [|? ? S1' F1]; subst. inversion S2 as [|? ? S2' F2]; subst.
    assert (x = y) as ->.
    { assert (Hx : In x (y :: l2)) by (eapply Permutation_in; [exact P|left; reflexivity]).
      assert (Hy : In y (x :: l1)) by (eapply Permutation_in; [apply Permutation_sym, P|left; reflexivity]).
      destruct Hx as [->|Hx]; [reflexivity|].
      destruct Hy as [->|Hy]; [reflexivity|].
      rewrite Forall_forall in F1, F2.
      exfalso. apply (slt_irrefl x). eapply slt_trans; [apply F1, Hy|apply F2, Hx]. }
    f_equal. apply IH; try assumption. eapply Permutation_cons_inv; exact P.
Qed.

Lemma sorted_leb_nodup_strongly (l : list string) :
  LocallySorted (fun a b => is_true (String.leb a b)) l -> NoDup l -> StronglySorted slt l.
Proof.
  intros L N.
  assert (S : StronglySorted (fun a b => slt a b \/ a = b) l).
  { apply Sorted_StronglySorted.
    - intros a b c [H1| ->] [H2| ->]; auto. left; eapply slt_trans; eassumption.
    - apply Sorted_LocallySorted_iff. clear N.
      induction L as [|a|a b l L IH Hab]; constructor; auto.
      apply leb_slt_or_eq, Hab. }
  clear L. induction S as [|a l S IH F]; constructor.
  - apply IH. inversion N; assumption.
  - inversion N as [|? ? Hnotin N']; subst.
    rewrite Forall_forall in *. intros y Hy.
    destruct (F y Hy) as [H| ->]; [exact H|contradiction].
Qed.
