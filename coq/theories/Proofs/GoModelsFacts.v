(** the model struct of a table matches the table's own columns: a query whose result
    columns are the columns of one table (what a star over that table is expanded to)
    returns the table's model struct instead of a row struct of its own *)
From Verif Require Import Model.GoModels.
Open Scope string_scope.
Open Scope list_scope.

Lemma column_name_named c pos : qc_name c <> "" -> column_name c pos = qc_name c.
Proof. unfold column_name. intro H. destruct (String.eqb (qc_name c) "") eqn:E; [|reflexivity]. apply String.eqb_eq in E. contradiction. Qed.

Lemma same_table_model c s t col : s <> "" -> same_table c (model_col s t col) (s, tab_name t) = true.
Proof.
  intro Hs. unfold same_table, model_col. cbn.
  destruct (String.eqb s "") eqn:E; [apply String.eqb_eq in E; contradiction|].
  rewrite !String.eqb_refl. reflexivity.
Qed.

Theorem model_fields_same st c s t : forall cols pos fs,
  s <> "" ->
  (forall col, In col cols -> col_name col <> "") ->
  model_fields st c s t cols = Ok fs ->
  fields_same st c (s, tab_name t) pos fs (map (model_col s t) cols) = true.
Proof.
  induction cols as [|col cols IH]; intros pos fs Hs Hn H; cbn [model_fields] in H.
  - injection H as <-. reflexivity.
  - destruct (field_tag st (col_name col)) as [tg|m|m]; cbn [bind] in H; try discriminate.
    destruct (model_fields st c s t cols) as [rest|m|m] eqn:Hr; cbn [bind] in H; try discriminate.
    injection H as <-. cbn [map fields_same].
    rewrite column_name_named by (cbn; apply Hn; left; reflexivity).
    cbn [model_col qc_name]. rewrite !String.eqb_refl. cbn [andb].
    rewrite same_table_model by exact Hs. cbn [andb].
    apply IH; [exact Hs | intros x Hx; apply Hn; right; exact Hx | reflexivity].
Qed.

Lemma model_fields_length st c s t : forall cols fs, model_fields st c s t cols = Ok fs -> List.length fs = List.length cols.
Proof.
  induction cols as [|col cols IH]; intros fs H; cbn [model_fields] in H.
  - injection H as <-. reflexivity.
  - destruct (field_tag st (col_name col)) as [tg|m|m]; cbn [bind] in H; try discriminate.
    destruct (model_fields st c s t cols) as [rest|m|m] eqn:Hr; cbn [bind] in H; try discriminate.
    injection H as <-. cbn [List.length]. f_equal. apply IH. reflexivity.
Qed.

(** ... so the reuse loop finds a struct (the table's own or an earlier one with the same shape) *)
Theorem own_columns_reuse_some_struct st c s t fs name structs1 structs2 :
  s <> "" ->
  (forall col, In col (tab_cols t) -> col_name col <> "") ->
  model_fields st c s t (tab_cols t) = Ok fs ->
  exists g, reuse_struct st c (structs1 ++ mkGSt name (s, tab_name t) fs :: structs2) (map (model_col s t) (tab_cols t)) = Some g.
Proof.
  intros Hs Hn Hf. unfold reuse_struct.
  induction structs1 as [|g0 l IH]; cbn [app find_first].
  - cbn [gst_fields gst_table]. rewrite (model_fields_same st c s t _ 0 fs Hs Hn Hf).
    rewrite map_length, (model_fields_length _ _ _ _ _ _ Hf), Nat.eqb_refl. cbn [andb]. eexists. reflexivity.
  - destruct (Nat.eqb (List.length (gst_fields g0)) (List.length (map (model_col s t) (tab_cols t)))
              && fields_same st c (gst_table g0) 0 (gst_fields g0) (map (model_col s t) (tab_cols t))).
    + eexists. reflexivity.
    + exact IH.
Qed.
