(** Facts about the file loop of parseQueries (Model/CompileFiles.v): entries come
    file by file in list order and statement by statement in source order; a file
    whose query names are not used by an earlier file reports exactly what it
    reports when it is the only file of the package. *)
From Verif Require Import Model.CompileFiles Proofs.CatalogFacts.
Open Scope string_scope.
Open Scope list_scope.

Lemma parse_file_length e src p stmts : forall seen,
  List.length (parse_file e src p stmts seen) = List.length stmts.
Proof.
  induction stmts as [|raw rest IH]; intro seen; cbn [parse_file]; [reflexivity|].
  destruct (parse_query e raw src p) as [[q|]|m|m]; cbn [List.length]; try (rewrite IH; reflexivity).
  destruct (negb (String.eqb (q_name q) "") && mem_str (q_name q) seen); cbn [List.length]; rewrite IH; reflexivity.
Qed.

(** one entry per statement, tagged with its file, files in list order *)
Theorem parse_files_order e p : forall files seen,
  map fst (parse_files e p files seen)
  = flat_map (fun f : qfile => let '(name, _, stmts) := f in repeat name (List.length stmts)) files.
Proof.
  induction files as [|[[name src] stmts] rest IH]; intro seen; cbn [parse_files flat_map]; [reflexivity|].
  rewrite map_app, IH, map_map. cbn [fst]. f_equal.
  rewrite <- (parse_file_length e src p stmts seen).
  induction (parse_file e src p stmts seen) as [|r rs IHr]; cbn [map List.length repeat]; [reflexivity|].
  rewrite IHr. reflexivity.
Qed.

Lemma mem_str_cons x y l : mem_str x (y :: l) = String.eqb x y || mem_str x l.
Proof. reflexivity. Qed.

(** the outcome of a file depends on the set of earlier names only through the
    names its own statements define *)
Lemma parse_file_seen_ext e src p stmts : forall s1 s2,
  (forall n, In n (solo_names e p ("", src, stmts)) -> mem_str n s1 = mem_str n s2) ->
  parse_file e src p stmts s1 = parse_file e src p stmts s2.
Proof.
  induction stmts as [|raw rest IH]; intros s1 s2 H; cbn [parse_file]; [reflexivity|].
  cbn [solo_names flat_map] in H.
  destruct (parse_query e raw src p) as [[q|]|m|m] eqn:Hq.
  - destruct (String.eqb (q_name q) "") eqn:Hn; cbn [negb andb].
    + f_equal. apply IH. intros n Hin. apply H. apply in_or_app. right. exact Hin.
    + assert (Hm : mem_str (q_name q) s1 = mem_str (q_name q) s2).
      { apply H. apply in_or_app. left. left. reflexivity. }
      rewrite Hm. destruct (mem_str (q_name q) s2); f_equal.
      * apply IH. intros n Hin. apply H. apply in_or_app. right. exact Hin.
      * apply IH. intros n Hin. rewrite !mem_str_cons. f_equal. apply H. apply in_or_app. right. exact Hin.
  - f_equal. apply IH. intros n Hin. apply H. exact Hin.
  - f_equal. apply IH. intros n Hin. apply H. exact Hin.
  - f_equal. apply IH. intros n Hin. apply H. exact Hin.
Qed.

(** every name a file adds to the set is one its statements define *)
Lemma names_of_sub e src p stmts : forall seen n,
  In n (names_of (parse_file e src p stmts seen)) -> In n (solo_names e p ("", src, stmts)).
Proof.
  induction stmts as [|raw rest IH]; intros seen n; cbn [parse_file names_of solo_names flat_map]; [tauto|].
  destruct (parse_query e raw src p) as [[q|]|m|m] eqn:Hq.
  - destruct (negb (String.eqb (q_name q) "") && mem_str (q_name q) seen) eqn:Hd; cbn [flat_map].
    + intro Hin. apply in_or_app. right. cbn [app] in Hin. exact (IH _ _ Hin).
    + intro Hin. apply in_app_or in Hin. apply in_or_app. destruct Hin as [Hin|Hin]; [left; exact Hin | right; exact (IH _ _ Hin)].
  - cbn [flat_map app]. apply IH.
  - cbn [flat_map app]. apply IH.
  - cbn [flat_map app]. apply IH.
Qed.

(** no query name of a file is used by an earlier file (or by the initial set) *)
Fixpoint names_fresh (e : env) (p : bool) (files : list qfile) (seen : list string) : Prop :=
  match files with
  | [] => True
  | f :: rest =>
      (forall n, In n (solo_names e p f) -> mem_str n seen = false)
      /\ names_fresh e p rest (solo_names e p f ++ seen)
  end.

Lemma mem_str_app x l1 l2 : mem_str x (l1 ++ l2) = mem_str x l1 || mem_str x l2.
Proof. induction l1 as [|y l1 IH]; cbn [app mem_str]; [reflexivity|]. rewrite IH. apply Bool.orb_assoc. Qed.

Lemma names_fresh_anti e p : forall files s s',
  (forall n, mem_str n s' = true -> mem_str n s = true) ->
  names_fresh e p files s -> names_fresh e p files s'.
Proof.
  induction files as [|f rest IH]; intros s s' Hsub H; cbn [names_fresh] in *; [exact I|].
  destruct H as [H1 H2]. split.
  - intros n Hin. specialize (H1 n Hin). destruct (mem_str n s') eqn:Hm; [|reflexivity].
    rewrite (Hsub n Hm) in H1. discriminate.
  - apply (IH (solo_names e p f ++ s)); [|exact H2].
    intros n. rewrite !mem_str_app. intro Hm. apply Bool.orb_true_iff in Hm. apply Bool.orb_true_iff.
    destruct Hm as [Hm|Hm]; [left; exact Hm | right; exact (Hsub n Hm)].
Qed.

Lemma solo_names_name e p name src stmts : solo_names e p (name, src, stmts) = solo_names e p ("", src, stmts).
Proof. reflexivity. Qed.

(** files with fresh names: the run is the concatenation of the runs of each file alone *)
Theorem parse_files_independent e p : forall files seen,
  names_fresh e p files seen ->
  parse_files e p files seen = flat_map (alone e p) files.
Proof.
  induction files as [|[[name src] stmts] rest IH]; intros seen H; cbn [parse_files flat_map]; [reflexivity|].
  cbn [names_fresh] in H. destruct H as [H1 H2].
  assert (Hsame : parse_file e src p stmts seen = parse_file e src p stmts []).
  { apply parse_file_seen_ext. intros n Hin. rewrite (H1 n); [reflexivity|]. rewrite solo_names_name. exact Hin. }
  cbn [alone]. rewrite Hsame. f_equal.
  apply IH. apply (names_fresh_anti e p rest (solo_names e p (name, src, stmts) ++ seen)); [|exact H2].
  intros n. rewrite !mem_str_app. intro Hm. apply Bool.orb_true_iff in Hm. apply Bool.orb_true_iff.
  destruct Hm as [Hm|Hm]; [left | right; exact Hm].
  apply mem_str_In in Hm. apply mem_str_In. rewrite solo_names_name. exact (names_of_sub e src p stmts [] n Hm).
Qed.

Lemma diagnostics_app {A} (a b : list (string * result A)) : diagnostics (a ++ b) = diagnostics a ++ diagnostics b.
Proof. unfold diagnostics. apply flat_map_app. Qed.

(** ... and so are its diagnostics: file by file in list order, inside a file in source order *)
Theorem diagnostics_file_by_file e p : forall files,
  names_fresh e p files [] ->
  diagnostics (parse_files e p files []) = flat_map (fun f => diagnostics (alone e p f)) files.
Proof.
  intros files H. rewrite (parse_files_independent e p files [] H).
  induction files as [|f rest IH]; cbn [flat_map]; [reflexivity|].
  rewrite diagnostics_app. f_equal. apply IH. cbn [names_fresh] in H. destruct H as [_ H].
  apply (names_fresh_anti e p rest (solo_names e p f ++ [])); [|exact H]. intros n Hn. discriminate.
Qed.

(** diagnostics of one file come in source order: the i-th diagnostic belongs to a
    statement that stands before the statement of the (i+1)-th (they are a
    sub-sequence of the per-statement entries) *)
Lemma diagnostics_alone_subseq e p name src stmts :
  diagnostics (alone e p (name, src, stmts))
  = flat_map (fun r => match r with Err m => [(name, m)] | _ => [] end) (parse_file e src p stmts []).
Proof.
  cbn [alone]. unfold diagnostics. induction (parse_file e src p stmts []) as [|r rs IH]; cbn [map flat_map]; [reflexivity|].
  rewrite IH. destruct r; reflexivity.
Qed.

(** * the run as a whole: compile_queries *)
Lemma parse_file_keeps_err e src p m raw : forall stmts seen,
  parse_query e raw src p = Err m -> In raw stmts -> In (Err m) (parse_file e src p stmts seen).
Proof.
  induction stmts as [|r0 rest IH]; intros seen Hq Hin; [destruct Hin|].
  cbn [parse_file]. destruct Hin as [<-|Hin].
  - rewrite Hq. left. reflexivity.
  - destruct (parse_query e r0 src p) as [[q|]|m0|m0].
    + destruct (negb (String.eqb (q_name q) "") && mem_str (q_name q) seen); right; apply IH; assumption.
    + right. apply IH; assumption.
    + right. apply IH; assumption.
    + right. apply IH; assumption.
Qed.

Lemma parse_files_keeps_err e p name src stmts m raw fs2 : forall fs1 seen,
  parse_query e raw src p = Err m -> In raw stmts ->
  In (name, Err m) (parse_files e p (fs1 ++ (name, src, stmts) :: fs2) seen).
Proof.
  induction fs1 as [|[[n0 s0] st0] fs1 IH]; intros seen Hq Hin; cbn [app parse_files]; apply in_or_app.
  - left. apply in_map. apply (parse_file_keeps_err e src p m raw); assumption.
  - right. apply IH; assumption.
Qed.

Lemma diagnostics_in {A} (rs : list (string * result A)) name m : In (name, Err m) rs -> In (name, m) (diagnostics rs).
Proof.
  unfold diagnostics. intro H. apply in_flat_map. exists (name, Err m). split; [exact H|]. left. reflexivity.
Qed.

(** a failing statement in ANY file at ANY position makes the whole package fail,
    whatever the other files and statements are *)
Theorem failing_statement_fails_package e p name src stmts m raw fs1 fs2 :
  parse_query e raw src p = Err m -> In raw stmts ->
  compile_queries e p (fs1 ++ (name, src, stmts) :: fs2) = Err "multierr".
Proof.
  intros Hq Hin. unfold compile_queries.
  pose proof (diagnostics_in _ _ _ (parse_files_keeps_err e p name src stmts m raw fs2 fs1 [] Hq Hin)) as Hd.
  destruct (diagnostics (parse_files e p (fs1 ++ (name, src, stmts) :: fs2) [])); [destruct Hd|reflexivity].
Qed.

(** an accepted package has no diagnostic at all *)
Theorem accepted_no_diagnostics e p files qs :
  compile_queries e p files = Ok qs -> diagnostics (parse_files e p files []) = [] /\ qs = queries_of (parse_files e p files []) /\ qs <> [].
Proof.
  unfold compile_queries. destruct (diagnostics (parse_files e p files [])); [|discriminate].
  destruct (queries_of (parse_files e p files [])) eqn:Hq; [discriminate|].
  intro H. injection H as <-. repeat split. discriminate.
Qed.

(** the names accepted so far are pairwise distinct *)
Lemma parse_file_names_nodup e src p : forall stmts seen,
  NoDup seen -> NoDup (names_of (parse_file e src p stmts seen) ++ seen).
Proof.
  induction stmts as [|raw rest IH]; intros seen Hs; cbn [parse_file names_of flat_map app]; [exact Hs|].
  destruct (parse_query e raw src p) as [[q|]|m|m]; try (cbn [flat_map app]; apply IH; exact Hs).
  destruct (String.eqb (q_name q) "") eqn:Hn; cbn [negb andb flat_map].
  - rewrite Hn. cbn [app]. apply IH. exact Hs.
  - destruct (mem_str (q_name q) seen) eqn:Hm; cbn [flat_map app].
    + apply IH. exact Hs.
    + rewrite Hn. cbn [app].
      assert (Hs' : NoDup (q_name q :: seen)).
      { constructor; [|exact Hs]. apply mem_str_false. exact Hm. }
      specialize (IH (q_name q :: seen) Hs').
      (* names ++ (n :: seen)  ~  n :: names ++ seen *)
      apply NoDup_remove in IH as [IH1 IH2]. constructor; [exact IH2 | exact IH1].
Qed.

Theorem parse_files_names_nodup e p : forall files seen,
  NoDup seen -> NoDup (names_of (map snd (parse_files e p files seen)) ++ seen).
Proof.
  induction files as [|[[name src] stmts] rest IH]; intros seen Hs; cbn [parse_files map names_of flat_map app]; [exact Hs|].
  rewrite map_app, map_map. cbn [snd]. rewrite map_id.
  unfold names_of at 1. rewrite flat_map_app. fold (names_of (parse_file e src p stmts seen)).
  fold (names_of (map snd (parse_files e p rest (names_of (parse_file e src p stmts seen) ++ seen)))).
  specialize (IH (names_of (parse_file e src p stmts seen) ++ seen) (parse_file_names_nodup e src p stmts seen Hs)).
  (* IH : NoDup (B ++ A ++ seen); goal : NoDup ((A ++ B) ++ seen) *)
  set (A := names_of (parse_file e src p stmts seen)) in *.
  set (B := names_of (map snd (parse_files e p rest (A ++ seen)))) in *.
  apply (Permutation.Permutation_NoDup (l := B ++ A ++ seen)); [|exact IH].
  rewrite <- app_assoc. rewrite !app_assoc. apply Permutation.Permutation_app_tail. apply Permutation.Permutation_app_comm.
Qed.
