(** C07: a star and the explicit, qualified column list it stands for infer the
    same result columns. *)
From Coq Require Import Lia.
From Verif Require Import Model.Compile Proofs.ColumnsFacts Proofs.TypeFlowFacts.
Open Scope string_scope.
Open Scope list_scope.

Definition str_node (s : string) : node := Node "String" [("Str", s)] [] [].
(** the target  q.c  (no AS) *)
Definition qcol_target (q c : string) : node :=
  Node "ResTarget" [] [] [("Val", Node "ColumnRef" [] [] [("Fields", NList [str_node q; str_node c])])].
(** the target  *  *)
Definition star_target : node :=
  Node "ResTarget" [] [] [("Val", Node "ColumnRef" [] [] [("Fields", NList [Node "A_Star" [] [] []])])].

(** the explicit list: every column of every table in scope, qualified *)
Definition explicit_targets (tables : list qtable) : list node :=
  flat_map (fun t => map (fun c => qcol_target (tn_name (qt_rel t)) (qc_name c)) (qt_cols t)) tables.

Definition plain (c : qcol) : qcol := mkQC (qc_name c) (qc_dt c) (qc_nn c) (qc_arr c) "" (qc_table c).

Lemma star_is_all e tables :
  targets_columns e tables [star_target] = Ok (map plain (flat_map qt_cols tables)).
Proof.
  cbn [targets_columns]. replace (is_kind "ResTarget" star_target) with true by reflexivity.
  assert (H : target_columns e tables star_target = Ok (star_columns star_target tables (kid "Val" star_target))) by reflexivity.
  rewrite H. clear H. cbn [bind]. rewrite app_nil_r. f_equal.
  unfold star_columns. replace (join_list (kid "Fields" (kid "Val" star_target)) ".") with "" by reflexivity.
  cbn [String.eqb negb andb]. replace (res_name star_target) with (@None string) by reflexivity. cbn [some_or].
  induction tables as [|t ts IH]; [reflexivity|]. cbn [flat_map]. rewrite map_app, IH. reflexivity.
Qed.

Lemma filter_unique_name (l : list qcol) c :
  NoDup (map qc_name l) -> In c l -> filter (fun x => String.eqb (qc_name x) (qc_name c)) l = [c].
Proof.
  induction l as [|x l IH]; intros Hn Hin; [destruct Hin|]. simpl. inversion Hn as [|? ? Hnotin Hn']; subst.
  destruct Hin as [->|Hin].
  - rewrite String.eqb_refl. f_equal.
    clear -Hnotin. induction l as [|y l IHl]; simpl; [reflexivity|].
    destruct (String.eqb (qc_name y) (qc_name c)) eqn:E.
    + apply String.eqb_eq in E. exfalso. apply Hnotin. left. exact E.
    + apply IHl. intros Hc. apply Hnotin. right. exact Hc.
  - destruct (String.eqb (qc_name x) (qc_name c)) eqn:E.
    + apply String.eqb_eq in E. exfalso. apply Hnotin. rewrite E. apply in_map, Hin.
    + apply IH; assumption.
Qed.

Lemma candidates_of_table tables t c :
  NoDup (map (fun t => tn_name (qt_rel t)) tables) -> In t tables -> tn_name (qt_rel t) <> "" ->
  NoDup (map qc_name (qt_cols t)) -> In c (qt_cols t) ->
  ref_candidates tables (tn_name (qt_rel t)) (qc_name c) = [c].
Proof.
  intros Hn Hin Hne Hnc Hc. unfold ref_candidates.
  apply String.eqb_neq in Hne. rewrite Hne. cbn [negb andb].
  induction tables as [|x ts IH]; [destruct Hin|]. cbn [flat_map map] in *.
  inversion Hn as [|? ? Hnotin Hn']; subst.
  destruct Hin as [->|Hin].
  - rewrite String.eqb_refl. cbn [negb]. rewrite (filter_unique_name _ c Hnc Hc).
    assert (Hrest : flat_map (fun t0 => if negb (String.eqb (tn_name (qt_rel t0)) (tn_name (qt_rel t))) then []
                                         else filter (fun c0 => String.eqb (qc_name c0) (qc_name c)) (qt_cols t0)) ts = []).
    { clear -Hnotin. induction ts as [|y ts IHt]; [reflexivity|]. cbn [flat_map].
      destruct (String.eqb (tn_name (qt_rel y)) (tn_name (qt_rel t))) eqn:E.
      - apply String.eqb_eq in E. exfalso. apply Hnotin. left. exact E.
      - cbn [negb app]. apply IHt. intros Hc. apply Hnotin. right. exact Hc. }
    rewrite Hrest. reflexivity.
  - destruct (String.eqb (tn_name (qt_rel x)) (tn_name (qt_rel t))) eqn:E.
    + apply String.eqb_eq in E. exfalso. apply Hnotin. rewrite E. apply (in_map (fun t => tn_name (qt_rel t))), Hin.
    + cbn [negb app]. apply IH; assumption.
Qed.

Lemma qcol_target_columns e tables t c :
  NoDup (map (fun t => tn_name (qt_rel t)) tables) -> In t tables -> tn_name (qt_rel t) <> "" ->
  NoDup (map qc_name (qt_cols t)) -> In c (qt_cols t) ->
  target_columns e tables (qcol_target (tn_name (qt_rel t)) (qc_name c)) = Ok [plain c].
Proof.
  intros Hn Hin Hne Hnc Hc.
  assert (H : target_columns e tables (qcol_target (tn_name (qt_rel t)) (qc_name c))
              = output_column_refs (qcol_target (tn_name (qt_rel t)) (qc_name c)) tables
                  (kid "Val" (qcol_target (tn_name (qt_rel t)) (qc_name c)))) by reflexivity.
  rewrite H. unfold output_column_refs.
  replace (string_items (kid "Fields" (kid "Val" (qcol_target (tn_name (qt_rel t)) (qc_name c)))))
    with [tn_name (qt_rel t); qc_name c] by reflexivity.
  cbv zeta. rewrite ref_cols_as_map, (candidates_of_table tables t c Hn Hin Hne Hnc Hc). reflexivity.
Qed.

(** `*` and the explicit list of all columns of all tables in scope, each
    qualified with its table's (visible) name, infer the same result columns:
    same number, order, names, types, nullability, array-ness, owning tables *)
Theorem star_equals_explicit e tables :
  NoDup (map (fun t => tn_name (qt_rel t)) tables) ->
  Forall (fun t => tn_name (qt_rel t) <> "" /\ NoDup (map qc_name (qt_cols t))) tables ->
  targets_columns e tables (explicit_targets tables) = targets_columns e tables [star_target].
Proof.
  intros Hn Hall. rewrite star_is_all. unfold explicit_targets.
  assert (G : forall sub, (forall t, In t sub -> In t tables) ->
            targets_columns e tables (flat_map (fun t => map (fun c => qcol_target (tn_name (qt_rel t)) (qc_name c)) (qt_cols t)) sub)
            = Ok (map plain (flat_map qt_cols sub))).
  { induction sub as [|t sub IH]; intros Hsub; [reflexivity|]. cbn [flat_map].
    rewrite Forall_forall in Hall. destruct (Hall t (Hsub t (or_introl eq_refl))) as [Hne Hnc].
    assert (Hcols : forall cs, (forall c, In c cs -> In c (qt_cols t)) -> forall rest out,
              targets_columns e tables rest = Ok out ->
              targets_columns e tables (map (fun c => qcol_target (tn_name (qt_rel t)) (qc_name c)) cs ++ rest)
              = Ok (map plain cs ++ out)).
    { induction cs as [|c cs IHc]; intros Hcs rest out Hr; [exact Hr|]. cbn [map app targets_columns].
      replace (is_kind "ResTarget" (qcol_target (tn_name (qt_rel t)) (qc_name c))) with true by reflexivity.
      rewrite (qcol_target_columns e tables t c Hn (Hsub t (or_introl eq_refl)) Hne Hnc (Hcs c (or_introl eq_refl))).
      cbn [bind]. rewrite (IHc (fun x Hx => Hcs x (or_intror Hx)) rest out Hr). reflexivity. }
    rewrite map_app. apply Hcols; [auto|]. apply IH. intros x Hx. apply Hsub. right. exact Hx. }
  apply G. auto.
Qed.
