(** C07: what an unqualified star is rewritten to, entry by entry, and that an
    entry written without table qualifier is unambiguous in the scope. *)
From Coq Require Import Lia.
From Verif Require Import Model.Compile Proofs.ColumnsFacts.
Open Scope string_scope.
Open Scope list_scope.

Definition star_entry (e : env) (tables : list qtable) (t : qtable) (c : qcol) : string :=
  if Nat.ltb 1 (count_name tables (qc_name c))
  then quote_ident e (tn_name (qt_rel t)) +++ "." +++ quote_ident e (qc_name c)
  else quote_ident e (qc_name c).

(** `*` (no qualifier, no AS on the target): every table of the scope in
    from-list order, every column in declaration order; a column is written
    with its table's name exactly when its name occurs more than once in scope *)
Theorem unqualified_star_entries e tables res ref :
  join_list (kid "Fields" ref) "." = "" -> res_name res = None ->
  expand_cols e tables res ref = flat_map (fun t => map (star_entry e tables t) (qt_cols t)) tables.
Proof.
  intros Hs Hn. unfold expand_cols. rewrite Hs, Hn. cbn [String.eqb negb andb].
  apply flat_map_ext. intros t. apply map_ext. intros c. unfold star_entry. cbn [some_or]. reflexivity.
Qed.

Lemma count_name_candidates tables n :
  count_name tables n = List.length (ref_candidates tables "" n).
Proof.
  unfold count_name, ref_candidates. cbn [String.eqb negb andb].
  induction tables as [|t ts IH]; simpl; [reflexivity|].
  rewrite filter_app, !app_length, IH. reflexivity.
Qed.

(** an entry written WITHOUT qualifier resolves to exactly one column of the scope *)
Theorem bare_entry_unambiguous tables t c :
  In t tables -> In c (qt_cols t) -> Nat.ltb 1 (count_name tables (qc_name c)) = false ->
  List.length (ref_candidates tables "" (qc_name c)) = 1%nat.
Proof.
  intros Ht Hc Hn. apply PeanoNat.Nat.ltb_ge in Hn. rewrite count_name_candidates in Hn.
  assert (Hin : In c (ref_candidates tables "" (qc_name c))).
  { unfold ref_candidates. cbn [String.eqb negb andb]. apply in_flat_map. exists t. split; [exact Ht|].
    apply filter_In. split; [exact Hc|]. apply String.eqb_refl. }
  destruct (ref_candidates tables "" (qc_name c)) as [|x [|y l]]; [destruct Hin|reflexivity|simpl in Hn; lia].
Qed.

(** an entry written WITH its table's name is among the candidates of that qualifier *)
Theorem qualified_entry_candidate tables t c :
  In t tables -> In c (qt_cols t) -> In c (ref_candidates tables (tn_name (qt_rel t)) (qc_name c)).
Proof.
  intros Ht Hc. unfold ref_candidates. apply in_flat_map. exists t. split; [exact Ht|].
  rewrite String.eqb_refl. cbn [negb andb]. rewrite Bool.andb_false_r.
  apply filter_In. split; [exact Hc|]. apply String.eqb_refl.
Qed.
