(** resolveCatalogRefs never panics: for every catalog, every list of range vars, every list of
    parameter references (whatever their parent nodes look like) and every name table.
    The unguarded index fun.Args[i] (a Go panic before /repo 151ed9c) and toColumn's panic (before
    cb978d6) are the two sites this is about. *)
From Coq Require Import Lia.
From Verif Require Import Model.Compile Proofs.NoPanicFacts.
Open Scope string_scope.
Open Scope list_scope.

Lemma no_panic_bind {A B} (r : result A) (k : A -> result B) :
  no_panic r -> (forall x, no_panic (k x)) -> no_panic (bind r k).
Proof. destruct r; cbn; auto. Qed.

Lemma err_at_no_panic {A} loc m : no_panic (@err_at A loc m).
Proof. unfold err_at. destruct (loc =? 0)%Z; exact I. Qed.

Lemma to_column_np tn : no_panic (to_column tn).
Proof.
  unfold to_column. destruct (is_nil tn); [exact I|].
  destruct (string_items (kid "Names" tn)) as [|a [|b [|c [|d l]]]]; exact I.
Qed.

Lemma nth_min_some {A} (l : list A) i : l <> [] -> exists a, nth_error l (Nat.min i (List.length l - 1)) = Some a.
Proof.
  intro H. destruct (nth_error l (Nat.min i (List.length l - 1))) eqn:E; [eexists; reflexivity|].
  apply nth_error_None in E. destruct l as [|x l]; [contradiction|]. cbn [List.length] in E.
  pose proof (Nat.le_min_r i (S (List.length l) - 1)). lia.
Qed.

(** one step of the generic case analysis: a result-typed match / if / bind is panic-free when all its branches are *)
Ltac np_step :=
  match goal with
  | |- no_panic (Ok _) => exact I
  | |- no_panic (Err _) => exact I
  | |- no_panic (err_at _ _) => apply err_at_no_panic
  | |- no_panic (to_column _) => apply to_column_np
  | |- no_panic (bind _ _) => apply no_panic_bind; [|intro]
  | |- no_panic (let '(_, _) := ?p in _) => destruct p
  | |- no_panic (if ?b then _ else _) => destruct b
  | |- no_panic (match ?x with _ => _ end) => destruct x
  end.

Theorem resolve_one_no_panic e tables bare aliases dt names ref :
  no_panic (resolve_one e tables bare aliases dt names ref).
Proof.
  unfold resolve_one. cbv zeta.
  destruct (pr_parent ref) as [n| |]; [|exact I|exact I].
  destruct (String.eqb (kind_of n) "A_Expr").
  { repeat np_step. }
  destruct (String.eqb (kind_of n) "FuncCall").
  { match goal with
    | |- context [match ?F with Some fa => _ | None => _ end] =>
        match F with
        | context [resolve_func e n] => remember F as fargs eqn:Ef
        end
    end.
    assert (Hne : forall fa, fargs = Some fa -> fa <> []).
    { subst fargs. intros fa H. destruct (resolve_func e n) as [f| |].
      - destruct (fs_args f) eqn:E; [discriminate|]. injection H as <-. discriminate.
      - destruct (kid_items "Args" n) eqn:E; [discriminate|]. injection H as <-. cbn. discriminate.
      - destruct (kid_items "Args" n) eqn:E; [discriminate|]. injection H as <-. cbn. discriminate. }
    clear Ef.
    match goal with |- no_panic (?F ?L 0%nat) => cut (forall l i, no_panic (F l i)); [intro Hall; apply Hall|] end.
    induction l as [|item rest IH]; intro i; [exact I|].
    match goal with |- no_panic (match ?H with Some _ => _ | None => _ end) => destruct H as [arg_name|] end; [|exact (IH (S i))].
    destruct fargs as [fa|].
    - apply no_panic_bind.
      + destruct (String.eqb arg_name "").
        * destruct (nth_min_some fa i (Hne fa eq_refl)) as [a Ha]. rewrite Ha. exact I.
        * destruct (find_first (fun a : farg => String.eqb (fa_name a) arg_name) (rev fa)); [exact I | apply err_at_no_panic].
      + intro pt. apply no_panic_bind; [exact (IH (S i)) | intro; exact I].
    - apply no_panic_bind; [exact (IH (S i)) | intro; exact I]. }
  repeat np_step.
Qed.

(** ... and so does the loop over all references *)
Theorem resolve_catalog_refs_no_panic e rvs refs names : no_panic (resolve_catalog_refs e rvs refs names).
Proof.
  unfold resolve_catalog_refs. cbv zeta.
  induction refs as [|r rest IH]; [exact I|].
  apply no_panic_bind; [apply resolve_one_no_panic|]. intro a.
  apply no_panic_bind; [exact IH|]. intro b. exact I.
Qed.
