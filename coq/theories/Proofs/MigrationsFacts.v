(** Proofs about Model/Migrations.v (property C14). *)
From Coq Require Import Sorting.Permutation Sorting.Sorted.
From Verif Require Import Base.Str Base.Result Model.Migrations Proofs.StrFacts.
Open Scope string_scope.
Open Scope list_scope.

Definition nlS : string := String nl "".
Definition not_marker (l : string) : Prop := is_marker (drop_cr l) = false.

Lemma marker_nonempty m : is_marker (drop_cr m) = true -> m <> "".
Proof. intros H ->. vm_compute in H. discriminate. Qed.

Lemma Forall_remove_last {P : string -> Prop} l :
  Forall P l -> Forall P (remove_last_if_empty l).
Proof.
  induction 1 as [|x l Hx Hl IH]; simpl; [constructor|].
  destruct l as [|y l].
  - destruct (String.eqb x ""); repeat constructor; assumption.
  - constructor; assumption.
Qed.

(** Everything from the first marker line onward is ignored. *)
Theorem strip_marker up m down :
  Forall (no_char nl) (up ++ m :: down) ->
  Forall not_marker up ->
  is_marker (drop_cr m) = true ->
  remove_rollback (join nlS (up ++ m :: down)) = join nlS (map drop_cr up).
Proof.
  intros Hnl Hup Hm.
  unfold remove_rollback, scan_lines, split_nl.
  fold nlS. unfold nlS at 1.
  rewrite split_join; [|destruct up; discriminate|exact Hnl].
  destruct (remove_last_if_empty_app up m down (marker_nonempty _ Hm)) as [b' ->].
  rewrite map_app. simpl map.
  rewrite take_while_app_stop; [reflexivity| |rewrite Hm; reflexivity].
  apply Forall_map. eapply Forall_impl; [|exact Hup].
  intros l Hl. unfold not_marker in Hl. rewrite Hl. reflexivity.
Qed.

(** Without a marker line nothing is removed (line ends are normalised: a
    final newline and a CR before a newline disappear). *)
Theorem strip_id ls :
  Forall (no_char nl) ls -> Forall not_marker ls ->
  remove_rollback (join nlS ls) = join nlS (map drop_cr (remove_last_if_empty ls)).
Proof.
  intros Hnl Hm.
  unfold remove_rollback, scan_lines, split_nl. fold nlS.
  destruct ls as [|x ls]; [reflexivity|].
  unfold nlS at 1. rewrite split_join; [|discriminate|exact Hnl].
  rewrite take_while_all; [reflexivity|].
  apply Forall_map. apply Forall_remove_last.
  eapply Forall_impl; [|exact Hm].
  intros l Hl. unfold not_marker in Hl. rewrite Hl. reflexivity.
Qed.

(** * Glob *)
Definition expand (fs : filesys) (p : string) : list string :=
  match fs p with
  | Some (EDir names) => map (path_join p) (read_dir_sorted names)
  | _ => [p]
  end.

Lemma glob_collect_spec fs paths :
  Forall (fun p => fs p <> None) paths ->
  glob_collect fs paths = Ok (flat_map (expand fs) paths).
Proof.
  induction 1 as [|p paths Hp _ IH]; simpl; [reflexivity|].
  unfold expand at 1. destruct (fs p) as [[c| |names]|]; try congruence;
    rewrite IH; reflexivity.
Qed.

Theorem glob_spec fs paths :
  Forall (fun p => fs p <> None) paths ->
  glob fs paths = Ok (filter keep_file (flat_map (expand fs) paths)).
Proof. intros H. unfold glob. rewrite glob_collect_spec by exact H. reflexivity. Qed.

Theorem glob_missing fs paths :
  Exists (fun p => fs p = None) paths -> exists m, glob fs paths = Err m.
Proof.
  unfold glob. induction 1 as [p paths Hp|p paths _ [m IH]]; simpl.
  - rewrite Hp. eexists; reflexivity.
  - destruct (fs p) as [[c| |names]|]; try (eexists; reflexivity);
      destruct (glob_collect fs paths); simpl in *; try discriminate;
      inversion IH; eexists; reflexivity.
Qed.

Lemma read_dir_sorted_perm names : Permutation names (read_dir_sorted names).
Proof. apply StrSort.Permuted_sort. Qed.

Theorem read_dir_sorted_strongly names :
  NoDup names -> StronglySorted slt (read_dir_sorted names).
Proof.
  intros N. apply sorted_leb_nodup_strongly.
  - apply StrSort.LocallySorted_sort.
  - eapply Permutation_NoDup; [apply read_dir_sorted_perm|exact N].
Qed.

(** The order in which the operating system lists a directory is irrelevant. *)
Theorem read_dir_order_irrelevant n1 n2 :
  NoDup n1 -> Permutation n1 n2 -> read_dir_sorted n1 = read_dir_sorted n2.
Proof.
  intros N P. apply sorted_perm_unique.
  - apply read_dir_sorted_strongly, N.
  - apply read_dir_sorted_strongly. eapply Permutation_NoDup; eassumption.
  - eapply Permutation_trans; [apply Permutation_sym, read_dir_sorted_perm|].
    eapply Permutation_trans; [exact P|apply read_dir_sorted_perm].
Qed.

Lemma StronglySorted_filter {A} (R : A -> A -> Prop) (p : A -> bool) l :
  StronglySorted R l -> StronglySorted R (filter p l).
Proof.
  induction 1 as [|x l S IH F]; simpl; [constructor|].
  destruct (p x); [|exact IH].
  constructor; [exact IH|].
  rewrite Forall_forall in *. intros y Hy. apply filter_In in Hy. apply F, Hy.
Qed.

Lemma filter_map_comm {A B} (f : A -> B) (p : B -> bool) l :
  filter p (map f l) = map f (filter (fun x => p (f x)) l).
Proof.
  induction l as [|x l IH]; simpl; [reflexivity|].
  destruct (p (f x)); simpl; rewrite IH; reflexivity.
Qed.

(** The kept files of a directory are exactly its [keep_file] entries in
    byte-lexical name order, whatever else the directory holds and in whatever
    order it is listed. *)
Theorem dir_selection d listing names :
  NoDup listing ->
  StronglySorted slt names ->
  (forall n, In n names <-> In n listing /\ keep_file (path_join d n) = true) ->
  filter keep_file (map (path_join d) (read_dir_sorted listing)) = map (path_join d) names.
Proof.
  intros N S H. rewrite filter_map_comm. f_equal.
  apply sorted_perm_unique.
  - apply StronglySorted_filter, read_dir_sorted_strongly, N.
  - exact S.
  - apply NoDup_Permutation.
    + apply NoDup_filter. eapply Permutation_NoDup; [apply read_dir_sorted_perm|exact N].
    + clear -S. induction S as [|x l S IH F]; constructor; auto.
      intros Hin. rewrite Forall_forall in F. apply (slt_irrefl x), F, Hin.
    + intros n. rewrite filter_In, H.
      split; intros [H1 H2]; split; auto.
      * eapply Permutation_in; [apply Permutation_sym, read_dir_sorted_perm|exact H1].
      * eapply Permutation_in; [apply read_dir_sorted_perm|exact H1].
Qed.

(** * Split invariance *)
Section Split.
  Context {stmt : Type} (parse : string -> list stmt).
  Let load (c : string) := parse (remove_rollback c).

  (** [groups]: the history cut at statement boundaries into consecutive
      pieces of lines, one piece per file. *)
  Variable groups : list (list string).

  (** Assumption on the engine's parser (not modelled; exercised by the
      harness): parsing is compositional at these cut points. *)
  Hypothesis parse_compositional :
    load (join nlS (List.concat groups)) = flat_map (fun g => load (join nlS g)) groups.

  Lemma load_files_groups fs files gs :
    Forall2 (fun f g => fs f = Some (EFile (join nlS g))) files gs ->
    load_files parse fs files = Ok (flat_map (fun g => load (join nlS g)) gs).
  Proof.
    induction 1 as [|f g files gs Hf _ IH]; simpl; [reflexivity|].
    unfold load_file. rewrite Hf. simpl. rewrite IH. reflexivity.
  Qed.

  Variables (fsA : filesys) (pA : string).
  Hypothesis single : fsA pA = Some (EFile (join nlS (List.concat groups))).
  Hypothesis single_kept : keep_file pA = true.

  Lemma load_single :
    load_schema parse fsA [pA] = Ok (flat_map (fun g => load (join nlS g)) groups).
  Proof.
    unfold load_schema, glob. simpl. rewrite single. simpl. rewrite single_kept. simpl.
    unfold load_file. rewrite single. simpl.
    fold (load (join nlS (List.concat groups))).
    rewrite parse_compositional, app_nil_r. reflexivity.
  Qed.

  (** One directory holding the pieces under sorted names, plus any decoys. *)
  Theorem split_dir fsB d listing names :
    fsB d = Some (EDir listing) ->
    NoDup listing ->
    StronglySorted slt names ->
    (forall n, In n names <-> In n listing /\ keep_file (path_join d n) = true) ->
    Forall2 (fun n g => fsB (path_join d n) = Some (EFile (join nlS g))) names groups ->
    load_schema parse fsB [d] = load_schema parse fsA [pA].
  Proof.
    intros Hd N S Hk HF. rewrite load_single.
    unfold load_schema, glob. simpl. rewrite Hd. simpl. rewrite app_nil_r.
    rewrite (dir_selection d listing names N S Hk).
    apply load_files_groups.
    clear -HF. induction HF; constructor; auto.
  Qed.

  (** The pieces listed as explicit paths, in list order, with decoys
      (paths that [keep_file] rejects) anywhere in the list. *)
  Theorem split_paths fsB paths :
    Forall (fun p => fsB p <> None /\ forall l, fsB p <> Some (EDir l)) paths ->
    Forall2 (fun f g => fsB f = Some (EFile (join nlS g))) (filter keep_file paths) groups ->
    load_schema parse fsB paths = load_schema parse fsA [pA].
  Proof.
    intros Hex HF. rewrite load_single.
    unfold load_schema. rewrite glob_spec.
    2:{ eapply Forall_impl; [|exact Hex]. intros p [H _]; exact H. }
    simpl.
    replace (flat_map (expand fsB) paths) with paths.
    - apply load_files_groups, HF.
    - clear -Hex. induction Hex as [|p paths [Hp Hnd] _ IH]; simpl; [reflexivity|].
      unfold expand at 1. destruct (fsB p) as [[c| |l]|]; simpl; try congruence;
        exfalso; eapply Hnd; reflexivity.
  Qed.
End Split.
