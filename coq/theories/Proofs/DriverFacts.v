From Coq Require Import Sorting.Permutation.
From Verif Require Import Model.Driver.
Open Scope string_scope.
Open Scope list_scope.

Lemma run_loop_errored_sticky pkgs st : ls_errored st = true -> ls_errored (run_loop pkgs st) = true.
Proof.
  revert st. induction pkgs as [|p pkgs IH]; intros st H; simpl; [exact H|].
  destruct p; simpl; auto.
Qed.

Lemma diags_monotone pkgs : forall st, ls_diags st <= ls_diags (run_loop pkgs st).
Proof.
  induction pkgs as [|p pkgs IH]; intros st; simpl; [lia|].
  destruct p; simpl; [lia| |]; (eapply Nat.le_trans; [|apply IH]; simpl; lia).
Qed.

Lemma run_loop_fails pkgs st :
  existsb is_failure pkgs = true ->
  ls_errored (run_loop pkgs st) = true /\ ls_diags st < ls_diags (run_loop pkgs st).
Proof.
  revert st. induction pkgs as [|p pkgs IH]; intros st H; simpl in H; [discriminate|].
  destruct p as [| |fs]; simpl.
  - split; [reflexivity|lia].
  - split; [apply run_loop_errored_sticky; reflexivity|].
    pose proof (diags_monotone pkgs (mkLS (ls_out st) true (S (ls_diags st)))) as G. simpl in G. lia.
  - destruct (IH (mkLS (put_all (ls_out st) fs) (ls_errored st) (ls_diags st)) H) as [E D]. simpl in D. split; assumption.
Qed.

Lemma run_loop_good pkgs st :
  existsb is_failure pkgs = false ->
  run_loop pkgs st = mkLS (put_all (ls_out st) (all_files pkgs)) (ls_errored st) (ls_diags st).
Proof.
  revert st. induction pkgs as [|p pkgs IH]; intros st H; simpl in *.
  - destruct st; reflexivity.
  - destruct p as [| |fs]; simpl in H; try discriminate.
    rewrite IH by exact H. simpl. unfold all_files; simpl. unfold put_all. rewrite fold_left_app. reflexivity.
Qed.

(** all-or-nothing with a truthful status *)
Theorem all_or_nothing config_ok pkgs :
  let r := generate config_ok pkgs in
  (config_ok = false \/ existsb is_failure pkgs = true ->
     rr_output r = None /\ rr_status r <> 0 /\ 0 < rr_diags r) /\
  (config_ok = true /\ existsb is_failure pkgs = false ->
     rr_output r = Some (put_all [] (all_files pkgs)) /\ rr_status r = 0 /\ rr_diags r = 0).
Proof.
  unfold generate. split.
  - intros [-> | H]; simpl.
    + repeat split; lia.
    + destruct config_ok; simpl; [|repeat split; lia].
      destruct (run_loop_fails pkgs (mkLS [] false 0) H) as [E D]. rewrite E. simpl in *. repeat split; lia.
  - intros [-> H]. simpl. rewrite (run_loop_good pkgs _ H). simpl. repeat split.
Qed.

(** compile reports what generate reports and writes nothing *)
Theorem compile_same config_ok pkgs :
  let r := generate config_ok pkgs in
  files_written false r = [] /\
  (rr_output r = None -> files_written true r = []).
Proof.
  simpl. split.
  - unfold files_written. destruct (rr_output (generate config_ok pkgs)); reflexivity.
  - intros H. unfold files_written. rewrite H. reflexivity.
Qed.

(** with pairwise distinct file names nothing is overwritten: the output is the
    union of every package's complete file set *)
Lemma put_fresh m k v : ~ In k (map fst m) -> put m k v = m ++ [(k, v)].
Proof.
  induction m as [|[k' v'] m IH]; simpl; intros H; [reflexivity|].
  destruct (String.eqb_spec k' k) as [E|E]; [exfalso; auto|]. rewrite IH; auto.
Qed.

Theorem union_when_distinct fs : forall m,
  NoDup (map fst m ++ map fst fs) -> put_all m fs = m ++ fs.
Proof.
  induction fs as [|[k v] fs IH]; intros m N; simpl; [rewrite app_nil_r; reflexivity|].
  unfold put_all in *. simpl.
  assert (Hk : ~ In k (map fst m)).
  { intros Hin. apply NoDup_remove_2 in N. apply N. apply in_or_app. left. exact Hin. }
  rewrite put_fresh by exact Hk. rewrite IH.
  - rewrite <- app_assoc. reflexivity.
  - rewrite map_app. simpl. rewrite <- app_assoc. simpl. exact N.
Qed.

(** * C19: in a configuration of fault-free packages with pairwise distinct output
    files, each package's files in the common output are exactly what generating
    that package alone produces *)
Lemma all_good_no_failure pkgs : forallb (fun p => negb (is_failure p)) pkgs = true -> existsb is_failure pkgs = false.
Proof.
  induction pkgs as [|p pkgs IH]; simpl; intros H; [reflexivity|].
  apply andb_true_iff in H as [H1 H2]. apply negb_true_iff in H1. rewrite H1, (IH H2). reflexivity.
Qed.

Theorem isolation pkgs :
  forallb (fun p => negb (is_failure p)) pkgs = true ->
  NoDup (map fst (all_files pkgs)) ->
  rr_output (generate true pkgs) = Some (all_files pkgs) /\
  forall fs, In (Good fs) pkgs -> NoDup (map fst fs) ->
    rr_output (generate true [Good fs]) = Some fs /\ incl fs (all_files pkgs).
Proof.
  intros Hg N. pose proof (all_good_no_failure pkgs Hg) as Hf.
  destruct (all_or_nothing true pkgs) as [_ H]. destruct (H (conj eq_refl Hf)) as [Ho _].
  split.
  - rewrite Ho. f_equal. apply (union_when_distinct (all_files pkgs) []). simpl. exact N.
  - intros fs Hin Nfs. split.
    + destruct (all_or_nothing true [Good fs]) as [_ H1]. destruct (H1 (conj eq_refl eq_refl)) as [Ho1 _].
      rewrite Ho1. f_equal. unfold all_files; simpl. rewrite app_nil_r.
      apply (union_when_distinct fs []). simpl. exact Nfs.
    + intros x Hx. unfold all_files. apply in_flat_map. exists (Good fs). split; assumption.
Qed.

(** the order of the package list does not matter for what each package contributes *)
Theorem order_irrelevant pkgs pkgs' :
  Permutation pkgs pkgs' ->
  forallb (fun p => negb (is_failure p)) pkgs = true ->
  NoDup (map fst (all_files pkgs)) ->
  forall kv, In kv (all_files pkgs) <-> In kv (all_files pkgs').
Proof.
  intros P _ _ kv. unfold all_files. rewrite !in_flat_map. split; intros [p [Hp Hk]]; exists p; split; auto.
  - eapply Permutation_in; eassumption.
  - eapply Permutation_in; [apply Permutation_sym|]; eassumption.
Qed.
