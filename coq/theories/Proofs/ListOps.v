(** First-match / last-match slice surgery coincides with set-style [map] and
    [filter] on lists whose keys are unique. *)
From Coq Require Import Sorting.Permutation.
From Verif Require Import Base.Str Base.Result Model.Catalog.
Open Scope string_scope.
Open Scope list_scope.

Lemma NoDup_app_snoc {B} (l : list B) x : NoDup l -> ~ In x l -> NoDup (l ++ [x]).
Proof.
  induction l as [|y l IH]; simpl; intros N H.
  - constructor; [intros []|constructor].
  - inversion N as [|? ? Hy N']; subst. constructor.
    + intros Hin. apply in_app_or in Hin as [Hin|[->|[]]]; auto.
    + apply IH; auto.
Qed.

Section Keyed.
  Context {A : Type} (key : A -> string).
  Notation is k := (fun x : A => String.eqb (key x) k).

  Lemma existsb_find_first (p : A -> bool) l :
    existsb p l = match find_first p l with Some _ => true | None => false end.
  Proof. induction l as [|x l IH]; simpl; [reflexivity|]. destruct (p x); simpl; auto. Qed.

  Lemma find_first_some (p : A -> bool) l x : find_first p l = Some x -> In x l /\ p x = true.
  Proof.
    induction l as [|y l IH]; simpl; [discriminate|].
    destruct (p y) eqn:E; intros H.
    - inversion H; subst. auto.
    - destruct (IH H); auto.
  Qed.

  Lemma find_first_none (p : A -> bool) l : find_first p l = None -> forall x, In x l -> p x = false.
  Proof.
    induction l as [|y l IH]; simpl; intros H x Hx; [contradiction|].
    destruct (p y) eqn:E; [discriminate|]. destruct Hx as [->|Hx]; auto.
  Qed.

  Lemma is_in k l x : In x l -> is k x = true -> In k (map key l).
  Proof. intros Hx Hk. apply String.eqb_eq in Hk. subst k. apply in_map, Hx. Qed.

  Lemma find_first_key_in k l x : find_first (is k) l = Some x -> In k (map key l) /\ key x = k.
  Proof.
    intros H. apply find_first_some in H as [Hin Hk]. split.
    - eapply is_in; eassumption.
    - apply String.eqb_eq, Hk.
  Qed.

  Lemma find_first_none_notin k l : find_first (is k) l = None -> ~ In k (map key l).
  Proof.
    intros H Hin. apply in_map_iff in Hin as [x [Hk Hx]].
    pose proof (find_first_none _ _ H x Hx) as Hf. simpl in Hf.
    rewrite Hk, String.eqb_refl in Hf. discriminate.
  Qed.

  Lemma map_upd_notin k (f : A -> A) l :
    ~ In k (map key l) -> map (fun x => if is k x then f x else x) l = l.
  Proof.
    induction l as [|x l IH]; simpl; intros H; [reflexivity|].
    destruct (String.eqb_spec (key x) k) as [E|E]; [exfalso; auto|].
    rewrite IH; auto.
  Qed.

  Lemma upd_first_map k (f : A -> A) l :
    NoDup (map key l) ->
    upd_first (is k) f l = map (fun x => if is k x then f x else x) l.
  Proof.
    induction l as [|x l IH]; simpl; intros N; [reflexivity|].
    inversion N as [|? ? Hx N']; subst.
    destruct (String.eqb_spec (key x) k) as [E|E].
    - subst k. rewrite map_upd_notin by assumption. reflexivity.
    - rewrite IH by assumption. reflexivity.
  Qed.

  Lemma filter_notin k l :
    ~ In k (map key l) -> filter (fun x => negb (is k x)) l = l.
  Proof.
    induction l as [|x l IH]; simpl; intros H; [reflexivity|].
    destruct (String.eqb_spec (key x) k) as [E|E]; [exfalso; auto|].
    simpl. rewrite IH; auto.
  Qed.

  Lemma del_first_filter k l :
    NoDup (map key l) ->
    del_first (is k) l = filter (fun x => negb (is k x)) l.
  Proof.
    induction l as [|x l IH]; simpl; intros N; [reflexivity|].
    inversion N as [|? ? Hx N']; subst.
    destruct (String.eqb_spec (key x) k) as [E|E]; simpl.
    - subst k. rewrite filter_notin by assumption. reflexivity.
    - rewrite IH by assumption. reflexivity.
  Qed.

  Lemma filter_rev (p : A -> bool) l : filter p (rev l) = rev (filter p l).
  Proof.
    induction l as [|x l IH]; simpl; [reflexivity|].
    rewrite filter_app, IH. simpl. destruct (p x); simpl; [reflexivity|apply app_nil_r].
  Qed.

  Lemma del_last_filter k l :
    NoDup (map key l) ->
    del_last (is k) l = filter (fun x => negb (is k x)) l.
  Proof.
    intros N. unfold del_last. rewrite del_first_filter.
    - rewrite filter_rev, rev_involutive. reflexivity.
    - rewrite map_rev. apply NoDup_rev, N.
  Qed.

  (** preservation of key uniqueness *)
  Lemma nodup_map_upd (f : A -> A) (p : A -> bool) l :
    (forall x, key (f x) = key x) ->
    NoDup (map key l) -> NoDup (map key (map (fun x => if p x then f x else x) l)).
  Proof.
    intros Hf N. rewrite map_map.
    erewrite map_ext; [exact N|]. intros x. simpl. destruct (p x); auto.
  Qed.

  Lemma nodup_filter (p : A -> bool) l : NoDup (map key l) -> NoDup (map key (filter p l)).
  Proof.
    induction l as [|x l IH]; simpl; intros N; [constructor|].
    inversion N as [|? ? Hx N']; subst.
    destruct (p x); simpl; auto. constructor; auto.
    intros Hin. apply Hx. apply in_map_iff in Hin as [y [Hy Hin]].
    apply filter_In in Hin as [Hin _]. rewrite <- Hy. apply in_map, Hin.
  Qed.

  Lemma nodup_snoc l x : NoDup (map key l) -> ~ In (key x) (map key l) -> NoDup (map key (l ++ [x])).
  Proof.
    intros N H. rewrite map_app. simpl.
    apply NoDup_app_snoc; assumption.
  Qed.

  (** renaming the unique element with key [k] to a fresh key [k'] *)
  Lemma nodup_rename k k' (f : A -> A) l :
    (forall x, key (f x) = k') ->
    NoDup (map key l) -> ~ In k' (map key l) ->
    NoDup (map key (map (fun x => if is k x then f x else x) l)).
  Proof.
    intros Hf. induction l as [|x l IH]; simpl; intros N H; [constructor|].
    inversion N as [|? ? Hx N']; subst.
    destruct (String.eqb_spec (key x) k) as [E|E].
    - subst k. rewrite map_upd_notin by assumption. rewrite Hf. constructor; auto.
    - constructor; [|apply IH; auto].
      intros Hin. apply in_map_iff in Hin as [y [Hy Hin]].
      apply in_map_iff in Hin as [z [Hz Hin]]. subst y.
      destruct (String.eqb_spec (key z) k).
      + rewrite Hf in Hy. apply H. left. auto.
      + apply Hx. rewrite <- Hy. apply in_map, Hin.
  Qed.

  Lemma find_first_unique k l x y :
    NoDup (map key l) -> find_first (is k) l = Some x -> In y l -> key y = k -> y = x.
  Proof.
    induction l as [|z l IH]; simpl; intros N H Hin Hk; [contradiction|].
    inversion N as [|? ? Hz N']; subst.
    destruct (String.eqb_spec (key z) (key y)) as [E|E].
    - inversion H; subst. destruct Hin as [->|Hin]; [reflexivity|].
      exfalso. apply Hz. rewrite E. apply in_map, Hin.
    - destruct Hin as [->|Hin]; [congruence|]. apply IH; auto.
  Qed.

  Lemma In_filter_key k l x : In x (filter (fun y => negb (is k y)) l) -> In x l.
  Proof. intros H. apply filter_In in H. tauto. Qed.
End Keyed.

