From Verif Require Import Model.Config.
Open Scope string_scope.
Open Scope list_scope.

Definition v2_pkg (p : v1pkg) : sqlpkg :=
  mkSql (if String.eqb (p_engine p) "" then "postgresql" else p_engine p) (p_schema p) (p_queries p)
        (Some (mkGo (p_interface p) (p_json p) (p_db p) (p_prepared p) (p_exact p) (p_empty p) (p_case p)
                    (p_name p) (p_path p) (p_overrides p))).

Lemma to_v2_sql c : c_sql (to_v2 c) = map v2_pkg (v1_packages c).
Proof. reflexivity. Qed.

Lemma existsb_map {A B} (f : A -> B) (p : B -> bool) l : existsb p (map f l) = existsb (fun x => p (f x)) l.
Proof. induction l as [|x l IH]; simpl; [reflexivity|]. rewrite IH. reflexivity. Qed.
Lemma forallb_map {A B} (f : A -> B) (p : B -> bool) l : forallb p (map f l) = forallb (fun x => p (f x)) l.
Proof. induction l as [|x l IH]; simpl; [reflexivity|]. rewrite IH. reflexivity. Qed.

Lemma engines_defaulted pkgs :
  map s_engine (map v2_pkg pkgs) = map (fun p => if String.eqb (p_engine p) "" then "postgresql" else p_engine p) pkgs.
Proof. rewrite map_map. reflexivity. Qed.

Theorem v1_v2_equivalent c k :
  v1_parse c = Ok k ->
  exists k', v2_parse (to_v2 c) = Ok k' /\ same_settings k k'.
Proof.
  intros H. unfold v1_parse in H.
  destruct (v1_version c =? "") eqn:E1; [discriminate|].
  destruct (negb (v1_version c =? "1")) eqn:E2; [discriminate|].
  destruct (Nat.eqb (List.length (v1_packages c)) 0) eqn:E3; [discriminate|].
  destruct (negb (global_overrides_ok (map (fun p => if String.eqb (p_engine p) "" then "postgresql" else p_engine p) (v1_packages c))
                                      (v1_overrides c))) eqn:E4; [discriminate|].
  destruct (negb (forallb override_ok (v1_overrides c))) eqn:E5; [discriminate|].
  destruct (existsb (fun p => p_path p =? "") (v1_packages c)) eqn:E6; [discriminate|].
  destruct (negb (forallb (fun p => forallb override_ok (p_overrides p)) (v1_packages c))) eqn:E7; [discriminate|].
  destruct (negb (forallb (fun p => known_engine (if String.eqb (p_engine p) "" then "postgresql" else p_engine p)) (v1_packages c))) eqn:E8; [discriminate|].
  inversion H; subst k; clear H.
  set (glob := if Nat.eqb (List.length (v1_overrides c)) 0 && Nat.eqb (List.length (v1_rename c)) 0 then None
               else Some (v1_overrides c, v1_rename c)).
  assert (Hg : match glob with Some (o, _) => o | None => [] end = v1_overrides c).
  { unfold glob. destruct (v1_overrides c) eqn:E; simpl; [destruct (Nat.eqb (List.length (v1_rename c)) 0); reflexivity|reflexivity]. }
  unfold v2_parse. change (c_version (to_v2 c)) with "2". rewrite to_v2_sql. change (c_gen_go (to_v2 c)) with glob.
  cbn [String.eqb Ascii.eqb Bool.eqb negb].
  rewrite map_length, E3, Hg, engines_defaulted, E4, E5.
  rewrite existsb_map.
  assert (X1 : existsb (fun x => s_engine (v2_pkg x) =? "") (v1_packages c) = false).
  { clear. induction (v1_packages c) as [|p l IH]; [reflexivity|].
    cbn [existsb]. rewrite IH. unfold v2_pkg at 1. cbn [s_engine].
    destruct (String.eqb_spec (p_engine p) "") as [E|E]; [reflexivity|].
    destruct (String.eqb_spec (p_engine p) ""); [congruence|reflexivity]. }
  rewrite X1.
  rewrite forallb_map. cbn [v2_pkg s_engine]. rewrite E8.
  rewrite existsb_map. cbn [v2_pkg s_go g_out]. rewrite E6.
  rewrite forallb_map. cbn [v2_pkg s_go g_overrides]. rewrite E7.
  eexists. split; [reflexivity|].
  split; simpl; [|reflexivity].
  rewrite map_map. apply map_ext. intros p. reflexivity.
Qed.

(** package-level settings of one package never mention another package *)
Theorem combine_local c s s' :
  s_go s = s_go s' -> combine c s = combine c s'.
Proof. intros H. unfold combine. rewrite H. reflexivity. Qed.
