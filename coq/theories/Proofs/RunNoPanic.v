(** no statement of any query file of a package makes parseQueries panic, provided each has the
    shape the parsers produce *)
From Verif Require Import Model.CompileFiles Model.Shape Proofs.NoPanicFacts Proofs.ComposedNoPanic.
Open Scope string_scope.
Open Scope list_scope.

Definition stmt_ok (e : env) (src : string) (raw : node) : Prop :=
  walk_ok raw = true
  /\ no_panic (pluck src (int_of "StmtLocation" raw) (int_of "StmtLen" raw))
  /\ shape_ok (fst (fst (named_parameters (env_engine e) raw))) = true
  /\ inserts_ok (kid "Stmt" (fst (fst (named_parameters (env_engine e) raw)))) = true.

Lemma parse_file_no_panic e src p : forall stmts seen,
  Forall (stmt_ok e src) stmts -> Forall no_panic (parse_file e src p stmts seen).
Proof.
  induction stmts as [|raw rest IH]; intros seen H; cbn [parse_file]; [constructor|].
  inversion H as [|? ? [Hw [Hp [Hs Hi]]] Hr]; subst.
  pose proof (parse_query_no_panic e raw src p Hw Hp Hs Hi) as Hq.
  destruct (parse_query e raw src p) as [[q|]|m|m]; try destruct Hq.
  - destruct (negb (String.eqb (q_name q) "") && mem_str (q_name q) seen); constructor; try exact I; apply IH; exact Hr.
  - constructor; [exact I | apply IH; exact Hr].
  - constructor; [exact I | apply IH; exact Hr].
Qed.

Theorem parse_files_no_panic e p : forall files seen,
  Forall (fun f : qfile => let '(_, src, stmts) := f in Forall (stmt_ok e src) stmts) files ->
  Forall (fun r => no_panic (snd r)) (parse_files e p files seen).
Proof.
  induction files as [|[[name src] stmts] rest IH]; intros seen H; cbn [parse_files]; [constructor|].
  inversion H as [|? ? Hf Hr]; subst. apply Forall_app. split.
  - pose proof (parse_file_no_panic e src p stmts seen Hf) as Hn.
    induction (parse_file e src p stmts seen) as [|r rs IHr]; cbn [map]; [constructor|].
    inversion Hn; subst. constructor; [assumption | apply IHr; assumption].
  - apply IH. exact Hr.
Qed.
