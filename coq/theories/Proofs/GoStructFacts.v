(** columnsToStruct: columns that share a name get pairwise different suffixes
    (strictly increasing in column order) whenever their ids differ. *)
From Coq Require Import Sorting.Sorted Lia.
From Verif Require Import Model.GoStruct.
Open Scope string_scope.
Open Scope list_scope.

Lemma lookup_incr seen nm k :
  lookup_s (incr_s seen nm) k = if String.eqb nm k then S (lookup_s seen k) else lookup_s seen k.
Proof.
  induction seen as [|[k' v] r IH]; simpl.
  - destruct (String.eqb nm k); reflexivity.
  - destruct (String.eqb k' nm) eqn:E1; simpl.
    + apply String.eqb_eq in E1. subst k'. destruct (String.eqb nm k) eqn:E2; reflexivity.
    + destruct (String.eqb k' k) eqn:E2; [|exact IH].
      apply String.eqb_eq in E2. subst k'. rewrite String.eqb_sym in E1. rewrite E1. reflexivity.
Qed.

(** without id sharing the loop only looks at [seen] *)
Fixpoint spec_loop (cols : list (Z * string)) (seen : list (string * nat)) : list nat :=
  match cols with
  | [] => []
  | (_, nm) :: rest =>
      (let v := lookup_s seen nm in if Nat.ltb 0 v then S v else 0) :: spec_loop rest (incr_s seen nm)
  end.

Lemma lookup_id_notin sfx id : ~ In id (map fst sfx) -> lookup_id sfx id = None.
Proof.
  induction sfx as [|[k v] r IH]; simpl; intros H; [reflexivity|].
  destruct (Z.eqb k id) eqn:E; [apply Z.eqb_eq in E; subst; tauto|]. apply IH. tauto.
Qed.

Lemma loop_is_spec cols : forall seen sfx,
  NoDup (map fst cols) -> (forall id, In id (map fst cols) -> ~ In id (map fst sfx)) ->
  suffixes_loop cols seen sfx = spec_loop cols seen.
Proof.
  induction cols as [|[id nm] rest IH]; intros seen sfx Hn Hd; simpl; [reflexivity|].
  rewrite (lookup_id_notin sfx id) by (apply Hd; left; reflexivity).
  f_equal. apply IH.
  - inversion Hn; assumption.
  - intros id' Hin [E|Hc].
    + simpl in E. subst id'. inversion Hn; contradiction.
    + apply (Hd id'); [right; exact Hin|exact Hc].
Qed.

Definition named (nm : string) (cols : list (Z * string)) (l : list nat) : list nat :=
  map snd (filter (fun p => String.eqb (snd (fst p)) nm) (combine cols l)).

Lemma spec_lower nm cols : forall seen s,
  In s (named nm cols (spec_loop cols seen)) -> lookup_s seen nm < s \/ (s = 0 /\ lookup_s seen nm = 0).
Proof.
  unfold named. induction cols as [|[id nm'] rest IH]; intros seen s H; simpl in H; [destruct H|].
  destruct (String.eqb nm' nm) eqn:E; simpl in H.
  - apply String.eqb_eq in E. subst nm'. destruct H as [H|H].
    + subst s. destruct (lookup_s seen nm); simpl; [right; auto|left; lia].
    + apply IH in H. rewrite lookup_incr, String.eqb_refl in H. left. lia.
  - apply IH in H. rewrite lookup_incr, E in H. exact H.
Qed.

Lemma spec_sorted nm cols : forall seen, StronglySorted lt (named nm cols (spec_loop cols seen)).
Proof.
  unfold named. induction cols as [|[id nm'] rest IH]; intros seen; simpl; [constructor|].
  destruct (String.eqb nm' nm) eqn:E; simpl; [|apply IH].
  apply String.eqb_eq in E. subst nm'. constructor; [apply IH|].
  rewrite Forall_forall. intros s Hs. apply (spec_lower nm rest) in Hs.
  rewrite lookup_incr, String.eqb_refl in Hs.
  destruct (lookup_s seen nm); simpl; lia.
Qed.

(** for pairwise distinct ids (result columns; distinct parameter numbers) the
    suffixes of the columns called [nm] increase strictly in column order - in
    particular they are pairwise different *)
Theorem same_name_suffixes_increase cols nm :
  NoDup (map fst cols) -> StronglySorted lt (named nm cols (suffixes_of cols)).
Proof.
  intros Hn. unfold suffixes_of. rewrite loop_is_spec; [apply spec_sorted|exact Hn|intros id _ []].
Qed.

(** a name that occurs once, first, keeps its name *)
Theorem first_occurrence_unsuffixed id nm rest :
  hd 1 (suffixes_of ((id, nm) :: rest)) = 0.
Proof. reflexivity. Qed.
