(** parse_query as a whole: what the success of the composed model says about
    the parameter list (used by C03). *)
From Coq Require Import Sorting.Permutation Sorting.Sorted Lia.
From Verif Require Import Model.Compile Spec.Placeholders Judge.JQ Judge.J03 Judge.J20 Proofs.ParamsFacts Proofs.PositionalFacts.
Open Scope string_scope.
Open Scope list_scope.

Ltac kill_err H := unfold err_at in H; try destruct (_ =? 0)%Z; discriminate.

(** every parameter one reference resolves to carries the reference's number *)
Lemma resolve_one_numbers e tables bare aliases dt names r ps :
  resolve_one e tables bare aliases dt names r = Ok ps -> Forall (fun p => p_num p = ref_number r) ps.
Proof.
  unfold resolve_one. intros H.
  destruct (pr_parent r) as [n| |] eqn:Ep.
  2,3: inversion H; subst; repeat constructor.
  destruct (String.eqb (kind_of n) "A_Expr").
  { destruct (search (is_kind "ColumnRef") (kid "Lexpr" n)) as [|lref rest].
    - inversion H; subst. repeat constructor.
    - destruct (string_items (kid "Fields" lref)) as [|a [|b [|c l]]];
        try (kill_err H).
      all: match type of H with
           | match ?hits with _ => _ end = _ => destruct hits as [|[t col] [|h2 hs]]
           end; try (kill_err H); inversion H; subst; repeat constructor. }
  destruct (String.eqb (kind_of n) "FuncCall").
  { cbv zeta in H.
    match type of H with ?f ?l 0%nat = _ =>
      assert (G : forall l' i ps', f l' i = Ok ps' -> Forall (fun p => p_num p = ref_number r) ps');
        [clear H ps|eapply G; exact H]
    end.
    induction l' as [|item rest IH]; intros i ps H.
    - cbn [kid_items] in H. inversion H; subst. constructor.
    - cbn [kid_items] in H.
      match type of H with context [match ?h with Some _ => _ | None => _ end] => destruct h as [arg_name|] eqn:Eh end.
      2: { eapply IH; exact H. }
      match type of H with context [match ?f with Some _ => _ | None => _ end] => destruct f as [fa|] eqn:Ef end.
      + match type of H with bind ?x _ = _ => destruct x as [pt|m1|m1] eqn:Ept; simpl in H; try discriminate end.
        match type of H with bind ?x _ = _ => destruct x as [r0|m0|m0] eqn:Er; simpl in H; try discriminate end.
        inversion H; subst. constructor; [reflexivity|]. eapply IH; exact Er.
      + match type of H with bind ?x _ = _ => destruct x as [r0|m0|m0] eqn:Er; simpl in H; try discriminate end.
        inversion H; subst. constructor; [reflexivity|]. eapply IH; exact Er. }
  destruct (String.eqb (kind_of n) "ResTarget").
  { destruct (str_opt "Name" n); [|discriminate].
    match type of H with bind ?x _ = _ => destruct x as [sr|m|m] eqn:Es; simpl in H; try discriminate end.
    destruct (typemap_lookup _ _ _ _ _); [|kill_err H].
    inversion H; subst. repeat constructor. }
  destruct (String.eqb (kind_of n) "TypeCast").
  { destruct (is_nil (kid "TypeName" n)); [discriminate|].
    match type of H with bind ?x _ = _ => destruct x as [col|m|m] eqn:Es; simpl in H; try discriminate end.
    inversion H; subst. repeat constructor. }
  destruct (String.eqb (kind_of n) "ParamRef"); inversion H; subst; repeat constructor.
Qed.

(** resolveCatalogRefs: the concatenation, in order *)
Lemma resolve_refs_numbers e rvs refs names ps :
  resolve_catalog_refs e rvs refs names = Ok ps ->
  (forall r, In r refs ->
     let rvs' := filter (fun rv => match str_opt "Relname" rv with Some _ => true | None => false end) rvs in
     let tables := map table_of_rangevar rvs' in
     let aliases := rev (flat_map (fun rv => if is_nil (kid "Alias" rv) then []
                                             else [(str_of "Aliasname" (kid "Alias" rv), table_of_rangevar rv)]) rvs') in
     let bare := map table_of_rangevar (filter (fun rv => is_nil (kid "Alias" rv)) rvs') in
     forall l, resolve_one e tables bare aliases (match tables with t :: _ => Some t | [] => None end) names r = Ok l ->
               List.length l = 1%nat) ->
  map p_num ps = map ref_number refs.
Proof.
  unfold resolve_catalog_refs. cbv zeta.
  set (rvs' := filter _ rvs). set (tables := map table_of_rangevar rvs').
  set (aliases := rev _). set (bare := map table_of_rangevar (filter _ rvs')). set (dt := match tables with t :: _ => Some t | [] => None end).
  revert ps. induction refs as [|r rest IH]; intros ps H Har.
  - inversion H; subst. reflexivity.
  - destruct (resolve_one e tables bare aliases dt names r) as [a|m|m] eqn:Ea; cbn [bind] in H; try discriminate.
    match type of H with bind ?x _ = _ => destruct x as [b|m|m] eqn:Eb; cbn [bind] in H; try discriminate end.
    inversion H; subst.
    pose proof (Har r (or_introl eq_refl) a Ea) as Hl.
    pose proof (resolve_one_numbers _ _ _ _ _ _ _ _ Ea) as Hn.
    destruct a as [|p [|p2 a']]; try discriminate. inversion Hn; subst.
    simpl. f_equal; [assumption|]. apply IH; [reflexivity|]. intros r' Hr'. apply Har. right. exact Hr'.
Qed.

(** what the success of parse_query says about its parameter list *)
Lemma parse_query_params_gen e raw src positional q :
  parse_query e raw src positional = Ok (Some q) ->
  exists refs0,
    find_parameters (kid "Stmt" (fst (fst (named_parameters (env_engine e) raw)))) = Ok refs0 /\
    resolve_catalog_refs e (search (is_kind "RangeVar") (kid "Stmt" (fst (fst (named_parameters (env_engine e) raw)))))
                         (if positional then positional_refs refs0 else sort_refs (unique_refs [] refs0))
                         (snd (fst (named_parameters (env_engine e) raw)))
      = Ok (q_params q) /\
    param_ref_gap raw = None.
Proof.
  unfold parse_query. intros H.
  destruct (negb (walk_ok raw)); [discriminate|].
  destruct (negb (param_style_ok raw)); [discriminate|].
  destruct (param_ref_gap raw) eqn:Eg; [discriminate|].
  destruct (negb (is_kind "RawStmt" raw)); [discriminate|].
  cbv zeta in H.
  destruct (negb (supported_stmt (kind_of (kid "Stmt" raw)))); [discriminate|].
  destruct (is_kind "InsertStmt" (kid "Stmt" raw) && negb (insert_stmt_ok (kid "Stmt" raw))); [discriminate|].
  match type of H with bind ?x _ = _ => destruct x as [raw_sql|m|m]; cbn [bind] in H; try discriminate end.
  destruct (String.eqb raw_sql ""); [discriminate|].
  match type of H with bind ?x _ = _ => destruct x as [u|m|m]; cbn [bind] in H; try discriminate end.
  match type of H with bind ?x _ = _ => destruct x as [[name cmd]|m|m]; cbn [bind] in H; try discriminate end.
  destruct (negb (cmd_ok (kid "Stmt" raw) cmd)); [discriminate|].
  destruct (named_parameters (env_engine e) raw) as [[raw2 names] edits0] eqn:En. cbn [fst snd].
  match type of H with bind ?x _ = _ => destruct x as [refs0|m|m] eqn:Ef; cbn [bind] in H; try discriminate end.
  match type of H with bind ?x _ = _ => destruct x as [params|m|m] eqn:Ep; cbn [bind] in H; try discriminate end.
  match type of H with bind ?x _ = _ => destruct x as [qc|m|m]; cbn [bind] in H; try discriminate end.
  match type of H with bind ?x _ = _ => destruct x as [cols|m|m]; cbn [bind] in H; try discriminate end.
  match type of H with bind ?x _ = _ => destruct x as [ex|m|m]; cbn [bind] in H; try discriminate end.
  match type of H with bind ?x _ = _ => destruct x as [expanded|m|m]; cbn [bind] in H; try discriminate end.
  match type of H with bind ?x _ = _ => destruct x as [sc|m|m]; cbn [bind] in H; try discriminate end.
  inversion H; subst. exists refs0. cbn [q_params]. auto.
Qed.

Lemma parse_query_params e raw src q :
  parse_query e raw src false = Ok (Some q) ->
  exists refs0,
    find_parameters (kid "Stmt" (fst (fst (named_parameters (env_engine e) raw)))) = Ok refs0 /\
    resolve_catalog_refs e (search (is_kind "RangeVar") (kid "Stmt" (fst (fst (named_parameters (env_engine e) raw)))))
                         (sort_refs (unique_refs [] refs0)) (snd (fst (named_parameters (env_engine e) raw)))
      = Ok (q_params q) /\
    param_ref_gap raw = None.
Proof. apply parse_query_params_gen. Qed.

Lemma list_eqb_Z_eq (a b : list Z) : list_eqb Z.eqb a b = true -> a = b.
Proof.
  revert b. induction a as [|x a IH]; intros [|y b] H; simpl in H; try discriminate; [reflexivity|].
  apply andb_prop in H. destruct H as [H1 H2]. apply Z.eqb_eq in H1. subst. f_equal. apply IH, H2.
Qed.

Lemma zinsert_In x l z : In z (zinsert x l) <-> z = x \/ In z l.
Proof.
  induction l as [|y l IH]; simpl; [intuition|].
  destruct (x <=? y)%Z; simpl; [intuition|]. rewrite IH. intuition.
Qed.
Lemma zsort_In l z : In z (zsort l) <-> In z l.
Proof.
  induction l as [|x l IH]; simpl; [tauto|]. rewrite zinsert_In, IH. intuition.
Qed.

(** C03 on the composed model: whenever parse_query (numbered mode) accepts a
    statement none of whose references is dropped or duplicated
    ([c03_class] = 0), whose placeholders the walker all found
    ([refs_complete]) and whose numbers have no gap, the query's parameters
    are numbered 1, 2, ..., k in order, k the number of distinct placeholders. *)
Theorem compiled_params_numbered e raw src q :
  parse_query e raw src false = Ok (Some q) ->
  c03_class e raw = 0%N -> refs_complete e raw = true ->
  let nums := map (int_of "Number")
                  (search (is_kind "ParamRef") (kid "Stmt" (fst (fst (named_parameters (env_engine e) raw))))) in
  first_gap (dedup_z nums) 1 (List.length (dedup_z nums)) = None ->
  map p_num (q_params q) = zseq 1 (List.length (dedup_z nums)).
Proof.
  intros Hq Hc Hr nums Hgap.
  destruct (parse_query_params _ _ _ _ Hq) as [refs0 [Hf [Hres _]]].
  unfold c03_class, refs_complete, c03_refs in *.
  destruct (named_parameters (env_engine e) raw) as [[raw2 names] ed] eqn:En. cbn [fst snd] in *.
  rewrite Hf in Hc, Hr. cbn [bind] in Hc, Hr.
  apply list_eqb_Z_eq in Hr.
  set (refs := sort_refs (unique_refs [] refs0)) in *.
  assert (Hall : forall r, In r refs -> ref_class e raw2 names r = 0%N).
  { intros r Hin.
    destruct (N.eq_dec (ref_class e raw2 names r) 0) as [E|E]; [exact E|exfalso].
    assert (Hf' : In (ref_class e raw2 names r)
                     (filter (fun c => negb (N.eqb c 0)) (map (ref_class e raw2 names) refs))).
    { apply filter_In. split; [apply in_map, Hin|]. apply Bool.negb_true_iff, N.eqb_neq, E. }
    destruct (filter (fun c => negb (N.eqb c 0)) (map (ref_class e raw2 names) refs)) as [|c cs] eqn:Efl; [exact Hf'|].
    assert (Hc0 : In c (c :: cs)) by (left; reflexivity). rewrite <- Efl in Hc0.
    apply filter_In in Hc0. destruct Hc0 as [_ Hc0]. subst c. discriminate. }
  rewrite (resolve_refs_numbers _ _ _ _ _ Hres).
  - fold nums in Hr. unfold refs. apply params_numbered; [|exact Hgap].
    intros z. destruct (sorted_unique_numbers refs0) as [_ Hin]. cbv zeta in Hin. rewrite <- Hin.
    fold refs. rewrite <- Hr, zsort_In. destruct (dedup_z_spec nums) as [_ Hd]. apply Hd.
  - intros r Hin rvs' tables aliases bare l Hl. specialize (Hall r Hin).
    unfold ref_class, ref_arity in Hall. fold rvs' tables aliases bare in Hall. rewrite Hl in Hall.
    destruct l as [|p [|p2 l']]; [|reflexivity|discriminate].
    destruct (pr_parent r) as [n| |]; [destruct (is_kind "FuncCall" n)|..]; discriminate.
Qed.

(** C20 on the composed model: whenever parse_query in positional (JDBC) mode
    accepts a statement none of whose references is dropped or duplicated, the
    k-th parameter carries the number of the k-th placeholder occurrence in
    text order - for ANY list [marks] of (offset, number) pairs, strictly
    increasing in offset, that the found references are a permutation of. *)
Theorem compiled_binds_text_order e raw src q :
  parse_query e raw src true = Ok (Some q) ->
  c20_class e raw = 0%N ->
  exists refs0,
    find_parameters (kid "Stmt" (fst (fst (named_parameters (env_engine e) raw)))) = Ok refs0 /\
    forall marks,
      StronglySorted (fun a b => (fst a < fst b)%Z) marks ->
      Permutation (map mark_of refs0) marks ->
      map p_num (q_params q) = map snd marks.
Proof.
  intros Hq Hc.
  destruct (parse_query_params_gen _ _ _ _ _ Hq) as [refs0 [Hf [Hres _]]].
  exists refs0. split; [exact Hf|]. intros marks Hs Hp.
  unfold c20_class, c20_refs in Hc.
  destruct (named_parameters (env_engine e) raw) as [[raw2 names] ed] eqn:En. cbn [fst snd] in *.
  rewrite Hf in Hc. cbn [bind] in Hc.
  destruct names as [|nm names']; [|discriminate].
  destruct (negb (Nat.eqb (List.length (search (is_kind "ParamRef") (kid "Stmt" raw2)))
                          (List.length (positional_refs refs0)))); [discriminate|].
  set (refs := positional_refs refs0) in *.
  assert (Hall : forall r, In r refs -> ref_class e raw2 [] r = 0%N).
  { intros r Hin.
    destruct (N.eq_dec (ref_class e raw2 [] r) 0) as [E|E]; [exact E|exfalso].
    assert (Hf' : In (ref_class e raw2 [] r)
                     (filter (fun c => negb (N.eqb c 0)) (map (ref_class e raw2 []) refs))).
    { apply filter_In. split; [apply in_map, Hin|]. apply Bool.negb_true_iff, N.eqb_neq, E. }
    destruct (filter (fun c => negb (N.eqb c 0)) (map (ref_class e raw2 []) refs)) as [|c cs] eqn:Efl; [exact Hf'|].
    assert (Hc0 : In c (c :: cs)) by (left; reflexivity). rewrite <- Efl in Hc0.
    apply filter_In in Hc0. destruct Hc0 as [_ Hc0]. subst c. discriminate. }
  rewrite (resolve_refs_numbers _ _ _ _ _ Hres).
  - unfold refs. rewrite positional_numbers.
    rewrite <- (binds_text_order refs0 marks Hs Hp). rewrite map_map. reflexivity.
  - intros r Hin rvs' tables aliases bare l Hl. specialize (Hall r Hin).
    unfold ref_class, ref_arity in Hall. fold rvs' tables aliases bare in Hall. rewrite Hl in Hall.
    destruct l as [|p [|p2 l']]; [|reflexivity|discriminate].
    destruct (pr_parent r) as [n| |]; [destruct (is_kind "FuncCall" n)|..]; discriminate.
Qed.
