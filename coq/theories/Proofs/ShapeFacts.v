From Verif Require Import Model.Shape.
From Verif Require Import Model.Compile Proofs.NoPanicFacts Proofs.ResolveNoPanic Proofs.FindParamsNoPanic.
Open Scope string_scope.
Open Scope list_scope.

Lemma all_nodes_self n : In n (all_nodes n).
Proof. destruct n; cbn [all_nodes]; left; reflexivity. Qed.

(** the descendants of a descendant are descendants *)
Lemma all_nodes_trans : forall n x, In x (all_nodes n) -> incl (all_nodes x) (all_nodes n).
Proof.
  induction n as [|l IHl|k s i kids IHk] using node_ind'; intros x Hx.
  - cbn [all_nodes] in Hx. destruct Hx as [<-|[]]. apply incl_refl.
  - cbn [all_nodes] in Hx. destruct Hx as [<-|Hx]; [apply incl_refl|].
    cbn [all_nodes]. apply incl_tl.
    induction l as [|c r IHr]; [destruct Hx|].
    inversion IHl as [|? ? Hc Hr]; subst.
    apply in_app_or in Hx. destruct Hx as [Hx|Hx].
    + apply incl_appl. exact (Hc x Hx).
    + apply incl_appr. exact (IHr Hr Hx).
  - cbn [all_nodes] in Hx. destruct Hx as [<-|Hx]; [apply incl_refl|].
    cbn [all_nodes]. apply incl_tl.
    induction kids as [|[f c] r IHr]; [destruct Hx|].
    inversion IHk as [|? ? Hc Hr]; subst. cbn [snd] in *.
    apply in_app_or in Hx. destruct Hx as [Hx|Hx].
    + apply incl_appl. exact (Hc x Hx).
    + apply incl_appr. exact (IHr Hr Hx).
Qed.

Lemma all_nodes_item l x : In x l -> In x (all_nodes (NList l)).
Proof.
  intro H. cbn [all_nodes]. right. induction l as [|c r IH]; [destruct H|].
  destruct H as [<-|H]; [apply in_or_app; left; apply all_nodes_self | apply in_or_app; right; exact (IH H)].
Qed.

Lemma all_nodes_kid k s i kids f x : In (f, x) kids -> In x (all_nodes (Node k s i kids)).
Proof.
  intro H. cbn [all_nodes]. right. induction kids as [|[f' c] r IH]; [destruct H|].
  destruct H as [H|H]; [injection H as -> ->; apply in_or_app; left; apply all_nodes_self | apply in_or_app; right; exact (IH H)].
Qed.

Lemma assoc_in {A} (l : list (string * A)) f x : assoc l f = Some x -> exists f', In (f', x) l.
Proof.
  induction l as [|[f' y] r IH]; cbn [assoc]; [discriminate|].
  destruct (String.eqb f' f); [intro H; injection H as <-; exists f'; left; reflexivity | intro H; destruct (IH H) as [g Hg]; exists g; right; exact Hg].
Qed.

Lemma kid_sub f n : kid f n = Nil \/ In (kid f n) (all_nodes n).
Proof.
  destruct n as [|l|k s i kids]; [left; reflexivity|left; reflexivity|]. cbn [kid].
  destruct (assoc kids f) as [x|] eqn:E; [|left; reflexivity].
  right. destruct (assoc_in _ _ _ E) as [f' Hin]. exact (all_nodes_kid k s i kids f' x Hin).
Qed.

(** every node Walk visits is a node *)
Lemma preorder_sub : forall n, incl (preorder n) (all_nodes n).
Proof.
  induction n as [|l IHl|k s i kids IHk] using node_ind'.
  - cbn. apply incl_refl.
  - cbn [preorder all_nodes]. apply incl_cons; [left; reflexivity|]. apply incl_tl.
    induction l as [|c r IHr]; [apply incl_refl|]. inversion IHl as [|? ? Hc Hr]; subst.
    apply incl_app; [apply incl_appl; exact Hc | apply incl_appr; exact (IHr Hr)].
  - cbn [preorder all_nodes]. apply incl_cons; [left; reflexivity|]. apply incl_tl.
    induction kids as [|[f c] r IHr]; [apply incl_refl|]. inversion IHk as [|? ? Hc Hr]; subst. cbn [snd] in *.
    destruct (walk_visible k f).
    + apply incl_app; [apply incl_appl; exact Hc | apply incl_appr; exact (IHr Hr)].
    + apply incl_appr. exact (IHr Hr).
Qed.

(** inheritance of the shape *)
Lemma shape_sub n x : shape_ok n = true -> In x (all_nodes n) -> shape_ok x = true.
Proof.
  unfold shape_ok. intros H Hx. apply forallb_forall. intros y Hy.
  rewrite forallb_forall in H. apply H. exact (all_nodes_trans n x Hx y Hy).
Qed.

Lemma shape_nil : shape_ok Nil = true.
Proof. reflexivity. Qed.

Lemma shape_kid f n : shape_ok n = true -> shape_ok (kid f n) = true.
Proof.
  intro H. destruct (kid_sub f n) as [E|Hin]; [rewrite E; exact shape_nil | exact (shape_sub n _ H Hin)].
Qed.

Lemma shape_items n x : shape_ok n = true -> In x (items n) -> shape_ok x = true.
Proof.
  intros H Hx. destruct n as [|l|]; try destruct Hx. exact (shape_sub _ _ H (all_nodes_item l x Hx)).
Qed.

Lemma shape_items_opt n l x : shape_ok n = true -> items_opt n = Some l -> In x l -> shape_ok x = true.
Proof.
  intros H E Hx. destruct n as [|l'|]; try discriminate. injection E as ->. exact (shape_sub _ _ H (all_nodes_item l x Hx)).
Qed.

Lemma shape_search p n x : shape_ok n = true -> In x (search p n) -> shape_ok x = true.
Proof.
  intros H Hx. unfold search in Hx. apply filter_In in Hx. destruct Hx as [Hx _].
  exact (shape_sub n x H (preorder_sub n x Hx)).
Qed.

Lemma shape_here n : shape_ok n = true -> node_shape_ok n = true.
Proof. unfold shape_ok. intro H. rewrite forallb_forall in H. apply H. apply all_nodes_self. Qed.
