(** The typed version of ScopeRefine: along with names, every result column
    that comes from a catalog column carries that column's data type,
    nullability and array-ness (C05). *)
From Coq Require Import Lia.
From Verif Require Import Model.Compile Spec.PgScope Proofs.ColumnsFacts Proofs.TypeFlowFacts Proofs.ScopeRefine.
Open Scope string_scope.
Open Scope list_scope.

Definition col_rel (x : sccol) (c : qcol) : Prop :=
  sc_name x = qc_name c /\
  match sc_src x with
  | Some (_, _, col) => qc_dt c = data_type (col_type col) /\ qc_nn c = col_notnull col /\ qc_arr c = col_array col
  | None => True
  end.
Definition item_rel_t (it : scitem) (t : qtable) : Prop :=
  si_name it = tn_name (qt_rel t) /\ Forall2 col_rel (si_cols it) (qt_cols t).
Definition scope_rel_t (sc : scope) (tables : list qtable) : Prop := Forall2 item_rel_t sc tables.

Lemma Forall2_names a b : Forall2 col_rel a b -> map sc_name a = map qc_name b.
Proof. induction 1 as [|x c a b [Hn _] _ IH]; simpl; [reflexivity|]. rewrite Hn, IH. reflexivity. Qed.

Lemma scope_rel_forget sc tables : scope_rel_t sc tables -> scope_rel sc tables.
Proof.
  induction 1 as [|it t sc tables [Hn Hc] _ IH]; constructor; [|exact IH].
  split; [exact Hn|apply Forall2_names, Hc].
Qed.

Lemma Forall2_filter_name a b cn :
  Forall2 col_rel a b ->
  Forall2 col_rel (filter (fun x => String.eqb (sc_name x) cn) a) (filter (fun c => String.eqb (qc_name c) cn) b).
Proof.
  induction 1 as [|x c a b Hr _ IH]; simpl; [constructor|].
  destruct Hr as [Hn Ht]. rewrite Hn. destruct (String.eqb (qc_name c) cn); [constructor; [split; assumption|exact IH]|exact IH].
Qed.

Lemma Forall2_app_cr a b a' b' : Forall2 col_rel a b -> Forall2 col_rel a' b' -> Forall2 col_rel (a ++ a') (b ++ b').
Proof. induction 1; simpl; [auto|]. intros H2. constructor; auto. Qed.

Lemma scope_all_cols_t sc tables :
  scope_rel_t sc tables -> Forall2 col_rel (flat_map si_cols sc) (flat_map qt_cols tables).
Proof. induction 1 as [|it t sc tables [_ Hc] _ IH]; simpl; [constructor|]. apply Forall2_app_cr; assumption. Qed.

Lemma scope_cols_named_t sc tables cn :
  scope_rel_t sc tables -> Forall2 col_rel (cols_named sc cn) (ref_candidates tables "" cn).
Proof.
  unfold cols_named, ref_candidates. cbn [String.eqb negb andb].
  induction 1 as [|it t sc tables [_ Hc] _ IH]; simpl; [constructor|].
  apply Forall2_app_cr; [apply Forall2_filter_name, Hc|exact IH].
Qed.

Lemma scope_named_t sc tables q :
  scope_rel_t sc tables -> NoDup (map si_name sc) ->
  (filter (fun it => String.eqb (si_name it) q) sc = [] /\
   filter (fun t => String.eqb (tn_name (qt_rel t)) q) tables = []) \/
  (exists it t, filter (fun it => String.eqb (si_name it) q) sc = [it] /\
                filter (fun t => String.eqb (tn_name (qt_rel t)) q) tables = [t] /\ item_rel_t it t).
Proof.
  induction 1 as [|it t sc tables Hr Hrest IH]; intros Hn; simpl; [left; auto|].
  inversion Hn as [|? ? Hnotin Hn']; subst. destruct Hr as [Hname Hc]. rewrite <- Hname.
  destruct (String.eqb (si_name it) q) eqn:E.
  - right. exists it, t. apply String.eqb_eq in E.
    assert (Hnone : filter (fun it0 => String.eqb (si_name it0) q) sc = []).
    { clear -Hnotin E. induction sc as [|x sc IHs]; simpl; [reflexivity|].
      destruct (String.eqb (si_name x) q) eqn:E2.
      - apply String.eqb_eq in E2. exfalso. apply Hnotin. left. congruence.
      - apply IHs. intros Hc. apply Hnotin. right. exact Hc. }
    destruct (IH Hn') as [[H1 H2]|[it' [t' [H1 _]]]]; [|rewrite Hnone in H1; discriminate].
    rewrite H1, H2. repeat split; auto.
  - destruct (IH Hn') as [[H1 H2]|[it' [t' [H1 [H2 H3]]]]]; [left|right; exists it', t']; auto.
Qed.

(** rows are related like scope columns: same name (an un-aliased function call
    is named after the function on both sides, any other un-aliased expression
    has the empty name on both sides), and the source column's type attributes *)
Definition row_rel (x : sccol) (c : qcol) : Prop := col_rel x c.
Lemma col_row_rel x c : col_rel x c -> row_rel x c.
Proof. intros H. exact H. Qed.
Lemma cols_rows_rel a b : Forall2 col_rel a b -> Forall2 row_rel a b.
Proof. induction 1; constructor; auto using col_row_rel. Qed.
Lemma Forall2_app_rr a b a' b' : Forall2 row_rel a b -> Forall2 row_rel a' b' -> Forall2 row_rel (a ++ a') (b ++ b').
Proof. induction 1; simpl; [auto|]. intros H2. constructor; auto. Qed.

(** result targets: stars, column references, and expressions that are not a
    column reference, CASE, COALESCE, sub-select or cast *)
Definition opaque_kind (k : string) : bool :=
  negb (mem_str k ["ColumnRef"; "CaseExpr"; "CoalesceExpr"; "SubLink"; "TypeCast"]).
Inductive target_ok (sc : scope) (res : node) : Prop :=
| TO_simple : simple_target sc res -> target_ok sc res
| TO_opaque : is_kind "ResTarget" res = true -> opaque_kind (kind_of (kid "Val" res)) = true -> target_ok sc res.

Lemma opaque_target e tables res :
  opaque_kind (kind_of (kid "Val" res)) = true ->
  exists c, target_columns e tables res = Ok [c] /\
            qc_name c = some_or (if is_kind "FuncCall" (kid "Val" res) then str_of "Name" (kid "Func" (kid "Val" res)) else "")
                                (res_name res).
Proof.
  unfold opaque_kind, target_columns, is_kind. cbn [mem_str]. intros H.
  apply Bool.negb_true_iff in H. repeat (apply Bool.orb_false_iff in H; destruct H as [? H]).
  set (k := kind_of (kid "Val" res)) in *.
  destruct (String.eqb k "A_Expr") eqn:Ea.
  { assert (Hf : String.eqb k "FuncCall" = false).
    { apply String.eqb_eq in Ea. rewrite Ea. reflexivity. }
    rewrite Hf.
    repeat match goal with |- context [if ?b then _ else _] => destruct b end; eexists; split; reflexivity. }
  repeat match goal with Hx : String.eqb k _ = false |- _ => rewrite Hx; clear Hx end.
  destruct (String.eqb k "FuncCall").
  { destruct (resolve_func e (kid "Val" res)); eexists; (split; [reflexivity|]); reflexivity. }
  eexists; split; reflexivity.
Qed.

(** renaming a column (AS, or the star's copy) keeps the relation *)
Lemma col_rel_rename x c nm :
  col_rel x c -> col_rel (mkSC nm (sc_src x)) (mkQC nm (qc_dt c) (qc_nn c) (qc_arr c) "" (qc_table c)).
Proof. intros [_ Ht]. split; [reflexivity|exact Ht]. Qed.

Lemma star_cols_rel res (a : list sccol) (b : list qcol) sc0 :
  res_name res = None -> Forall2 col_rel a b ->
  Forall2 col_rel a (map (fun c => mkQC (some_or (qc_name c) (res_name res)) (qc_dt c) (qc_nn c) (qc_arr c) sc0 (qc_table c)) b).
Proof.
  intros Hn. induction 1 as [|x c a b [Hnm Ht] _ IH]; simpl; constructor; [|exact IH].
  rewrite Hn. split; [exact Hnm|exact Ht].
Qed.

Lemma star_columns_all_t res tables ref sc :
  string_items (kid "Fields" ref) = [] -> res_name res = None -> scope_rel_t sc tables ->
  Forall2 col_rel (flat_map si_cols sc) (star_columns res tables ref).
Proof.
  intros Hs Hn Hrel. unfold star_columns, join_list. rewrite Hs. cbn [String.concat String.eqb negb andb].
  induction Hrel as [|it t sc tables [_ Hc] _ IH]; [constructor|]. cbn [flat_map].
  apply Forall2_app_cr; [apply star_cols_rel; assumption|exact IH].
Qed.

Lemma star_columns_of_t res tables ref q it t :
  string_items (kid "Fields" ref) = [q] -> q <> "" -> res_name res = None ->
  filter (fun t => String.eqb (tn_name (qt_rel t)) q) tables = [t] -> item_rel_t it t ->
  Forall2 col_rel (si_cols it) (star_columns res tables ref).
Proof.
  intros Hs Hq Hn Hf [_ Hc]. unfold star_columns, join_list. rewrite Hs. cbn [String.concat].
  apply String.eqb_neq in Hq. rewrite Hq. cbn [negb andb].
  assert (E : flat_map (fun t0 => if negb (String.eqb q (tn_name (qt_rel t0))) then []
                                  else map (fun c => mkQC (some_or (qc_name c) (res_name res)) (qc_dt c) (qc_nn c) (qc_arr c) q (qc_table c)) (qt_cols t0)) tables
              = flat_map (fun t0 => map (fun c => mkQC (some_or (qc_name c) (res_name res)) (qc_dt c) (qc_nn c) (qc_arr c) q (qc_table c)) (qt_cols t0))
                         (filter (fun t0 => String.eqb (tn_name (qt_rel t0)) q) tables)).
  { clear. induction tables as [|t0 ts IH]; [reflexivity|]. cbn [flat_map filter].
    rewrite (String.eqb_sym q (tn_name (qt_rel t0))).
    destruct (String.eqb (tn_name (qt_rel t0)) q); cbn [negb flat_map]; rewrite IH; reflexivity. }
  rewrite E, Hf. cbn [flat_map]. rewrite app_nil_r. apply star_cols_rel; assumption.
Qed.

Lemma target_refines_s e sc tables res row :
  scope_rel_t sc tables -> NoDup (map si_name sc) ->
  Forall (fun it => NoDup (map sc_name (si_cols it))) sc ->
  simple_target sc res ->
  match row_step sc [sc] (POk row) res, target_columns e tables res with
  | POk r', Ok a => exists d, r' = row ++ d /\ Forall2 col_rel d a
  | PErr _, Err _ => True
  | _, _ => False
  end.
Proof.
  intros Hrel Hnd Hcols Hst. unfold row_step. cbn [pbind].
  destruct Hst as [Hk Hv Hstar Hf Hn | q Hk Hv Hstar Hf Hq Hn Hin | cn Hk Hv Hstar Hf | q cn Hk Hv Hstar Hf Hq];
    rewrite (target_model_form e tables res Hv);
    unfold is_kind at 1; rewrite Hv; replace (String.eqb "ColumnRef" "ColumnRef") with true by reflexivity;
    change (has_star_ref (kid "Val" res)) with (is_star (kid "Val" res)); rewrite Hstar, ?Hf.
  - eexists. split; [reflexivity|]. apply star_columns_all_t; assumption.
  - destruct (scope_named_t sc tables q Hrel Hnd) as [[H1 _]|[it [t [H1 [H2 Hit]]]]].
    + exfalso. exact (in_names_filter sc q Hin H1).
    + rewrite H1. eexists. split; [reflexivity|]. eapply star_columns_of_t; eauto.
  - unfold resolve_ref. rewrite Hf. cbn [resolve_unqualified].
    unfold output_column_refs. rewrite Hf. cbv zeta. rewrite ref_cols_as_map.
    pose proof (scope_cols_named_t sc tables cn Hrel) as Hcn.
    destruct (cols_named sc cn) as [|x [|x2 A]]; destruct (ref_candidates tables "" cn) as [|c [|c2 B]];
      try (inversion Hcn; fail); try (inversion Hcn as [|? ? ? ? ? Hc2]; inversion Hc2; fail);
      cbn [pbind map]; unfold err_at; try destruct (loc_of res =? 0)%Z; try exact I.
    all: inversion Hcn as [|? ? ? ? Hxc _]; subst; eexists; split; [reflexivity|]; constructor; [|constructor];
      destruct Hxc as [Hnm Ht]; unfold res_name; destruct (str_opt "Name" res); simpl; split; auto.
  - unfold resolve_ref. rewrite Hf. cbn [resolve_qualified].
    unfold output_column_refs. rewrite Hf. cbv zeta. rewrite ref_cols_as_map, (candidates_qualified tables q cn Hq).
    destruct (scope_named_t sc tables q Hrel Hnd) as [[H1 H2]|[it [t [H1 [H2 [_ Hc]]]]]]; rewrite H1, H2.
    + simpl. unfold err_at. destruct (loc_of res =? 0)%Z; exact I.
    + simpl. rewrite app_nil_r.
      pose proof (Forall2_filter_name _ _ cn Hc) as Hfl.
      assert (Hle : (List.length (filter (fun x => String.eqb (sc_name x) cn) (si_cols it)) <= 1)%nat).
      { apply filter_nodup_le1. rewrite Forall_forall in Hcols. apply Hcols.
        assert (Hi : In it (filter (fun it0 => String.eqb (si_name it0) q) sc)) by (rewrite H1; left; reflexivity).
        apply filter_In in Hi. tauto. }
      destruct (filter (fun x => String.eqb (sc_name x) cn) (si_cols it)) as [|x [|x2 A]];
        destruct (filter (fun c => String.eqb (qc_name c) cn) (qt_cols t)) as [|c [|c2 B]];
        try (inversion Hfl; fail); try (inversion Hfl as [|? ? ? ? ? Hc2]; inversion Hc2; fail); simpl in Hle; try lia;
        cbn [pbind map]; unfold err_at; try destruct (loc_of res =? 0)%Z; try exact I.
      all: inversion Hfl as [|? ? ? ? Hxc _]; subst; eexists; split; [reflexivity|]; constructor; [|constructor];
        destruct Hxc as [Hnm Ht]; unfold res_name; destruct (str_opt "Name" res); simpl; split; auto.
Qed.

Lemma target_refines_t e sc tables res row :
  scope_rel_t sc tables -> NoDup (map si_name sc) ->
  Forall (fun it => NoDup (map sc_name (si_cols it))) sc ->
  target_ok sc res ->
  match row_step sc [sc] (POk row) res, target_columns e tables res with
  | POk r', Ok a => exists d, r' = row ++ d /\ Forall2 row_rel d a
  | PErr _, Err _ => True
  | _, _ => False
  end.
Proof.
  intros Hrel Hnd Hcols [Hst|Hk Hop].
  - pose proof (target_refines_s e sc tables res row Hrel Hnd Hcols Hst) as H.
    destruct (row_step sc [sc] (POk row) res); destruct (target_columns e tables res); auto.
  - destruct (opaque_target e tables res Hop) as [c [Hc Hn]]. rewrite Hc.
    unfold row_step. cbn [pbind].
    assert (Hnc : is_kind "ColumnRef" (kid "Val" res) = false).
    { unfold opaque_kind in Hop. cbn [mem_str] in Hop. apply Bool.negb_true_iff in Hop.
      apply Bool.orb_false_iff in Hop. destruct Hop as [Hop _]. unfold is_kind. exact Hop. }
    assert (Hsl : is_kind "SubLink" (kid "Val" res) = false).
    { unfold opaque_kind in Hop. cbn [mem_str] in Hop. apply Bool.negb_true_iff in Hop.
      repeat (apply Bool.orb_false_iff in Hop; destruct Hop as [? Hop]). unfold is_kind. assumption. }
    rewrite Hnc, Hsl. cbn [andb]. eexists. split; [reflexivity|]. constructor; [|constructor].
    split; [|exact I]. cbn [sc_name sc_src]. rewrite Hn. unfold res_name.
    destruct (str_opt "Name" res); reflexivity.
Qed.

Lemma level_refines_t_gen e sc tables targets : forall row,
  scope_rel_t sc tables -> NoDup (map si_name sc) ->
  Forall (fun it => NoDup (map sc_name (si_cols it))) sc ->
  Forall (target_ok sc) targets ->
  match fold_left (row_step sc [sc]) targets (POk row), targets_columns e tables targets with
  | POk r', Ok cols => exists d, r' = row ++ d /\ Forall2 row_rel d cols
  | PErr _, Err _ => True
  | _, _ => False
  end.
Proof.
  induction targets as [|t ts IH]; intros row Hrel Hnd Hcols Hall; cbn [fold_left targets_columns].
  - exists []. split; [rewrite app_nil_r; reflexivity|constructor].
  - inversion Hall as [|? ? Hst Hall']; subst.
    assert (Hk : is_kind "ResTarget" t = true) by (destruct Hst as [Hs|]; [destruct Hs|]; assumption). rewrite Hk.
    pose proof (target_refines_t e sc tables t row Hrel Hnd Hcols Hst) as Ht.
    destruct (row_step sc [sc] (POk row) t) as [r1|e1]; destruct (target_columns e tables t) as [a|m|m];
      try contradiction; cbn [bind].
    + destruct Ht as [d1 [-> Hd1]].
      specialize (IH (row ++ d1) Hrel Hnd Hcols Hall').
      destruct (fold_left (row_step sc [sc]) ts (POk (row ++ d1))) as [r2|e2];
        destruct (targets_columns e tables ts) as [b|m|m]; try contradiction; cbn [bind]; [|exact I].
      destruct IH as [d2 [-> Hd2]]. exists (d1 ++ d2). split; [rewrite app_assoc; reflexivity|].
      apply Forall2_app_rr; assumption.
    + rewrite row_fold_err. exact I.
Qed.

(** one query level, with types *)
Theorem level_refines_t e sc tables targets :
  scope_rel_t sc tables -> NoDup (map si_name sc) ->
  Forall (fun it => NoDup (map sc_name (si_cols it))) sc ->
  Forall (target_ok sc) targets ->
  match row_of sc [sc] targets, targets_columns e tables targets with
  | POk row, Ok cols => Forall2 row_rel row cols
  | PErr _, Err _ => True
  | _, _ => False
  end.
Proof.
  intros Hrel Hnd Hcols Hall. unfold row_of.
  pose proof (level_refines_t_gen e sc tables targets [] Hrel Hnd Hcols Hall) as H.
  destruct (fold_left (row_step sc [sc]) targets (POk [])) as [r|e1];
    destruct (targets_columns e tables targets) as [c|m|m]; try contradiction; [|exact I].
  destruct H as [d [-> Hd]]. exact Hd.
Qed.

(** base tables, with types *)
Theorem base_relation_refines_t e rv :
  match pg_relation (env_cat e) [] rv, qc_get_table e [] (table_of_rangevar rv) with
  | POk cols, Ok t => Forall2 col_rel cols (qt_cols t)
  | PErr _, Err _ => True
  | _, _ => False
  end.
Proof.
  unfold pg_relation, qc_get_table, cat_get_table, table_of_rangevar. cbn [tn_schema tn_name assoc assoc_s].
  destruct (String.eqb (str_of "Schemaname" rv) ""); cbn [assoc_s];
    (destruct (get_schema (env_cat e) _) as [s|]; [|exact I]);
    (destruct (get_table s (str_of "Relname" rv)) as [t|]; [|exact I]);
    cbn [qt_cols]; induction (tab_cols t) as [|c l IH]; simpl; constructor; auto; split; simpl; auto.
Qed.
