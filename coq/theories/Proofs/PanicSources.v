(** where a panic of the composed compiler model can come from: with resolveCatalogRefs,
    metadata.Parse, Mutate and StripComments proved panic-free, what is left are the walkers
    over the statement's tree (nil lists the parsers never produce) and the statement slice *)
From Verif Require Import Model.Compile Proofs.NoPanicFacts Proofs.ResolveNoPanic.
Open Scope string_scope.
Open Scope list_scope.

Definition is_panic_r {A} (r : result A) : Prop := match r with Panic _ => True | _ => False end.

Theorem parse_query_panic_sources e raw src positional :
  is_panic_r (parse_query e raw src positional) ->
  walk_ok raw = false
  \/ is_panic_r (pluck src (int_of "StmtLocation" raw) (int_of "StmtLen" raw))
  \/ is_panic_r (validate_func_calls e raw)
  \/ (let raw2 := fst (fst (named_parameters (env_engine e) raw)) in
      let stmt2 := kid "Stmt" raw2 in
      is_panic_r (find_parameters stmt2)
      \/ is_panic_r (build_query_catalog (fuel_of raw) e stmt2)
      \/ (exists qc, is_panic_r (output_columns (fuel_of raw) e qc stmt2))
      \/ (exists qc, is_panic_r (expand (fuel_of raw) e qc raw2))).
Proof.
  unfold parse_query.
  destruct (walk_ok raw); cbn [negb]; [|intros _; left; reflexivity].
  destruct (param_style_ok raw); cbn [negb]; [|intros []].
  destruct (param_ref_gap raw); [intros []|].
  destruct (is_kind "RawStmt" raw); cbn [negb]; [|intros []].
  destruct (supported_stmt (kind_of (kid "Stmt" raw))); cbn [negb]; [|intros []].
  destruct (is_kind "InsertStmt" (kid "Stmt" raw) && negb (insert_stmt_ok (kid "Stmt" raw))); [intros []|].
  destruct (pluck src (int_of "StmtLocation" raw) (int_of "StmtLen" raw)) as [raw_sql|m|m]; cbn [bind]; [|intros []|intros _; right; left; exact I].
  destruct (String.eqb raw_sql ""); [intros []|].
  destruct (validate_func_calls e raw) as [u|m|m]; cbn [bind]; [|intros []|intros _; right; right; left; exact I].
  pose proof (meta_parse_no_panic (split_nl (trim_space raw_sql)) (comment_syntax_of (env_engine e))) as Hm.
  change (meta_parse_lines (split_nl (trim_space raw_sql)) (comment_syntax_of (env_engine e))) with (meta_parse (trim_space raw_sql) (comment_syntax_of (env_engine e))) in Hm.
  destruct (meta_parse (trim_space raw_sql) (comment_syntax_of (env_engine e))) as [[name cmd]|m|m]; cbn [bind]; [|intros []|destruct Hm].
  destruct (cmd_ok (kid "Stmt" raw) cmd); cbn [negb]; [|intros []].
  destruct (named_parameters (env_engine e) raw) as [[raw2 names] edits0] eqn:En. cbn [fst].
  destruct (find_parameters (kid "Stmt" raw2)) as [refs0|m|m]; cbn [bind]; [|intros []|intros _; right; right; right; left; exact I].
  match goal with |- is_panic_r (bind (resolve_catalog_refs ?E ?R ?F ?N) _) -> _ =>
    pose proof (resolve_catalog_refs_no_panic E R F N) as Hr; destruct (resolve_catalog_refs E R F N) as [params|m|m]; cbn [bind]; [|intros []|destruct Hr] end.
  destruct (build_query_catalog (fuel_of raw) e (kid "Stmt" raw2)) as [qc|m|m]; cbn [bind]; [|intros []|intros _; right; right; right; right; left; exact I].
  destruct (output_columns (fuel_of raw) e qc (kid "Stmt" raw2)) as [cols|m|m] eqn:Eo; cbn [bind]; [|intros []|intros _; right; right; right; right; right; left; exists qc; rewrite Eo; exact I].
  destruct (expand (fuel_of raw) e qc raw2) as [ex|m|m] eqn:Ee; cbn [bind]; [|intros []|intros _; right; right; right; right; right; right; exists qc; rewrite Ee; exact I].
  match goal with |- is_panic_r (bind (mutate ?A ?B) _) -> _ =>
    pose proof (mutate_no_panic A B) as Hmu; destruct (mutate A B) as [expanded|m|m]; cbn [bind]; [|intros []|destruct Hmu] end.
  pose proof (strip_comments_no_panic expanded) as Hs.
  destruct (strip_comments expanded) as [sc|m|m]; cbn [bind]; [intros []|intros []|destruct Hs].
Qed.
