(** C16, second half, over the Go generator's data layer (Model/GoGen.v, Model/GoModels.v):
    the tag options (emit_db_tags, emit_json_tags, json_tags_case_style) change the TAG of
    struct fields and nothing else - not a field name, not a field type, not which model
    struct a query returns, not a parameter, not the order of the queries. *)
From Coq Require Import List String Bool Arith ZArith Lia.
From Verif Require Import Base.Str Base.Result Model.Catalog Model.GoNames Model.GoTypes Model.GoStruct Model.Compile Model.GoGen Model.GoModels.
Import ListNotations.
Open Scope string_scope.
Open Scope list_scope.

(** two settings that differ at most in the tag options *)
Definition same_but_tags (st st' : gsettings) : Prop := gs_ovs st = gs_ovs st' /\ gs_rename st = gs_rename st'.

Definition erase_f (f : gfield) : string * string := fst f.
Definition erase_s (s : gstruct) := (gst_name s, gst_table s, map erase_f (gst_fields s)).
Definition erase_v (v : gval_out) := (vo_emit v, vo_name v, vo_typ v, option_map erase_s (vo_struct v)).
Definition erase_q (q : gq_out) := (qo_method q, qo_cmd q, qo_source q, erase_v (qo_ret q), erase_v (qo_arg q)).

Section Tags.
  Variables st st' : gsettings.
  Hypothesis Hsame : same_but_tags st st'.

  Lemma struct_name_r_same n : struct_name_r st n = struct_name_r st' n.
  Proof. unfold struct_name_r. destruct Hsame as [_ Hr]. rewrite Hr. reflexivity. Qed.

  Lemma go_type_of_same c col : go_type_of st c col = go_type_of st' c col.
  Proof. unfold go_type_of. destruct Hsame as [Ho Hr]. rewrite Ho, Hr. reflexivity. Qed.

  Lemma cts_fields_same c : forall cols names sfx fs fs',
    cts_fields st c cols names sfx = Ok fs -> cts_fields st' c cols names sfx = Ok fs' ->
    map erase_f fs = map erase_f fs'.
  Proof.
    induction cols as [|col cols IH]; intros names sfx fs fs' H H'.
    - destruct names, sfx; cbn in H, H'; injection H as <-; injection H' as <-; reflexivity.
    - destruct names as [|nm names]; [cbn in H, H'; injection H as <-; injection H' as <-; reflexivity|].
      destruct sfx as [|s sfx]; [cbn in H, H'; injection H as <-; injection H' as <-; reflexivity|].
      cbn [cts_fields] in H, H'.
      destruct (field_tag st (with_suffix nm s)) as [tg|m|m]; cbn [bind] in H; try discriminate.
      destruct (field_tag st' (with_suffix nm s)) as [tg'|m|m]; cbn [bind] in H'; try discriminate.
      destruct (cts_fields st c cols names sfx) as [r|m|m] eqn:E; cbn [bind] in H; try discriminate.
      destruct (cts_fields st' c cols names sfx) as [r'|m|m] eqn:E'; cbn [bind] in H'; try discriminate.
      injection H as <-. injection H' as <-. cbn [map erase_f fst].
      rewrite struct_name_r_same, go_type_of_same. f_equal. exact (IH _ _ _ _ E E').
  Qed.

  Lemma columns_to_struct_same c name cols s s' :
    columns_to_struct st c name cols = Ok s -> columns_to_struct st' c name cols = Ok s' -> erase_s s = erase_s s'.
  Proof.
    unfold columns_to_struct. intros H H'.
    destruct (cts_fields st c (map snd cols) _ _) as [fs|m|m] eqn:E; cbn [bind] in H; try discriminate.
    destruct (cts_fields st' c (map snd cols) _ _) as [fs'|m|m] eqn:E'; cbn [bind] in H'; try discriminate.
    injection H as <-. injection H' as <-. unfold erase_s. cbn. rewrite (cts_fields_same _ _ _ _ _ _ E E'). reflexivity.
  Qed.

  Lemma fields_same_same c tbl : forall fs fs' pos cols,
    map erase_f fs = map erase_f fs' -> fields_same st c tbl pos fs cols = fields_same st' c tbl pos fs' cols.
  Proof.
    induction fs as [|[[fn ft] tg] fs IH]; intros fs' pos cols H; destruct fs' as [|[[fn' ft'] tg'] fs']; try discriminate.
    - reflexivity.
    - cbn [map erase_f fst] in H. injection H as Hn Ht Hr. subst fn' ft'.
      destruct cols as [|col cols]; [reflexivity|]. cbn [fields_same].
      rewrite struct_name_r_same, go_type_of_same, (IH fs' (S pos) cols Hr). reflexivity.
  Qed.

  Definition structs_rel (l l' : list gstruct) : Prop := Forall2 (fun s s' => erase_s s = erase_s s') l l'.

  Lemma erase_s_fields s s' : erase_s s = erase_s s' -> map erase_f (gst_fields s) = map erase_f (gst_fields s') /\ gst_table s = gst_table s'.
  Proof. unfold erase_s. intro H. injection H as _ Ht Hf. split; assumption. Qed.

  Lemma reuse_struct_same c cols : forall l l', structs_rel l l' ->
    match reuse_struct st c l cols, reuse_struct st' c l' cols with
    | Some s, Some s' => erase_s s = erase_s s'
    | None, None => True
    | _, _ => False
    end.
  Proof.
    unfold reuse_struct. induction 1 as [|s s' l l' Hs Hl IH]; cbn [find_first]; [exact I|].
    destruct (erase_s_fields _ _ Hs) as [Hf Ht].
    rewrite (fields_same_same c (gst_table s) _ _ 0 cols Hf), Ht.
    assert (Hlen : List.length (gst_fields s) = List.length (gst_fields s')).
    { rewrite <- (map_length erase_f (gst_fields s)), Hf, map_length. reflexivity. }
    rewrite Hlen.
    destruct (Nat.eqb (List.length (gst_fields s')) (List.length cols) && fields_same st' c (gst_table s') 0 (gst_fields s') cols);
      [exact Hs | exact IH].
  Qed.

  Lemma build_ret_same c l l' name cols v v' : structs_rel l l' ->
    build_ret st c l name cols = Ok v -> build_ret st' c l' name cols = Ok v' -> erase_v v = erase_v v'.
  Proof.
    intros Hl H H'. unfold build_ret in H, H'. destruct cols as [|c0 [|c1 cols]].
    - injection H as <-. injection H' as <-. reflexivity.
    - injection H as <-. injection H' as <-. unfold erase_v. cbn. rewrite go_type_of_same. reflexivity.
    - pose proof (reuse_struct_same c (c0 :: c1 :: cols) l l' Hl) as R.
      destruct (reuse_struct st c l (c0 :: c1 :: cols)) as [s|], (reuse_struct st' c l' (c0 :: c1 :: cols)) as [s'|]; try contradiction.
      + injection H as <-. injection H' as <-. unfold erase_v. cbn. rewrite R. reflexivity.
      + destruct (columns_to_struct st c _ _) as [s|m|m] eqn:E; cbn [bind] in H; try discriminate.
        destruct (columns_to_struct st' c _ _) as [s'|m|m] eqn:E'; cbn [bind] in H'; try discriminate.
        injection H as <-. injection H' as <-. unfold erase_v. cbn. rewrite (columns_to_struct_same _ _ _ _ _ E E'). reflexivity.
  Qed.

  Lemma build_arg_same c name ps v v' :
    build_arg st c name ps = Ok v -> build_arg st' c name ps = Ok v' -> erase_v v = erase_v v'.
  Proof.
    intros H H'. unfold build_arg in H, H'. destruct ps as [|p0 [|p1 ps]].
    - injection H as <-. injection H' as <-. reflexivity.
    - injection H as <-. injection H' as <-. unfold erase_v. cbn. rewrite go_type_of_same. reflexivity.
    - destruct (columns_to_struct st c _ _) as [s|m|m] eqn:E; cbn [bind] in H; try discriminate.
      destruct (columns_to_struct st' c _ _) as [s'|m|m] eqn:E'; cbn [bind] in H'; try discriminate.
      injection H as <-. injection H' as <-. unfold erase_v. cbn. rewrite (columns_to_struct_same _ _ _ _ _ E E'). reflexivity.
  Qed.

  Lemma build_all_same c l l' : structs_rel l l' -> forall qs r r',
    build_all st c l qs = Ok r -> build_all st' c l' qs = Ok r' -> map erase_q r = map erase_q r'.
  Proof.
    intros Hl. induction qs as [|[q src] qs IH]; intros r r' H H'; cbn [build_all] in H, H'.
    - injection H as <-. injection H' as <-. reflexivity.
    - destruct (String.eqb (Compile.q_name q) "" || String.eqb (q_cmd q) ""); [exact (IH _ _ H H')|].
      unfold build_query in H, H'.
      destruct (build_arg st c (Compile.q_name q) (q_params q)) as [a|m|m] eqn:Ea; cbn [bind] in H; try discriminate.
      destruct (build_arg st' c (Compile.q_name q) (q_params q)) as [a'|m|m] eqn:Ea'; cbn [bind] in H'; try discriminate.
      destruct (build_ret st c l (Compile.q_name q) (q_columns q)) as [v|m|m] eqn:Er; cbn [bind] in H; try discriminate.
      destruct (build_ret st' c l' (Compile.q_name q) (q_columns q)) as [v'|m|m] eqn:Er'; cbn [bind] in H'; try discriminate.
      destruct (build_all st c l qs) as [rest|m|m] eqn:E; cbn [bind] in H; try discriminate.
      destruct (build_all st' c l' qs) as [rest'|m|m] eqn:E'; cbn [bind] in H'; try discriminate.
      injection H as <-. injection H' as <-. cbn [map]. f_equal; [|exact (IH _ _ eq_refl eq_refl)].
      unfold erase_q. cbn. rewrite (build_arg_same _ _ _ _ _ Ea Ea'), (build_ret_same _ _ _ _ _ _ _ Hl Er Er'). reflexivity.
  Qed.
End Tags.

Lemma ins_q_erase x x' : qo_method x = qo_method x' -> forall l l',
  map erase_q l = map erase_q l' -> erase_q x = erase_q x' -> map erase_q (ins_q x l) = map erase_q (ins_q x' l').
Proof.
  intros Hm. induction l as [|y l IH]; intros l' H Hx; destruct l' as [|y' l']; try discriminate.
  - cbn. rewrite Hx. reflexivity.
  - cbn [map] in H.
    assert (Hy : erase_q y = erase_q y') by congruence.
    assert (Hl : map erase_q l = map erase_q l') by congruence.
    cbn [ins_q].
    assert (Hmy : qo_method y = qo_method y') by (unfold erase_q in Hy; congruence).
    rewrite Hm, Hmy. destruct (String.leb (qo_method x') (qo_method y')); cbn [map].
    + rewrite Hx, Hy, Hl. reflexivity.
    + rewrite Hy. f_equal. exact (IH l' Hl Hx).
Qed.

Lemma sort_q_erase : forall l l', map erase_q l = map erase_q l' ->
  map erase_q (fold_right ins_q [] l) = map erase_q (fold_right ins_q [] l').
Proof.
  induction l as [|x l IH]; intros l' H; destruct l' as [|x' l']; try discriminate; [reflexivity|].
  cbn [map] in H.
  assert (Hx : erase_q x = erase_q x') by congruence.
  assert (Hl : map erase_q l = map erase_q l') by congruence.
  cbn [fold_right].
  apply ins_q_erase; [unfold erase_q in Hx; congruence | exact (IH l' Hl) | exact Hx].
Qed.

(** the queries handed to the templates are the same up to struct tags *)
Theorem tags_only_queries st st' c l l' qs r r' :
  same_but_tags st st' -> structs_rel l l' ->
  build_queries st c l qs = Ok r -> build_queries st' c l' qs = Ok r' ->
  map erase_q r = map erase_q r'.
Proof.
  intros Hs Hl H H'. unfold build_queries in H, H'.
  destruct (build_all st c l qs) as [a|m|m] eqn:E; cbn [bind] in H; try discriminate.
  destruct (build_all st' c l' qs) as [a'|m|m] eqn:E'; cbn [bind] in H'; try discriminate.
  injection H as <-. injection H' as <-. apply sort_q_erase. exact (build_all_same st st' Hs c l l' Hl qs a a' E E').
Qed.

(** ... and so are the model structs *)
Lemma model_fields_tags st st' c s t : same_but_tags st st' -> forall cols fs fs',
  model_fields st c s t cols = Ok fs -> model_fields st' c s t cols = Ok fs' -> map erase_f fs = map erase_f fs'.
Proof.
  intros Hs. induction cols as [|col cols IH]; intros fs fs' H H'; cbn [model_fields] in H, H'.
  - injection H as <-. injection H' as <-. reflexivity.
  - destruct (field_tag st (col_name col)) as [tg|m|m]; cbn [bind] in H; try discriminate.
    destruct (field_tag st' (col_name col)) as [tg'|m|m]; cbn [bind] in H'; try discriminate.
    destruct (model_fields st c s t cols) as [r|m|m] eqn:E; cbn [bind] in H; try discriminate.
    destruct (model_fields st' c s t cols) as [r'|m|m] eqn:E'; cbn [bind] in H'; try discriminate.
    injection H as <-. injection H' as <-. cbn [map erase_f fst].
    rewrite (struct_name_r_same st st' Hs), (go_type_of_same st st' Hs). f_equal. exact (IH _ _ eq_refl eq_refl).
Qed.
