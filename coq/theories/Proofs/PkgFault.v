(** from a failing statement to the exit status *)
From Verif Require Import Model.Package Proofs.DriverFacts Proofs.CompileFilesFacts.
Open Scope string_scope.
Open Scope list_scope.

Theorem failing_statement_writes_nothing before after p name src stmts m raw fs1 fs2 :
  pi_files p = fs1 ++ (name, src, stmts) :: fs2 ->
  parse_query (pi_env p) raw src (pi_positional p) = Err m -> In raw stmts ->
  let r := generate true (map pkg_outcome_of (before ++ p :: after)) in
  rr_output r = None /\ rr_status r <> 0 /\ 0 < rr_diags r /\ files_written true r = [].
Proof.
  intros Hf Hq Hin r.
  assert (Ho : pkg_outcome_of p = ParseFail).
  { unfold pkg_outcome_of. rewrite Hf, (failing_statement_fails_package _ _ name src stmts m raw fs1 fs2 Hq Hin). reflexivity. }
  assert (He : existsb is_failure (map pkg_outcome_of (before ++ p :: after)) = true).
  { rewrite map_app, existsb_app. cbn [map existsb]. rewrite Ho. cbn. apply Bool.orb_true_r. }
  destruct (all_or_nothing true (map pkg_outcome_of (before ++ p :: after))) as [H1 _].
  destruct (H1 (or_intror He)) as [A [B C]]. fold r in A, B, C.
  repeat split; try assumption. unfold files_written. rewrite A. reflexivity.
Qed.
