(** INSERT INTO <base table> (...) VALUES/SELECT ... RETURNING <targets>:
    reference semantics against sqlc's outputColumns. *)
From Coq Require Import Lia.
From Verif Require Import Model.Compile Spec.PgScope Proofs.ColumnsFacts Proofs.TypeFlowFacts Proofs.ScopeRefine Proofs.ScopeRefineT
  Proofs.CompileFacts2 Proofs.SelectRefine.
Open Scope string_scope.
Open Scope list_scope.

Section SimpleInsert.
  Variables (e : env) (strict deep : bool) (stmt : node) (targets : list node) (f : nat).
  Hypothesis Hkind : kind_of stmt = "InsertStmt".
  Hypothesis Hwith : kid "WithClause" stmt = Nil.
  Hypothesis Hret : kid "ReturningList" stmt = NList targets.
  Hypothesis Hrel : kind_of (kid "Relation" stmt) = "RangeVar".
  Let rv := kid "Relation" stmt.
  Let ins_cols := map (fun t => Node "ColumnRef" [] [] [("Fields", NList [Node "String" [("Str", str_of "Name" t)] [] []])])
                      (kid_items "Cols" stmt).
  (* the listed columns are columns of the relation *)
  Hypothesis Hcols_ok : forall sc, spec_scope (env_cat e) [rv] = POk sc -> check_refs [sc] ins_cols = POk tt.
  (* the source (VALUES or SELECT) is fine by the reference semantics *)
  Hypothesis Hsrc_ok : is_kind "SelectStmt" (kid "SelectStmt" stmt) = true ->
    exists r0, describe (env_cat e) strict deep (S f) [] [] (kid "SelectStmt" stmt) = POk r0.
  Hypothesis Hsub : level_subselects (NList ([] ++ map (kid "Val") targets ++ [])) = [].
  Hypothesis Hvals : (if deep then level_refs (NList (map (kid "Val") targets)) else direct_refs targets) = refs_of targets.
  Hypothesis Hshape : forall sc, spec_scope (env_cat e) [rv] = POk sc ->
    Forall (fun it => NoDup (map sc_name (si_cols it))) sc /\ Forall (target_ok sc) targets.

  Theorem simple_insert_refines_t g :
    match describe (env_cat e) strict deep (S (S f)) [] [] stmt, output_columns (S g) e [] stmt with
    | POk row, Ok cols => Forall2 row_rel row cols
    | PErr _, Err _ => True
    | _, _ => False
    end.
  Proof.
    remember (S f) as g1 eqn:Eg1.
    cbn [describe]. rewrite Hwith. cbn [kid_items kid items fold_left pbind].
    rewrite Hkind.
    replace (String.eqb "InsertStmt" "SelectStmt") with false by reflexivity.
    replace (String.eqb "InsertStmt" "InsertStmt") with true by reflexivity.
    cbn [andb]. cbv iota. cbn [fold_left].
    match goal with |- context [?F g1 (kid "Relation" stmt)] => set (FI := F) end.
    assert (Hfi : FI g1 (kid "Relation" stmt) = spec_scope (env_cat e) [rv]).
    { rewrite Eg1. unfold FI. rewrite Hrel. cbn [spec_scope]. unfold rv.
      destruct (pg_relation (env_cat e) [] (kid "Relation" stmt)); reflexivity. }
    rewrite Hfi. cbn [pbind].
    (* sqlc's side *)
    rewrite output_columns_unfold.
    assert (Hsrc : source_tables g e [] stmt = model_scope e [rv]).
    { unfold source_tables. rewrite Hkind.
      replace (String.eqb "InsertStmt" "DeleteStmt") with false by reflexivity.
      replace (String.eqb "InsertStmt" "InsertStmt") with true by reflexivity.
      cbn [orb bind model_scope]. unfold is_kind, rv. rewrite !Hrel.
      replace (String.eqb "RangeVar" "RangeSubselect") with false by reflexivity.
      replace (String.eqb "RangeVar" "RangeVar") with true by reflexivity.
      destruct (qc_get_table e [] (table_of_rangevar (kid "Relation" stmt))); reflexivity. }
    rewrite Hsrc.
    pose proof (scopes_refine e [rv]) as Hsc.
    destruct (spec_scope (env_cat e) [rv]) as [sc|e1] eqn:Esc; destruct (model_scope e [rv]) as [tables|m|m];
      try contradiction; cbn [pbind bind app]; [|exact I].
    destruct Hsc as [Hrel' Hnames].
    assert (Hnd : NoDup (map si_name sc)) by (rewrite Hnames; repeat constructor; intros []).
    rewrite (first_dup_nodup (map si_name sc) Hnd).
    fold ins_cols. rewrite (Hcols_ok sc eq_refl). cbn [pbind].
    assert (Hsrcdesc : (if is_kind "SelectStmt" (kid "SelectStmt" stmt)
                        then pdo _ <- describe (env_cat e) strict deep g1 [] [] (kid "SelectStmt" stmt); POk tt
                        else POk tt) = POk tt).
    { destruct (is_kind "SelectStmt" (kid "SelectStmt" stmt)) eqn:Ek; [|reflexivity].
      destruct (Hsrc_ok eq_refl) as [r0 Hr0]. rewrite Hr0. reflexivity. }
    rewrite Hsrcdesc. cbn [pbind].
    replace (if strict then level_refs (NList []) else paired_refs (NList [])) with (@nil node) by (destruct strict; reflexivity).
    unfold check_refs at 1. cbn [fold_left pbind].
    unfold kid_items. rewrite !Hret. cbn [items]. rewrite Hvals.
    replace (String.eqb "InsertStmt" "UpdateStmt") with false by reflexivity.
    cbn [app] in Hsub |- *. rewrite Hsub. cbn [fold_left pbind].
    unfold stmt_targets. rewrite Hkind.
    replace (String.eqb "InsertStmt" "DeleteStmt") with false by reflexivity.
    replace (String.eqb "InsertStmt" "InsertStmt") with true by reflexivity.
    replace (String.eqb "InsertStmt" "SelectStmt") with false by reflexivity.
    cbn [orb andb]. rewrite Hret. cbn [items items_opt].
    destruct (Hshape sc eq_refl) as [Hcols Hall].
    pose proof (level_refines_t e sc tables targets Hrel' Hnd Hcols Hall) as Hlev.
    pose proof (check_refs_row sc targets Hall) as Hchk.
    destruct (check_refs [sc] (refs_of targets)) as [[]|e2]; cbn [pbind].
    - unfold kid_items. rewrite ?Hret. cbn [items]. exact Hlev.
    - destruct Hchk as [e0 He0]. rewrite He0 in Hlev.
      destruct (targets_columns e tables targets); try contradiction; exact I.
  Qed.
End SimpleInsert.
