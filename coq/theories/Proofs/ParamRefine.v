(** C06: the column a parameter is compared with is found by sqlc exactly where
    the reference semantics finds it (unqualified reference, base tables). *)
From Coq Require Import Lia.
From Verif Require Import Model.Compile Spec.PgScope Proofs.ColumnsFacts Proofs.ParamTypeFacts Proofs.SelectRefine.
Open Scope string_scope.
Open Scope list_scope.

(** the catalog column behind a reference-scope entry *)
Definition src_col (x : sccol) : option column :=
  match sc_src x with Some (_, _, col) => Some col | None => None end.

Lemma find_first_rev_unique (l : list column) key :
  NoDup (map col_name l) ->
  match filter (col_is key) l with
  | [] => find_first (col_is key) (rev l) = None
  | [c] => find_first (col_is key) (rev l) = Some c
  | _ => False
  end.
Proof.
  induction l as [|x l IH]; intros Hn; simpl; [reflexivity|].
  inversion Hn as [|? ? Hnotin Hn']; subst. specialize (IH Hn').
  assert (Hff : forall a b, find_first (col_is key) (a ++ b) =
                            match find_first (col_is key) a with Some y => Some y | None => find_first (col_is key) b end).
  { induction a as [|y a IHa]; intros b; simpl; [reflexivity|]. destruct (col_is key y); [reflexivity|apply IHa]. }
  rewrite Hff. simpl.
  destruct (col_is key x) eqn:Ex.
  - assert (Hnone : filter (col_is key) l = []).
    { unfold col_is in Ex. apply String.eqb_eq in Ex. clear -Hnotin Ex.
      induction l as [|y l IHl]; simpl; [reflexivity|]. unfold col_is at 1.
      destruct (String.eqb (col_name y) key) eqn:E2.
      - apply String.eqb_eq in E2. exfalso. apply Hnotin. left. congruence.
      - apply IHl. intros Hc. apply Hnotin. right. exact Hc. }
    rewrite Hnone in *. rewrite IH. reflexivity.
  - destruct (filter (col_is key) l) as [|c [|c2 cs]]; try contradiction; rewrite IH; reflexivity.
Qed.

Lemma filter_mk key (mk : column -> sccol) l :
  (forall col, sc_name (mk col) = col_name col) ->
  filter (fun x => String.eqb (sc_name x) key) (map mk l) = map mk (filter (col_is key) l).
Proof.
  intros Hmk. induction l as [|x l IH]; simpl; [reflexivity|]. rewrite Hmk. unfold col_is at 1.
  destruct (String.eqb (col_name x) key); simpl; rewrite IH; reflexivity.
Qed.

Section Compare.
  Variables (e : env) (rvs : list node).
  Let c := env_cat e.
  Let tables := map table_of_rangevar rvs.
  (* every table has pairwise distinct column names (C08's catalogs do) *)
  Hypothesis Hcols : forall t tb, cat_get_table c t = Some tb -> NoDup (map col_name (tab_cols tb)).

  (** per range var: the columns called key, on both sides *)
  Lemma one_table rv key cols :
    In rv rvs -> pg_relation c [] rv = POk cols ->
    (match typemap_lookup c tables (tn_schema (table_of_rangevar rv)) (tn_name (table_of_rangevar rv)) key with
     | Some col => [col] | None => [] end)
    = flat_map (fun x => match src_col x with Some col => [col] | None => [] end)
               (filter (fun x => String.eqb (sc_name x) key) cols).
  Proof.
    intros Hin Hp. unfold typemap_lookup.
    assert (Hex : existsb (fun t => String.eqb (tn_schema t) (tn_schema (table_of_rangevar rv))
                                   && String.eqb (tn_name t) (tn_name (table_of_rangevar rv))
                                   && match cat_get_table c t with Some _ => true | None => false end) tables = true
                  /\ exists tb, cat_get_table c (table_of_rangevar rv) = Some tb
                     /\ cols = map (fun col => mkSC (col_name col)
                                  (Some (if String.eqb (str_of "Schemaname" rv) "" then cat_default c else str_of "Schemaname" rv,
                                         str_of "Relname" rv, col))) (tab_cols tb)).
    { unfold pg_relation in Hp. cbn [assoc_s] in Hp.
      assert (Hns : (if String.eqb (str_of "Schemaname" rv) "" then None else None) = @None (list sccol)) by (destruct (String.eqb _ ""); reflexivity).
      rewrite Hns in Hp. unfold cat_get_table, table_of_rangevar. cbn [tn_schema tn_name].
      destruct (get_schema c (if String.eqb (str_of "Schemaname" rv) "" then cat_default c else str_of "Schemaname" rv)) as [s|] eqn:Es; [|discriminate].
      destruct (get_table s (str_of "Relname" rv)) as [tb|] eqn:Et; [|discriminate].
      inversion Hp; subst. split; [|exists tb; split; reflexivity].
      apply existsb_exists. exists (table_of_rangevar rv). split; [apply in_map, Hin|].
      unfold table_of_rangevar. cbn [tn_schema tn_name]. rewrite !String.eqb_refl. cbn [andb].
      unfold cat_get_table. cbn [tn_schema tn_name]. rewrite Es, Et. reflexivity. }
    destruct Hex as [Hex [tb [Htb Hcl]]]. rewrite Hex.
    assert (Hsame : cat_get_table c (mkTN "" (tn_schema (table_of_rangevar rv)) (tn_name (table_of_rangevar rv))) = Some tb).
    { unfold cat_get_table in *. exact Htb. }
    rewrite Hsame. subst cols.
    pose proof (find_first_rev_unique (tab_cols tb) key (Hcols _ _ Htb)) as Hu.
    rewrite filter_mk by (intros col; reflexivity).
    destruct (filter (col_is key) (tab_cols tb)) as [|c1 [|c2 cs]]; try contradiction; rewrite Hu; reflexivity.
  Qed.

  (** all range vars: sqlc's hits are the reference scope's columns called key, in order *)
  Lemma hits_are_scope_cols key : forall l sc,
    (forall rv, In rv l -> In rv rvs) ->
    spec_scope c l = POk sc ->
    map snd (hits_of c tables (map table_of_rangevar l) key)
    = flat_map (fun x => match src_col x with Some col => [col] | None => [] end) (cols_named sc key).
  Proof.
    induction l as [|rv l IH]; intros sc Hsub Hs; cbn [spec_scope] in Hs.
    - inversion Hs; subst. reflexivity.
    - destruct (pg_relation c [] rv) as [cols|e1] eqn:Ep; cbn [pbind] in Hs; [|discriminate].
      destruct (spec_scope c l) as [rest|e2] eqn:Er; cbn [pbind] in Hs; [|discriminate].
      inversion Hs; subst. unfold hits_of, cols_named in *. cbn [map flat_map si_cols].
      rewrite map_app, flat_map_app. f_equal.
      + pose proof (one_table rv key cols (Hsub rv (or_introl eq_refl)) Ep) as H1.
        destruct (typemap_lookup c tables (tn_schema (table_of_rangevar rv)) (tn_name (table_of_rangevar rv)) key); simpl; rewrite <- H1; reflexivity.
      + apply IH; [intros x Hx; apply Hsub; right; exact Hx|reflexivity].
  Qed.

  Lemma scope_cols_have_src : forall l sc,
    spec_scope c l = POk sc -> Forall (fun it => Forall (fun x => exists col, src_col x = Some col) (si_cols it)) sc.
  Proof.
    induction l as [|rv l IH]; intros sc Hs; cbn [spec_scope] in Hs; [inversion Hs; constructor|].
    destruct (pg_relation c [] rv) as [cols|e1] eqn:Ep; cbn [pbind] in Hs; [|discriminate].
    destruct (spec_scope c l) as [rest|e2] eqn:Er; cbn [pbind] in Hs; [|discriminate].
    inversion Hs; subst. constructor; [|apply IH; reflexivity]. cbn [si_cols].
    unfold pg_relation in Ep. cbn [assoc_s] in Ep.
    assert (Hns : (if String.eqb (str_of "Schemaname" rv) "" then None else None) = @None (list sccol)) by (destruct (String.eqb _ ""); reflexivity).
    rewrite Hns in Ep.
    destruct (get_schema c _) as [s|]; [|discriminate]. destruct (get_table s _) as [tb|]; [|discriminate].
    inversion Ep; subst. rewrite Forall_forall. intros x Hx. apply in_map_iff in Hx. destruct Hx as [col [<- _]].
    exists col. reflexivity.
  Qed.

  (** col OP $n with an unqualified column, over base tables: sqlc gives the
      parameter the type of exactly the column the reference semantics resolves
      the name to - and rejects exactly when that resolution fails *)
  Theorem compare_refines sc bare aliases dt names r n lref rest key :
    spec_scope c rvs = POk sc ->
    pr_parent r = PNode n -> kind_of n = "A_Expr" ->
    search (is_kind "ColumnRef") (kid "Lexpr" n) = lref :: rest ->
    string_items (kid "Fields" lref) = [key] ->
    match resolve_unqualified [sc] key with
    | POk x => exists t col, src_col x = Some col /\
                 resolve_one e tables bare aliases dt names r = Ok [param_of_column names (ref_number r) key t col]
    | PErr _ => exists m, resolve_one e tables bare aliases dt names r = Err m
    end.
  Proof.
    intros Hs Hp Hk Hl Hf.
    pose proof (hits_are_scope_cols key rvs sc (fun rv H => H) Hs) as Hm. fold tables in Hm.
    pose proof (scope_cols_have_src rvs sc Hs) as Hsrc.
    assert (Hall : Forall (fun x => exists col, src_col x = Some col) (cols_named sc key)).
    { unfold cols_named. rewrite Forall_forall. intros x Hx. apply in_flat_map in Hx. destruct Hx as [it [Hit Hx]].
      apply filter_In in Hx. destruct Hx as [Hx _]. rewrite Forall_forall in Hsrc. specialize (Hsrc it Hit).
      rewrite Forall_forall in Hsrc. apply Hsrc, Hx. }
    cbn [resolve_unqualified].
    destruct (cols_named sc key) as [|x [|x2 A]] eqn:Ec.
    - destruct (hits_of c tables tables key) as [|h hs] eqn:Eh; [|discriminate].
      rewrite (compare_unqualified_missing e tables bare aliases dt names r n lref rest key Hp Hk Hl Hf Eh).
      unfold err_at. destruct (loc_of lref =? 0)%Z; eauto.
    - inversion Hall as [|? ? [col Hcol] _]; subst. cbn [flat_map] in Hm. rewrite Hcol in Hm. cbn [app] in Hm.
      destruct (hits_of c tables tables key) as [|[t col'] [|h2 hs]] eqn:Eh; try discriminate.
      injection Hm as Hm. subst col'. exists t, col. split; [exact Hcol|].
      exact (compare_unqualified e tables bare aliases dt names r n lref rest key t col Hp Hk Hl Hf Eh).
    - inversion Hall as [|? ? [col Hcol] Hall']; subst. inversion Hall' as [|? ? [col2 Hcol2] _]; subst.
      cbn [flat_map] in Hm. rewrite Hcol, Hcol2 in Hm. cbn [app] in Hm.
      destruct (hits_of c tables tables key) as [|h1 [|h2 hs]] eqn:Eh; try discriminate.
      rewrite (compare_unqualified_ambiguous e tables bare aliases dt names r n lref rest key h1 h2 hs Hp Hk Hl Hf Eh).
      unfold err_at. destruct (loc_of lref =? 0)%Z; eauto.
  Qed.
End Compare.
