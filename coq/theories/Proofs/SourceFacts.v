(** source.Mutate: the segment lemma behind property C04. *)
From Coq Require Import Sorting.Permutation Sorting.Sorted.
From Verif Require Import Model.Source Proofs.StrFacts.
Open Scope string_scope.
Open Scope list_scope.

Lemma lengthN_length s : lengthN s = N.of_nat (String.length s).
Proof. induction s as [|c s IH]; simpl; [reflexivity|]. rewrite IH. lia. Qed.

Lemma zlen_length s : zlen s = Z.of_nat (String.length s).
Proof. unfold zlen. rewrite lengthN_length. lia. Qed.

Lemma zlen_app a b : zlen (a +++ b) = (zlen a + zlen b)%Z.
Proof. rewrite !zlen_length, length_append. lia. Qed.

Lemma take_app a b : take (String.length a) (a +++ b) = a.
Proof. induction a as [|c a IH]; simpl; [destruct b; reflexivity|]. rewrite IH. reflexivity. Qed.

Lemma drop_app a b : drop (String.length a) (a +++ b) = b.
Proof. induction a as [|c a IH]; simpl; [reflexivity|exact IH]. Qed.

Lemma eqb_empty_false s : s <> "" -> String.eqb s "" = false.
Proof. intros H. destruct (String.eqb_spec s ""); congruence. Qed.

Lemma zlen_nonneg s : (0 <= zlen s)%Z.
Proof. rewrite zlen_length. lia. Qed.

Lemma nonempty_length s : s <> "" -> (0 < zlen s)%Z.
Proof. intros H. destruct s; [congruence|]. rewrite zlen_length. simpl. lia. Qed.

(** one edit whose Old text is what stands at its location *)
Lemma apply_edit_segment p o n t :
  o <> "" -> n <> "" ->
  apply_edit (p +++ o +++ t) (mkEdit (zlen p) o n) = Ok (p +++ n +++ t).
Proof.
  intros Ho Hn. unfold apply_edit; simpl.
  pose proof (nonempty_length o Ho) as Hlo.
  pose proof (zlen_nonneg p) as Hp. pose proof (zlen_nonneg t) as Ht.
  rewrite !zlen_app.
  destruct (Z.ltb_spec (zlen p + (zlen o + zlen t)) (zlen p)) as [H|_]; [lia|].
  destruct (Z.ltb_spec (zlen p) 0) as [H|_]; [lia|]. cbn [orb].
  rewrite (eqb_empty_false n Hn), (eqb_empty_false o Ho).
  destruct (Z.ltb_spec (zlen p + zlen o - 1) (zlen p + (zlen o + zlen t))) as [_|H]; [|lia].
  f_equal.
  replace (Z.to_nat (zlen p)) with (String.length p) by (rewrite zlen_length; lia).
  rewrite take_app.
  replace (Z.to_nat (zlen p + zlen o - 1 + 1)) with (String.length (p +++ o))
    by (rewrite length_append, !zlen_length; lia).
  replace (p +++ o +++ t) with ((p +++ o) +++ t) by (apply append_assoc).
  rewrite drop_app. reflexivity.
Qed.

(** segments: (unchanged prefix, replaced text, replacement) *)
Definition seg := (string * string * string)%type.
Fixpoint text_of (segs : list seg) (tail : string) : string :=
  match segs with [] => tail | (p, o, _) :: r => p +++ o +++ text_of r tail end.
Fixpoint result_of (segs : list seg) (tail : string) : string :=
  match segs with [] => tail | (p, _, n) :: r => p +++ n +++ result_of r tail end.
Fixpoint edits_of (base : Z) (segs : list seg) : list edit :=
  match segs with
  | [] => []
  | (p, o, n) :: r => mkEdit (base + zlen p) o n :: edits_of (base + zlen p + zlen o) r
  end.
Definition seg_ok (s : seg) : Prop := let '(_, o, n) := s in o <> "" /\ n <> "".

Definition step (acc : result string) (e : edit) : result string := do s <- acc; apply_edit s e.

Lemma fold_step_app l1 l2 acc : fold_left step (l1 ++ l2) acc = fold_left step l2 (fold_left step l1 acc).
Proof. apply fold_left_app. Qed.

(** applying the edits from the last to the first *)
Lemma apply_descending segs : forall pre tail,
  Forall seg_ok segs ->
  fold_left step (rev (edits_of (zlen pre) segs)) (Ok (pre +++ text_of segs tail))
  = Ok (pre +++ result_of segs tail).
Proof.
  induction segs as [|[[p o] n] segs IH]; intros pre tail F; simpl; [reflexivity|].
  inversion F as [|? ? Hok F']; subst. simpl in Hok. destruct Hok as [Ho Hn].
  rewrite fold_step_app. simpl.
  specialize (IH (pre +++ p +++ o) tail F').
  rewrite !zlen_app in IH. rewrite Z.add_assoc in IH.
  rewrite !append_assoc in IH. rewrite IH. simpl.
  replace (pre +++ p +++ o +++ result_of segs tail) with ((pre +++ p) +++ o +++ result_of segs tail)
    by (rewrite !append_assoc; reflexivity).
  rewrite <- zlen_app. rewrite apply_edit_segment by assumption.
  rewrite !append_assoc. reflexivity.
Qed.

(** ** the sort: descending by location, determined by the locations *)
Definition loc_ge (a b : edit) : Prop := (e_loc b <= e_loc a)%Z.

Lemma insert_edit_perm e l : Permutation (e :: l) (insert_edit e l).
Proof.
  induction l as [|x l IH]; simpl; [apply Permutation_refl|].
  destruct (e_loc x <=? e_loc e)%Z; [apply Permutation_refl|].
  eapply Permutation_trans; [apply perm_swap|]. apply perm_skip, IH.
Qed.
Lemma sort_edits_perm l : Permutation l (sort_edits l).
Proof.
  induction l as [|x l IH]; simpl; [constructor|].
  eapply Permutation_trans; [apply perm_skip, IH|]. apply insert_edit_perm.
Qed.
Lemma insert_edit_sorted e l : Sorted loc_ge l -> Sorted loc_ge (insert_edit e l).
Proof.
  induction l as [|x l IH]; simpl; intros S; [repeat constructor|].
  destruct (Z.leb_spec (e_loc x) (e_loc e)) as [Hle|Hgt].
  - constructor; [exact S|]. constructor. exact Hle.
  - inversion S as [|? ? S' Hd]; subst. constructor; [apply IH, S'|].
    destruct l as [|y l]; simpl.
    + constructor. unfold loc_ge. lia.
    + destruct (Z.leb_spec (e_loc y) (e_loc e)); constructor; unfold loc_ge; try lia.
      inversion Hd; subst. assumption.
Qed.
Lemma sort_edits_sorted l : Sorted loc_ge (sort_edits l).
Proof. induction l as [|x l IH]; simpl; [constructor|]. apply insert_edit_sorted, IH. Qed.

Definition loc_gt (a b : edit) : Prop := (e_loc b < e_loc a)%Z.

Lemma strictly_desc_unique (l1 l2 : list edit) :
  StronglySorted loc_gt l1 -> StronglySorted loc_gt l2 -> Permutation l1 l2 -> l1 = l2.
Proof.
  revert l2. induction l1 as [|x l1 IH]; intros l2 S1 S2 P.
  - apply Permutation_nil in P. congruence.
  - destruct l2 as [|y l2]; [apply Permutation_sym, Permutation_nil in P; discriminate|].
    inversion S1 as [|? ? S1' F1]; subst. inversion S2 as [|? ? S2' F2]; subst.
    rewrite Forall_forall in F1, F2.
    assert (x = y) as ->.
    { assert (Hx : In x (y :: l2)) by (eapply Permutation_in; [exact P|left; reflexivity]).
      assert (Hy : In y (x :: l1)) by (eapply Permutation_in; [apply Permutation_sym, P|left; reflexivity]).
      destruct Hx as [->|Hx]; [reflexivity|]. destruct Hy as [->|Hy]; [reflexivity|].
      specialize (F1 y Hy). specialize (F2 x Hx). unfold loc_gt in *. lia. }
    f_equal. apply IH; auto. eapply Permutation_cons_inv; exact P.
Qed.

Lemma sorted_ge_distinct_gt l :
  Sorted loc_ge l -> NoDup (map e_loc l) -> StronglySorted loc_gt l.
Proof.
  intros S N. apply Sorted_StronglySorted in S; [|intros a b c; unfold loc_ge; lia].
  induction S as [|a l S IH F]; constructor.
  - apply IH. inversion N; assumption.
  - inversion N as [|? ? Hnotin _]; subst. rewrite Forall_forall in *. intros y Hy.
    specialize (F y Hy). unfold loc_ge, loc_gt in *.
    assert (e_loc a <> e_loc y) by (intros E; apply Hnotin; rewrite E; apply in_map, Hy). lia.
Qed.

(** the locations of the segment edits increase strictly *)
Lemma edits_of_locs base segs :
  Forall seg_ok segs ->
  StronglySorted Z.lt (map e_loc (edits_of base segs)) /\ Forall (fun z => (base <= z)%Z) (map e_loc (edits_of base segs)).
Proof.
  revert base. induction segs as [|[[p o] n] segs IH]; intros base F; simpl; [split; constructor|].
  inversion F as [|? ? Hok F']; subst. simpl in Hok. destruct Hok as [Ho Hn].
  destruct (IH (base + zlen p + zlen o)%Z F') as [S L].
  pose proof (nonempty_length o Ho). assert (0 <= zlen p)%Z by (rewrite zlen_length; lia).
  split.
  - constructor; [exact S|]. eapply Forall_impl; [|exact L]. intros z Hz. simpl in Hz. lia.
  - constructor; [lia|]. eapply Forall_impl; [|exact L]. intros z Hz. simpl in Hz. lia.
Qed.

Lemma rev_desc (l : list edit) :
  StronglySorted Z.lt (map e_loc l) -> StronglySorted loc_gt (rev l).
Proof.
  induction l as [|x l IH]; simpl; intros S; [constructor|].
  inversion S as [|? ? S' F]; subst.
  assert (G : forall l1 y, StronglySorted loc_gt l1 -> Forall (fun z => loc_gt z y) l1 -> StronglySorted loc_gt (l1 ++ [y])).
  { clear. induction l1 as [|a l1 IH]; intros y S F; simpl; [repeat constructor|].
    inversion S as [|? ? S' Fa]; subst. inversion F as [|? ? Hay F']; subst.
    constructor; [apply IH; assumption|].
    apply Forall_app. split; [exact Fa|]. constructor; [exact Hay|constructor]. }
  apply G; [apply IH, S'|].
  rewrite Forall_forall in *. intros z Hz. apply in_rev in Hz.
  unfold loc_gt. apply F. apply in_map, Hz.
Qed.

(** Mutate applies any permutation of non-overlapping edits whose Old text is
    what stands at their location: the result is the text with each replaced
    piece exchanged, everything else byte for byte. *)
Theorem mutate_segments segs tail edits :
  segs <> [] -> Forall seg_ok segs ->
  Permutation edits (edits_of 0 segs) ->
  mutate (text_of segs tail) edits = Ok (result_of segs tail).
Proof.
  intros Hne F P. unfold mutate.
  destruct edits as [|e0 er] eqn:Ee.
  { apply Permutation_nil in P. destruct segs as [|[[p o] n] r]; [congruence|discriminate]. }
  rewrite <- Ee in *. clear Ee e0 er.
  assert (Hs : sort_edits edits = rev (edits_of 0 segs)).
  { destruct (edits_of_locs 0 segs F) as [Sasc _].
    assert (Nasc : NoDup (map e_loc (edits_of 0 segs))).
    { clear -Sasc. induction Sasc as [|a l S IH Fa]; constructor; auto.
      rewrite Forall_forall in Fa. intros Hin. specialize (Fa a Hin). lia. }
    apply strictly_desc_unique.
    - apply sorted_ge_distinct_gt; [apply sort_edits_sorted|].
      eapply Permutation_NoDup; [|exact Nasc].
      apply Permutation_map. eapply Permutation_trans; [apply Permutation_sym, P|apply sort_edits_perm].
    - apply rev_desc, Sasc.
    - eapply Permutation_trans; [apply Permutation_sym, sort_edits_perm|].
      eapply Permutation_trans; [exact P|apply Permutation_rev]. }
  rewrite Hs.
  pose proof (apply_descending segs "" tail F) as H. simpl in H.
  change (zlen "") with 0%Z in H. exact H.
Qed.
