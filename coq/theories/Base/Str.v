(** Byte strings and the Go [strings]/[bufio] functions the transcribed code uses.
    Go strings are byte sequences; so are Coq [string]s.  Definitions only
    (lemmas are in StrFacts.v) so that the models run even when a proof breaks. *)
From Coq Require Export List String Ascii Bool Arith NArith ZArith Lia.
Export ListNotations.
Open Scope string_scope.
Open Scope list_scope.
Infix "+++" := String.append (right associativity, at level 60).

Definition nl : ascii := "010"%char.
Definition cr : ascii := "013"%char.
Definition is_nl (c : ascii) : bool := Ascii.eqb c nl.

(** strings.HasPrefix *)
Definition has_prefix (s p : string) : bool := String.prefix p s.

Fixpoint srev_app (s acc : string) : string :=
  match s with
  | EmptyString => acc
  | String c r => srev_app r (String c acc)
  end.
Definition srev (s : string) : string := srev_app s EmptyString.

(** strings.HasSuffix *)
Definition has_suffix (s p : string) : bool := String.prefix (srev p) (srev s).

(** strings.Split(s, "\n"): always at least one element *)
Fixpoint split_on (d : ascii) (s : string) : list string :=
  match s with
  | EmptyString => [EmptyString]
  | String c r =>
      if Ascii.eqb c d then EmptyString :: split_on d r
      else match split_on d r with
           | h :: t => String c h :: t
           | [] => [String c EmptyString]
           end
  end.
Definition split_nl := split_on nl.

(** strings.Join *)
Definition join (sep : string) (l : list string) : string := String.concat sep l.

(** bufio.dropCR *)
Fixpoint drop_cr (s : string) : string :=
  match s with
  | EmptyString => EmptyString
  | String c EmptyString => if Ascii.eqb c cr then EmptyString else s
  | String c r => String c (drop_cr r)
  end.

Fixpoint remove_last_if_empty (l : list string) : list string :=
  match l with
  | [] => []
  | [x] => if String.eqb x EmptyString then [] else [x]
  | x :: r => x :: remove_last_if_empty r
  end.

(** Tokens of a bufio.Scanner with the default ScanLines split function and a
    buffer large enough for every line: the text split at newlines, a final
    empty piece dropped, one trailing CR dropped from each line. *)
Definition scan_lines (s : string) : list string :=
  map drop_cr (remove_last_if_empty (split_nl s)).

Definition contains_char (c : ascii) (s : string) : bool :=
  existsb (Ascii.eqb c) (list_ascii_of_string s).

Fixpoint take_while {A} (p : A -> bool) (l : list A) : list A :=
  match l with
  | [] => []
  | x :: r => if p x then x :: take_while p r else []
  end.

Fixpoint lengthN (s : string) : N :=
  match s with EmptyString => 0%N | String _ r => N.succ (lengthN r) end.

(** unicode.IsSpace restricted to the ASCII range plus U+0085/U+00A0 bytes are
    not considered: used on bytes only where the Go code calls strings.TrimSpace
    on ASCII layouts (the generators emit ASCII white space only). *)
Definition is_space (c : ascii) : bool :=
  match N_of_ascii c with
  | 9%N | 10%N | 11%N | 12%N | 13%N | 32%N => true
  | _ => false
  end.

Fixpoint trim_left (s : string) : string :=
  match s with
  | String c r => if is_space c then trim_left r else s
  | EmptyString => EmptyString
  end.
Definition trim_right (s : string) : string := srev (trim_left (srev s)).
Definition trim_space (s : string) : string := trim_right (trim_left s).

Fixpoint drop (n : nat) (s : string) : string :=
  match n, s with
  | O, _ => s
  | S n', String _ r => drop n' r
  | S _, EmptyString => EmptyString
  end.
Fixpoint take (n : nat) (s : string) : string :=
  match n, s with
  | O, _ => EmptyString
  | S n', String c r => String c (take n' r)
  | S _, EmptyString => EmptyString
  end.

(** strings.TrimPrefix / TrimSuffix *)
Definition trim_prefix (s p : string) : string :=
  if has_prefix s p then drop (String.length p) s else s.
Definition trim_suffix (s p : string) : string :=
  if has_suffix s p then take (String.length s - String.length p) s else s.

Definition string_of_bytes (l : list N) : string :=
  string_of_list_ascii (map ascii_of_N l).

Fixpoint repeat_char (c : ascii) (n : nat) : string :=
  match n with O => EmptyString | S k => String c (repeat_char c k) end.

Definition lower_ascii (c : ascii) : ascii :=
  let n := N_of_ascii c in
  if ((65 <=? n) && (n <=? 90))%N then ascii_of_N (n + 32) else c.
Definition upper_ascii (c : ascii) : ascii :=
  let n := N_of_ascii c in
  if ((97 <=? n) && (n <=? 122))%N then ascii_of_N (n - 32) else c.
Fixpoint smap (f : ascii -> ascii) (s : string) : string :=
  match s with EmptyString => EmptyString | String c r => String (f c) (smap f r) end.
Definition to_lower := smap lower_ascii.
Definition to_upper := smap upper_ascii.

Definition list_eqb {A} (eqb : A -> A -> bool) :=
  fix go (a b : list A) : bool :=
    match a, b with
    | [], [] => true
    | x :: a', y :: b' => eqb x y && go a' b'
    | _, _ => false
    end.
Definition strs_eqb := list_eqb String.eqb.

Fixpoint mem_str (x : string) (l : list string) : bool :=
  match l with [] => false | y :: r => String.eqb x y || mem_str x r end.

Fixpoint nodup_str (l : list string) : bool :=
  match l with [] => true | x :: r => negb (mem_str x r) && nodup_str r end.
