(** Outcomes of transcribed Go functions: a value, a Go [error], or a Go panic
    (index out of range, nil dereference, explicit panic). *)
From Coq Require Import String.
Inductive result (A : Type) : Type :=
| Ok (a : A)
| Err (msg : string)
| Panic (site : string).
Arguments Ok {A} a.
Arguments Err {A} msg.
Arguments Panic {A} site.

Definition bind {A B} (r : result A) (f : A -> result B) : result B :=
  match r with Ok a => f a | Err m => Err m | Panic s => Panic s end.
Notation "'do' x <- r ; k" := (bind r (fun x => k)) (at level 200, x pattern, r at level 100, k at level 200).

Definition is_ok {A} (r : result A) : bool := match r with Ok _ => true | _ => false end.
Definition is_err {A} (r : result A) : bool := match r with Err _ => true | _ => false end.
Definition is_panic {A} (r : result A) : bool := match r with Panic _ => true | _ => false end.
