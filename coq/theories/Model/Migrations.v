(** Transcription of internal/migrations/migrations.go, internal/sql/sqlpath/read.go
    and the file loop of internal/compiler/compile.go parseCatalog. *)
From Coq Require Import Sorting.Mergesort Orders.
From Verif Require Export Base.Str Base.Result.
Open Scope string_scope.
Open Scope list_scope.

(** migrations.RemoveRollbackStatements: the four marker prefixes, tested in
    this order on each scanner token; the first hit ends the loop. *)
Definition rollback_markers : list string :=
  [ "-- +goose Down";
    "-- +migrate Down";
    "---- create above / drop below ----";
    "-- migrate:down" ].

Definition is_marker (line : string) : bool :=
  existsb (has_prefix line) rollback_markers.

Definition remove_rollback (contents : string) : string :=
  join (String nl EmptyString) (take_while (fun l => negb (is_marker l)) (scan_lines contents)).

(** migrations.IsDown *)
Definition is_down (filename : string) : bool := has_suffix filename ".down.sql".

(** filepath.Base on clean, non-empty, slash-separated paths: the part after
    the last slash. *)
Definition path_base (p : string) : string := last (split_on "/"%char p) EmptyString.

(** filepath.Join(dir, name) for a clean [dir] and a plain [name]. *)
Definition path_join (d n : string) : string := d +++ "/" +++ n.

(** The file system as sqlc sees it. *)
Inductive entry :=
| EFile (content : string)
| EUnreadable                      (* ReadFile fails: directory, permissions *)
| EDir (names : list string).      (* ioutil.ReadDir: names in any order *)
Definition filesys := string -> option entry.

Module StringOrder <: TotalLeBool.
  Definition t := string.
  Definition leb := String.leb.
  Theorem leb_total : forall a1 a2, leb a1 a2 = true \/ leb a2 a1 = true.
  Proof. exact String.leb_total. Qed.
End StringOrder.
Module StrSort := Sort StringOrder.

(** ioutil.ReadDir sorts the entries by name (byte order). *)
Definition read_dir_sorted (names : list string) : list string := StrSort.sort names.

Definition keep_file (file : string) : bool :=
  has_suffix file ".sql"
  && negb (has_prefix (path_base file) ".")
  && negb (is_down (path_base file)).

Fixpoint glob_collect (fs : filesys) (paths : list string) : result (list string) :=
  match paths with
  | [] => Ok []
  | p :: rest =>
      match fs p with
      | None => Err ("path " +++ p +++ " does not exist")
      | Some (EDir names) =>
          do r <- glob_collect fs rest;
          Ok (map (path_join p) (read_dir_sorted names) ++ r)
      | Some _ =>
          do r <- glob_collect fs rest; Ok (p :: r)
      end
  end.

(** sqlpath.Glob *)
Definition glob (fs : filesys) (paths : list string) : result (list string) :=
  do files <- glob_collect fs paths; Ok (filter keep_file files).

(** parseCatalog's file loop, with the engine's parser as a parameter: the
    statements that reach Catalog.Update, in order; a file that cannot be read
    is an error of the run. *)
Section Load.
  Context {stmt : Type} (parse : string -> list stmt).

  Definition load_file (fs : filesys) (f : string) : result (list stmt) :=
    match fs f with
    | Some (EFile c) => Ok (parse (remove_rollback c))
    | _ => Err ("cannot read " +++ f)
    end.

  Fixpoint load_files (fs : filesys) (files : list string) : result (list stmt) :=
    match files with
    | [] => Ok []
    | f :: rest =>
        do a <- load_file fs f; do b <- load_files fs rest; Ok (a ++ b)
    end.

  Definition load_schema (fs : filesys) (paths : list string) : result (list stmt) :=
    do files <- glob fs paths; load_files fs files.
End Load.
