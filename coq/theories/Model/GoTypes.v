(** Transcription of internal/codegen/golang/go_type.go (goType / goInnerType
    without overrides: C15 adds them), postgresql_type.go and mysql_type.go.
    The case arms of the two type switches are NOT transcribed by hand: they are
    the regenerated tables Gen/TypeTables.v. *)
From Verif Require Export Base.Str Model.Catalog Model.GoNames Gen.TypeTables.
Open Scope string_scope.
Open Scope list_scope.

(** a Go switch on a string: the first arm listing the value *)
Fixpoint lookup_entry (tbl : list type_entry) (dt : string) : option type_entry :=
  match tbl with
  | [] => None
  | e :: r => if mem_str dt (te_names e) then Some e else lookup_entry r dt
  end.

Definition entry_type (e : type_entry) (nn len1 : bool) : string :=
  if len1 then (if nn then te_nn_len1 e else te_null_len1 e)
  else (if nn then te_nn e else te_null e).

(** the enum's generated Go type name *)
Definition enum_go_name (c : catalog) (schema name : string) : string :=
  if String.eqb schema (cat_default c) then struct_name name else struct_name (schema +++ "_" +++ name).

(** default arm of postgresType: schemas other than pg_catalog, types in order *)
Fixpoint pg_scan_types (c : catalog) (sname : string) (rs rn : string) (nn : bool) (ts : list typ) : option string :=
  match ts with
  | [] => None
  | Enum n _ _ :: r =>
      if String.eqb rn n && String.eqb rs sname then Some (enum_go_name c sname n)
      else pg_scan_types c sname rs rn nn r
  | Composite n _ :: r =>
      if String.eqb rn n && String.eqb rs sname then Some (if nn then "string" else "sql.NullString")
      else pg_scan_types c sname rs rn nn r
  end.
Fixpoint pg_scan_schemas (c : catalog) (rs rn : string) (nn : bool) (ss : list schema) : option string :=
  match ss with
  | [] => None
  | s :: r =>
      if String.eqb (sch_name s) "pg_catalog" then pg_scan_schemas c rs rn nn r
      else match pg_scan_types c (sch_name s) rs rn nn (sch_types s) with
           | Some t => Some t
           | None => pg_scan_schemas c rs rn nn r
           end
  end.

Definition pg_default (c : catalog) (dt : string) (nn : bool) : string :=
  let parts := split_on "."%char dt in
  let rel := match parts with
             | [n] => Some ("", n)
             | [s; n] => Some (s, n)
             | [_; s; n] => Some (s, n)
             | _ => None
             end in
  match rel with
  | None => "interface{}"
  | Some (s, n) =>
      let s := if String.eqb s "" then cat_default c else s in
      match pg_scan_schemas c s n nn (cat_schemas c) with
      | Some t => t
      | None => "interface{}"
      end
  end.

Definition postgres_type (c : catalog) (dt : string) (notnull isarray : bool) : string :=
  let nn := notnull || isarray in
  match lookup_entry pg_type_table dt with
  | Some e => entry_type e nn false
  | None => pg_default c dt nn
  end.

(** default arm of mysqlType: every schema, enums by bare name *)
Fixpoint my_scan_types (c : catalog) (sname dt : string) (ts : list typ) : option string :=
  match ts with
  | [] => None
  | Enum n _ _ :: r => if String.eqb n dt then Some (enum_go_name c sname n) else my_scan_types c sname dt r
  | _ :: r => my_scan_types c sname dt r
  end.
Fixpoint my_scan_schemas (c : catalog) (dt : string) (ss : list schema) : option string :=
  match ss with
  | [] => None
  | s :: r => match my_scan_types c (sch_name s) dt (sch_types s) with
              | Some t => Some t
              | None => my_scan_schemas c dt r
              end
  end.

Definition mysql_type (c : catalog) (dt : string) (notnull isarray len1 : bool) : string :=
  let nn := notnull || isarray in
  match lookup_entry my_type_table dt with
  | Some e => entry_type e nn len1
  | None => match my_scan_schemas c dt (cat_schemas c) with Some t => t | None => "interface{}" end
  end.

Inductive engine := PostgreSQL | MySQL.

(** goType without overrides *)
Definition go_type (eng : engine) (c : catalog) (dt : string) (notnull isarray len1 : bool) : string :=
  let inner := match eng with
               | PostgreSQL => postgres_type c dt notnull isarray
               | MySQL => mysql_type c dt notnull isarray len1
               end in
  if isarray then "[]" +++ inner else inner.

(** ** overrides (go_type.go goType / goInnerType, compat.go sameTableName) *)
Record gov := mkGov {
  gov_gotype : string;            (* GoTypeName after Override.Parse *)
  gov_column : string;            (* the raw `column` option, "" for a db_type override *)
  gov_colname : string; gov_cat : string; gov_schema : string; gov_rel : string;
  gov_dbtype : string; gov_nullable : bool }.

(** the table a column record belongs to: catalog, schema, name — None when the
    compiler attached no table *)
Definition same_table_name (t : option (string * string * string)) (o : gov) (default_schema : string) : bool :=
  match t with
  | None => false
  | Some (cat, schema, name) =>
      let schema := if String.eqb schema "" then default_schema else schema in
      String.eqb cat (gov_cat o) && String.eqb schema (gov_schema o) && String.eqb name (gov_rel o)
  end.

Definition column_override (ovs : list gov) (default_schema : string) (tbl : option (string * string * string)) (colname : string)
  : option gov :=
  find_first (fun o => negb (String.eqb (gov_gotype o) "") && negb (String.eqb (gov_column o) "")
                       && String.eqb (gov_colname o) colname && same_table_name tbl o default_schema) ovs.

Definition dbtype_override (ovs : list gov) (dt : string) (not_null : bool) : option gov :=
  find_first (fun o => negb (String.eqb (gov_gotype o) "") && negb (String.eqb (gov_dbtype o) "")
                       && String.eqb (gov_dbtype o) dt && negb (Bool.eqb (gov_nullable o) not_null)) ovs.

Definition go_type_ov (ovs : list gov) (eng : engine) (c : catalog)
           (tbl : option (string * string * string)) (colname dt : string) (notnull isarray len1 : bool) : string :=
  match column_override ovs (cat_default c) tbl colname with
  | Some o => gov_gotype o                       (* returned as is: no [] prefix even for an array column *)
  | None =>
      let inner := match dbtype_override ovs dt (notnull || isarray) with
                   | Some o => gov_gotype o
                   | None => match eng with
                             | PostgreSQL => postgres_type c dt notnull isarray
                             | MySQL => mysql_type c dt notnull isarray len1
                             end
                   end in
      if isarray then "[]" +++ inner else inner
  end.

(** ** the same with the `rename` map of the settings: StructName consults it first, with the key
    the caller hands it - for an enum the key is the enum's name, prefixed with "schema_" outside
    the default schema (postgresql_type.go / result.go buildEnums).  [rn = []] gives the functions
    above (go_type_ov_r_nil in Proofs/GoGenFacts.v). *)
Fixpoint assoc_rn (rn : list (string * string)) (k : string) : option string :=
  match rn with [] => None | (k', v) :: r => if String.eqb k' k then Some v else assoc_rn r k end.
Definition struct_name_rn (rn : list (string * string)) (name : string) : string :=
  match assoc_rn rn name with
  | Some r => if String.eqb r "" then struct_name name else r
  | None => struct_name name
  end.
Definition enum_go_name_r (rn : list (string * string)) (c : catalog) (schema name : string) : string :=
  if String.eqb schema (cat_default c) then struct_name_rn rn name else struct_name_rn rn (schema +++ "_" +++ name).

Fixpoint pg_scan_types_r (rn : list (string * string)) (c : catalog) (sname : string) (rs rnm : string) (nn : bool) (ts : list typ) : option string :=
  match ts with
  | [] => None
  | Enum n _ _ :: r =>
      if String.eqb rnm n && String.eqb rs sname then Some (enum_go_name_r rn c sname n)
      else pg_scan_types_r rn c sname rs rnm nn r
  | Composite n _ :: r =>
      if String.eqb rnm n && String.eqb rs sname then Some (if nn then "string" else "sql.NullString")
      else pg_scan_types_r rn c sname rs rnm nn r
  end.
Fixpoint pg_scan_schemas_r (rn : list (string * string)) (c : catalog) (rs rnm : string) (nn : bool) (ss : list schema) : option string :=
  match ss with
  | [] => None
  | s :: r =>
      if String.eqb (sch_name s) "pg_catalog" then pg_scan_schemas_r rn c rs rnm nn r
      else match pg_scan_types_r rn c (sch_name s) rs rnm nn (sch_types s) with
           | Some t => Some t
           | None => pg_scan_schemas_r rn c rs rnm nn r
           end
  end.
Definition pg_default_r (rn : list (string * string)) (c : catalog) (dt : string) (nn : bool) : string :=
  let parts := split_on "."%char dt in
  let rel := match parts with
             | [n] => Some ("", n)
             | [s; n] => Some (s, n)
             | [_; s; n] => Some (s, n)
             | _ => None
             end in
  match rel with
  | None => "interface{}"
  | Some (s, n) =>
      let s := if String.eqb s "" then cat_default c else s in
      match pg_scan_schemas_r rn c s n nn (cat_schemas c) with
      | Some t => t
      | None => "interface{}"
      end
  end.
Definition postgres_type_r (rn : list (string * string)) (c : catalog) (dt : string) (notnull isarray : bool) : string :=
  let nn := notnull || isarray in
  match lookup_entry pg_type_table dt with
  | Some e => entry_type e nn false
  | None => pg_default_r rn c dt nn
  end.

(** goType with overrides and renames, PostgreSQL *)
Definition pg_go_type_ov_r (rn : list (string * string)) (ovs : list gov) (c : catalog)
           (tbl : option (string * string * string)) (colname dt : string) (notnull isarray : bool) : string :=
  match column_override ovs (cat_default c) tbl colname with
  | Some o => gov_gotype o
  | None =>
      let inner := match dbtype_override ovs dt (notnull || isarray) with
                   | Some o => gov_gotype o
                   | None => postgres_type_r rn c dt notnull isarray
                   end in
      if isarray then "[]" +++ inner else inner
  end.
