(** Transcription of internal/sql/catalog/{catalog,table,types,schema,comment_on}.go
    composed with the DDL part of internal/engine/postgresql/parse.go translate():
    [update c d] is what [Catalog.Update] does with the statement the PostgreSQL
    engine produces for the source-level DDL statement [d].  Source-level fields
    that translate() drops (ALTER TABLE IF EXISTS, ADD VALUE BEFORE/AFTER, ...)
    are present in [ddl] and simply not looked at here. *)
From Verif Require Export Base.Str Base.Result.
Open Scope string_scope.
Open Scope list_scope.

(** * Data *)
Record qname := mkQ { q_schema : string; q_name : string }.   (* "" = unqualified *)

Record column := mkCol {
  col_name : string; col_type : qname; col_notnull : bool; col_array : bool; col_comment : string }.
Record table := mkTab { tab_name : string; tab_cols : list column; tab_comment : string }.
Inductive typ :=
| Enum (name : string) (vals : list string) (comment : string)
| Composite (name : string) (comment : string).
Record schema := mkSch {
  sch_name : string; sch_tables : list table; sch_types : list typ; sch_comment : string }.
Record catalog := mkCat { cat_default : string; cat_schemas : list schema }.

Definition typ_name (t : typ) : string :=
  match t with Enum n _ _ => n | Composite n _ => n end.

(** postgresql.NewCatalog(): public, pg_temp, pg_catalog (functions are not
    part of this model). *)
Definition pg_initial : catalog :=
  mkCat "public" [mkSch "public" [] [] ""; mkSch "pg_temp" [] [] ""; mkSch "pg_catalog" [] [] ""].

(** * Source-level DDL *)
Record coldef := mkCD { cd_name : string; cd_type : qname; cd_notnull : bool; cd_array : bool }.

Inductive alter_cmd :=
| AddColumn (if_not_exists : bool) (d : coldef)
| DropColumn (if_exists : bool) (name : string)
| AlterColumnType (name : string) (ty : qname) (array : bool)
| SetNotNull (name : string)
| DropNotNull (name : string).

Inductive ddl :=
| CreateSchema (if_not_exists : bool) (name : string)
| DropSchema (if_exists : bool) (names : list string)
| CreateTable (if_not_exists : bool) (name : qname) (cols : list coldef) (pk : list string)
| DropTable (if_exists : bool) (names : list qname)
| RenameTable (if_exists : bool) (name : qname) (new : string)
| SetSchema (if_exists : bool) (name : qname) (new : string)
| AlterTable (if_exists : bool) (name : qname) (cmds : list alter_cmd)
| RenameColumn (if_exists : bool) (tbl : qname) (old new : string)
| CreateEnum (name : qname) (vals : list string)
| CreateComposite (name : qname)
| AddValue (if_not_exists : bool) (ty : qname) (v : string) (pos : option (bool * string))
| RenameValue (ty : qname) (old new : string)
| DropType (if_exists : bool) (names : list qname)
| CommentSchema (name : string) (c : option string)
| CommentTable (name : qname) (c : option string)
| CommentColumn (tbl : qname) (col : string) (c : option string)
| CommentType (name : qname) (c : option string).

(** * Slice surgery *)
Section ListOps.
  Context {A : Type}.
  Fixpoint find_first (p : A -> bool) (l : list A) : option A :=
    match l with [] => None | x :: r => if p x then Some x else find_first p r end.
  (** mutate the first match through its pointer *)
  Fixpoint upd_first (p : A -> bool) (f : A -> A) (l : list A) : list A :=
    match l with [] => [] | x :: r => if p x then f x :: r else x :: upd_first p f r end.
  (** append(l[:idx], l[idx+1:]...) with idx the first match *)
  Fixpoint del_first (p : A -> bool) (l : list A) : list A :=
    match l with [] => [] | x :: r => if p x then r else x :: del_first p r end.
  (** ... with idx the last match (dropSchema's loop keeps the last index) *)
  Definition del_last (p : A -> bool) (l : list A) : list A := rev (del_first p (rev l)).
End ListOps.

(** * Lookups (catalog.go) *)
Definition ns_of (c : catalog) (q : qname) : string :=
  if String.eqb (q_schema q) "" then cat_default c else q_schema q.

Definition sch_is (n : string) (s : schema) : bool := String.eqb (sch_name s) n.
Definition tab_is (n : string) (t : table) : bool := String.eqb (tab_name t) n.
Definition col_is (n : string) (x : column) : bool := String.eqb (col_name x) n.

Definition get_schema (c : catalog) (n : string) : option schema :=
  find_first (sch_is n) (cat_schemas c).
Definition get_table (s : schema) (n : string) : option table :=
  find_first (tab_is n) (sch_tables s).
(** Schema.getType: enums and composite types by name. *)
Definition enum_is (n : string) (t : typ) : bool := String.eqb (typ_name t) n.
Definition get_type (s : schema) (n : string) : option typ :=
  find_first (enum_is n) (sch_types s).

Definition with_schema (c : catalog) (n : string) (f : schema -> schema) : catalog :=
  mkCat (cat_default c) (upd_first (sch_is n) f (cat_schemas c)).
Definition with_table (s : schema) (n : string) (f : table -> table) : schema :=
  mkSch (sch_name s) (upd_first (tab_is n) f (sch_tables s)) (sch_types s) (sch_comment s).
Definition with_type (s : schema) (n : string) (f : typ -> typ) : schema :=
  mkSch (sch_name s) (sch_tables s) (upd_first (enum_is n) f (sch_types s)) (sch_comment s).
Definition set_tables (s : schema) (ts : list table) : schema :=
  mkSch (sch_name s) ts (sch_types s) (sch_comment s).
Definition set_types (s : schema) (ts : list typ) : schema :=
  mkSch (sch_name s) (sch_tables s) ts (sch_comment s).
Definition set_cols (t : table) (cs : list column) : table :=
  mkTab (tab_name t) cs (tab_comment t).

Definition e_schema_nf := "3F000 schema does not exist".
Definition e_schema_ex := "42P06 schema already exists".
Definition e_rel_nf := "42P01 relation does not exist".
Definition e_rel_ex := "42P07 relation already exists".
Definition e_col_nf := "42703 column does not exist".
Definition e_col_ex := "42701 column already exists".
Definition e_type_nf := "42704 type does not exist".
Definition e_type_ex := "42710 type already exists".
Definition e_not_enum := "type is not an enum".
Definition e_val_nf := "enum value does not exist".
Definition e_val_ex := "enum value already exists".

(** Catalog.getTable *)
Definition lookup_table (c : catalog) (q : qname) : result (schema * table) :=
  match get_schema c (ns_of c q) with
  | None => Err e_schema_nf
  | Some s => match get_table s (q_name q) with
              | None => Err e_rel_nf
              | Some t => Ok (s, t)
              end
  end.

Definition col_of_def (pk : list string) (d : coldef) : column :=
  mkCol (cd_name d) (cd_type d) (cd_notnull d || mem_str (cd_name d) pk) (cd_array d) "".

(** * Handlers *)

(** schema.go createSchema *)
Definition create_schema (c : catalog) (ine : bool) (n : string) : result catalog :=
  match get_schema c n with
  | Some _ => if ine then Ok c else Err e_schema_ex
  | None => Ok (mkCat (cat_default c) (cat_schemas c ++ [mkSch n [] [] ""]))
  end.

(** schema.go dropSchema *)
Fixpoint drop_schemas (c : catalog) (ie : bool) (names : list string) : result catalog :=
  match names with
  | [] => Ok c
  | n :: rest =>
      if existsb (sch_is n) (cat_schemas c)
      then drop_schemas (mkCat (cat_default c) (del_last (sch_is n) (cat_schemas c))) ie rest
      else if ie then drop_schemas c ie rest else Err e_schema_nf
  end.

(** table.go createTable (no ReferTable, no inline enum: PostgreSQL engine) *)
Definition create_table (c : catalog) (ine : bool) (q : qname) (cols : list coldef) (pk : list string)
  : result catalog :=
  let ns := ns_of c q in
  match get_schema c ns with
  | None => Err e_schema_nf
  | Some s =>
      match get_table s (q_name q) with
      | Some _ => if ine then Ok c else Err e_rel_ex
      | None =>
          if negb (nodup_str (map cd_name cols)) then Err e_col_ex else
          if existsb (enum_is (q_name q)) (sch_types s) then Err e_type_ex else
          let t := mkTab (q_name q) (map (col_of_def pk) cols) "" in
          Ok (with_schema c ns (fun s => set_tables s (sch_tables s ++ [t])))
      end
  end.

(** table.go dropTable *)
Fixpoint drop_tables (c : catalog) (ie : bool) (names : list qname) : result catalog :=
  match names with
  | [] => Ok c
  | q :: rest =>
      let ns := ns_of c q in
      match get_schema c ns with
      | None => if ie then drop_tables c ie rest else Err e_schema_nf
      | Some s =>
          match get_table s (q_name q) with
          | None => if ie then drop_tables c ie rest else Err e_rel_nf
          | Some _ =>
              drop_tables (with_schema c ns (fun s => set_tables s (del_first (tab_is (q_name q)) (sch_tables s)))) ie rest
          end
      end
  end.

(** table.go renameTable *)
Definition rename_table (c : catalog) (q : qname) (new : string) : result catalog :=
  do st <- lookup_table c q;
  let (s, _) := st in
  match get_table s new with
  | Some _ => Err e_rel_ex
  | None =>
      Ok (with_schema c (ns_of c q) (fun s => with_table s (q_name q)
            (fun t => mkTab new (tab_cols t) (tab_comment t))))
  end.

(** table.go alterTableSetSchema *)
Definition set_schema (c : catalog) (q : qname) (new : string) : result catalog :=
  let ns := ns_of c q in
  match get_schema c ns with
  | None => Err e_schema_nf
  | Some olds =>
      match get_table olds (q_name q) with
      | None => Err e_rel_nf
      | Some t =>
          match get_schema c new with
          | None => Err e_schema_nf
          | Some news =>
              match get_table news (q_name q) with
              | Some _ => Err e_rel_ex
              | None =>
                  let c1 := with_schema c ns (fun s => set_tables s (del_first (tab_is (q_name q)) (sch_tables s))) in
                  Ok (with_schema c1 new (fun s => set_tables s (sch_tables s ++ [t])))
              end
          end
      end
  end.

(** table.go alterTable: the per-command loop on the column slice *)
Definition has_col (n : string) (cols : list column) : bool := existsb (col_is n) cols.

Definition alter_cmd_step (cols : list column) (cmd : alter_cmd) : result (list column) :=
  match cmd with
  | AddColumn ine d =>
      (* cmd.MissingOk (IF NOT EXISTS) is not consulted for AT_AddColumn *)
      if has_col (cd_name d) cols then Err e_col_ex
      else Ok (cols ++ [col_of_def [] d])
  | DropColumn ie n =>
      if has_col n cols then Ok (del_first (col_is n) cols)
      else if ie then Ok cols else Err e_col_nf
  | AlterColumnType n ty arr =>
      if has_col n cols
      then Ok (upd_first (col_is n) (fun x => mkCol (col_name x) ty (col_notnull x) arr (col_comment x)) cols)
      else Err e_col_nf
  | SetNotNull n =>
      if has_col n cols
      then Ok (upd_first (col_is n) (fun x => mkCol (col_name x) (col_type x) true (col_array x) (col_comment x)) cols)
      else Err e_col_nf
  | DropNotNull n =>
      if has_col n cols
      then Ok (upd_first (col_is n) (fun x => mkCol (col_name x) (col_type x) false (col_array x) (col_comment x)) cols)
      else Err e_col_nf
  end.

Fixpoint alter_cmds (cols : list column) (cmds : list alter_cmd) : result (list column) :=
  match cmds with
  | [] => Ok cols
  | cmd :: rest => do cols' <- alter_cmd_step cols cmd; alter_cmds cols' rest
  end.

Definition alter_table (c : catalog) (ie : bool) (q : qname) (cmds : list alter_cmd) : result catalog :=
  match cmds with
  | [] => Ok c                       (* "implemented" stays false: return before the lookup *)
  | _ =>
      match lookup_table c q with
      | Err m => Err m               (* AlterTableStmt.MissingOk is never set by translate() *)
      | Panic s => Panic s
      | Ok (_, t) =>
          do cols <- alter_cmds (tab_cols t) cmds;
          Ok (with_schema c (ns_of c q) (fun s => with_table s (q_name q) (fun t => set_cols t cols)))
      end
  end.

(** table.go renameColumn: one loop; the new name is checked against every
    column, the old one included *)
Definition rename_column (c : catalog) (q : qname) (old new : string) : result catalog :=
  do st <- lookup_table c q;
  let (_, t) := st in
  if has_col new (tab_cols t) then Err e_col_ex
  else if negb (has_col old (tab_cols t)) then Err e_col_nf
  else Ok (with_schema c (ns_of c q) (fun s => with_table s (q_name q) (fun t =>
         set_cols t (upd_first (col_is old)
           (fun x => mkCol new (col_type x) (col_notnull x) (col_array x) (col_comment x)) (tab_cols t))))).

(** types.go createEnum / createCompositeType *)
Definition create_type (c : catalog) (q : qname) (t : typ) : result catalog :=
  let ns := ns_of c q in
  match get_schema c ns with
  | None => Err e_schema_nf
  | Some s =>
      match get_table s (q_name q) with
      | Some _ => Err e_rel_ex
      | None =>
          match get_type s (q_name q) with
          | Some _ => Err e_type_ex
          | None => Ok (with_schema c ns (fun s => set_types s (sch_types s ++ [t])))
          end
      end
  end.

Definition lookup_enum (c : catalog) (q : qname) : result (list string) :=
  match get_schema c (ns_of c q) with
  | None => Err e_schema_nf
  | Some s => match get_type s (q_name q) with
              | None => Err e_type_nf
              | Some (Enum _ vals _) => Ok vals
              | Some (Composite _ _) => Err e_not_enum
              end
  end.

Definition set_vals (f : list string -> list string) (t : typ) : typ :=
  match t with Enum n v cm => Enum n (f v) cm | other => other end.

Definition replace_first (old new : string) (l : list string) : list string :=
  upd_first (fun x => String.eqb x old) (fun _ => new) l.

(** types.go alterTypeAddValue *)
Definition add_value (c : catalog) (ine : bool) (q : qname) (v : string) (pos : option (bool * string))
  : result catalog :=
  do vals <- lookup_enum c q;
  if mem_str v vals then (if ine then Ok c else Err e_val_ex)
  else
    (* translate() drops NewValNeighbor/NewValIsAfter: always appended *)
    Ok (with_schema c (ns_of c q) (fun s => with_type s (q_name q) (set_vals (fun l => l ++ [v])))).

(** types.go alterTypeRenameValue *)
Definition rename_value (c : catalog) (q : qname) (old new : string) : result catalog :=
  do vals <- lookup_enum c q;
  if negb (mem_str old vals) then Err e_val_nf
  else if mem_str new vals then Err e_val_ex
  else Ok (with_schema c (ns_of c q) (fun s => with_type s (q_name q) (set_vals (replace_first old new)))).

(** types.go dropType *)
Fixpoint drop_types (c : catalog) (ie : bool) (names : list qname) : result catalog :=
  match names with
  | [] => Ok c
  | q :: rest =>
      let ns := ns_of c q in
      match get_schema c ns with
      | None => if ie then drop_types c ie rest else Err e_schema_nf
      | Some s =>
          match get_type s (q_name q) with
          | None => if ie then drop_types c ie rest else Err e_type_nf
          | Some _ =>
              drop_types (with_schema c ns (fun s => set_types s (del_first (enum_is (q_name q)) (sch_types s)))) ie rest
          end
      end
  end.

Definition opt_comment (o : option string) : string := match o with Some x => x | None => "" end.

(** comment_on.go *)
Definition comment_schema (c : catalog) (n : string) (cm : option string) : result catalog :=
  match get_schema c n with
  | None => Err e_schema_nf
  | Some _ => Ok (with_schema c n (fun s => mkSch (sch_name s) (sch_tables s) (sch_types s) (opt_comment cm)))
  end.

Definition comment_table (c : catalog) (q : qname) (cm : option string) : result catalog :=
  do _ <- lookup_table c q;
  Ok (with_schema c (ns_of c q) (fun s => with_table s (q_name q)
        (fun t => mkTab (tab_name t) (tab_cols t) (opt_comment cm)))).

Definition comment_column (c : catalog) (q : qname) (col : string) (cm : option string) : result catalog :=
  do st <- lookup_table c q;
  let (_, t) := st in
  if has_col col (tab_cols t)
  then Ok (with_schema c (ns_of c q) (fun s => with_table s (q_name q) (fun t =>
         set_cols t (upd_first (col_is col)
           (fun x => mkCol (col_name x) (col_type x) (col_notnull x) (col_array x) (opt_comment cm)) (tab_cols t)))))
  else Err e_col_nf.

Definition set_type_comment (cm : string) (t : typ) : typ :=
  match t with Enum n v _ => Enum n v cm | Composite n _ => Composite n cm end.

Definition comment_type (c : catalog) (q : qname) (cm : option string) : result catalog :=
  match get_schema c (ns_of c q) with
  | None => Err e_schema_nf
  | Some s => match get_type s (q_name q) with
              | None => Err e_type_nf
              | Some _ => Ok (with_schema c (ns_of c q) (fun s => with_type s (q_name q) (set_type_comment (opt_comment cm))))
              end
  end.

(** * Catalog.Update ∘ translate *)
Definition update (c : catalog) (d : ddl) : result catalog :=
  match d with
  | CreateSchema ine n => create_schema c ine n
  | DropSchema ie ns => drop_schemas c ie ns
  | CreateTable ine q cols pk => create_table c ine q cols pk
  | DropTable ie qs => drop_tables c ie qs
  | RenameTable _ q new => rename_table c q new
  | SetSchema _ q new => set_schema c q new
  | AlterTable ie q cmds => alter_table c ie q cmds
  | RenameColumn _ q old new => rename_column c q old new
  | CreateEnum q vals => create_type c q (Enum (q_name q) vals "")
  | CreateComposite q => create_type c q (Composite (q_name q) "")
  | AddValue ine q v pos => add_value c ine q v pos
  | RenameValue q old new => rename_value c q old new
  | DropType ie qs => drop_types c ie qs
  | CommentSchema n cm => comment_schema c n cm
  | CommentTable q cm => comment_table c q cm
  | CommentColumn q col cm => comment_column c q col cm
  | CommentType q cm => comment_type c q cm
  end.

(** compile.go parseCatalog: statements in order; the first error fails the run
    (errors are collected, but any error aborts generation). *)
Fixpoint build (c : catalog) (ds : list ddl) : result catalog :=
  match ds with
  | [] => Ok c
  | d :: rest => do c' <- update c d; build c' rest
  end.
