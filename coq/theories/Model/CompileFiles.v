(** Transcription of the FILE loop of compile.go parseQueries: the query files of
    a package (in sqlpath.Glob order) are compiled one after the other; the only
    state that survives from one file to the next is the set of query names seen
    so far (duplicate detection) and the growing lists of queries and
    diagnostics.  Every statement contributes exactly one entry, tagged with the
    file it stands in: [Err msg] (one diagnostic line), [Ok (Some q)] (a query)
    or [Ok None] (an unsupported statement, skipped). *)
From Verif Require Export Model.Compile.
Open Scope string_scope.
Open Scope list_scope.

(** the query names one file adds to the set *)
Definition names_of (rs : list (result (option query))) : list string :=
  flat_map (fun r => match r with
                     | Ok (Some q) => if String.eqb (q_name q) "" then [] else [q_name q]
                     | _ => []
                     end) rs.

(** a query file: name, text, the statements the engine's parser returned for it *)
Definition qfile := (string * string * list node)%type.

Fixpoint parse_files (e : env) (positional : bool) (files : list qfile) (seen : list string)
  : list (string * result (option query)) :=
  match files with
  | [] => []
  | (name, src, stmts) :: rest =>
      let rs := parse_file e src positional stmts seen in
      map (pair name) rs ++ parse_files e positional rest (names_of rs ++ seen)
  end.

(** the diagnostics of a run, in the order multierr collects (and generate.go prints) them *)
Definition diagnostics {A} (rs : list (string * result A)) : list (string * string) :=
  flat_map (fun r => match snd r with Err m => [(fst r, m)] | _ => [] end) rs.

(** what one file reports when it is the only file of the package *)
Definition alone (e : env) (positional : bool) (f : qfile) : list (string * result (option query)) :=
  let '(name, src, stmts) := f in map (pair name) (parse_file e src positional stmts []).

(** the query names a file's statements define when compiled without any other file *)
Definition solo_names (e : env) (positional : bool) (f : qfile) : list string :=
  let '(_, src, stmts) := f in
  flat_map (fun raw => match parse_query e raw src positional with
                       | Ok (Some q) => if String.eqb (q_name q) "" then [] else [q_name q]
                       | _ => []
                       end) stmts.

(** the queries of a run, with the file each stands in *)
Definition queries_of (rs : list (string * result (option query))) : list (string * query) :=
  flat_map (fun r => match snd r with Ok (Some q) => [(fst r, q)] | _ => [] end) rs.

(** parseQueries as a whole: any diagnostic makes the package fail; no statement at all is an error too *)
Definition compile_queries (e : env) (p : bool) (files : list qfile) : result (list (string * query)) :=
  let rs := parse_files e p files [] in
  match diagnostics rs with
  | _ :: _ => Err "multierr"
  | [] => match queries_of rs with [] => Err "no queries contained in paths" | qs => Ok qs end
  end.

