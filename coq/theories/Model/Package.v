(** One package of a configuration as cmd.Generate sees it: the outcome of parseQueries
    (Model/CompileFiles.v compile_queries) decides between ParseFail and the code generator. *)
From Verif Require Export Model.Driver Model.CompileFiles.
Open Scope string_scope.
Open Scope list_scope.

(** one package of the configuration: its environment (catalog after the schema files), compile
    mode, query files and what the code generator makes of the compiled queries *)
Record pkg_input := mkPI {
  pi_env : env; pi_positional : bool; pi_files : list qfile;
  pi_codegen : list (string * query) -> option (list (string * string)) }.

Definition pkg_outcome_of (p : pkg_input) : pkg_outcome :=
  match compile_queries (pi_env p) (pi_positional p) (pi_files p) with
  | Ok qs => match pi_codegen p qs with Some fs => Good fs | None => GenFail end
  | _ => ParseFail
  end.

