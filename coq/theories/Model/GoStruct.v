(** internal/codegen/golang/result.go columnsToStruct: the names of the fields
    of a *Row / *Params struct.  Columns that share a name are told apart by a
    suffix _2, _3, ...; columns with the same id (the same numbered parameter)
    share one suffix. *)
From Verif Require Export Base.Str Model.Query.
Open Scope string_scope.
Open Scope list_scope.

Fixpoint lookup_s (l : list (string * nat)) (k : string) : nat :=
  match l with [] => 0 | (k', v) :: r => if String.eqb k' k then v else lookup_s r k end.
Fixpoint incr_s (l : list (string * nat)) (k : string) : list (string * nat) :=
  match l with
  | [] => [(k, 1)]
  | (k', v) :: r => if String.eqb k' k then (k', S v) :: r else (k', v) :: incr_s r k
  end.
Fixpoint lookup_id (l : list (Z * nat)) (k : Z) : option nat :=
  match l with [] => None | (k', v) :: r => if Z.eqb k' k then Some v else lookup_id r k end.

(** the suffix (0 = none) of every column, in order *)
Fixpoint suffixes_loop (cols : list (Z * string)) (seen : list (string * nat)) (sfx : list (Z * nat)) : list nat :=
  match cols with
  | [] => []
  | (id, nm) :: rest =>
      let s := match lookup_id sfx id with
               | Some o => o
               | None => let v := lookup_s seen nm in if Nat.ltb 0 v then S v else 0
               end in
      s :: suffixes_loop rest (incr_s seen nm) ((id, s) :: sfx)
  end.
Definition suffixes_of (cols : list (Z * string)) : list nat := suffixes_loop cols [] [].

Definition with_suffix (nm : string) (s : nat) : string :=
  if Nat.ltb 0 s then nm +++ "_" +++ z_to_string (Z.of_nat s) else nm.

(** db tags of the struct's fields (the Go field names are StructName of the
    column name with the same suffix) *)
Definition struct_tags (cols : list (Z * string)) : list string :=
  map (fun p => with_suffix (snd (fst p)) (snd p)) (combine cols (suffixes_of cols)).

(** result columns: ids are the positions; unnamed columns are column_<i+1> *)
Fixpoint index_cols (pos : nat) (names : list string) : list (Z * string) :=
  match names with
  | [] => []
  | n :: r => (Z.of_nat pos, if String.eqb n "" then "column_" +++ z_to_string (Z.of_nat (S pos)) else n) :: index_cols (S pos) r
  end.
Definition row_tags (names : list string) : list string := struct_tags (index_cols 0 names).
