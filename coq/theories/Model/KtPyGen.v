(** Parameter naming of the Kotlin and Python back-ends
    (internal/codegen/kotlin/gen.go ktColumnsToStruct, ktParamName, MemberName;
    internal/codegen/python/gen.go paramName and the argument list of
    buildQueries).  A parameter is (placeholder number, column name), the column
    name being "" when the compiler could not name it. *)
From Verif Require Export Model.GoNames Model.GoStruct.
Open Scope string_scope.
Open Scope list_scope.

(** ** names *)
Definition lower_first (s : string) : string :=
  match s with EmptyString => EmptyString | String c r => String (lower_ascii c) r end.
Definition data_class_name (n : string) : string := String.concat "" (map title (split_on "_"%char n)).
Definition member_name (n : string) : string := lower_first (data_class_name n).
Definition kt_arg_name (n : string) : string :=
  match split_on "_"%char n with
  | [] => ""
  | p :: r => String.concat "" (to_lower p :: map title r)
  end.
Definition kt_param_base (p : Z * string) : string :=
  member_name (if String.eqb (snd p) "" then "dollar_" +++ z_to_string (fst p) else kt_arg_name (snd p)).
Definition py_param_base (p : Z * string) : string :=
  if String.eqb (snd p) "" then "dollar_" +++ z_to_string (fst p) else snd p.

(** ** Kotlin: suffixes are handed out in id order, once per id, counting
    earlier columns of the same column name *)
Fixpoint insert_by_id (p : Z * string) (l : list (Z * string)) : list (Z * string) :=
  match l with
  | [] => [p]
  | x :: r => if (fst p <=? fst x)%Z then p :: x :: r else x :: insert_by_id p r
  end.
Definition sort_by_id (l : list (Z * string)) : list (Z * string) := fold_right insert_by_id [] l.

Fixpoint kt_name_loop (byid : list (Z * string)) (names : list (Z * string)) (seen : list (string * nat))
  : list (Z * string) :=
  match byid with
  | [] => names
  | p :: r =>
      match assoc_z names (fst p) with
      | Some _ => kt_name_loop r names seen
      | None =>
          let v := lookup_s seen (snd p) in
          let nm := if Nat.ltb 0 v then kt_param_base p +++ "_" +++ z_to_string (Z.of_nat (S v)) else kt_param_base p in
          kt_name_loop r (names ++ [(fst p, nm)]) (incr_s seen (snd p))
      end
  end.
Definition kt_names (cols : list (Z * string)) : list (Z * string) := kt_name_loop (sort_by_id cols) [] [].
Definition kt_name_of (cols : list (Z * string)) (id : Z) : string := some_or "" (assoc_z (kt_names cols) id).

(** the function's parameters: one per id, in order of first occurrence *)
Fixpoint first_ids (seen : list Z) (cols : list (Z * string)) : list Z :=
  match cols with
  | [] => []
  | p :: r => if existsb (Z.eqb (fst p)) seen then first_ids seen r else fst p :: first_ids (fst p :: seen) r
  end.
Definition kt_fields (cols : list (Z * string)) : list string := map (kt_name_of cols) (first_ids [] cols).
(** the positional bind calls: one per column (= per placeholder occurrence) *)
Definition kt_bindings (cols : list (Z * string)) : list string := map (fun p => kt_name_of cols (fst p)) cols.

(** ** Python, up to four parameters: one argument per parameter (numbered
    mode: distinct numbers in order), later ones of the same name suffixed *)
Fixpoint py_args_loop (ps : list (Z * string)) (seen : list (string * nat)) : list string :=
  match ps with
  | [] => []
  | p :: r =>
      let b := py_param_base p in
      let v := lookup_s seen b in
      (if Nat.ltb 0 v then b +++ "_" +++ z_to_string (Z.of_nat (S v)) else b) :: py_args_loop r (incr_s seen b)
  end.
Definition py_args (ps : list (Z * string)) : list string := py_args_loop ps [].

(** ** how the two back-ends print a column's type: ktType.String / pyType.String,
    with IsNull = not NotNull and IsArray copied from the compiler's column *)
Definition kt_type_string (name : string) (is_array notnull : bool) : string :=
  if is_array then "List<" +++ name +++ ">" else if negb notnull then name +++ "?" else name.
Definition py_type_string (inner : string) (is_array notnull : bool) : string :=
  let v := if is_array then "List[" +++ inner +++ "]" else inner in
  if negb notnull then "Optional[" +++ v +++ "]" else v.
(** what the emitted type says about nullability (what checks/c20.py reads) *)
Definition kt_says_nullable (t : string) : bool := has_suffix t "?".
Definition py_says_nullable (t : string) : bool := has_prefix t "Optional[".
