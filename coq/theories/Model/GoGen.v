(** internal/codegen/golang/result.go buildQueries (with paramName, argName,
    columnName, the model-struct reuse loop and columnsToStruct), field.go
    (Tag, JSONTagName and the case styles), struct.go StructName with renames,
    go_type.go goType — for the PostgreSQL engine.  Input: what the compiler
    produced (queries with columns and parameters), the catalog, the combined
    settings and the model structs buildStructs made (their names go through
    inflection.Singular, which is not modelled: they are taken as observed).
    Output: the Arg / Ret value of every query, as the templates receive them
    (compared exactly with the hook golang.VerifGenerate). *)
From Verif Require Export Base.Str Model.GoNames Model.GoTypes Model.GoStruct Model.Compile.
Open Scope string_scope.
Open Scope list_scope.

Record gsettings := mkGS {
  gs_ovs : list gov;
  gs_rename : list (string * string);
  gs_db_tags : bool;
  gs_json_tags : bool;
  gs_json_style : string
}.

Fixpoint assoc_s (l : list (string * string)) (k : string) : option string :=
  match l with [] => None | (k', v) :: r => if String.eqb k' k then Some v else assoc_s r k end.

(** struct.go StructName *)
Definition struct_name_r (st : gsettings) (name : string) : string :=
  match assoc_s (gs_rename st) name with
  | Some r => if String.eqb r "" then struct_name name else r
  | None => struct_name name
  end.

(** result.go argName (strings.ToLower / strings.Title on ASCII) *)
Definition arg_name (name : string) : string :=
  match split_on "_"%char name with
  | [] => ""
  | p0 :: rest => to_lower p0 +++ String.concat "" (map (fun p => if String.eqb p "id" then "ID" else title p) rest)
  end.

Definition param_name (p : param) : string :=
  match p_col p with
  | Some c => if String.eqb (qc_name c) "" then "dollar_" +++ z_to_string (p_num p) else arg_name (qc_name c)
  | None => "dollar_" +++ z_to_string (p_num p)
  end.

Definition column_name (c : qcol) (pos : nat) : string :=
  if String.eqb (qc_name c) "" then "column_" +++ z_to_string (Z.of_nat (S pos)) else qc_name c.

(** field.go toCamelInitCase / JSONTagName; an unknown style panics *)
Definition camel_init (name : string) (init_upper : bool) : string :=
  match split_on "_"%char name with
  | [] => ""
  | p0 :: rest =>
      (if init_upper then (if String.eqb p0 "id" then "ID" else title p0) else p0)
      +++ String.concat "" (map (fun p => if String.eqb p "id" then "ID" else title p) rest)
  end.
Definition json_tag_name (st : gsettings) (name : string) : result string :=
  let s := gs_json_style st in
  if String.eqb s "" || String.eqb s "none" then Ok name
  else if String.eqb s "camel" then Ok (camel_init name false)
  else if String.eqb s "pascal" then Ok (camel_init name true)
  else if String.eqb s "snake" then Ok (to_lower name)
  else Panic "unsupported JSON tags case style".

(** Field.Tag(): the tags sorted as strings, joined by a blank: db:"x" json:"y" *)
Definition field_tag (st : gsettings) (tag_name : string) : result string :=
  do j <- (if gs_json_tags st then json_tag_name st tag_name else Ok "");
  let db := if gs_db_tags st then ["db:""" +++ tag_name +++ """"] else [] in
  let js := if gs_json_tags st then ["json:""" +++ j +++ """"] else [] in
  Ok (String.concat " " (db ++ js)).

Definition col_table (c : qcol) : option (string * string * string) :=
  match qc_table c with Some t => Some (tn_cat t, tn_schema t, tn_name t) | None => None end.

(** goType for a compiler column (PostgreSQL) *)
Definition go_type_of (st : gsettings) (c : catalog) (col : qcol) : string :=
  pg_go_type_ov_r (gs_rename st) (gs_ovs st) c (col_table col) (qc_name col) (qc_dt col) (qc_nn col) (qc_arr col).

(** a Go struct: name, the table it models (schema, rel; models only), fields (name, type, tag) *)
Definition gfield := (string * string * string)%type.
Record gstruct := mkGSt { gst_name : string; gst_table : string * string; gst_fields : list gfield }.

(** columnsToStruct *)
Fixpoint cts_fields (st : gsettings) (c : catalog) (cols : list qcol) (names : list string) (sfx : list nat) : result (list gfield) :=
  match cols, names, sfx with
  | col :: cr, nm :: nr, s :: sr =>
      do tg <- field_tag st (with_suffix nm s);
      do rest <- cts_fields st c cr nr sr;
      Ok ((with_suffix (struct_name_r st nm) s, go_type_of st c col, tg) :: rest)
  | _, _, _ => Ok []
  end.

Fixpoint col_names (pos : nat) (cols : list qcol) : list string :=
  match cols with [] => [] | c :: r => column_name c pos :: col_names (S pos) r end.

Definition columns_to_struct (st : gsettings) (c : catalog) (name : string) (cols : list (Z * qcol)) : result gstruct :=
  let names := col_names 0 (map snd cols) in
  let sfx := suffixes_of (combine (map fst cols) names) in
  do fs <- cts_fields st c (map snd cols) names sfx;
  Ok (mkGSt name ("", "") fs).

(** compat.go sameTableName against a model struct's FQN (catalog "") *)
Definition same_table (c : catalog) (col : qcol) (tbl : string * string) : bool :=
  match qc_table col with
  | None => false
  | Some t =>
      let schema := if String.eqb (tn_schema t) "" then cat_default c else tn_schema t in
      String.eqb (tn_cat t) "" && String.eqb schema (fst tbl) && String.eqb (tn_name t) (snd tbl)
  end.

(** the reuse loop: the first model struct (in the order buildStructs left them) all of whose
    fields agree with the query's columns in name, Go type and table *)
Fixpoint fields_same (st : gsettings) (c : catalog) (tbl : string * string) (pos : nat) (fs : list gfield) (cols : list qcol) : bool :=
  match fs, cols with
  | [], _ => true
  | (fname, ftype, _) :: fr, col :: cr =>
      String.eqb fname (struct_name_r st (column_name col pos))
      && String.eqb ftype (go_type_of st c col)
      && same_table c col tbl
      && fields_same st c tbl (S pos) fr cr
  | _ :: _, [] => false
  end.
Definition reuse_struct (st : gsettings) (c : catalog) (structs : list gstruct) (cols : list qcol) : option gstruct :=
  find_first (fun s => Nat.eqb (List.length (gst_fields s)) (List.length cols)
                       && fields_same st c (gst_table s) 0 (gst_fields s) cols) structs.

(** a QueryValue as the templates see it *)
Record gval_out := mkVO { vo_emit : bool; vo_name : string; vo_typ : string; vo_struct : option gstruct }.
Definition vo_empty : gval_out := mkVO false "" "" None.
Record gq_out := mkQO { qo_method : string; qo_cmd : string; qo_source : string; qo_ret : gval_out; qo_arg : gval_out }.

Fixpoint index_from {A} (pos : nat) (l : list A) : list (Z * A) :=
  match l with [] => [] | x :: r => (Z.of_nat pos, x) :: index_from (S pos) r end.

Definition param_col (p : param) : qcol := some_or (mkQC "" "" false false "" None) (p_col p).

Definition build_arg (st : gsettings) (c : catalog) (name : string) (ps : list param) : result gval_out :=
  match ps with
  | [] => Ok vo_empty
  | [p] => Ok (mkVO false (param_name p) (go_type_of st c (param_col p)) None)
  | _ =>
      do s <- columns_to_struct st c (name +++ "Params") (map (fun p => (p_num p, param_col p)) ps);
      Ok (mkVO true "arg" "" (Some s))
  end.

Definition build_ret (st : gsettings) (c : catalog) (structs : list gstruct) (name : string) (cols : list qcol) : result gval_out :=
  match cols with
  | [] => Ok vo_empty
  | [col] => Ok (mkVO false (column_name col 0) (go_type_of st c col) None)
  | _ =>
      match reuse_struct st c structs cols with
      | Some s => Ok (mkVO false "i" "" (Some s))
      | None =>
          do s <- columns_to_struct st c (name +++ "Row") (index_from 0 cols);
          Ok (mkVO true "i" "" (Some s))
      end
  end.

Definition build_query (st : gsettings) (c : catalog) (structs : list gstruct) (q : query) (source : string) : result gq_out :=
  do a <- build_arg st c (q_name q) (q_params q);
  do r <- build_ret st c structs (q_name q) (q_columns q);
  Ok (mkQO (q_name q) (q_cmd q) source r a).

Fixpoint build_all (st : gsettings) (c : catalog) (structs : list gstruct) (qs : list (query * string)) : result (list gq_out) :=
  match qs with
  | [] => Ok []
  | (q, src) :: r =>
      if String.eqb (q_name q) "" || String.eqb (q_cmd q) "" then build_all st c structs r
      else do x <- build_query st c structs q src;
           do rest <- build_all st c structs r;
           Ok (x :: rest)
  end.

(** sort.Slice by MethodName (names are pairwise distinct: duplicates were rejected by the compiler) *)
Fixpoint ins_q (x : gq_out) (l : list gq_out) : list gq_out :=
  match l with
  | [] => [x]
  | y :: r => if String.leb (qo_method x) (qo_method y) then x :: y :: r else y :: ins_q x r
  end.
Definition build_queries (st : gsettings) (c : catalog) (structs : list gstruct) (qs : list (query * string)) : result (list gq_out) :=
  do l <- build_all st c structs qs;
  Ok (fold_right ins_q [] l).
