(** Transcription of internal/compiler/parse.go parseQuery (the composition of
    everything in Model/Query.v and Model/Source.v) and of the statement loop of
    compile.go parseQueries.  The engine's parser is not modelled: the statements
    come in as the trees the real parser produced, and the re-parse of an edited
    query is assumed to succeed. *)
From Verif Require Export Model.Query.
Open Scope string_scope.
Open Scope list_scope.

Record query := mkQuery {
  q_name : string; q_cmd : string; q_sql : string; q_comments : list string;
  q_params : list param; q_columns : list qcol }.

Definition comment_syntax_of (eng : engine_t) : comment_syntax :=
  match eng with EPostgres => mkCS true false true | EMySQL => mkCS true true true end.

(** validate.FuncCall: the first offending call in Walk order *)
Definition validate_func_calls (e : env) (raw : node) : result unit :=
  (fix go (l : list node) : result unit :=
     match l with
     | [] => Ok tt
     | call :: rest =>
         if negb (is_kind "FuncCall" call) || is_nil (kid "Func" call) then go rest else
         let fn := kid "Func" call in
         let sqlc_check : result unit :=
           if String.eqb (str_of "Schema" fn) "sqlc" then
             if negb (String.eqb (str_of "Name" fn) "arg") then Err "function sqlc.* does not exist"
             else match kid_items "Args" call with
                  | [] => Ok tt
                  | [a] => if is_kind "A_Const" a || is_kind "ColumnRef" a then Ok tt
                           else err_at (loc_of call) "expected parameter to sqlc.arg to be string or reference"
                  | _ => err_at (loc_of call) "expected 1 parameter to sqlc.arg"
                  end
           else Ok tt in
         match sqlc_check with
         | Ok _ =>
             (* a sqlc.arg call with no arguments returns before the catalog lookup *)
             if String.eqb (str_of "Schema" fn) "sqlc" && Nat.eqb (List.length (kid_items "Args" call)) 0 then go rest else
             match resolve_func e call with
             | FError m => err_at (loc_of call) m
             | _ => go rest
             end
         | other => other
         end
     end) (preorder raw).

Definition supported_stmt (k : string) : bool :=
  mem_str k ["SelectStmt"; "DeleteStmt"; "InsertStmt"; "TruncateStmt"; "UpdateStmt"].

Definition fuel_of (raw : node) : nat := S (node_size raw).

(** parseQuery: [Ok None] is ErrUnsupportedStatementType (the statement is skipped) *)
Definition parse_query (e : env) (raw : node) (src : string) (positional : bool) : result (option query) :=
  if negb (walk_ok raw) then Panic "walk: unexpected node type" else
  if negb (param_style_ok raw) then Err e_mixed else
  match param_ref_gap raw with
  | Some i => Err ("could not determine data type of parameter $" +++ z_to_string i)
  | None =>
      if negb (is_kind "RawStmt" raw) then Err "node is not a statement" else
      let stmt := kid "Stmt" raw in
      if negb (supported_stmt (kind_of stmt)) then Ok None else
      if is_kind "InsertStmt" stmt && negb (insert_stmt_ok stmt) then Err "INSERT has more target columns / expressions" else
      do raw_sql <- pluck src (int_of "StmtLocation" raw) (int_of "StmtLen" raw);
      if String.eqb raw_sql "" then Err "missing semicolon at end of file" else
      do _ <- validate_func_calls e raw;
      do nc <- meta_parse (trim_space raw_sql) (comment_syntax_of (env_engine e));
      let (name, cmd) := nc in
      if negb (cmd_ok stmt cmd) then Err "query specifies :one/:many without containing a RETURNING clause" else
      let '(raw2, names, edits0) := named_parameters (env_engine e) raw in
      let stmt2 := kid "Stmt" raw2 in
      let rvs := search (is_kind "RangeVar") stmt2 in
      do refs0 <- find_parameters stmt2;
      let refs := if positional then positional_refs refs0 else sort_refs (unique_refs [] refs0) in
      let edits1 :=
        if positional
        then map (fun r => mkEdit (loc_of (pr_ref r) - int_of "StmtLocation" raw2)
                                  ("$" +++ z_to_string (ref_number r)) "?") refs0
        else edits0 in
      do params <- resolve_catalog_refs e rvs refs names;
      let fuel := fuel_of raw in
      do qc <- build_query_catalog fuel e stmt2;
      do cols <- output_columns fuel e qc stmt2;
      do ex <- expand fuel e qc raw2;
      do expanded <- mutate raw_sql (edits1 ++ ex);
      do sc <- strip_comments expanded;
      Ok (Some (mkQuery name cmd (fst sc) (snd sc) params cols))
  end.

(** the location an error carries, if any *)
Definition err_loc (msg : string) : option Z :=
  match msg with
  | String "@" rest =>
      (fix go (s : string) (acc : Z) (seen : bool) : option Z :=
         match s with
         | String c r =>
             let n := N_of_ascii c in
             if ((48 <=? n) && (n <=? 57))%N then go r (acc * 10 + Z.of_N (n - 48))%Z true
             else if Ascii.eqb c ":" && seen then Some acc else None
         | EmptyString => None
         end) rest 0%Z false
  | _ => None
  end.

(** multierr.Add + compile.go: where an error of the statement [raw] is
    reported: the error's own location if it has one, else the statement's;
    location 0 (or an empty file) gives 1:1 *)
Definition report_position (src : string) (raw : node) (msg : string) : result (Z * Z) :=
  let loc := match err_loc msg with Some l => l | None => int_of "StmtLocation" raw end in
  if String.eqb src "" || (loc =? 0)%Z then Ok (1, 1)%Z else line_number src loc.

(** compile.go parseQueries over the statements of ONE query file, in source
    order: per statement [inl msg] = an error line, [inr q] = a query; unsupported
    statements are skipped; a repeated name is an error. *)
Fixpoint parse_file (e : env) (src : string) (positional : bool) (stmts : list node) (seen : list string)
  : list (result (option query)) :=
  match stmts with
  | [] => []
  | raw :: rest =>
      match parse_query e raw src positional with
      | Ok (Some q) =>
          if negb (String.eqb (q_name q) "") && mem_str (q_name q) seen
          then Err ("duplicate query name: " +++ q_name q) :: parse_file e src positional rest seen
          else Ok (Some q) :: parse_file e src positional rest (if String.eqb (q_name q) "" then seen else q_name q :: seen)
      | other => other :: parse_file e src positional rest seen
      end
  end.
