(** Transcription of internal/cmd/generate.go Generate (the package loop) and of
    the exit status / write loop of internal/cmd/cmd.go.  What the compiler and
    the code generators do with one package is abstracted into its outcome. *)
From Verif Require Export Base.Str Base.Result.
Open Scope string_scope.
Open Scope list_scope.

Inductive pkg_outcome :=
| ParseFail      (* parse(): schema or query errors, printed; the loop BREAKs *)
| GenFail        (* the code generator returns an error, printed; the loop CONTINUEs *)
| Good (files : list (string * string)).   (* full path -> source *)

Definition file_map := list (string * string).

(** output[filename] = source : a later assignment to the same key wins *)
Fixpoint put (m : file_map) (k v : string) : file_map :=
  match m with
  | [] => [(k, v)]
  | (k', v') :: r => if String.eqb k' k then (k, v) :: r else (k', v') :: put r k v
  end.
Definition put_all (m : file_map) (fs : file_map) : file_map :=
  fold_left (fun acc kv => put acc (fst kv) (snd kv)) fs m.

Record loop_state := mkLS { ls_out : file_map; ls_errored : bool; ls_diags : nat }.

(** the package loop *)
Fixpoint run_loop (pkgs : list pkg_outcome) (st : loop_state) : loop_state :=
  match pkgs with
  | [] => st
  | ParseFail :: _ => mkLS (ls_out st) true (S (ls_diags st))               (* break *)
  | GenFail :: rest => run_loop rest (mkLS (ls_out st) true (S (ls_diags st)))   (* continue *)
  | Good fs :: rest => run_loop rest (mkLS (put_all (ls_out st) fs) (ls_errored st) (ls_diags st))
  end.

Record run_result := mkRR { rr_output : option file_map; rr_status : nat; rr_diags : nat }.

(** Generate + genCmd/checkCmd: [config_ok = false] stands for every failure
    before the loop (missing / unreadable / invalid configuration, SQLCDEBUG,
    python without the experimental flag) *)
Definition generate (config_ok : bool) (pkgs : list pkg_outcome) : run_result :=
  if negb config_ok then mkRR None 1 1
  else
    let st := run_loop pkgs (mkLS [] false 0) in
    if ls_errored st then mkRR None 1 (ls_diags st) else mkRR (Some (ls_out st)) 0 (ls_diags st).

(** what `sqlc generate` writes / `sqlc compile` writes (nothing) *)
Definition files_written (is_generate : bool) (r : run_result) : file_map :=
  match rr_output r with Some m => if is_generate then m else [] | None => [] end.

Definition is_failure (p : pkg_outcome) : bool := match p with Good _ => false | _ => true end.
Definition all_files (pkgs : list pkg_outcome) : file_map :=
  flat_map (fun p => match p with Good fs => fs | _ => [] end) pkgs.

(** printFileErr: the file name of a diagnostic is printed relative to the configuration
    directory when the file lies below it (strings.TrimPrefix(name, dir+"/")), unchanged otherwise *)
Definition print_name (dir file : string) : string := trim_prefix file (dir +++ "/").
