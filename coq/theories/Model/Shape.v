(** Shape of the trees the compiler's walkers (sourceTables / outputColumns, buildQueryCatalog,
    expand) can traverse without a nil dereference: list-typed fields they index are lists.
    The predicate is evaluated on every tree the real parsers return (Judge/J03.v). *)
From Verif Require Import Model.Compile.
Open Scope string_scope.
Open Scope list_scope.

(** every node below [n], whatever Walk visits *)
Fixpoint all_nodes (n : node) : list node :=
  n :: match n with
       | Nil => []
       | NList l => (fix go (l : list node) : list node := match l with [] => [] | x :: r => all_nodes x ++ go r end) l
       | Node _ _ _ kids => (fix go (l : list (string * node)) : list node := match l with [] => [] | p :: r => all_nodes (snd p) ++ go r end) kids
       end.

Definition is_list (n : node) : bool := match n with NList _ => true | _ => false end.

Definition node_shape_ok (x : node) : bool :=
  (negb (is_kind "UpdateStmt" x) || is_list (kid "FromClause" x))
  && (negb (is_kind "RangeSubselect" x) || negb (is_nil (kid "Alias" x)))
  && match stmt_targets x with Some t => is_list t | None => true end
  && (is_nil (kid "WithClause" x) || is_list (kid "Ctes" (kid "WithClause" x))).

Definition shape_ok (root : node) : bool := forallb node_shape_ok (all_nodes root).
