(** The engine-neutral AST (internal/sql/ast) as one rose tree, and the generic
    traversals of internal/sql/astutils.

    A Go node [*ast.X{...}] is [Node "X" strs ints kids]: its string-valued
    fields (a nil *string is absent), its integer/boolean fields (zero values
    absent), and its non-nil child nodes by field name, STORED IN THE ORDER IN
    WHICH astutils.Walk VISITS THEM ([wf_order] checks this against the table
    regenerated from walk.go).  [*ast.List] is [NList]; a nil field is absent
    ([kid] returns [Nil]). *)
From Verif Require Export Base.Str Base.Result Gen.WalkOrder.
Open Scope string_scope.
Open Scope list_scope.

Inductive node :=
| Nil
| NList (items : list node)
| Node (kind : string) (strs : list (string * string)) (ints : list (string * Z)) (kids : list (string * node)).

Fixpoint assoc {A} (l : list (string * A)) (k : string) : option A :=
  match l with
  | [] => None
  | (k', v) :: r => if String.eqb k' k then Some v else assoc r k
  end.

Definition kind_of (n : node) : string :=
  match n with Nil => "" | NList _ => "List" | Node k _ _ _ => k end.
Definition is_kind (k : string) (n : node) : bool := String.eqb (kind_of n) k.
Definition is_nil (n : node) : bool := match n with Nil => true | _ => false end.

Definition str_opt (f : string) (n : node) : option string :=
  match n with Node _ s _ _ => assoc s f | _ => None end.
Definition str_of (f : string) (n : node) : string :=
  match str_opt f n with Some s => s | None => "" end.
Definition int_of (f : string) (n : node) : Z :=
  match n with Node _ _ i _ => match assoc i f with Some z => z | None => 0%Z end | _ => 0%Z end.
Definition bool_of (f : string) (n : node) : bool := negb (Z.eqb (int_of f n) 0).
Definition kid (f : string) (n : node) : node :=
  match n with Node _ _ _ c => match assoc c f with Some x => x | None => Nil end | _ => Nil end.
(** [n.F.Items] — the empty list when [F] is nil is the caller's business:
    Go panics there; callers that can meet a nil list use [items_opt]. *)
Definition items (n : node) : list node := match n with NList l => l | _ => [] end.
Definition items_opt (n : node) : option (list node) := match n with NList l => Some l | _ => None end.
Definition kid_items (f : string) (n : node) : list node := items (kid f n).

Definition loc_of (n : node) : Z := int_of "Location" n.

(** ** astutils.Walk: pre-order; of a node's stored children only the fields
    listed by walk.go for its kind are visited (in stored order, which
    [wf_order] checks to be walk.go's order) *)
Definition walk_visible (k : string) (f : string) : bool :=
  match assoc walk_fields k with Some fs => mem_str f fs | None => false end.

Fixpoint preorder (n : node) : list node :=
  n :: match n with
       | Nil => []
       | NList l => (fix go (l : list node) : list node :=
                       match l with [] => [] | x :: r => preorder x ++ go r end) l
       | Node k _ _ kids =>
           (fix go (l : list (string * node)) : list node :=
              match l with
              | [] => []
              | (f, x) :: r => if walk_visible k f then preorder x ++ go r else go r
              end) kids
       end.

Definition children (n : node) : list node :=
  match n with
  | Nil => []
  | NList l => l
  | Node k _ _ kids => map snd (filter (fun p => walk_visible k (fst p)) kids)
  end.

(** Walk panics on a node kind its type switch does not list. *)
Definition walk_knows (n : node) : bool :=
  match n with Node k _ _ _ => match assoc walk_fields k with Some _ => true | None => false end | _ => true end.
Definition walk_ok (n : node) : bool := forallb walk_knows (preorder n).

(** astutils.Search *)
Definition search (p : node -> bool) (n : node) : list node := filter p (preorder n).
(** Search on a possibly-nil root: Walk(ns, nil) visits nil once; callers
    filter by kind, so a Nil root contributes nothing. *)

(** astutils.Join(list, sep): the String items joined *)
Definition string_items (l : node) : list string :=
  flat_map (fun x => if is_kind "String" x then [str_of "Str" x] else []) (items l).
Definition join_list (l : node) (sep : string) : string := String.concat sep (string_items l).

(** ** well-formedness against the regenerated traversal tables *)
Fixpoint subseq_of (xs ys : list string) : bool :=
  match xs, ys with
  | [], _ => true
  | _, [] => false
  | x :: xs', y :: ys' => if String.eqb x y then subseq_of xs' ys' else subseq_of xs ys'
  end.

(** the node's children are (a subsequence of) the fields Walk visits, in
    Walk's order; a kind Walk does not know makes Walk panic *)
Definition node_order_ok (n : node) : bool :=
  match n with
  | Node k _ _ kids =>
      match assoc walk_fields k with
      | Some fs => subseq_of (filter (fun f => mem_str f fs) (map fst kids)) fs
      | None => true
      end
  | _ => true
  end.
Definition wf_order (n : node) : bool := forallb node_order_ok (preorder n).

(** Walk and Apply visit children in the same order for every kind both know
    (checked once over the regenerated tables in Props/C03.v). *)
Definition orders_agree : bool :=
  forallb (fun p => match assoc apply_fields (fst p) with
                    | Some fs => list_eqb String.eqb fs (snd p)
                    | None => true end) walk_fields.

Fixpoint node_size (n : node) : nat :=
  S match n with
    | Nil => 0
    | NList l => (fix go (l : list node) := match l with [] => 0 | x :: r => node_size x + go r end) l
    | Node _ _ _ kids => (fix go (l : list (string * node)) := match l with [] => 0 | (_, x) :: r => node_size x + go r end) kids
    end.
