(** Transcription of internal/source/code.go (Pluck, Mutate, StripComments,
    LineNumber) and internal/metadata/meta.go (Parse, validateQueryName), byte
    for byte.  Runes matter in LineNumber only: [decode_runes] is UTF-8 decoding
    as Go's [range] over a string does it. *)
From Verif Require Export Base.Str Base.Result.
Open Scope string_scope.
Open Scope list_scope.

Record edit := mkEdit { e_loc : Z; e_old : string; e_new : string }.

Definition zlen (s : string) : Z := Z.of_N (lengthN s).

(** source.Pluck: source[location : location+length] (panics when out of range) *)
Definition pluck (src : string) (location len : Z) : result string :=
  if ((location <? 0) || (len <? 0) || (zlen src <? location + len))%Z then Panic "slice bounds out of range"
  else Ok (take (Z.to_nat len) (drop (Z.to_nat location) src)).

(** sort.Slice(a, Location descending): insertion sort; edits at equal
    locations are outside the domain of the theorems (Go's sort is not stable) *)
Fixpoint insert_edit (e : edit) (l : list edit) : list edit :=
  match l with
  | [] => [e]
  | x :: r => if (e_loc x <=? e_loc e)%Z then e :: x :: r else x :: insert_edit e r
  end.
Definition sort_edits (l : list edit) : list edit := fold_right insert_edit [] l.

Definition apply_edit (s : string) (e : edit) : result string :=
  let start := e_loc e in
  if ((zlen s <? start) || (start <? 0))%Z then Err "edit start location is out of bounds"
  else if String.eqb (e_new e) "" then Err "empty edit contents"
  else if String.eqb (e_old e) "" then Err "empty edit contents"
  else
    let stop := (start + zlen (e_old e) - 1)%Z in
    if (stop <? zlen s)%Z
    then Ok (take (Z.to_nat start) s +++ e_new e +++ drop (Z.to_nat (stop + 1)) s)
    else Ok (take (Z.to_nat start) s +++ e_new e).

(** source.Mutate *)
Definition mutate (raw : string) (edits : list edit) : result string :=
  match edits with
  | [] => Ok raw
  | _ => fold_left (fun acc e => do s <- acc; apply_edit s e) (sort_edits edits) (Ok raw)
  end.

(** bufio.Scanner with the default 64 KiB token limit: [None] when a line is too long *)
Definition scan_lines_limited (s : string) : option (list string) :=
  let raw := remove_last_if_empty (split_nl s) in
  if forallb (fun l => (lengthN l <? 65536)%N) raw then Some (map drop_cr raw) else None.

(** a whole-line block comment (since fix b0175c7: the comment that opens the line is the one that
    closes it - strings.Index(t, "*/") == len(t)-2 - so `/* a */ code /* b */` is a code line) *)
Definition block_line (t : string) : bool :=
  has_prefix t "/*" && has_suffix t "*/"
  && match String.index 0 "*/" t with Some i => Nat.eqb i (String.length t - 2) | None => false end.

(** source.StripComments: (sql, comments) *)
Definition strip_comments (sql : string) : result (string * list string) :=
  match scan_lines_limited (trim_space sql) with
  | None => Err "bufio.Scanner: token too long"
  | Some ls =>
      let step (acc : list string * list string) (t : string) :=
        if has_prefix t "-- name:" then acc
        else if has_prefix t "/* name:" && has_suffix t "*/" then acc
        else if has_prefix t "--" then (fst acc, snd acc ++ [trim_prefix t "--"])
        else if block_line t
             then (fst acc, snd acc ++ [trim_suffix (trim_prefix t "/*") "*/"])
        else (fst acc ++ [t], snd acc) in
      let r := fold_left step ls ([], []) in
      Ok (join (String nl "") (fst r), snd r)
  end.

(** ** UTF-8 as Go ranges over it: (byte offset, code point) pairs; an invalid
    byte is U+FFFD of width 1 *)
Definition cont (c : ascii) : option N :=
  let n := N_of_ascii c in if ((128 <=? n) && (n <? 192))%N then Some (n - 128)%N else None.

Fixpoint decode_runes (fuel : nat) (i : Z) (s : string) : list (Z * N) :=
  match fuel with
  | O => []
  | S fuel' =>
      match s with
      | EmptyString => []
      | String c r =>
          let n := N_of_ascii c in
          let bad := (i, 65533%N) :: decode_runes fuel' (i + 1) r in
          if (n <? 128)%N then (i, n) :: decode_runes fuel' (i + 1) r
          else if ((194 <=? n) && (n <? 224))%N then
            match r with
            | String c1 r1 =>
                match cont c1 with
                | Some a => (i, (n - 192) * 64 + a)%N :: decode_runes fuel' (i + 2) r1
                | None => bad
                end
            | _ => bad
            end
          else if ((224 <=? n) && (n <? 240))%N then
            match r with
            | String c1 (String c2 r2) =>
                match cont c1, cont c2 with
                | Some a, Some b =>
                    let cp := ((n - 224) * 4096 + a * 64 + b)%N in
                    if ((cp <? 2048) || ((55296 <=? cp) && (cp <? 57344)))%N then bad
                    else (i, cp) :: decode_runes fuel' (i + 3) r2
                | _, _ => bad
                end
            | _ => bad
            end
          else if ((240 <=? n) && (n <? 245))%N then
            match r with
            | String c1 (String c2 (String c3 r3)) =>
                match cont c1, cont c2, cont c3 with
                | Some a, Some b, Some d =>
                    let cp := ((n - 240) * 262144 + a * 4096 + b * 64 + d)%N in
                    if ((cp <? 65536) || (1114111 <? cp))%N then bad
                    else (i, cp) :: decode_runes fuel' (i + 4) r3
                | _, _, _ => bad
                end
            | _ => bad
            end
          else bad
      end
  end.
Definition runes (s : string) : list (Z * N) := decode_runes (S (String.length s)) 0 s.

(** unicode.IsSpace *)
Definition is_space_rune (r : N) : bool :=
  ((9 <=? r) && (r <=? 13) || (r =? 32) || (r =? 133) || (r =? 160) || (r =? 5760)
   || ((8192 <=? r) && (r <=? 8202)) || (r =? 8232) || (r =? 8233) || (r =? 8239) || (r =? 8287) || (r =? 12288))%N.

Definition byte_at (s : string) (i : Z) : option N :=
  if (i <? 0)%Z then None else
  match String.get (Z.to_nat i) s with Some c => Some (N_of_ascii c) | None => None end.

(** source.LineNumber: (line, column); panics on source[i+1] past the end *)
Fixpoint line_number_loop (src : string) (head : Z) (rs : list (Z * N))
         (comment : bool) (loc line col : Z) : result (Z * Z) :=
  match rs with
  | [] => Ok ((line + 1)%Z, col)
  | (i, ch) :: rest =>
      let loc := (loc + 1)%Z in
      let col := (col + 1)%Z in
      let after_dash : result bool :=
        if (ch =? 45)%N then
          match byte_at src (i + 1) with
          | Some b => Ok (if (b =? 45)%N then true else comment)
          | None => Ok comment
          end
        else Ok comment in
      match after_dash with
      | Ok comment1 =>
          let nlb := (ch =? 10)%N in
          let comment2 := if nlb then false else comment1 in
          let line2 := if nlb then (line + 1)%Z else line in
          let col2 := if nlb then 0%Z else col in
          if (i <? head)%Z then line_number_loop src head rest comment2 loc line2 col2
          else if is_space_rune ch then line_number_loop src head rest comment2 loc line2 col2
          else if comment2 then line_number_loop src head rest comment2 loc line2 col2
          else Ok ((line2 + 1)%Z, col2)
      | Err m => Err m
      | Panic m => Panic m
      end
  end.
Definition line_number (src : string) (head : Z) : result (Z * Z) :=
  line_number_loop src head (runes src) false 0 0 0.

(** ** metadata *)
Record comment_syntax := mkCS { cs_dash : bool; cs_hash : bool; cs_slashstar : bool }.

Definition is_letter_ascii (n : N) : bool := (((65 <=? n) && (n <=? 90)) || ((97 <=? n) && (n <=? 122)))%N.
Definition is_digit_ascii (n : N) : bool := ((48 <=? n) && (n <=? 57))%N.

(** validateQueryName on ASCII names (unicode.IsLetter/IsDigit agree with these
    on ASCII; non-ASCII names are outside the modelled domain) *)
Definition valid_query_name (name : string) : bool :=
  match name with
  | EmptyString => false
  | String c r =>
      let ok1 n := is_letter_ascii n || (n =? 95)%N in
      ok1 (N_of_ascii c)
      && forallb (fun a => let n := N_of_ascii a in ok1 n || is_digit_ascii n) (list_ascii_of_string r)
  end.

Definition commands := [":exec"; ":execresult"; ":execrows"; ":many"; ":one"].

Fixpoint remove_last {A} (l : list A) : list A :=
  match l with [] => [] | [_] => [] | x :: r => x :: remove_last r end.

(** metadata.Parse: Ok (name, cmd) — ("", "") when no annotation line *)
Fixpoint meta_parse_lines (lines : list string) (cs : comment_syntax) : result (string * string) :=
  match lines with
  | [] => Ok ("", "")
  | line :: rest =>
      let p1 := if has_prefix line "--" then (if cs_dash cs then Some "-- name:" else None) else Some "" in
      match p1 with
      | None => meta_parse_lines rest cs
      | Some pre1 =>
          let p2 := if has_prefix line "/*" then (if cs_slashstar cs then Some "/* name:" else None) else Some pre1 in
          match p2 with
          | None => meta_parse_lines rest cs
          | Some pre2 =>
              let p3 := if has_prefix line "#" then (if cs_hash cs then Some "# name:" else None) else Some pre2 in
              match p3 with
              | None => meta_parse_lines rest cs
              | Some prefix =>
                  if String.eqb prefix "" then meta_parse_lines rest cs
                  else if negb (has_prefix line prefix) then meta_parse_lines rest cs
                  else
                    let part0 := split_on " "%char (trim_space line) in
                    let part := if has_prefix line "/*" then remove_last part0 else part0 in
                    match part with
                    | [_; _] => Err "missing query type"
                    | [_; _; qname; qtype0] =>
                        let qtype := trim_space qtype0 in
                        if negb (mem_str qtype commands) then Err "invalid query type"
                        else if negb (valid_query_name qname) then Err "invalid query name"
                        else Ok (qname, qtype)
                    | _ => Err "invalid query comment"
                    end
              end
          end
      end
  end.
Definition meta_parse (t : string) (cs : comment_syntax) : result (string * string) :=
  meta_parse_lines (split_nl t) cs.
