(** internal/codegen/golang/result.go buildEnums and enum.go EnumReplace: the Go type
    declared for every enum of the catalog (outside pg_catalog) and its constants.
    The name of the declaration and the name goType uses for a column of that type
    (Model/GoTypes.v enum_go_name_r) are computed at two different places of the
    generator; both hand StructName the same key - the enum's name, prefixed with
    "schema_" outside the default schema - so a rename entry hits both or neither
    (Proofs/GoEnumFacts.v). *)
From Verif Require Export Model.GoTypes.
Open Scope string_scope.
Open Scope list_scope.

Definition ident_byte (c : ascii) : bool :=
  let n := N_of_ascii c in
  ((48 <=? n) && (n <=? 57) || (65 <=? n) && (n <=? 90) || (97 <=? n) && (n <=? 122) || (n =? 95))%N.

(** EnumReplace: '-', ':' and '/' become '_'; every other byte outside [a-zA-Z0-9_] is dropped
    (the regular expression works on runes; a multi-byte rune is dropped as a whole, i.e. all its bytes) *)
Fixpoint enum_replace (s : string) : string :=
  match s with
  | EmptyString => EmptyString
  | String c r =>
      let c' := if Ascii.eqb c "-" || Ascii.eqb c ":" || Ascii.eqb c "/" then "_"%char else c in
      if ident_byte c' then String c' (enum_replace r) else enum_replace r
  end.

Record genum := mkGE { ge_name : string; ge_consts : list (string * string) }.   (* constant name, value *)

Definition enum_db_name (c : catalog) (sname n : string) : string :=
  if String.eqb sname (cat_default c) then n else sname +++ "_" +++ n.

Definition build_enum (rn : list (string * string)) (c : catalog) (sname : string) (t : typ) : list genum :=
  match t with
  | Enum n vals _ =>
      let dn := enum_db_name c sname n in
      [mkGE (struct_name_rn rn dn) (map (fun v => (struct_name_rn rn (dn +++ "_" +++ enum_replace v), v)) vals)]
  | Composite _ _ => []
  end.

Definition enums_of (rn : list (string * string)) (c : catalog) (ss : list schema) : list genum :=
  flat_map (fun s => if String.eqb (sch_name s) "pg_catalog" then []
                     else flat_map (build_enum rn c (sch_name s)) (sch_types s)) ss.

(** sort.Slice by Name (not stable: compared only when the names are pairwise distinct) *)
Fixpoint ins_enum (x : genum) (l : list genum) : list genum :=
  match l with
  | [] => [x]
  | y :: r => if String.leb (ge_name x) (ge_name y) then x :: y :: r else y :: ins_enum x r
  end.
Definition build_enums (rn : list (string * string)) (c : catalog) : list genum :=
  fold_right ins_enum [] (enums_of rn c (cat_schemas c)).
