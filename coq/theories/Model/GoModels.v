(** internal/codegen/golang/result.go buildStructs: one model struct per table of
    every schema but pg_catalog; a field per column, named StructName(column),
    typed goType(ConvertColumn(table, column)), tagged like a row-struct field.
    The struct's own name goes through inflection.Singular (not modelled: taken as
    observed) unless emit_exact_table_names is set. *)
From Verif Require Export Model.GoGen Model.GoEnums.
Open Scope string_scope.
Open Scope list_scope.

(** compiler.dataType of the column's type name *)
Definition dt_of (q : qname) : string :=
  if String.eqb (q_schema q) "" then Catalog.q_name q else q_schema q +++ "." +++ Catalog.q_name q.

(** compiler.ConvertColumn *)
Definition model_col (sname : string) (t : table) (col : column) : qcol :=
  mkQC (col_name col) (dt_of (col_type col)) (col_notnull col) (col_array col) "" (Some (mkTN "" sname (tab_name t))).

Fixpoint model_fields (st : gsettings) (c : catalog) (sname : string) (t : table) (cols : list column) : result (list gfield) :=
  match cols with
  | [] => Ok []
  | col :: r =>
      do tg <- field_tag st (col_name col);
      do rest <- model_fields st c sname t r;
      Ok ((struct_name_r st (col_name col), go_type_of st c (model_col sname t col), tg) :: rest)
  end.

(** (schema, table) and the fields of every model struct, in catalog order *)
Fixpoint tables_fields (st : gsettings) (c : catalog) (sname : string) (ts : list table) : result (list (string * string * list gfield)) :=
  match ts with
  | [] => Ok []
  | t :: r =>
      do fs <- model_fields st c sname t (tab_cols t);
      do rest <- tables_fields st c sname r;
      Ok ((sname, tab_name t, fs) :: rest)
  end.
Fixpoint schemas_fields (st : gsettings) (c : catalog) (ss : list schema) : result (list (string * string * list gfield)) :=
  match ss with
  | [] => Ok []
  | s :: r =>
      if String.eqb (sch_name s) "pg_catalog" then schemas_fields st c r
      else do a <- tables_fields st c (sch_name s) (sch_tables s);
           do b <- schemas_fields st c r;
           Ok (a ++ b)
  end.
Definition model_structs (st : gsettings) (c : catalog) : result (list (string * string * list gfield)) :=
  schemas_fields st c (cat_schemas c).

(** the struct name when emit_exact_table_names is set (no inflection) *)
Definition exact_struct_name (st : gsettings) (c : catalog) (sname tname : string) : string :=
  struct_name_r st (if String.eqb sname (cat_default c) then tname else sname +++ "_" +++ tname).
