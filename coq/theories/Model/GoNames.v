(** Identifier derivation of internal/codegen/golang: StructName (struct.go),
    without the rename table (renames are added by Model/GoGen for C15). *)
From Verif Require Export Base.Str.
Open Scope string_scope.
Open Scope list_scope.

(** strings.Title on one underscore-free part: the first byte upper-cased when it
    is an ASCII letter; bytes after a separator (anything that is not a letter,
    digit or underscore) are upper-cased as well. *)
Definition is_alnum_ (c : ascii) : bool :=
  let n := N_of_ascii c in
  ((48 <=? n) && (n <=? 57) || (65 <=? n) && (n <=? 90) || (97 <=? n) && (n <=? 122) || (n =? 95) || (128 <=? n))%N.
Fixpoint title_aux (prev_sep : bool) (s : string) : string :=
  match s with
  | EmptyString => EmptyString
  | String c r => String (if prev_sep then upper_ascii c else c) (title_aux (negb (is_alnum_ c)) r)
  end.
Definition title (s : string) : string := title_aux true s.

Definition struct_name_part (p : string) : string :=
  if String.eqb p "id" then "ID" else title p.
Definition struct_name (name : string) : string :=
  String.concat "" (map struct_name_part (split_on "_"%char name)).
