(** internal/codegen/golang/imports.go — the importer: which packages each
    emitted Go file imports, decided by string-prefix tests on the type strings
    of the structs and of the queries' Arg / Ret values (query.go QueryValue).
    The values are those the templates receive (hook golang.VerifGenerate). *)
From Verif Require Export Base.Str Gen.ImportTables.
Open Scope string_scope.
Open Scope list_scope.

(** query.go QueryValue: Emit, Name, Typ, Struct (name and field types) *)
Record gvalue := mkGV {
  gv_emit : bool;
  gv_name : string;
  gv_typ : string;
  gv_struct : option (string * list string)
}.

Definition gv_is_struct (v : gvalue) : bool := match gv_struct v with Some _ => true | None => false end.
Definition gv_is_empty (v : gvalue) : bool :=
  String.eqb (gv_typ v) "" && String.eqb (gv_name v) "" && negb (gv_is_struct v).
(** Type(): Typ when set, else the struct's name (a panic when neither — never the case for
    the values buildQueries makes; the model answers "") *)
Definition gv_type (v : gvalue) : string :=
  if negb (String.eqb (gv_typ v) "") then gv_typ v
  else match gv_struct v with Some (n, _) => n | None => "" end.
Definition gv_fields (v : gvalue) : list string :=
  match gv_struct v with Some (_, fs) => fs | None => [] end.

Record gquery := mkGQ {
  gq_cmd : string;
  gq_source : string;
  gq_ret : gvalue;
  gq_arg : gvalue
}.

(** hasRetType *)
Definition gq_scanned (q : gquery) : bool := String.eqb (gq_cmd q) ":one" || String.eqb (gq_cmd q) ":many".
Definition gq_has_ret (q : gquery) : bool := gq_scanned q && negb (gv_is_empty (gq_ret q)).

Record goverride := mkOV {
  ov_basic : bool;
  ov_type_name : string;
  ov_import_path : string;
  ov_package : string
}.

Record gimporter := mkGI {
  gi_structs : list (list string);      (* the field types of every model struct *)
  gi_nenums : nat;
  gi_queries : list gquery;
  gi_overrides : list goverride;
  gi_prepared : bool
}.

(** ImportSpec: (ID, Path) *)
Definition ispec := (string * string)%type.

(** strings.TrimPrefix(t, "[]") *)
Definition strip_slice (t : string) : string := trim_prefix t "[]".
Definition is_slice (t : string) : bool := has_prefix t "[]".

(** usesType *)
Definition uses_type (structs : list (list string)) (typ : string) : bool :=
  existsb (fun fs => existsb (fun t => has_prefix (strip_slice t) typ) fs) structs.

(** the closure `uses` of interfaceImports *)
Definition iface_uses (qs : list gquery) (name : string) : bool :=
  existsb (fun q =>
    (gq_has_ret q && has_prefix (gv_type (gq_ret q)) name)
    || (negb (gv_is_empty (gq_arg q)) && has_prefix (gv_type (gq_arg q)) name)) qs.

(** the closure `uses` of queryImports over the file's queries *)
Definition fields_use (v : gvalue) (name : string) : bool :=
  gv_emit v && existsb (fun t => has_prefix (strip_slice t) name) (gv_fields v).
Definition value_uses (v : gvalue) (name : string) : bool :=
  fields_use v name || has_prefix (gv_type v) name.
(** since fix 5727687 the emitted row struct counts for every command *)
Definition query_uses (gq : list gquery) (name : string) : bool :=
  existsb (fun q =>
    fields_use (gq_ret q) name
    || (gq_has_ret q && has_prefix (gv_type (gq_ret q)) name)
    || (negb (gv_is_empty (gq_arg q)) && value_uses (gq_arg q) name)) gq.

(** sliceScan *)
Definition slice_not_bytes (t : string) : bool := is_slice t && negb (String.eqb t "[]byte").
Definition value_slices (v : gvalue) : bool :=
  if gv_is_struct v then existsb slice_not_bytes (gv_fields v) else slice_not_bytes (gv_type v).
Definition slice_scan (gq : list gquery) : bool :=
  existsb (fun q =>
    (gq_has_ret q && value_slices (gq_ret q))
    || (negb (gv_is_empty (gq_arg q)) && value_slices (gq_arg q))) gq.

Definition ov_custom (o : goverride) : bool := negb (ov_basic o) && negb (String.eqb (ov_type_name o) "").
(** _, ok := overrideTypes[t] *)
Definition overridden (ovs : list goverride) (t : string) : bool :=
  existsb (fun o => ov_custom o && String.eqb (ov_type_name o) t) ovs.

(** sets as duplicate-free lists kept in insertion order; the real lists are
    sorted by path afterwards, which the judge undoes by comparing as sets *)
Definition add_str (x : string) (l : list string) : list string := if mem_str x l then l else l ++ [x].
Definition spec_eqb (a b : ispec) : bool := String.eqb (fst a) (fst b) && String.eqb (snd a) (snd b).
Definition mem_spec (x : ispec) (l : list ispec) : bool := existsb (spec_eqb x) l.
Definition add_spec (x : ispec) (l : list ispec) : list ispec := if mem_spec x l then l else l ++ [x].

(** the part the three importers share: std = base + database/sql + stdlibTypes,
    pkg = pq / uuid unless overridden + the overrides' own imports *)
(** [tbl] is the stdlibTypes map in the order Go happens to iterate it *)
Definition std_set_tbl (tbl : list (string * string)) (uses : string -> bool) (base : list string) (want_sql : bool) : list string :=
  let s1 := if uses "sql.Null" || want_sql then add_str "database/sql" base else base in
  fold_left (fun acc p => if uses (fst p) then add_str (snd p) acc else acc) tbl s1.
Definition std_set := std_set_tbl stdlib_types.

Definition pkg_set (uses : string -> bool) (want_pq : bool) (std : list string) (ovs : list goverride) : list ispec :=
  let p0 := if want_pq then [("", "github.com/lib/pq")] else [] in
  let p1 := if uses "pq.NullTime" && negb (overridden ovs "pq.NullTime") then add_spec ("", "github.com/lib/pq") p0 else p0 in
  let p2 := if uses "uuid.UUID" && negb (overridden ovs "uuid.UUID") then add_spec ("", "github.com/google/uuid") p1 else p1 in
  fold_left (fun acc o =>
    if ov_custom o && (negb (mem_str (ov_import_path o) std) || negb (String.eqb (ov_package o) "")) && uses (ov_type_name o)
    then add_spec (ov_package o, ov_import_path o) acc else acc) ovs p2.

Definition file_imports := (list string * list ispec)%type.

Definition db_imports (i : gimporter) : file_imports :=
  (["context"; "database/sql"] ++ (if gi_prepared i then ["fmt"] else []), []).

Definition model_imports (i : gimporter) : file_imports :=
  let uses := uses_type (gi_structs i) in
  let std0 := std_set uses [] false in
  let std := if Nat.ltb 0 (gi_nenums i) then add_str "fmt" std0 else std0 in
  (* the custom imports consult std before "fmt" is added?  no: fmt is added first in the code *)
  (std, pkg_set uses false std (gi_overrides i)).

Definition has_execresult (qs : list gquery) : bool := existsb (fun q => String.eqb (gq_cmd q) ":execresult") qs.

Definition interface_imports (i : gimporter) : file_imports :=
  let uses := iface_uses (gi_queries i) in
  let std := std_set uses ["context"] (has_execresult (gi_queries i)) in
  (std, pkg_set uses false std (gi_overrides i)).

Definition queries_of_file (i : gimporter) (file : string) : list gquery :=
  filter (fun q => String.eqb (gq_source q) file) (gi_queries i).

Definition query_imports (i : gimporter) (file : string) : file_imports :=
  let gq := queries_of_file i file in
  let uses := query_uses gq in
  let std := std_set uses ["context"] (has_execresult gq) in
  (std, pkg_set uses (slice_scan gq) std (gi_overrides i)).

(** Imports(filename) *)
Definition imports_of (i : gimporter) (file : string) : file_imports :=
  if String.eqb file "db.go" then db_imports i
  else if String.eqb file "models.go" then model_imports i
  else if String.eqb file "querier.go" then interface_imports i
  else query_imports i file.
