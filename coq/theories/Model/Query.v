(** Transcription of the query half of internal/compiler:
    find_params.go, parse.go (uniqueParamRefs, sort, rangeVars),
    sql/rewrite/parameters.go (NamedParameters), sql/validate/{param_ref,param_style,cmd,insert_stmt}.go,
    resolve.go (resolveCatalogRefs), query_catalog.go, output_columns.go, to_column.go, expand.go.
    Go panics (index out of range, nil dereference, explicit panic) are [Panic]. *)
From Verif Require Export Base.Str Base.Result Model.Ast Model.Catalog Model.Source.
Open Scope string_scope.
Open Scope list_scope.

(** * Data (internal/compiler/query.go) *)
Record tname := mkTN { tn_cat : string; tn_schema : string; tn_name : string }.
Record qcol := mkQC {
  qc_name : string; qc_dt : string; qc_nn : bool; qc_arr : bool; qc_scope : string;
  qc_table : option tname }.
Record qtable := mkQT { qt_rel : tname; qt_cols : list qcol }.
Record param := mkP { p_num : Z; p_col : option qcol }.

Inductive engine_t := EPostgres | EMySQL.

(** A function of the catalog as ResolveFuncCall sees it. *)
Record farg := mkFA { fa_name : string; fa_type : qname; fa_default : bool; fa_variadic : bool }.
Record fsig := mkFS { fs_schema : string; fs_name : string; fs_args : list farg; fs_ret : qname }.

Record env := mkEnv { env_engine : engine_t; env_cat : catalog; env_funcs : list fsig; env_reserved : string -> bool }.

(** * Small helpers *)
(** an error that carries a source location (sqlerr.Error.Location): "@<loc>:msg" *)
Definition z_to_string (z : Z) : string :=
  (fix go (fuel : nat) (n : N) (acc : string) : string :=
     match fuel with
     | O => acc
     | S k => let d := N.modulo n 10 in
              let acc' := String (ascii_of_N (48 + d)) acc in
              if N.eqb (N.div n 10) 0 then acc' else go k (N.div n 10) acc'
     end) 20%nat (Z.to_N z) "".


Definition some_or {A} (d : A) (o : option A) : A := match o with Some x => x | None => d end.

Fixpoint nth_node (l : list node) (i : nat) : option node :=
  match l, i with
  | x :: _, O => Some x
  | _ :: r, S k => nth_node r k
  | [], _ => None
  end.

(** compat.go stringSlice / ParseTableName on a RangeVar *)
Definition table_of_rangevar (rv : node) : tname :=
  mkTN (str_of "Catalogname" rv) (str_of "Schemaname" rv) (str_of "Relname" rv).

(** resolve.go dataType *)
Definition data_type (q : qname) : string :=
  if String.eqb (q_schema q) "" then q_name q else q_schema q +++ "." +++ q_name q.

(** to_column.go toColumn: ParseTypeName must succeed (1..3 name parts), else an error
    (a panic before /repo cb978d6) *)
Definition to_column (tn : node) : result qcol :=
  if is_nil tn then Err "can't build column for nil type name" else
  let parts := string_items (kid "Names" tn) in
  match parts with
  | [_] | [_; _] | [_; _; _] =>
      Ok (mkQC "" (trim_prefix (String.concat "." parts) ".") true
               (negb (Nat.eqb (List.length (kid_items "ArrayBounds" tn)) 0)) "" None)
  | _ => Err "invalid type name"
  end.

(** * find_params.go *)
Inductive pparent := PNode (n : node) | PLimitCount | PLimitOffset.
Record pref := mkPR { pr_parent : pparent; pr_rv : node; pr_ref : node; pr_name : string }.
Record pstate := mkPS { ps_parent : node; ps_rv : node; ps_lcount : node; ps_loffset : node }.
Definition pacc := (list pref * list Z)%type.   (* refs (append order), seen locations *)

Definition mem_z (z : Z) (l : list Z) : bool := existsb (Z.eqb z) l.

(** the InsertStmt special case: bare placeholders of the SELECT target list and
    of every VALUES row are paired with Cols.Items[i] (unchecked index) *)
Fixpoint insert_pairs (cols : list node) (rel : node) (i : nat) (vals : list node) (unwrap : bool) (acc : pacc)
  : result pacc :=
  match vals with
  | [] => Ok acc
  | v :: rest =>
      let cand := if unwrap then (if is_kind "ResTarget" v then kid "Val" v else Nil) else v in
      if is_kind "ParamRef" cand then
        match nth_node cols i with
        | None => insert_pairs cols rel (S i) rest unwrap acc      (* no column at this position: left to the generic walk *)
        | Some c =>
            insert_pairs cols rel (S i) rest unwrap
              (fst acc ++ [mkPR (PNode c) rel cand ""], snd acc ++ [loc_of cand])
        end
      else insert_pairs cols rel (S i) rest unwrap acc
  end.

Fixpoint insert_rows (cols : list node) (rel : node) (rows : list node) (acc : pacc) : result pacc :=
  match rows with
  | [] => Ok acc
  | r :: rest =>
      match items_opt r with
      | None => insert_rows cols rel rest acc
      | Some vs => do acc' <- insert_pairs cols rel 0 vs false acc; insert_rows cols rel rest acc'
      end
  end.

(** the MultiAssignRef special case *)
Fixpoint multi_set (colno : Z) (num : Z) (i : Z) (args : list node) : bool :=
  match args with
  | [] => false
  | a :: r =>
      (is_kind "ParamRef" a && Z.eqb colno (i + 1) && Z.eqb (int_of "Number" a) num)
      || multi_set colno num (i + 1) r
  end.

(** paramSearch.Visit: (Some st', acc') = keep walking the children with st';
    (None, acc') = the visitor returned nil *)
Definition visit_param (st : pstate) (n : node) (acc : pacc) : result (option pstate * pacc) :=
  let k := kind_of n in
  if String.eqb k "A_Expr" || String.eqb k "FuncCall" || String.eqb k "ResTarget" || String.eqb k "TypeCast" then
    Ok (Some (mkPS n (ps_rv st) (ps_lcount st) (ps_loffset st)), acc)
  else if String.eqb k "InsertStmt" then
    let s := kid "SelectStmt" n in
    if is_kind "SelectStmt" s then
      match items_opt (kid "TargetList" s), items_opt (kid "ValuesLists" s) with
      | Some tl, Some vl =>
          let cols := kid "Cols" n in
          do a1 <- insert_pairs (items cols) (kid "Relation" n) 0 tl true acc;
            do a2 <- insert_rows (items cols) (kid "Relation" n) vl a1;
            Ok (Some st, a2)
      | _, _ => Panic "nil dereference: TargetList/ValuesLists"
      end
    else Ok (Some st, acc)
  else if String.eqb k "RangeVar" then
    Ok (Some (mkPS (ps_parent st) n (ps_lcount st) (ps_loffset st)), acc)
  else if String.eqb k "SelectStmt" then
    let lc := if is_nil (kid "LimitCount" n) then ps_lcount st else kid "LimitCount" n in
    let lo := if is_nil (kid "LimitOffset" n) then ps_loffset st else kid "LimitOffset" n in
    Ok (Some (mkPS (ps_parent st) (ps_rv st) lc lo), acc)
  else if String.eqb k "ParamRef" then
    let num := int_of "Number" n in
    let p0 := PNode (ps_parent st) in
    let p1 := if is_kind "ParamRef" (ps_lcount st) && Z.eqb num (int_of "Number" (ps_lcount st)) then PLimitCount else p0 in
    let p2 := if is_kind "ParamRef" (ps_loffset st) && Z.eqb num (int_of "Number" (ps_loffset st)) then PLimitOffset else p1 in
    if mem_z (loc_of n) (snd acc) then Ok (None, acc)
    else
      let set :=
        match p2 with
        | PNode res =>
            if is_kind "ResTarget" res && is_kind "MultiAssignRef" (kid "Val" res) then
              let multi := kid "Val" res in
              let src := kid "Source" multi in
              if is_kind "RowExpr" src
              then multi_set (int_of "Colno" multi) num 0 (kid_items "Args" src)
              else false
            else true
        | _ => true
        end in
      if set then Ok (None, (fst acc ++ [mkPR p2 (ps_rv st) n ""], snd acc ++ [loc_of n]))
      else Ok (None, acc)
  else Ok (Some st, acc).

Fixpoint walk_params (st : pstate) (n : node) (acc : pacc) : result pacc :=
  match visit_param st n acc with
  | Err m => Err m
  | Panic m => Panic m
  | Ok (None, acc') => Ok acc'
  | Ok (Some st', acc') =>
      match n with
      | Nil => Ok acc'
      | NList l =>
          (fix go (l : list node) (acc : pacc) : result pacc :=
             match l with
             | [] => Ok acc
             | x :: r => match walk_params st' x acc with Ok a => go r a | e => e end
             end) l acc'
      | Node k _ _ kids =>
          (fix go (l : list (string * node)) (acc : pacc) : result pacc :=
             match l with
             | [] => Ok acc
             | (f, x) :: r =>
                 if walk_visible k f
                 then match walk_params st' x acc with Ok a => go r a | e => e end
                 else go r acc
             end) kids acc'
      end
  end.

Definition find_parameters (root : node) : result (list pref) :=
  do a <- walk_params (mkPS Nil Nil Nil Nil) root ([], []); Ok (fst a).

(** shape of the trees findParameters can walk without a nil dereference: checked on every tree the parsers
    return (Judge/J03.v), hypothesis of C18_find_parameters_partial *)
(** the INSERT special case of paramSearch.Visit dereferences both lists of the source SELECT *)
Definition insert_ok (n : node) : bool :=
  if is_kind "InsertStmt" n && is_kind "SelectStmt" (kid "SelectStmt" n)
  then match items_opt (kid "TargetList" (kid "SelectStmt" n)), items_opt (kid "ValuesLists" (kid "SelectStmt" n)) with
       | Some _, Some _ => true
       | _, _ => false
       end
  else true.
Definition inserts_ok (root : node) : bool := forallb insert_ok (preorder root).


Definition ref_number (r : pref) : Z := int_of "Number" (pr_ref r).

(** parse.go uniqueParamRefs *)
Fixpoint unique_refs (seen : list Z) (l : list pref) : list pref :=
  match l with
  | [] => []
  | r :: rest => if mem_z (ref_number r) seen then unique_refs seen rest
                 else r :: unique_refs (ref_number r :: seen) rest
  end.

(** sort.Slice by Number; the numbers are pairwise distinct here, so every
    sorting algorithm gives this result *)
Fixpoint insert_ref (r : pref) (l : list pref) : list pref :=
  match l with
  | [] => [r]
  | x :: rest => if (ref_number r <=? ref_number x)%Z then r :: x :: rest else x :: insert_ref r rest
  end.
Definition sort_refs (l : list pref) : list pref := fold_right insert_ref [] l.

(** parse.go, positional mode: sort.SliceStable by source location *)
Definition ref_loc (r : pref) : Z := loc_of (pr_ref r).
Fixpoint insert_ref_loc (r : pref) (l : list pref) : list pref :=
  match l with
  | [] => [r]
  | x :: rest => if (ref_loc r <=? ref_loc x)%Z then r :: x :: rest else x :: insert_ref_loc r rest
  end.
Definition sort_refs_loc (l : list pref) : list pref := fold_right insert_ref_loc [] l.
(** ... each occurrence replaced by the first reference (walk order) to its number *)
Definition first_ref (firsts : list pref) (r : pref) : pref :=
  match filter (fun f => Z.eqb (ref_number f) (ref_number r)) firsts with
  | f :: _ => f
  | [] => r
  end.
Definition positional_refs (refs0 : list pref) : list pref :=
  map (first_ref (unique_refs [] refs0)) (sort_refs_loc refs0).

(** * validate *)
Definition is_param_func (n : node) : bool :=
  is_kind "FuncCall" n && negb (is_nil (kid "Func" n))
  && String.eqb (str_of "Schema" (kid "Func" n)) "sqlc" && String.eqb (str_of "Name" (kid "Func" n)) "arg".
Definition is_param_sign (n : node) : bool :=
  is_kind "A_Expr" n && String.eqb (join_list (kid "Name" n) ".") "@".

Definition e_mixed := "query mixes positional parameters ($1) and named parameters (sqlc.arg or @arg)".

(** validate.ParamStyle *)
Definition param_style_ok (stmt : node) : bool :=
  let pos := negb (Nat.eqb (List.length (search (is_kind "ParamRef") stmt)) 0) in
  let fn := negb (Nat.eqb (List.length (search is_param_func stmt)) 0) in
  let sg := negb (Nat.eqb (List.length (search is_param_sign stmt)) 0) in
  negb ((pos && (sg || fn)) || (fn && (sg || pos)) || (sg && (pos || fn))).

(** validate.ParamRef: with k distinct numbers, 1..k must all occur *)
Fixpoint dedup_z (l : list Z) : list Z :=
  match l with [] => [] | x :: r => if mem_z x r then dedup_z r else x :: dedup_z r end.
Fixpoint first_gap (seen : list Z) (i : Z) (fuel : nat) : option Z :=
  match fuel with
  | O => None
  | S k => if mem_z i seen then first_gap seen (i + 1) k else Some i
  end.
Definition param_ref_gap (stmt : node) : option Z :=
  let nums := dedup_z (map (int_of "Number") (search (is_kind "ParamRef") stmt)) in
  first_gap nums 1 (List.length nums).

(** validate.InsertStmt *)
Definition insert_stmt_ok (stmt : node) : bool :=
  let sel := kid "SelectStmt" stmt in
  if negb (is_kind "SelectStmt" sel) then true else
  match items_opt (kid "ValuesLists" sel) with
  | Some [row] =>
      match items_opt row with
      | Some vals => Nat.eqb (List.length (kid_items "Cols" stmt)) (List.length vals)
      | None => true
      end
  | _ => true
  end.

(** validate.Cmd *)
Definition cmd_ok (stmt : node) (cmd : string) : bool :=
  if negb (String.eqb cmd ":many" || String.eqb cmd ":one") then true else
  let k := kind_of stmt in
  if String.eqb k "DeleteStmt" || String.eqb k "InsertStmt" || String.eqb k "UpdateStmt"
  then negb (Nat.eqb (List.length (kid_items "ReturningList" stmt)) 0)
  else true.

(** * rewrite.NamedParameters *)
Record nstate := mkNS { ns_args : list (string * Z); ns_argn : Z; ns_edits : list edit }.

(** flatten: concatenated Str of every String node below, and whether an A_Const occurs *)
Definition flatten (n : node) : string * bool :=
  let pre := preorder n in
  (String.concat "" (flat_map (fun x => if is_kind "String" x then [str_of "Str" x] else []) pre),
   existsb (is_kind "A_Const") pre).

Definition param_ref_node (num loc : Z) : node :=
  Node "ParamRef" [] (filter (fun p => negb (Z.eqb (snd p) 0)) [("Location", loc); ("Number", num)]) [].

Definition set_arg (args : list (string * Z)) (k : string) (v : Z) : list (string * Z) :=
  if existsb (fun p => String.eqb (fst p) k) args
  then map (fun p => if String.eqb (fst p) k then (k, v) else p) args
  else args ++ [(k, v)].

Definition is_sign_cast (n : node) : bool :=
  is_param_sign n && is_kind "TypeCast" (kid "Rexpr" n).

Definition set_kid (f : string) (v : node) (n : node) : node :=
  match n with
  | Node k s i kids => Node k s i (map (fun p => if String.eqb (fst p) f then (f, v) else p) kids)
  | other => other
  end.

(** one named-parameter site; [stmt_loc] is RawStmt.StmtLocation *)
Definition named_site (eng : engine_t) (stmt_loc : Z) (n : node) (st : nstate) : option (node * nstate) :=
  if is_param_func n then
    let (p, is_const) := flatten (kid "Args" n) in
    let loc := loc_of n in
    let reuse := match assoc (ns_args st) p, eng with Some num, EPostgres => Some num | _, _ => None end in
    let '(num, args', argn') :=
      match reuse with
      | Some num => (num, ns_args st, ns_argn st)
      | None => (ns_argn st + 1, set_arg (ns_args st) p (ns_argn st + 1), ns_argn st + 1)
      end%Z in
    let old := if is_const then "sqlc.arg('" +++ p +++ "')" else "sqlc.arg(" +++ p +++ ")" in
    let new := match eng with EMySQL => "?" | EPostgres => "$" +++ z_to_string (some_or 0%Z (assoc args' p)) end in
    Some (param_ref_node num loc, mkNS args' argn' (ns_edits st ++ [mkEdit (loc - stmt_loc) old new]))
  else if is_sign_cast n then
    let cast := kid "Rexpr" n in
    let (p, _) := flatten (kid "Arg" cast) in
    let loc := loc_of n in
    let '(num, args', argn') :=
      match assoc (ns_args st) p with
      | Some num => (num, ns_args st, ns_argn st)
      | None => (ns_argn st + 1, set_arg (ns_args st) p (ns_argn st + 1), ns_argn st + 1)
      end%Z in
    Some (set_kid "Arg" (param_ref_node num loc) cast,
          mkNS args' argn' (ns_edits st ++ [mkEdit (loc - stmt_loc) ("@" +++ p) ("$" +++ z_to_string (some_or 0%Z (assoc args' p)))]))
  else if is_param_sign n then
    let (p, _) := flatten (kid "Rexpr" n) in
    let loc := loc_of n in
    let '(num, args', argn') :=
      match assoc (ns_args st) p with
      | Some num => (num, ns_args st, ns_argn st)
      | None => (ns_argn st + 1, set_arg (ns_args st) p (ns_argn st + 1), ns_argn st + 1)
      end%Z in
    Some (param_ref_node num loc,
          mkNS args' argn' (ns_edits st ++ [mkEdit (loc - stmt_loc) ("@" +++ p) ("$" +++ z_to_string (some_or 0%Z (assoc args' p)))]))
  else None.

(** astutils.Apply with the pre-function above (children in Apply order =
    stored order, see [orders_agree]) *)
Fixpoint named_apply (eng : engine_t) (stmt_loc : Z) (n : node) (st : nstate) : node * nstate :=
  match named_site eng stmt_loc n st with
  | Some r => r
  | None =>
      match n with
      | Nil => (Nil, st)
      | NList l =>
          let (l', st') :=
            (fix go (l : list node) (st : nstate) : list node * nstate :=
               match l with
               | [] => ([], st)
               | x :: r => let (x', s1) := named_apply eng stmt_loc x st in
                           let (r', s2) := go r s1 in (x' :: r', s2)
               end) l st in
          (NList l', st')
      | Node k s i kids =>
          let (kids', st') :=
            (fix go (l : list (string * node)) (st : nstate) : list (string * node) * nstate :=
               match l with
               | [] => ([], st)
               | (f, x) :: r =>
                   if walk_visible k f then
                     let (x', s1) := named_apply eng stmt_loc x st in
                     let (r', s2) := go r s1 in ((f, x') :: r', s2)
                   else let (r', s2) := go r st in ((f, x) :: r', s2)
               end) kids st in
          (Node k s i kids', st')
      end
  end.

(** returns the rewritten RawStmt, number -> name, edits *)
Definition named_parameters (eng : engine_t) (raw : node) : node * list (Z * string) * list edit :=
  if Nat.eqb (List.length (search is_param_func raw) + List.length (search is_param_sign raw)) 0
  then (raw, [], [])
  else
    let (raw', st) := named_apply eng (int_of "StmtLocation" raw) raw (mkNS [] 0%Z []) in
    (raw', map (fun p => (snd p, fst p)) (ns_args st), ns_edits st).

Fixpoint assoc_z {A} (l : list (Z * A)) (k : Z) : option A :=
  match l with [] => None | (k', v) :: r => if Z.eqb k' k then Some v else assoc_z r k end.
(** Go map built by iterating args: a later entry with the same number wins; numbers are unique per name *)
Definition param_name (names : list (Z * string)) (n : Z) (default : string) : string :=
  some_or default (assoc_z names n).

(** * Catalog access for queries *)
Definition cat_get_table (c : catalog) (t : tname) : option table :=
  let ns := if String.eqb (tn_schema t) "" then cat_default c else tn_schema t in
  match get_schema c ns with
  | None => None
  | Some s => get_table s (tn_name t)
  end.
Definition cat_table_err (c : catalog) (t : tname) : string :=
  let ns := if String.eqb (tn_schema t) "" then cat_default c else tn_schema t in
  match get_schema c ns with
  | None => "schema """ +++ ns +++ """ does not exist"
  | Some _ => "relation """ +++ tn_name t +++ """ does not exist"
  end.

(** query_catalog.go ConvertColumn *)
Definition convert_column (rel : tname) (c : column) : qcol :=
  mkQC (col_name c) (data_type (col_type c)) (col_notnull c) (col_array c) "" (Some rel).

(** catalog/public.go ResolveFuncCall over the function table *)
Definition fn_matches (nnamed npos : nat) (names : list string) (f : fsig) : bool :=
  let args := fs_args f in
  let defaults := List.length (filter (fun a => fa_default a) args) + List.length (filter fa_variadic args) in
  let variadic := existsb fa_variadic args in
  let n := (nnamed + npos)%nat in
  let count_ok :=
    if variadic then negb (Nat.ltb n (List.length args - defaults))
    else negb (Nat.ltb (List.length args) n) && negb (Nat.ltb n (List.length args - defaults)) in
  count_ok && forallb (fun nm => existsb (fun a => negb (String.eqb (fa_name a) "") && String.eqb (fa_name a) nm) args) names.

Inductive fres := FFound (f : fsig) | FNotFound | FError (m : string).

Definition resolve_func (e : env) (call : node) : fres :=
  let fn := kid "Func" call in
  let name := to_lower (str_of "Name" fn) in
  let ns := if String.eqb (str_of "Schema" fn) "" then cat_default (env_cat e) else str_of "Schema" fn in
  (* schemasToSearch: pg_catalog (PostgreSQL search path) then ns; a missing schema is "not found" *)
  let path := match env_engine e with EPostgres => ["pg_catalog"; ns] | EMySQL => [ns] end in
  if negb (forallb (fun s => match get_schema (env_cat e) s with Some _ => true | None => false end) path)
  then FNotFound else
  let funs := flat_map (fun s => filter (fun f => String.eqb (fs_schema f) s && String.eqb (to_lower (fs_name f)) name) (env_funcs e)) path in
  match funs with
  | [] => FNotFound
  | _ =>
      let args := kid_items "Args" call in
      (* named arguments may not precede positional ones *)
      let fix scan (l : list node) (seen_named : bool) (npos nnamed : nat) (names : list string) : option (nat * nat * list string) :=
        match l with
        | [] => Some (npos, nnamed, names)
        | a :: r =>
            if is_kind "NamedArgExpr" a
            then scan r true npos (S nnamed) (match str_opt "Name" a with Some nm => names ++ [nm] | None => names end)
            else if seen_named then None else scan r false (S npos) nnamed names
        end in
      match scan args false 0%nat 0%nat [] with
      | None => FError "positional argument cannot follow named argument"
      | Some (npos, nnamed, names) =>
          match find_first (fn_matches nnamed npos names) funs with
          | Some f => FFound f
          | None => FError ("function " +++ str_of "Name" fn +++ " does not exist")
          end
      end
  end.

(** * output_columns.go *)
Definition has_star_ref (cf : node) : bool := existsb (is_kind "A_Star") (kid_items "Fields" cf).

Definition comparison_ops := ["<"; "<="; ">"; ">="; "="; "<>"; "!="].
Definition math_ops := ["+"; "-"; "*"; "/"; "%"; "^"; "|/"; "||/"; "!"; "!!"; "@"; "&"; "|"; "#"; "~"; "<<"; ">>"].

Definition res_name (res : node) : option string := str_opt "Name" res.

Definition err_at {A} (loc : Z) (msg : string) : result A :=
  if (loc =? 0)%Z then Err msg else Err ("@" +++ z_to_string loc +++ ":" +++ msg).
Definition e_col_missing (n : string) := "column """ +++ n +++ """ does not exist".
Definition e_col_ambiguous (n : string) := "column reference """ +++ n +++ """ is ambiguous".

(** outputColumnRefs *)
Definition output_column_refs (res : node) (tables : list qtable) (ref : node) : result (list qcol) :=
  let parts := string_items (kid "Fields" ref) in
  match parts with
  | [name] | [_; name] =>
      let alias := match parts with [a; _] => a | _ => "" end in
      let cols :=
        flat_map (fun t =>
          if negb (String.eqb alias "") && negb (String.eqb (tn_name (qt_rel t)) alias) then []
          else flat_map (fun c =>
                 if String.eqb (qc_name c) name
                 then [mkQC (some_or (qc_name c) (res_name res)) (qc_dt c) (qc_nn c) (qc_arr c) "" (qc_table c)]
                 else []) (qt_cols t)) tables in
      match cols with
      | [] => err_at (loc_of res) (e_col_missing name)
      | [_] => Ok cols
      | _ => err_at (loc_of res) (e_col_ambiguous name)
      end
  | _ => Err "unknown number of fields"
  end.

Definition cast_column (res : node) (tc : node) : result qcol :=
  if is_nil (kid "TypeName" tc) then Err "no type name type cast" else
  do col <- to_column (kid "TypeName" tc);
  let arg := kid "Arg" tc in
  let n0 := if is_kind "ColumnRef" arg then join_list (kid "Fields" arg) "_" else "" in
  let nm := some_or n0 (res_name res) in
  Ok (mkQC nm (qc_dt col) (qc_nn col) (qc_arr col) "" None).

Definition star_columns (res : node) (tables : list qtable) (ref : node) : list qcol :=
  let scope := join_list (kid "Fields" ref) "." in
  flat_map (fun t =>
    if negb (String.eqb scope "") && negb (String.eqb scope (tn_name (qt_rel t))) then []
    else map (fun c => mkQC (some_or (qc_name c) (res_name res)) (qc_dt c) (qc_nn c) (qc_arr c) scope (qc_table c))
             (qt_cols t)) tables.

(** one result target *)
Definition target_columns (e : env) (tables : list qtable) (res : node) : result (list qcol) :=
  let v := kid "Val" res in
  let k := kind_of v in
  let name := some_or "" (res_name res) in
  let any := mkQC name "any" false false "" None in
  if String.eqb k "A_Expr" then
    let op := join_list (kid "Name" v) "" in
    if mem_str op comparison_ops then Ok [mkQC name "bool" true false "" None]
    else if mem_str op math_ops then Ok [mkQC name "int" true false "" None]
    else Ok [any]
  else if String.eqb k "CaseExpr" then
    let d := kid "Defresult" v in
    if is_kind "TypeCast" d then do c <- cast_column res d; Ok [c] else Ok [any]
  else if String.eqb k "CoalesceExpr" then
    (fix go (args : list node) : result (list qcol) :=
       match args with
       | [] => Ok [mkQC "coalesce" "any" false false "" None]
       | a :: r =>
           if is_kind "ColumnRef" a then
             do cs <- output_column_refs res tables a;
             match cs with
             | [] => go r
             | _ => Ok (map (fun c => mkQC (qc_name c) (qc_dt c) true (qc_arr c) (qc_scope c) (qc_table c)) cs)
             end
           else go r
       end) (kid_items "Args" v)
  else if String.eqb k "ColumnRef" then
    if has_star_ref v then Ok (star_columns res tables v) else output_column_refs res tables v
  else if String.eqb k "FuncCall" then
    let nm := some_or (str_of "Name" (kid "Func" v)) (res_name res) in
    match resolve_func e v with
    | FFound f => Ok [mkQC nm (data_type (fs_ret f)) true false "" None]
    | _ => Ok [mkQC nm "any" false false "" None]
    end
  else if String.eqb k "SubLink" then
    let nm := some_or "exists" (res_name res) in
    if Z.eqb (int_of "SubLinkType" v) 0 then Ok [mkQC nm "bool" true false "" None]
    else Ok [mkQC nm "any" false false "" None]
  else if String.eqb k "TypeCast" then do c <- cast_column res v; Ok [c]
  else Ok [any].

Fixpoint targets_columns (e : env) (tables : list qtable) (targets : list node) : result (list qcol) :=
  match targets with
  | [] => Ok []
  | t :: rest =>
      if is_kind "ResTarget" t
      then do a <- target_columns e tables t; do b <- targets_columns e tables rest; Ok (a ++ b)
      else targets_columns e tables rest
  end.

(** QueryCatalog: the CTEs of the statement in front of the catalog *)
Definition qcatalog := list (string * qtable).

Definition qc_get_table (e : env) (ctes : qcatalog) (rel : tname) : result qtable :=
  (* a schema-qualified name never denotes a CTE *)
  match (if String.eqb (tn_schema rel) "" then assoc ctes (tn_name rel) else None) with
  | Some t => Ok t
  | None =>
      match cat_get_table (env_cat e) rel with
      | Some t => Ok (mkQT rel (map (convert_column rel) (tab_cols t)))
      | None => Err (cat_table_err (env_cat e) rel)
      end
  end.

(** the from-list search of sourceTables: every RangeVar / RangeSubselect below *)
Definition from_items (n : node) : list node :=
  search (fun x => is_kind "RangeVar" x || is_kind "RangeSubselect" x) n.

Definition stmt_targets (n : node) : option node :=
  let k := kind_of n in
  if String.eqb k "DeleteStmt" || String.eqb k "InsertStmt" || String.eqb k "UpdateStmt" then Some (kid "ReturningList" n)
  else if String.eqb k "SelectStmt" then Some (kid "TargetList" n)
  else if String.eqb k "TruncateStmt" then Some (NList [])
  else None.

(** outputColumns / sourceTables are mutually recursive through sub-selects;
    explicit fuel, out-of-fuel is an error value excluded by the theorems *)
Fixpoint output_columns (fuel : nat) (e : env) (ctes : qcatalog) (n : node) : result (list qcol) :=
  match fuel with
  | O => Err "out of fuel"
  | S fuel' =>
      let source_tables : result (list qtable) :=
        let k := kind_of n in
        let lst :=
          if String.eqb k "DeleteStmt" || String.eqb k "InsertStmt" then Ok [kid "Relation" n]
          else if String.eqb k "SelectStmt" then Ok (from_items (kid "FromClause" n))
          else if String.eqb k "TruncateStmt" then Ok (search (is_kind "RangeVar") (kid "Relations" n))
          else if String.eqb k "UpdateStmt" then
            match items_opt (kid "FromClause" n) with
            | Some l => Ok (l ++ [kid "Relation" n])
            | None => Panic "nil dereference: n.FromClause.Items"
            end
          else Err "sourceTables: unsupported node type" in
        do l <- lst;
        (fix go (l : list node) : result (list qtable) :=
           match l with
           | [] => Ok []
           | it :: rest =>
               if is_kind "RangeSubselect" it then
                 do cols <- output_columns fuel' e ctes (kid "Subquery" it);
                 if is_nil (kid "Alias" it) then Panic "nil dereference: n.Alias.Aliasname" else
                 do r <- go rest;
                 Ok (mkQT (mkTN "" "" (str_of "Aliasname" (kid "Alias" it))) cols :: r)
               else if is_kind "RangeVar" it then
                 let fqn := table_of_rangevar it in
                 do t <- qc_get_table e ctes fqn;
                 let t' := if is_nil (kid "Alias" it) then t
                           else mkQT (mkTN (tn_cat (qt_rel t)) (tn_schema (qt_rel t)) (str_of "Aliasname" (kid "Alias" it))) (qt_cols t) in
                 do r <- go rest; Ok (t' :: r)
               else Err "sourceTable: unsupported list item type"
           end) l in
      do tables <- source_tables;
      match stmt_targets n with
      | None => Err "outputColumns: unsupported node type"
      | Some targets =>
          if String.eqb (kind_of n) "SelectStmt" && Nat.eqb (List.length (items targets)) 0 && negb (is_nil (kid "Larg" n))
          then output_columns fuel' e ctes (kid "Larg" n)
          else
            match items_opt targets with
            | None => Panic "nil dereference: targets.Items"
            | Some ts => targets_columns e tables ts
            end
      end
  end.

(** sourceTables alone (expandStmt needs it) *)
Definition source_tables (fuel : nat) (e : env) (ctes : qcatalog) (n : node) : result (list qtable) :=
  let k := kind_of n in
  let lst :=
    if String.eqb k "DeleteStmt" || String.eqb k "InsertStmt" then Ok [kid "Relation" n]
    else if String.eqb k "SelectStmt" then Ok (from_items (kid "FromClause" n))
    else if String.eqb k "TruncateStmt" then Ok (search (is_kind "RangeVar") (kid "Relations" n))
    else if String.eqb k "UpdateStmt" then
      match items_opt (kid "FromClause" n) with
      | Some l => Ok (l ++ [kid "Relation" n])
      | None => Panic "nil dereference: n.FromClause.Items"
      end
    else Err "sourceTables: unsupported node type" in
  do l <- lst;
  (fix go (l : list node) : result (list qtable) :=
     match l with
     | [] => Ok []
     | it :: rest =>
         if is_kind "RangeSubselect" it then
           do cols <- output_columns fuel e ctes (kid "Subquery" it);
           if is_nil (kid "Alias" it) then Panic "nil dereference: n.Alias.Aliasname" else
           do r <- go rest;
           Ok (mkQT (mkTN "" "" (str_of "Aliasname" (kid "Alias" it))) cols :: r)
         else if is_kind "RangeVar" it then
           let fqn := table_of_rangevar it in
           do t <- qc_get_table e ctes fqn;
           let t' := if is_nil (kid "Alias" it) then t
                     else mkQT (mkTN (tn_cat (qt_rel t)) (tn_schema (qt_rel t)) (str_of "Aliasname" (kid "Alias" it))) (qt_cols t) in
           do r <- go rest; Ok (t' :: r)
         else Err "sourceTable: unsupported list item type"
     end) l.

(** buildQueryCatalog *)
Definition build_query_catalog (fuel : nat) (e : env) (stmt : node) : result qcatalog :=
  let k := kind_of stmt in
  let w := if String.eqb k "InsertStmt" || String.eqb k "UpdateStmt" || String.eqb k "SelectStmt"
           then kid "WithClause" stmt else Nil in
  if is_nil w then Ok [] else
  match items_opt (kid "Ctes" w) with
  | None => Panic "nil dereference: with.Ctes.Items"
  | Some ctes =>
      (fix go (l : list node) (qc : qcatalog) : result qcatalog :=
         match l with
         | [] => Ok qc
         | c :: rest =>
             if is_kind "CommonTableExpr" c then
               do cols <- output_columns fuel e qc (kid "Ctequery" c);
               let nm := str_of "Ctename" c in
               let rel := mkTN "" "" nm in
               let t := mkQT rel (map (fun x => mkQC (qc_name x) (qc_dt x) (qc_nn x) (qc_arr x) (qc_scope x) (Some rel)) cols) in
               (* Go map: a later CTE of the same name replaces the earlier one *)
               go rest ((nm, t) :: filter (fun p => negb (String.eqb (fst p) nm)) qc)
             else go rest qc
         end) ctes []
  end.

(** * resolve.go resolveCatalogRefs *)
Definition typemap_lookup (c : catalog) (tables : list tname) (schema rel key : string) : option column :=
  (* typeMap[schema][rel] exists iff some listed table with these exact
     Schema/Name strings is known to the catalog; a later duplicate overwrites with equal content *)
  if existsb (fun t => String.eqb (tn_schema t) schema && String.eqb (tn_name t) rel
                       && match cat_get_table c t with Some _ => true | None => false end) tables
  then match cat_get_table c (mkTN "" schema rel) with
       | Some t => find_first (col_is key) (rev (tab_cols t))   (* map: the last column of that name wins *)
       | None => None
       end
  else None.

Definition resolve_one (e : env) (tables bare : list tname) (aliases : list (string * tname)) (default_table : option tname)
           (names : list (Z * string)) (ref : pref) : result (list param) :=
  let c := env_cat e in
  let num := ref_number ref in
  let pname := param_name names num in
  match pr_parent ref with
  | PLimitOffset => Ok [mkP num (Some (mkQC (pname "offset") "integer" true false "" None))]
  | PLimitCount => Ok [mkP num (Some (mkQC (pname "limit") "integer" true false "" None))]
  | PNode n =>
      let k := kind_of n in
      if String.eqb k "A_Expr" then
        match search (is_kind "ColumnRef") (kid "Lexpr" n) with
        | [] =>
            let dt := if String.eqb (join_list (kid "Name" n) ".") "||" then "string" else "any" in
            Ok [mkP num (Some (mkQC (pname "") dt false false "" None))]
        | lref :: _ =>
            let its := string_items (kid "Fields" lref) in
            match its with
            | [_] | [_; _] =>
                let key := match its with [k0] => k0 | [_; k0] => k0 | _ => "" end in
                let alias := match its with [a; _] => a | _ => "" end in
                let search_in :=
                  if String.eqb alias "" then tables
                  else match assoc aliases alias with
                       | Some orig => [orig]
                       | None =>
                           (* the loop keeps the LAST table of that bare name among the tables that are
                              visible under their own name (range vars without alias) *)
                           match find_first (fun t => String.eqb (tn_name t) alias) (rev bare) with
                           | Some t => [t]
                           | None => tables
                           end
                       end in
                let hits := flat_map (fun t =>
                              match typemap_lookup c tables (tn_schema t) (tn_name t) key with
                              | Some col => [(t, col)] | None => [] end) search_in in
                (* `key = ref.name` after the first hit only matters for named refs; pr_name is never set *)
                match hits with
                | [] => err_at (loc_of lref) (e_col_missing key)
                | [(t, col)] =>
                    Ok [mkP num (Some (mkQC (pname key) (data_type (col_type col)) (col_notnull col) (col_array col) "" (Some t)))]
                | _ => err_at (loc_of lref) (e_col_ambiguous key)
                end
            | _ => err_at (loc_of lref) "unsupported column reference next to a parameter"
            end
        end
      else if String.eqb k "FuncCall" then
        let fres := resolve_func e n in
        let args := kid_items "Args" n in
        let fname := match fres with FFound f => fs_name f | _ => str_of "Name" (kid "Func" n) end in
        let fargs : option (list farg) :=
          match fres with
          | FFound f => match fs_args f with [] => None | l => Some l end
          | _ => match args with [] => None | _ => Some (map (fun _ => mkFA "" (mkQ "" "any") false false) args) end
          end in
        (fix go (l : list node) (i : nat) : result (list param) :=
           match l with
           | [] => Ok []
           | item :: rest =>
               let ik := kind_of item in
               let matches_ref (x : node) := is_kind "ParamRef" x && Z.eqb (int_of "Number" x) num in
               let hit : option string :=   (* Some argName *)
                 if String.eqb ik "ParamRef" then (if matches_ref item then Some "" else None)
                 else if String.eqb ik "TypeCast" then (if matches_ref (kid "Arg" item) then Some "" else None)
                 else if String.eqb ik "NamedArgExpr" then (if matches_ref (kid "Arg" item) then Some (str_of "Name" item) else None)
                 else None in
               match hit with
               | None => go rest (S i)
               | Some arg_name =>
                   match fargs with
                   | None =>
                       do r <- go rest (S i);
                       let dn := if String.eqb arg_name "" then fname else arg_name in
                       Ok (mkP num (Some (mkQC (pname dn) "any" false false "" None)) :: r)
                   | Some fa =>
                       let named_ty := find_first (fun a => String.eqb (fa_name a) arg_name) (rev fa) in
                       let pn_ty : result (string * qname) :=
                         if String.eqb arg_name "" then
                           (* since fix 151ed9c: the arguments of a variadic call beyond the declared list
                              belong to the last declared argument *)
                           match nth_error fa (Nat.min i (List.length fa - 1)) with
                           | Some a => Ok (fa_name a, fa_type a)
                           | None => Panic "index out of range: fun.Args[i]"
                           end
                         else match named_ty with
                              | Some a => Ok (arg_name, fa_type a)
                              | None => err_at (loc_of n) "function has no argument of that name"
                              end in
                       do pt <- pn_ty;
                       do r <- go rest (S i);
                       let pn := if String.eqb (fst pt) "" then fname else fst pt in
                       Ok (mkP num (Some (mkQC (pname pn) (data_type (snd pt)) true false "" None)) :: r)
                   end
               end
           end) args 0%nat
      else if String.eqb k "ResTarget" then
        match str_opt "Name" n with
        | None => Err "*ast.ResTarget has nil name"
        | Some key =>
            let tbl : result (string * string) :=
              if is_nil (pr_rv ref) then
                match default_table with
                | Some d => Ok (tn_schema d, tn_name d)
                | None => err_at (loc_of n) "could not determine data type of parameter"
                end
              else let f := table_of_rangevar (pr_rv ref) in Ok (tn_schema f, tn_name f) in
            do sr <- tbl;
            match typemap_lookup c tables (fst sr) (snd sr) key with
            | Some col =>
                Ok [mkP num (Some (mkQC (pname key) (data_type (col_type col)) (col_notnull col) (col_array col) ""
                                        (Some (mkTN "" (fst sr) (snd sr)))))]
            | None => err_at (loc_of n) (e_col_missing key)
            end
        end
      else if String.eqb k "TypeCast" then
        if is_nil (kid "TypeName" n) then Err "*ast.TypeCast has nil type name" else
        do col <- to_column (kid "TypeName" n);
        Ok [mkP num (Some (mkQC (pname (qc_name col)) (qc_dt col) (qc_nn col) (qc_arr col) "" None))]
      else if String.eqb k "ParamRef" then Ok [mkP num None]
      else Ok []     (* "unsupported reference type" is printed on stdout; the parameter is dropped *)
  end.

Definition resolve_catalog_refs (e : env) (rvs : list node) (refs : list pref) (names : list (Z * string))
  : result (list param) :=
  let rvs' := filter (fun rv => match str_opt "Relname" rv with Some _ => true | None => false end) rvs in
  let tables := map table_of_rangevar rvs' in
  let default_table := match tables with t :: _ => Some t | [] => None end in
  (* Go map: a later range var with the same alias overwrites *)
  let aliases := rev (flat_map (fun rv => if is_nil (kid "Alias" rv) then []
                                          else [(str_of "Aliasname" (kid "Alias" rv), table_of_rangevar rv)]) rvs') in
  let bare := map table_of_rangevar (filter (fun rv => is_nil (kid "Alias" rv)) rvs') in
  (fix go (l : list pref) : result (list param) :=
     match l with
     | [] => Ok []
     | r :: rest => do a <- resolve_one e tables bare aliases default_table names r; do b <- go rest; Ok (a ++ b)
     end) refs.

(** * expand.go *)
Definition quote_ident (e : env) (s : string) : string :=
  if env_reserved e s then
    match env_engine e with EMySQL => "`" +++ s +++ "`" | EPostgres => """" +++ s +++ """" end
  else s.

Definition count_name (tables : list qtable) (n : string) : nat :=
  List.length (filter (fun c => String.eqb (qc_name c) n) (flat_map qt_cols tables)).

(** the column list one star is replaced by *)
Definition expand_cols (e : env) (tables : list qtable) (res ref : node) : list string :=
  let scope := join_list (kid "Fields" ref) "." in
  flat_map (fun t =>
    if negb (String.eqb scope "") && negb (String.eqb scope (tn_name (qt_rel t))) then []
    else
      let table_name := quote_ident e (tn_name (qt_rel t)) in
      let scope_name := quote_ident e scope in
      map (fun column =>
        let c0 := quote_ident e (some_or (qc_name column) (res_name res)) in
        let c1 := if String.eqb scope "" then c0 else scope_name +++ "." +++ c0 in
        (* counts is only filled when the star is unqualified; indexed with the column's own name *)
        let cnt := if String.eqb scope "" then count_name tables (qc_name column) else 0%nat in
        if Nat.ltb 1 cnt then table_name +++ "." +++ c1 else c1) (qt_cols t)) tables.

Definition expand_target (e : env) (stmt_loc : Z) (tables : list qtable) (res : node) : result (list edit) :=
  let ref := kid "Val" res in
  if negb (is_kind "ResTarget" res) || negb (is_kind "ColumnRef" ref) || negb (has_star_ref ref) then Ok [] else
  let fields := kid_items "Fields" ref in
  if negb (forallb (fun f => is_kind "String" f || is_kind "A_Star" f) fields) then Err "unknown field in ColumnRef" else
  let parts := map (fun f => if is_kind "String" f then str_of "Str" f else "*") fields in
  Ok [mkEdit (loc_of res - stmt_loc) (String.concat "." (map (quote_ident e) parts))
             (String.concat ", " (expand_cols e tables res ref))].

Definition expand_stmt (fuel : nat) (e : env) (ctes : qcatalog) (stmt_loc : Z) (n : node) : result (list edit) :=
  do tables <- source_tables fuel e ctes n;
  match stmt_targets n with
  | None => Err "outputColumns: unsupported node type"
  | Some targets =>
      match items_opt targets with
      | None => Panic "nil dereference: targets.Items"
      | Some ts =>
          (fix go (l : list node) : result (list edit) :=
             match l with
             | [] => Ok []
             | t :: rest => do a <- expand_target e stmt_loc tables t; do b <- go rest; Ok (a ++ b)
             end) ts
      end
  end.

Definition expand (fuel : nat) (e : env) (ctes : qcatalog) (raw : node) : result (list edit) :=
  let stmts := search (fun x => let k := kind_of x in
                         String.eqb k "DeleteStmt" || String.eqb k "InsertStmt" || String.eqb k "SelectStmt" || String.eqb k "UpdateStmt") raw in
  (fix go (l : list node) : result (list edit) :=
     match l with
     | [] => Ok []
     | s :: rest => do a <- expand_stmt fuel e ctes (int_of "StmtLocation" raw) s; do b <- go rest; Ok (a ++ b)
     end) stmts.
