(** Transcription of internal/config: v_one.go (v1ParseConfig defaults and
    validation, Translate), v_two.go (v2ParseConfig defaults and validation), and
    config.go Combine — on decoded structs.  YAML/JSON decoding is exercised by
    the harness, not modelled. *)
From Verif Require Export Base.Str Base.Result.
Open Scope string_scope.
Open Scope list_scope.

Record override := mkOv {
  ov_column : string; ov_dbtype : string; ov_nullable : bool; ov_gotype : string; ov_engine : string }.

Record sqlgo := mkGo {
  g_interface : bool; g_json : bool; g_db : bool; g_prepared : bool; g_exact : bool; g_empty : bool;
  g_case : string; g_package : string; g_out : string; g_overrides : list override }.

Record sqlpkg := mkSql {
  s_engine : string; s_schema : list string; s_queries : list string; s_go : option sqlgo }.

Record config := mkConf {
  c_version : string; c_sql : list sqlpkg;
  c_gen_go : option (list override * list (string * string)) }.    (* global overrides, rename *)

Record v1pkg := mkV1P {
  p_name : string; p_engine : string; p_path : string; p_schema : list string; p_queries : list string;
  p_interface : bool; p_json : bool; p_db : bool; p_prepared : bool; p_exact : bool; p_empty : bool;
  p_case : string; p_overrides : list override }.
Record v1conf := mkV1 {
  v1_version : string; v1_packages : list v1pkg; v1_overrides : list override; v1_rename : list (string * string) }.

(** filepath.Base on a clean relative path *)
Definition base (p : string) : string := last (split_on "/"%char p) "".

(** Override.Parse succeeds iff exactly one of column / db_type is given (the
    go_type grammar is the harness's business) *)
Definition override_ok (o : override) : bool :=
  negb (String.eqb (ov_column o) "") && String.eqb (ov_dbtype o) ""
  || String.eqb (ov_column o) "" && negb (String.eqb (ov_dbtype o) "").

Definition distinct_engines (es : list string) : nat :=
  List.length (fold_right (fun e acc => if mem_str e acc then acc else e :: acc) [] es).

(** ValidateGlobalOverrides: with several engines every global override must name one *)
Definition global_overrides_ok (engines : list string) (ovs : list override) : bool :=
  negb (Nat.ltb 1 (distinct_engines engines)) || forallb (fun o => negb (String.eqb (ov_engine o) "")) ovs.

Definition known_engine (e : string) : bool := mem_str e ["mysql"; "postgresql"; "_lemon"].

(** v1ParseConfig after decoding *)
Definition v1_parse (c : v1conf) : result config :=
  if String.eqb (v1_version c) "" then Err "no version number"
  else if negb (String.eqb (v1_version c) "1") then Err "invalid version number"
  else if Nat.eqb (List.length (v1_packages c)) 0 then Err "no packages"
  else if negb (global_overrides_ok (map (fun p => if String.eqb (p_engine p) "" then "postgresql" else p_engine p) (v1_packages c))
                                    (v1_overrides c)) then Err "engine field required"
  else if negb (forallb override_ok (v1_overrides c)) then Err "override"
  else if existsb (fun p => String.eqb (p_path p) "") (v1_packages c) then Err "missing package path"
  else if negb (forallb (fun p => forallb override_ok (p_overrides p)) (v1_packages c)) then Err "override"
  else if negb (forallb (fun p => known_engine (if String.eqb (p_engine p) "" then "postgresql" else p_engine p)) (v1_packages c)) then Err "invalid engine"
  else
    Ok (mkConf (v1_version c)
          (map (fun p =>
             mkSql (if String.eqb (p_engine p) "" then "postgresql" else p_engine p) (p_schema p) (p_queries p)
                   (Some (mkGo (p_interface p) (p_json p) (p_db p) (p_prepared p) (p_exact p) (p_empty p) (p_case p)
                               (if String.eqb (p_name p) "" then base (p_path p) else p_name p) (p_path p) (p_overrides p))))
             (v1_packages c))
          (if Nat.eqb (List.length (v1_overrides c)) 0 && Nat.eqb (List.length (v1_rename c)) 0 then None
           else Some (v1_overrides c, v1_rename c))).

(** v2ParseConfig after decoding (Go packages only) *)
Definition v2_parse (c : config) : result config :=
  if String.eqb (c_version c) "" then Err "no version number"
  else if negb (String.eqb (c_version c) "2") then Err "invalid version number"
  else if Nat.eqb (List.length (c_sql c)) 0 then Err "no packages"
  else if negb (global_overrides_ok (map s_engine (c_sql c)) (match c_gen_go c with Some (o, _) => o | None => [] end))
       then Err "engine field required"
  else if negb (forallb override_ok (match c_gen_go c with Some (o, _) => o | None => [] end)) then Err "override"
  else if existsb (fun s => String.eqb (s_engine s) "") (c_sql c) then Err "unknown engine"
  else if negb (forallb (fun s => known_engine (s_engine s)) (c_sql c)) then Err "invalid engine"
  else if existsb (fun s => match s_go s with Some g => String.eqb (g_out g) "" | None => false end) (c_sql c) then Err "missing package path"
  else if negb (forallb (fun s => match s_go s with Some g => forallb override_ok (g_overrides g) | None => true end) (c_sql c)) then Err "override"
  else
    Ok (mkConf (c_version c)
          (map (fun s => mkSql (s_engine s) (s_schema s) (s_queries s)
                  (match s_go s with
                   | Some g => Some (mkGo (g_interface g) (g_json g) (g_db g) (g_prepared g) (g_exact g) (g_empty g) (g_case g)
                                          (if String.eqb (g_package g) "" then base (g_out g) else g_package g) (g_out g) (g_overrides g))
                   | None => None end)) (c_sql c))
          (c_gen_go c)).

(** the version-2 document that says the same as a version-1 document: what a
    user (or the documentation's migration table) writes *)
Definition to_v2 (c : v1conf) : config :=
  mkConf "2"
    (map (fun p => mkSql (if String.eqb (p_engine p) "" then "postgresql" else p_engine p) (p_schema p) (p_queries p)
            (Some (mkGo (p_interface p) (p_json p) (p_db p) (p_prepared p) (p_exact p) (p_empty p) (p_case p)
                        (p_name p) (p_path p) (p_overrides p)))) (v1_packages c))
    (if Nat.eqb (List.length (v1_overrides c)) 0 && Nat.eqb (List.length (v1_rename c)) 0 then None
     else Some (v1_overrides c, v1_rename c)).

(** everything the generators look at: all of the configuration but its version string *)
Definition same_settings (a b : config) : Prop := c_sql a = c_sql b /\ c_gen_go a = c_gen_go b.

(** config.Combine for a Go package: global overrides first, then the package's; the global rename table *)
Definition combine (c : config) (s : sqlpkg) : list override * list (string * string) :=
  let (go, rn) := match c_gen_go c with Some (o, r) => (o, r) | None => ([], []) end in
  (go ++ match s_go s with Some g => g_overrides g | None => [] end, rn).
