(** Executable verdicts for C14 cases (run by the harness-written cases files). *)
From Verif Require Import Base.Str Base.Result Model.Migrations.
Open Scope string_scope.
Open Scope list_scope.
Open Scope N_scope.

Definition b2n (b : bool) : N := if b then 1 else 0.

(** Independent reading of the property: lines up to the first marker line. *)
Definition spec_strip (text : string) : string :=
  let ls := remove_last_if_empty (split_nl text) in
  join (String nl "") (map drop_cr (take_while (fun l => negb (is_marker (drop_cr l))) ls)).

(** verdict = [wf; known; holds(impl); corr(model = impl)] *)
Definition judge_strip (text out : string) : list N :=
  [1; 0; b2n (String.eqb (spec_strip text) out); b2n (String.eqb (remove_rollback text) out)].

Fixpoint assoc_fs (l : list (string * entry)) (p : string) : option entry :=
  match l with
  | [] => None
  | (k, e) :: r => if String.eqb k p then Some e else assoc_fs r p
  end.

Definition res_eqb (a b : result (list string)) : bool :=
  match a, b with
  | Ok x, Ok y => strs_eqb x y
  | Err _, Err _ => true
  | Panic _, Panic _ => true
  | _, _ => false
  end.

Definition spec_expand (fs : filesys) (p : string) : list string :=
  match fs p with
  | Some (EDir names) => map (path_join p) (read_dir_sorted names)
  | _ => [p]
  end.
Definition spec_glob (fs : filesys) (paths : list string) : result (list string) :=
  if forallb (fun p => match fs p with None => false | _ => true end) paths
  then Ok (filter keep_file (flat_map (spec_expand fs) paths))
  else Err "missing".

Definition judge_glob (fsl : list (string * entry)) (paths : list string) (out : result (list string)) : list N :=
  let fs := assoc_fs fsl in
  [1; 0; b2n (res_eqb (spec_glob fs paths) out); b2n (res_eqb (glob fs paths) out)].
