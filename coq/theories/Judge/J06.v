(** C06 — parameter types and names track the column they are used with.
    Judged on single-level statements (one scope: the from-list, or the target
    relation of INSERT/UPDATE/DELETE plus FROM/USING items) with positional
    placeholders that occur once. *)
From Verif Require Import Model.Compile Spec.PgScope Judge.JQ Judge.J02.
Open Scope string_scope.
Open Scope list_scope.

Inductive pctx :=
| CCompare (ref : node) (param_left : bool)     (* col OP $n / $n OP col / col IN (.., $n, ..) *)
| CTarget (col : string)                        (* INSERT column / SET col = $n *)
| CLimit | COffset
| CCast (ty : node)
| COther.

Definition bare_param (n : node) : option Z :=
  if is_kind "ParamRef" n then Some (int_of "Number" n) else None.

(** contexts of the placeholders below [n] (no descent into sub-selects: the
    statement is single-level) *)
Fixpoint contexts_f (fuel : nat) (n : node) : list (Z * pctx) :=
  match fuel with
  | O => []
  | S f =>
      let contexts := contexts_f f in
      match n with
      | Nil => []
      | NList l => flat_map contexts l
      | Node k _ _ kids =>
          let below := flat_map (fun p => contexts (snd p)) kids in
          if String.eqb k "A_Expr" then
            let l := kid "Lexpr" n in let r := kid "Rexpr" n in
            match bare_param r, bare_param l with
            | Some p, _ => if is_kind "ColumnRef" l then [(p, CCompare l false)] else (p, COther) :: contexts l
            | None, Some p => if is_kind "ColumnRef" r then [(p, CCompare r true)] else (p, COther) :: contexts r
            | None, None =>
                if is_kind "ColumnRef" l && negb (Nat.eqb (List.length (items r)) 0)
                then flat_map (fun it => match bare_param it with Some p => [(p, CCompare l false)] | None => contexts it end) (items r)
                else below
            end
          else if String.eqb k "TypeCast" then
            match bare_param (kid "Arg" n) with
            | Some p => [(p, CCast (kid "TypeName" n))]
            | None => below
            end
          else if String.eqb k "ParamRef" then [(int_of "Number" n, COther)]
          else below
      end
  end.
Definition contexts (n : node) : list (Z * pctx) := contexts_f (S (node_size n)) n.

Definition stmt_contexts (stmt : node) : list (Z * pctx) :=
  let k := kind_of stmt in
  let lim (f : string) (c : pctx) :=
    match bare_param (kid f stmt) with Some p => [(p, c)] | None => contexts (kid f stmt) end in
  if String.eqb k "SelectStmt" then
    contexts (kid "TargetList" stmt) ++ contexts (kid "FromClause" stmt) ++ contexts (kid "WhereClause" stmt)
    ++ contexts (kid "GroupClause" stmt) ++ contexts (kid "HavingClause" stmt) ++ contexts (kid "SortClause" stmt)
    ++ lim "LimitCount" CLimit ++ lim "LimitOffset" COffset
  else if String.eqb k "UpdateStmt" then
    flat_map (fun t => match bare_param (kid "Val" t) with
                       | Some p => [(p, CTarget (str_of "Name" t))]
                       | None =>
                           (* SET (c1, .., cn) = (v1, .., vn): the Colno-th value of the row belongs to this column *)
                           let v := kid "Val" t in
                           if is_kind "MultiAssignRef" v && is_kind "RowExpr" (kid "Source" v) then
                             match nth_error (kid_items "Args" (kid "Source" v)) (Z.to_nat (int_of "Colno" v - 1)) with
                             | Some a => match bare_param a with
                                         | Some p => [(p, CTarget (str_of "Name" t))]
                                         | None => contexts a
                                         end
                             | None => []
                             end
                           else contexts v
                       end) (kid_items "TargetList" stmt)
    ++ contexts (kid "WhereClause" stmt) ++ contexts (kid "ReturningList" stmt)
  else if String.eqb k "DeleteStmt" then
    contexts (kid "WhereClause" stmt) ++ contexts (kid "ReturningList" stmt)
  else if String.eqb k "InsertStmt" then
    let cols := map (str_of "Name") (kid_items "Cols" stmt) in
    let sel := kid "SelectStmt" stmt in
    flat_map (fun row =>
      (fix go (vals : list node) (cs : list string) : list (Z * pctx) :=
         match vals, cs with
         | v :: vr, c :: cr => match bare_param v with
                               | Some p => (p, CTarget c) :: go vr cr
                               | None => contexts v ++ go vr cr end
         | v :: vr, [] => contexts v ++ go vr []
         | [], _ => []
         end) (items row) cols) (kid_items "ValuesLists" sel)
    ++ contexts (kid "ReturningList" stmt)
  else [].

(** the single scope of a single-level statement *)
Definition stmt_scope (c : catalog) (stmt : node) : option scope :=
  let k := kind_of stmt in
  let rels :=
    if String.eqb k "SelectStmt" then search (is_kind "RangeVar") (kid "FromClause" stmt)
    else if String.eqb k "UpdateStmt" then kid "Relation" stmt :: search (is_kind "RangeVar") (kid "FromClause" stmt)
    else if String.eqb k "DeleteStmt" then kid "Relation" stmt :: search (is_kind "RangeVar") (kid "UsingClause" stmt)
    else [kid "Relation" stmt] in
  match fold_right (fun rv acc =>
          match acc, pg_relation c [] rv with
          | Some sc, POk cols => Some (mkSI (visible_name rv) cols :: sc)
          | _, _ => None
          end) (Some []) rels with
  | Some sc =>
      (* two relations visible under one name: PostgreSQL rejects the statement (42712), nothing to judge *)
      if nodup_str (map si_name sc) then Some sc else None
  | None => None
  end.

Definition expected_of (x : sccol) : option (string * string * bool * bool) :=
  match sc_src x with
  | Some (_, _, col) => Some (col_name col, data_type (col_type col), col_notnull col, col_array col)
  | None => None
  end.

Open Scope N_scope.
(** verdict for one parameter: 0 ok, 1 wrong type, 2 wrong name, 3 missing *)
Definition check_param (sc : scope) (target_cols : list sccol) (named : bool) (ps : list param) (pc : Z * pctx) : N :=
  let (num, ctx) := pc in
  match find_first (fun p => Z.eqb (p_num p) num) ps with
  | None => match ctx with COther => 0 | _ => 3 end     (* a dropped parameter is C03's business *)
  | Some p =>
      match p_col p with
      | None => 3
      | Some qc =>
          let against (x : sccol) :=
            match expected_of x with
            | Some (nm, dt, nn, arr) =>
                if negb (String.eqb (qc_dt qc) dt && Bool.eqb (qc_nn qc) nn && Bool.eqb (qc_arr qc) arr) then 1
                else if negb named && negb (String.eqb (qc_name qc) nm) then 2 else 0
            | None => 0
            end in
          match ctx with
          | CCompare ref _ => match resolve_ref [sc] ref with POk x => against x | PErr _ => 0 end
          | CTarget col => match filter (fun x => String.eqb (sc_name x) col) target_cols with x :: _ => against x | [] => 0 end
          | CLimit | COffset =>
              if mem_str (qc_dt qc) ["integer"; "int"; "int4"; "bigint"; "int8"; "pg_catalog.int4"; "pg_catalog.int8"] && qc_nn qc then 0 else 1
          | CCast ty =>
              let want := trim_prefix (String.concat "." (string_items (kid "Names" ty))) "." in
              if String.eqb (qc_dt qc) want && Bool.eqb (qc_arr qc) (negb (Nat.eqb (List.length (kid_items "ArrayBounds" ty)) 0)) then 0 else 1
          | COther => 0
          end
      end
  end.

Definition occurs_once (num : Z) (l : list (Z * pctx)) : bool :=
  Nat.eqb (List.length (filter (fun p => Z.eqb (fst p) num) l)) 1.

(** known classes: 1 placeholder on the left of the operator *)
Definition c06_class (ctxs : list (Z * pctx)) : N :=
  if existsb (fun pc => match snd pc with CCompare _ true => true | _ => false end) ctxs then 1 else 0.

(** [wf(+2 blind); known; holds; diff]; wf bit 4 = not judged (multi-level, named, ...) *)
Definition judge_c06 (e : env) (raw : node) (src : string) (impl : result (option query)) : list N :=
  let c := env_cat e in
  let stmt := stmt_of raw in
  let single := Nat.eqb (query_levels raw) 1 && Nat.eqb (List.length (search (is_kind "SubLink") raw)) 0
                && Nat.eqb (List.length (search (is_kind "RangeSubselect") raw)) 0
                && Nat.eqb (List.length (search (is_kind "CommonTableExpr") raw)) 0 in
  let named := negb (Nat.eqb (List.length (search is_param_func raw) + List.length (search is_param_sign raw)) 0) in
  let ctxs := stmt_contexts stmt in
  let judged := single && negb named in
  let holds :=
    match impl, stmt_scope c stmt with
    | Ok (Some q), Some sc =>
        if judged then
          let tcols := match sc with it :: _ => si_cols it | [] => [] end in
          forallb (fun pc => negb (occurs_once (fst pc) ctxs) || N.eqb (check_param sc tcols false (q_params q) pc) 0) ctxs
        else true
    | _, _ => true
    end in
  (* SET col = $n / INSERT (col) VALUES ($n): the parameter is the TARGET relation's column whatever else the statement
     contains (a WITH clause, sub-selects, FROM items) - judged on every UPDATE / INSERT with positional placeholders
     that occur once in the whole statement *)
  let once_anywhere (num : Z) :=
    Nat.eqb (List.length (filter (fun r => Z.eqb (int_of "Number" r) num) (search (is_kind "ParamRef") raw))) 1 in
  let targets_hold :=
    match impl, pg_relation c [] (kid "Relation" stmt) with
    | Ok (Some q), POk cols =>
        if negb named && negb judged && (is_kind "UpdateStmt" stmt || is_kind "InsertStmt" stmt) then
          forallb (fun pc => match snd pc with
                             | CTarget _ => negb (once_anywhere (fst pc)) || N.eqb (check_param [] cols false (q_params q) pc) 0
                             | _ => true
                             end) ctxs
        else true
    | _, _ => true
    end in
  let holds := holds && targets_hold in
  [b2n (wf_order raw) + 2 * b2n (cte_alias_shared raw) + 4 * b2n (negb judged); c06_class ctxs; b2n holds;
   outcome_diff (parse_query e raw src false) impl].
