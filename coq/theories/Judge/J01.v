(** C01, the import half: per generated package, the importer's real answers
    against Model/GoImports (correspondence), the qualifiers that really occur
    in each emitted file against Spec/GoFileUses (the specification is checked
    too), and the property itself: needed = present. *)
From Verif Require Export Spec.GoFileUses.
Open Scope string_scope.
Open Scope list_scope.
Open Scope N_scope.

Record gfile_obs := mkFO {
  fo_key : string;               (* the name the importer is asked with: db.go, models.go, querier.go, <source file> *)
  fo_std : list string;          (* what the real importer answered *)
  fo_pkg : list ispec;
  fo_quals : list string         (* the package qualifiers go/parser finds in the emitted file *)
}.

Definition set_eq_spec (a b : list ispec) : bool :=
  forallb (fun x => mem_spec x b) a && forallb (fun x => mem_spec x a) b.

Definition imports_differ (i : gimporter) (f : gfile_obs) : bool :=
  let m := imports_of i (fo_key f) in
  negb (set_eq_str (fst m) (fo_std f) && set_eq_spec (snd m) (fo_pkg f)
        && Nat.eqb (List.length (fst m)) (List.length (fo_std f))
        && Nat.eqb (List.length (snd m)) (List.length (fo_pkg f))).

Definition uses_differ (i : gimporter) (f : gfile_obs) : bool :=
  negb (set_eq_str (file_uses i (fo_key f)) (fo_quals f)).

Definition no_custom_overrides (i : gimporter) : bool := forallb (fun o => negb (ov_custom o)) (gi_overrides i).

(** [wf; known class; holds; diff]   diff: 1 = importer differs from the model, 2 = emitted qualifiers differ from the spec *)
Definition j01 (i : gimporter) (files : list gfile_obs) : list N :=
  let d1 := if existsb (imports_differ i) files then 1 else 0 in
  let d2 := if existsb (uses_differ i) files then 2 else 0 in
  let holds := negb (no_custom_overrides i) || forallb (fun f => imports_exact i (fo_key f)) files in
  let known := if existsb query_in_slice_class (gi_queries i) then 1 else 0 in
  [1; known; if holds then 1 else 0; d1 + d2].

(** * the generator's values: buildQueries against Model/GoGen (correspondence) *)
From Verif Require Import Model.GoGen.

Definition gfield_eqb (a b : gfield) : bool :=
  String.eqb (fst (fst a)) (fst (fst b)) && String.eqb (snd (fst a)) (snd (fst b)) && String.eqb (snd a) (snd b).
Definition gstruct_eqb (a b : gstruct) : bool :=
  String.eqb (gst_name a) (gst_name b) && list_eqb gfield_eqb (gst_fields a) (gst_fields b).
Definition vo_eqb (a b : gval_out) : bool :=
  Bool.eqb (vo_emit a) (vo_emit b) && String.eqb (vo_name a) (vo_name b) && String.eqb (vo_typ a) (vo_typ b)
  && match vo_struct a, vo_struct b with
     | Some x, Some y => gstruct_eqb x y
     | None, None => true
     | _, _ => false
     end.
Definition qo_eqb (a b : gq_out) : bool :=
  String.eqb (qo_method a) (qo_method b) && String.eqb (qo_cmd a) (qo_cmd b) && String.eqb (qo_source a) (qo_source b)
  && vo_eqb (qo_ret a) (qo_ret b) && vo_eqb (qo_arg a) (qo_arg b).

Fixpoint first_diff (pos : N) (a b : list gq_out) : N :=
  match a, b with
  | [], [] => 0
  | x :: a', y :: b' => if qo_eqb x y then first_diff (pos + 1) a' b' else pos
  | _, _ => pos
  end.

(** [0] = the model's buildQueries is what the generator built; [k] = the k-th query (sorted by
    method name, from 1) differs; [98]/[99] = the model panics / fails *)
Definition j01_gen (st : gsettings) (c : catalog) (structs : list gstruct) (qs : list (query * string)) (observed : list gq_out) : list N :=
  match build_queries st c structs qs with
  | Ok l => [first_diff 1 l observed]
  | Panic _ => [98]
  | Err _ => [99]
  end.

(** * buildStructs / buildEnums against Model/GoModels, Model/GoEnums (hook values) *)
From Verif Require Import Model.GoModels.

Definition fields_eqb (a b : list gfield) : bool := list_eqb gfield_eqb a b.

Fixpoint find_model (m : list (string * string * list gfield)) (s r : string) : option (list gfield) :=
  match m with
  | [] => None
  | (s', r', fs) :: rest => if String.eqb s s' && String.eqb r r' then Some fs else find_model rest s r
  end.

Definition genum_eqb (a b : genum) : bool :=
  String.eqb (ge_name a) (ge_name b)
  && list_eqb (fun x y => String.eqb (fst x) (fst y) && String.eqb (snd x) (snd y)) (ge_consts a) (ge_consts b).

(** observed: the structs buildStructs made (name, table, fields), whether exact names were asked for, the enums.
    [0] all equal; 1 = number of structs; 2 = a struct's fields; 3 = a struct's name (exact names only); 4 = enums;
    98/99 the model panics / fails.  Enums are compared only when their Go names are pairwise distinct (sort.Slice is not stable). *)
Definition j01_models (st : gsettings) (c : catalog) (exact : bool) (structs : list gstruct) (enums : list genum) : list N :=
  match model_structs st c with
  | Panic _ => [98]
  | Err _ => [99]
  | Ok m =>
      if negb (Nat.eqb (List.length m) (List.length structs)) then [1] else
      if negb (forallb (fun s => match find_model m (fst (gst_table s)) (snd (gst_table s)) with
                                 | Some fs => fields_eqb fs (gst_fields s)
                                 | None => false
                                 end) structs) then [2] else
      if exact && negb (forallb (fun s => String.eqb (gst_name s) (exact_struct_name st c (fst (gst_table s)) (snd (gst_table s)))) structs) then [3] else
      let me := build_enums (gs_rename st) c in
      if nodup_str (map ge_name me) && negb (list_eqb genum_eqb me enums) then [4] else [0]
  end.
