(** C01, the import half: per generated package, the importer's real answers
    against Model/GoImports (correspondence), the qualifiers that really occur
    in each emitted file against Spec/GoFileUses (the specification is checked
    too), and the property itself: needed = present. *)
From Verif Require Export Spec.GoFileUses.
Open Scope string_scope.
Open Scope list_scope.
Open Scope N_scope.

Record gfile_obs := mkFO {
  fo_key : string;               (* the name the importer is asked with: db.go, models.go, querier.go, <source file> *)
  fo_std : list string;          (* what the real importer answered *)
  fo_pkg : list ispec;
  fo_quals : list string         (* the package qualifiers go/parser finds in the emitted file *)
}.

Definition set_eq_spec (a b : list ispec) : bool :=
  forallb (fun x => mem_spec x b) a && forallb (fun x => mem_spec x a) b.

Definition imports_differ (i : gimporter) (f : gfile_obs) : bool :=
  let m := imports_of i (fo_key f) in
  negb (set_eq_str (fst m) (fo_std f) && set_eq_spec (snd m) (fo_pkg f)
        && Nat.eqb (List.length (fst m)) (List.length (fo_std f))
        && Nat.eqb (List.length (snd m)) (List.length (fo_pkg f))).

Definition uses_differ (i : gimporter) (f : gfile_obs) : bool :=
  negb (set_eq_str (file_uses i (fo_key f)) (fo_quals f)).

Definition no_custom_overrides (i : gimporter) : bool := forallb (fun o => negb (ov_custom o)) (gi_overrides i).

(** [wf; known class; holds; diff]   diff: 1 = importer differs from the model, 2 = emitted qualifiers differ from the spec *)
Definition j01 (i : gimporter) (files : list gfile_obs) : list N :=
  let d1 := if existsb (imports_differ i) files then 1 else 0 in
  let d2 := if existsb (uses_differ i) files then 2 else 0 in
  let holds := negb (no_custom_overrides i) || forallb (fun f => imports_exact i (fo_key f)) files in
  let known := if existsb query_in_slice_class (gi_queries i) then 1 else 0 in
  [1; known; if holds then 1 else 0; d1 + d2].
