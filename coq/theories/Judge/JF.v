(** File-level judge (C04, C17): several statements per query file. *)
From Verif Require Import Model.Compile Spec.SqlLexemes Judge.JQ Judge.J02.
Open Scope string_scope.
Open Scope list_scope.

Definition zz_eqb (a b : Z * Z) : bool := Z.eqb (fst a) (fst b) && Z.eqb (snd a) (snd b).

(** the model's view of the file: per statement an outcome *)
Definition model_file (e : env) (src : string) (stmts : list node) : list (node * result (option query)) :=
  combine stmts (parse_file e src false stmts []).

Definition file_queries (m : list (node * result (option query))) : list (node * query) :=
  flat_map (fun p => match snd p with Ok (Some q) => [(fst p, q)] | _ => [] end) m.
Definition file_errors (m : list (node * result (option query))) : list (node * string) :=
  flat_map (fun p => match snd p with Err msg => [(fst p, msg)] | _ => [] end) m.
Definition file_panics (m : list (node * result (option query))) : bool :=
  existsb (fun p => match snd p with Panic _ => true | _ => false end) m.

Open Scope N_scope.
(** correspondence: 0 = exact; 1 queries differ; 2 error positions differ; 4 outcome kind differs *)
Definition file_diff (src : string) (m : list (node * result (option query)))
           (impl_ok impl_panic : bool) (impl_queries : list query) (impl_errs : list (Z * Z)) : N :=
  if file_panics m then (if impl_panic then 0 else 4)
  else if impl_panic then 4
  else match file_errors m with
       | [] =>
           match file_queries m with
           | [] => if impl_ok then 4 else 0        (* "no queries contained in paths" *)
           | qs => if impl_ok then (if list_eqb query_eqb (map snd qs) impl_queries then 0 else 1) else 4
           end
       | errs =>
           if impl_ok then 4
           else
             let pos := map (fun p => match report_position src (fst p) (snd p) with Ok lc => lc | _ => (0, 0)%Z end) errs in
             if list_eqb zz_eqb pos impl_errs then 0 else 2
       end.

(** C04 on the queries sqlc produced, matched in order with the statements the
    model says produce queries *)
Definition stmt_text (src : string) (raw : node) : string :=
  match pluck src (int_of "StmtLocation" raw) (int_of "StmtLen" raw) with Ok t => t | _ => "" end.

Definition c04_query_ok (src : string) (raw : node) (q : query) : bool :=
  let text := stmt_text src raw in
  strs_eqb (q_comments q) (expected_comments text)
  && (has_star raw || strs_eqb (sql_tokens (q_sql q)) (expected_tokens text)).

(** known classes of C04: 6 = named parameters inside a multi-column assignment; 1 = a quoted lexeme spanning lines; 2 = sqlc.arg written
    with inner spaces or double quotes (the reconstructed Old text has another length) *)
(** names in order of first use in the TEXT vs in the order the rewrite numbers them *)
Definition named_order_differs (src : string) (raw : node) : bool :=
  let text := stmt_text src raw in
  let ts := sql_tokens text in
  let fix names (fuel : nat) (ts : list string) (acc : list string) : list string :=
    match fuel with
    | O => acc
    | S f =>
        match arg_call ts with
        | Some (x, rest) => names f rest (if mem_str (unquote x) acc then acc else acc ++ [unquote x])
        | None =>
            match ts with
            | "@" :: x :: rest =>
                if match x with String c _ => is_word_char c | EmptyString => false end
                then names f rest (if mem_str x acc then acc else acc ++ [x]) else names f (x :: rest) acc
            | _ :: rest => names f rest acc
            | [] => acc
            end
        end
    end in
  let text_order := names (S (List.length ts)) ts [] in
  let '(_, nm, _) := named_parameters EPostgres raw in
  negb (strs_eqb text_order (map snd nm)).

Definition c04_class (src : string) (raw : node) : N :=
  let text := stmt_text src raw in
  if negb (N.eqb (c02_class raw) 0) || (unnamed_cte_column raw && has_star raw) then 5
  else if multiline_lexeme text then 1
  else if existsb (fun f =>
            let a := match kid_items "Args" f with x :: _ => x | [] => Nil end in
            is_param_func f &&
            let len_written := (int_of "Location" a - int_of "Location" f)%Z in
            negb (Z.eqb len_written 9))      (* "sqlc.arg(" is 9 bytes: the argument starts right after *)
          (search (is_kind "FuncCall") raw) then 2
  else if existsb (fun a => is_param_sign a && is_kind "TypeCast" (kid "Rexpr" a) && is_kind "TypeCast" (kid "Arg" (kid "Rexpr" a)))
                  (search (is_kind "A_Expr") raw) then 3
  else if existsb (fun f => is_param_func f &&
                            existsb (fun a => is_kind "A_Const" a && contains_char "'"%char (str_of "Str" (kid "Val" a))) (kid_items "Args" f))
                  (search (is_kind "FuncCall") raw) then 2
  else if existsb (fun m => negb (Nat.eqb (List.length (search is_param_func (kid "Source" m)) + List.length (search is_param_sign (kid "Source" m))) 0))
                  (search (is_kind "MultiAssignRef") raw) then 6      (* named parameters inside SET (a, b) = (.., ..): the row is shared by the targets *)
  else if named_order_differs src raw then 4
  else 0.

(** C17: every reported position lies in its statement's region *)
Definition c17_positions_ok (src : string) (m : list (node * result (option query))) (stmts : list node) (impl_errs : list (Z * Z)) : bool :=
  let errs := file_errors m in
  let region (raw : node) : Z * Z :=
    let start := int_of "StmtLocation" raw in
    let stop := (start + int_of "StmtLen" raw)%Z in
    (line_of_offset src start, line_of_offset src stop) in
  Nat.eqb (List.length errs) (List.length impl_errs)
  && forall2b (fun p lc => let (lo, hi) := region (fst p) in
                 ((lo <=? fst lc) && (fst lc <=? hi) && (1 <=? snd lc))%Z) errs impl_errs.

(** known classes of C17: 1 = a multi-byte character before the reported
    location (LineNumber counts runes against a byte offset); 2 = "--" inside a
    quoted lexeme of a failing statement or before it (taken for a comment) *)
Fixpoint has_high_byte (n : nat) (s : string) : bool :=
  match n, s with
  | S k, String c r => (128 <=? N_of_ascii c) || has_high_byte k r
  | _, _ => false
  end.
(** "--" inside a /* */ comment (outside quotes) *)
Fixpoint dash_in_block (fuel : nat) (in_block : bool) (s : string) : bool :=
  match fuel with
  | O => false
  | S f =>
      match s with
      | EmptyString => false
      | String c r =>
          if in_block then
            if Ascii.eqb c "*" && has_prefix r "/" then dash_in_block f false (drop 1 r)
            else if Ascii.eqb c "-" && has_prefix r "-" then true
            else dash_in_block f true r
          else if Ascii.eqb c "/" && has_prefix r "*" then dash_in_block f true (drop 1 r)
          else if Ascii.eqb c "-" && has_prefix r "-" then
            (* a real line comment: skip to the end of the line *)
            (fix skip (g : nat) (t : string) : bool :=
               match g with
               | O => false
               | S g' => match t with
                         | EmptyString => false
                         | String d t' => if Ascii.eqb d nl then dash_in_block g' false t' else skip g' t'
                         end
               end) f r
          else dash_in_block f false r
      end
  end.

Definition c17_class (src : string) (m : list (node * result (option query))) : N :=
  let errs := file_errors m in
  if existsb (fun t => (has_prefix t "'" || has_prefix t """") && negb (Nat.eqb (List.length (split_on "-"%char t)) 1)
                            && existsb (fun piece => String.eqb piece "") (tl (split_on "-"%char t)))
                  (sql_tokens src) then 2
  else if dash_in_block (S (String.length src)) false src then 2
  else 0.

Definition b2n' (b : bool) : N := if b then 1 else 0.

(** [wf; known04 (first class among the statements); holds04; diff; holds17] *)
Definition judge_file (e : env) (stmts : list node) (src : string)
           (impl_ok impl_panic : bool) (impl_queries : list query) (impl_errs : list (Z * Z)) : list N :=
  let m := model_file e src stmts in
  let qs := file_queries m in
  let holds04 :=
    if impl_ok then
      Nat.eqb (List.length qs) (List.length impl_queries)
      && forall2b (fun p q => negb (N.eqb (c04_class src (fst p)) 0) || c04_query_ok src (fst p) q) qs impl_queries
    else true in
  let known04 := match filter (fun c => negb (N.eqb c 0)) (map (c04_class src) stmts) with c :: _ => c | [] => 0 end in
  let holds04_strict :=
    if impl_ok then forall2b (fun p q => c04_query_ok src (fst p) q) qs impl_queries else true in
  [ b2n' (forallb wf_raw stmts); known04 + (if holds04_strict then 0 else 100); b2n' holds04;
    file_diff src m impl_ok impl_panic impl_queries impl_errs;
    b2n' (impl_ok || impl_panic || c17_positions_ok src m stmts impl_errs);
    c17_class src m ].
