(** C20 — the positional (Kotlin/JDBC) compilation of a statement: the k-th
    parameter is the one the k-th placeholder of the source statement denotes,
    and the embedded SQL has exactly one ? per placeholder. *)
From Verif Require Import Model.Compile Spec.Placeholders Judge.JQ Judge.J03.
Open Scope string_scope.
Open Scope list_scope.

Definition stmt_text (raw : node) (src : string) : string :=
  match pluck src (int_of "StmtLocation" raw) (int_of "StmtLen" raw) with Ok s => s | _ => "" end.

Definition holds_c20 (raw : node) (src : string) (q : query) : bool :=
  let marks := pg_marks (stmt_text raw src) in
  zs_eqb (map p_num (q_params q)) marks && Nat.eqb (my_marks (q_sql q)) (List.length marks)
  && Nat.eqb (List.length (pg_marks (q_sql q))) 0.

Definition c20_refs (e : env) (raw : node) : result (node * list (Z * string) * list pref) :=
  let '(raw2, names, _) := named_parameters (env_engine e) raw in
  do refs0 <- find_parameters (kid "Stmt" raw2);
  Ok (raw2, names, positional_refs refs0).

Open Scope N_scope.
(** classes as for C03 (a reference that resolves to 0 or 2 parameters), plus
    9 = the walker missed a placeholder, 8 = named parameters (not in scope:
    the source statement has no numbered placeholders) *)
Definition c20_class (e : env) (raw : node) : N :=
  match c20_refs e raw with
  | Ok (raw2, names, refs) =>
      match names with
      | _ :: _ => 8
      | [] =>
        if negb (Nat.eqb (List.length (search (is_kind "ParamRef") (kid "Stmt" raw2))) (List.length refs)) then 9 else
        match filter (fun c => negb (N.eqb c 0)) (map (ref_class e raw2 names) refs) with
        | c :: _ => c
        | [] => 0
        end
      end
  | _ => 0
  end.

Definition judge_c20 (e : env) (raw : node) (src : string) (impl : result (option query)) : list N :=
  let cls := c20_class e raw in
  let holds := match impl with Ok (Some q) => holds_c20 raw src q || N.eqb cls 8 | _ => true end in
  [b2n (wf_order raw) + 2 * b2n (cte_alias_shared raw) + 4 * b2n (N.eqb cls 8); cls; b2n holds;
   outcome_diff (parse_query e raw src true) impl].

(** ** the Kotlin / Python naming models against the emitted code *)
From Verif Require Import Model.KtPyGen.
Definition kt_check (cols : list (Z * string)) (fields binds : list string) : list N :=
  [b2n (strs_eqb (kt_fields cols) fields); b2n (strs_eqb (kt_bindings cols) binds)].
Definition py_check (ps : list (Z * string)) (args : list string) : list N :=
  [b2n (strs_eqb (py_args ps) args)].
