(** C12 / C19: the driver model on abstract package outcomes. *)
From Verif Require Import Model.Driver.
Open Scope string_scope.
Open Scope list_scope.
Open Scope N_scope.

(** outcomes coded 0 = good (n files), 1 = parse failure, 2 = generation failure *)
Definition outcome_of (code : N) (pkg : N) : pkg_outcome :=
  match code with
  | 1 => ParseFail
  | 2 => GenFail
  | _ => Good [("pkg" , "x")]
  end.

(** model prediction: [status; 1 if output is produced] *)
Definition predict (config_ok : bool) (codes : list N) : list N :=
  let r := generate config_ok (map (fun c => outcome_of c 0) codes) in
  [N.of_nat (rr_status r); match rr_output r with Some _ => 1 | None => 0 end; N.of_nat (rr_diags r)].
