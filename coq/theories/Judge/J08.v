(** Executable verdicts for C08 cases. *)
From Verif Require Import Base.Str Base.Result Model.Catalog Spec.PgCatalog.
Open Scope string_scope.
Open Scope list_scope.

Definition qname_eqb (a b : qname) : bool :=
  String.eqb (q_schema a) (q_schema b) && String.eqb (q_name a) (q_name b).
Definition column_eqb (a b : column) : bool :=
  String.eqb (col_name a) (col_name b) && qname_eqb (col_type a) (col_type b)
  && Bool.eqb (col_notnull a) (col_notnull b) && Bool.eqb (col_array a) (col_array b)
  && String.eqb (col_comment a) (col_comment b).
Definition table_eqb (a b : table) : bool :=
  String.eqb (tab_name a) (tab_name b) && list_eqb column_eqb (tab_cols a) (tab_cols b)
  && String.eqb (tab_comment a) (tab_comment b).
Definition typ_eqb (a b : typ) : bool :=
  match a, b with
  | Enum n v c, Enum n' v' c' => String.eqb n n' && strs_eqb v v' && String.eqb c c'
  | Composite n c, Composite n' c' => String.eqb n n' && String.eqb c c'
  | _, _ => false
  end.
Definition schema_eqb (a b : schema) : bool :=
  String.eqb (sch_name a) (sch_name b) && list_eqb table_eqb (sch_tables a) (sch_tables b)
  && list_eqb typ_eqb (sch_types a) (sch_types b) && String.eqb (sch_comment a) (sch_comment b).
Definition cat_eqb (a b : catalog) : bool :=
  String.eqb (cat_default a) (cat_default b) && list_eqb schema_eqb (cat_schemas a) (cat_schemas b).

(** canonical order: what models.go can show is independent of creation order *)
Section Canon.
  Context {A : Type} (key : A -> string).
  Fixpoint ins (x : A) (l : list A) : list A :=
    match l with
    | [] => [x]
    | y :: r => if String.leb (key x) (key y) then x :: y :: r else y :: ins x r
    end.
  Definition sort_by (l : list A) : list A := fold_right ins [] l.
End Canon.
Definition canon_schema (s : schema) : schema :=
  mkSch (sch_name s) (sort_by tab_name (sch_tables s)) (sort_by typ_name (sch_types s)) (sch_comment s).
Definition canon (c : catalog) : catalog :=
  mkCat (cat_default c) (sort_by sch_name (map canon_schema (cat_schemas c))).

Definition res_agree (eq : catalog -> catalog -> bool) (a b : result catalog) : bool :=
  match a, b with
  | Ok x, Ok y => eq x y
  | Err _, Err _ => true
  | _, _ => false
  end.
Definition canon_eqb (a b : catalog) : bool := cat_eqb (canon a) (canon b).

(** Known-finding classes: syntactic triggers (state-dependent only for the
    name-space clash), counted only when model and reference disagree. *)
Open Scope N_scope.
Definition known_trigger (c : catalog) (d : ddl) : N :=
  match d with
  | AlterTable true _ _ => 1
  | AlterTable _ _ cmds =>
      if existsb (fun k => match k with AddColumn true _ => true | _ => false end) cmds then 2 else 0
  | AddValue _ _ _ (Some _) => 3
  | RenameTable true _ _ | SetSchema true _ _ | RenameColumn true _ _ _ => 4
  | RenameTable false q new =>
      match the_schema c (ns_of c q) with Some s => if has_type s new then 5 else 0 | None => 0 end
  | SetSchema false q new =>
      match the_schema c new with Some s => if has_type s (q_name q) then 5 else 0 | None => 0 end
  | CreateEnum _ vals => if nodup_str vals then 0 else 6
  | _ => 0
  end.
Definition known_step (c : catalog) (d : ddl) : N :=
  if res_agree cat_eqb (update c d) (pg_exec c d) then 0 else known_trigger c d.

(** the class of the first step (along the reference run) on which the model
    and the reference disagree; 0 when they never do; 99 when they disagree
    outside every class *)
Fixpoint first_known (c : catalog) (ds : list ddl) : N :=
  match ds with
  | [] => 0
  | d :: rest =>
      if res_agree cat_eqb (update c d) (pg_exec c d)
      then match pg_exec c d with Ok c' => first_known c' rest | _ => 0 end
      else match known_trigger c d with 0 => 99 | k => k end
  end.

Definition wf_cmd (k : alter_cmd) : bool := true.
Definition wf_ddl (d : ddl) : bool :=
  match d with
  | AlterTable _ _ [] => false
  | CreateTable _ _ cols pk => forallb (fun p => mem_str p (map cd_name cols)) pk
  | _ => true
  end.

Definition b2n (b : bool) : N := if b then 1 else 0.

Definition judge08 (ds : list ddl) (impl : result catalog) : list N :=
  [ b2n (forallb wf_ddl ds);
    first_known pg_initial ds;
    b2n (res_agree canon_eqb (pg_run pg_initial ds) impl);
    b2n (res_agree cat_eqb (build pg_initial ds) impl) ].
