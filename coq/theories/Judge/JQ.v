(** Executable comparison of the compile model with what sqlc produced. *)
From Verif Require Import Model.Compile Gen.Reserved.
Open Scope string_scope.
Open Scope list_scope.

Definition opt_eqb {A} (eq : A -> A -> bool) (a b : option A) : bool :=
  match a, b with Some x, Some y => eq x y | None, None => true | _, _ => false end.
Definition tname_eqb (a b : tname) : bool :=
  String.eqb (tn_cat a) (tn_cat b) && String.eqb (tn_schema a) (tn_schema b) && String.eqb (tn_name a) (tn_name b).
Definition qcol_eqb (a b : qcol) : bool :=
  String.eqb (qc_name a) (qc_name b) && String.eqb (qc_dt a) (qc_dt b) && Bool.eqb (qc_nn a) (qc_nn b)
  && Bool.eqb (qc_arr a) (qc_arr b) && String.eqb (qc_scope a) (qc_scope b) && opt_eqb tname_eqb (qc_table a) (qc_table b).
Definition param_eqb (a b : param) : bool := Z.eqb (p_num a) (p_num b) && opt_eqb qcol_eqb (p_col a) (p_col b).
Definition query_eqb (a b : query) : bool :=
  String.eqb (q_name a) (q_name b) && String.eqb (q_cmd a) (q_cmd b) && String.eqb (q_sql a) (q_sql b)
  && strs_eqb (q_comments a) (q_comments b) && list_eqb param_eqb (q_params a) (q_params b)
  && list_eqb qcol_eqb (q_columns a) (q_columns b).

(** which parts differ: bit 0 name/cmd, 1 sql, 2 comments, 3 params, 4 columns; 32 = outcome kind *)
Open Scope N_scope.
Definition query_diff (a b : query) : N :=
  (if String.eqb (q_name a) (q_name b) && String.eqb (q_cmd a) (q_cmd b) then 0 else 1)
  + (if String.eqb (q_sql a) (q_sql b) then 0 else 2)
  + (if strs_eqb (q_comments a) (q_comments b) then 0 else 4)
  + (if list_eqb param_eqb (q_params a) (q_params b) then 0 else 8)
  + (if list_eqb qcol_eqb (q_columns a) (q_columns b) then 0 else 16).

Definition outcome_diff (m i : result (option query)) : N :=
  match m, i with
  | Ok (Some a), Ok (Some b) => query_diff a b
  | Ok None, Ok None => 0
  | Err _, Err _ => 0
  | Panic _, Panic _ => 0
  | _, _ => 32
  end.

Definition pg_reserved_b (s : string) : bool := mem_str (to_lower s) pg_reserved.
Definition my_reserved_b (s : string) : bool := mem_str (to_lower s) my_reserved.

Definition mk_env (eng : engine_t) (c : catalog) (fs : list fsig) : env :=
  mkEnv eng c fs (match eng with EPostgres => pg_reserved_b | EMySQL => my_reserved_b end).

Definition b2n (b : bool) : N := if b then 1 else 0.

(** Where the functional model is blind: sourceTables renames the SHARED table
    object of a CTE when a reference to it carries an alias
    (`table.Rel = &ast.TableName{Name: alias}` on the pointer kept in qc.ctes), so
    with two references to one CTE the later alias leaks into the earlier one.
    Such statements are outside [wf]; the implementation-only oracles still run. *)
Definition cte_alias_shared (raw : node) : bool :=
  let names := map (str_of "Ctename") (search (is_kind "CommonTableExpr") raw) in
  let rvs := search (is_kind "RangeVar") raw in
  existsb (fun nm =>
    let refs := filter (fun rv => String.eqb (str_of "Relname" rv) nm && String.eqb (str_of "Schemaname" rv) "") rvs in
    Nat.ltb 1 (List.length refs) && existsb (fun rv => negb (is_nil (kid "Alias" rv))) refs) names.

Definition wf_raw (raw : node) : bool := wf_order raw && negb (cte_alias_shared raw).

(** [wf; 0; 1; diff] — diff = 0 means the model reproduces sqlc exactly *)
Definition judge_corr (e : env) (raw : node) (src : string) (positional : bool) (impl : result (option query)) : list N :=
  [b2n (wf_raw raw); 0; 1; outcome_diff (parse_query e raw src positional) impl].
