(** C02 result-row shape, C05 result types, C10 name resolution — judged
    against Spec/PgScope.v. *)
From Verif Require Import Model.Compile Spec.PgScope Judge.JQ.
Open Scope string_scope.
Open Scope list_scope.

Definition stmt_of (raw : node) : node := kid "Stmt" raw.

Fixpoint names_agree (row : list sccol) (cols : list qcol) : bool :=
  match row, cols with
  | [], [] => true
  | r :: rs, c :: cs => (String.eqb (sc_name r) "" || String.eqb (sc_name r) (qc_name c)) && names_agree rs cs
  | _, _ => false
  end.

Open Scope N_scope.
(** syntactic known-finding classes for the result row:
    1 a derived table (sub-select in FROM) anywhere in the statement
    2 UPDATE ... FROM with RETURNING
    3 two references to one CTE, one aliased (shared table object renamed) *)
(** a query level whose FROM clause contains another SELECT (derived table, or
    a sub-select inside a JOIN condition) *)
Definition has_from_subselect (raw : node) : bool :=
  existsb (fun s => existsb (is_kind "SelectStmt") (preorder (kid "FromClause" s)))
          (search (fun x => is_kind "SelectStmt" x || is_kind "UpdateStmt" x) raw).

(** 4: an unqualified star over source tables in which a reserved-word column
    name occurs more than once (expandStmt looks the count up with the QUOTED name,
    finds none and emits the column unqualified: the embedded SQL is ambiguous) *)
Definition reserved_dup (e : env) (raw : node) : bool :=
  let stmt := kid "Stmt" raw in
  let fuel := S (node_size raw) in
  match build_query_catalog fuel e stmt with
  | Ok qc =>
      existsb (fun s =>
        match stmt_targets s with
        | Some ts =>
            existsb (fun t => let v := kid "Val" t in
                              is_kind "ColumnRef" v && has_star_ref v && String.eqb (join_list (kid "Fields" v) ".") "") (items ts)
            && match source_tables fuel e qc s with
               | Ok tables => existsb (fun col => env_reserved e (qc_name col) && Nat.ltb 1 (count_name tables (qc_name col)))
                                      (flat_map qt_cols tables)
               | _ => false
               end
        | None => false
        end)
        (search (fun x => let k := kind_of x in
                   String.eqb k "DeleteStmt" || String.eqb k "InsertStmt" || String.eqb k "SelectStmt" || String.eqb k "UpdateStmt") raw)
  | _ => false
  end.

(** a CTE whose query has a result column without a name (an un-aliased
    expression): a star over the CTE writes an empty identifier *)
Definition unnamed_cte_column (raw : node) : bool :=
  existsb (fun cte =>
    existsb (fun t =>
      is_kind "ResTarget" t && match str_opt "Name" t with Some _ => false | None => true end
      && let k := kind_of (kid "Val" t) in
         negb (mem_str k ["ColumnRef"; "FuncCall"; "CoalesceExpr"; "SubLink"])
         && negb (String.eqb k "TypeCast" && is_kind "ColumnRef" (kid "Arg" (kid "Val" t))))
      (kid_items "TargetList" (kid "Ctequery" cte)))
    (search (is_kind "CommonTableExpr") raw).

(** the sub-queries a star can range over by name: CTE bodies and derived tables *)
Definition named_subqueries (raw : node) : list node :=
  map (kid "Ctequery") (search (is_kind "CommonTableExpr") raw)
  ++ map (kid "Subquery") (search (is_kind "RangeSubselect") raw).

(** 6: such a sub-query has an un-aliased cast of a QUALIFIED column
    (x.c::text): sqlc names the column x_c, PostgreSQL c; a star over the
    sub-query is expanded to a column that does not exist *)
Definition qualified_cast_column (raw : node) : bool :=
  existsb (fun q =>
    existsb (fun t =>
      is_kind "ResTarget" t && match str_opt "Name" t with Some _ => false | None => true end
      && is_kind "TypeCast" (kid "Val" t) && is_kind "ColumnRef" (kid "Arg" (kid "Val" t))
      && Nat.ltb 1 (List.length (string_items (kid "Fields" (kid "Arg" (kid "Val" t))))))
      (kid_items "TargetList" q))
    (named_subqueries raw).

(** 7: such a sub-query returns two columns of one name (SELECT a AS x, b AS x):
    a star over it cannot be spelled out by name - the expansion is ambiguous *)
Definition target_label (t : node) : string :=
  match str_opt "Name" t with
  | Some a => a
  | None => let v := kid "Val" t in
            if is_kind "ColumnRef" v then last (string_items (kid "Fields" v)) "" else ""
  end.
Definition duplicate_subquery_column (raw : node) : bool :=
  existsb (fun q =>
    let labels := filter (fun l => negb (String.eqb l "")) (map target_label (kid_items "TargetList" q)) in
    negb (nodup_str labels))
    (named_subqueries raw).

(** ... also when the duplicate comes out of a star inside the CTE (SELECT x AS id, * FROM t):
    decided on the columns sqlc infers for the statement's CTEs *)
Definition duplicate_cte_column (e : env) (raw : node) : bool :=
  match build_query_catalog (S (node_size raw)) e (kid "Stmt" raw) with
  | Ok qc => existsb (fun p => negb (nodup_str (filter (fun l => negb (String.eqb l "")) (map qc_name (qt_cols (snd p)))))) qc
  | _ => false
  end.

Definition has_star0 (raw : node) : bool :=
  existsb (fun t => let v := kid "Val" t in is_kind "ColumnRef" v && has_star_ref v) (search (is_kind "ResTarget") raw).

Definition c02_class_e (e : env) (raw : node) : N :=
  if cte_alias_shared raw then 3
  else if has_from_subselect raw then 1
  else if existsb (fun u => negb (Nat.eqb (List.length (kid_items "FromClause" u)) 0)
                            && negb (Nat.eqb (List.length (kid_items "ReturningList" u)) 0))
                  (search (is_kind "UpdateStmt") raw) then 2
  else if unnamed_cte_column raw && has_star0 raw then 5
  else if qualified_cast_column raw && has_star0 raw then 6
  else if (duplicate_subquery_column raw || duplicate_cte_column e raw) && has_star0 raw then 7
  else 0.

Definition c02_class (raw : node) : N :=
  if cte_alias_shared raw then 3
  else if has_from_subselect raw then 1
  else if existsb (fun u => negb (Nat.eqb (List.length (kid_items "FromClause" u)) 0)
                            && negb (Nat.eqb (List.length (kid_items "ReturningList" u)) 0))
                  (search (is_kind "UpdateStmt") raw) then 2
  else 0.

(** C02 on one accepted :one/:many query.  [sql_raw] is the parse of the embedded
    SQL (Nil when it does not parse).  The row the database returns for the
    embedded SQL must have as many columns as sqlc inferred, named alike, and
    the same must hold for the source statement (an expansion that changes the
    row is a violation too). *)
Definition holds_c02 (c : catalog) (raw sql_raw : node) (q : query) : bool :=
  if negb (String.eqb (q_cmd q) ":one" || String.eqb (q_cmd q) ":many") then true else
  match pg_describe c (stmt_of sql_raw), pg_describe c (stmt_of raw) with
  | POk row_sql, POk row_src =>
      names_agree row_sql (q_columns q) && names_agree row_src (q_columns q)
  | _, _ => false
  end.

(** the spec can speak about the statement: it resolves in PostgreSQL's full sense *)
Definition spec_ok (c : catalog) (raw : node) : bool :=
  match pg_describe c (stmt_of raw) with POk _ => true | PErr _ => false end.

Definition judge_c02 (e : env) (raw : node) (src : string) (sql_raw : node) (impl : result (option query)) : list N :=
  let c := env_cat e in
  let holds := match impl with
               | Ok (Some q) => if spec_ok c raw then holds_c02 c raw sql_raw q else true
               | _ => true
               end in
  [b2n (wf_order raw) + 2 * b2n (cte_alias_shared raw); c02_class_e e raw; b2n holds;
   outcome_diff (parse_query e raw src false) impl].

(** C05: a result column that is a plain reference to a table column carries
    that column's declared type, nullability and array-ness *)
Fixpoint types_agree (row : list sccol) (cols : list qcol) : bool :=
  match row, cols with
  | [], [] => true
  | r :: rs, q :: qs =>
      match sc_src r with
      | Some (_, _, col) =>
          String.eqb (qc_dt q) (data_type (col_type col)) && Bool.eqb (qc_nn q) (col_notnull col)
          && Bool.eqb (qc_arr q) (col_array col)
      | None => true
      end && types_agree rs qs
  | _, _ => true          (* arity mismatches are C02's business *)
  end.

Definition judge_c05 (e : env) (raw : node) (src : string) (sql_raw : node) (impl : result (option query)) : list N :=
  let c := env_cat e in
  let holds := match impl with
               | Ok (Some q) =>
                   match pg_describe c (stmt_of raw) with
                   | POk row => types_agree row (q_columns q)
                   | PErr _ => true
                   end
               | _ => true
               end in
  [b2n (wf_order raw) + 2 * b2n (cte_alias_shared raw); c02_class raw; b2n holds;
   outcome_diff (parse_query e raw src false) impl].

(** C10: 0 = all listed names resolve, 1 = undefined relation, 2 = undefined
    column, 3 = ambiguous column, 9 = outside the spec (duplicate alias, ...) *)
Definition names_verdict (c : catalog) (raw : node) : N :=
  match pg_names_ok c (stmt_of raw) with
  | POk _ => 0
  | PErr (EUndefinedTable _) => 1
  | PErr (EUndefinedColumn _) => 2
  | PErr (EAmbiguousColumn _) => 3
  | PErr _ => 9
  end.

Definition verdict_of (r : pgres (list sccol)) : N :=
  match r with
  | POk _ => 0
  | PErr (EUndefinedTable _) => 1
  | PErr (EUndefinedColumn _) => 2
  | PErr (EAmbiguousColumn _) => 3
  | PErr _ => 9
  end.
Definition query_levels (raw : node) : nat :=
  List.length (search (fun x => let k := kind_of x in
     String.eqb k "SelectStmt" || String.eqb k "InsertStmt" || String.eqb k "UpdateStmt" || String.eqb k "DeleteStmt") raw).

(** [impl_rejects_names]: 0 accepted, 1 rejected with a name diagnostic
    (does not exist / ambiguous), 2 rejected for another reason, 3 panic *)
Definition judge_c10 (e : env) (raw : node) (src : string) (impl_kind : N) (impl : result (option query)) : list N :=
  let v := names_verdict (env_cat e) raw in
  let holds :=
    if N.eqb v 9 then true
    else if N.eqb v 0 then negb (N.eqb impl_kind 1)          (* resolvable: no name diagnostic *)
    else N.eqb impl_kind 1 || N.eqb impl_kind 2 in           (* unresolvable: rejected *)
  let vd := verdict_of (pg_names_ok_direct (env_cat e) (stmt_of raw)) in
  let multi := Nat.ltb 1 (query_levels raw) || negb (Nat.eqb (List.length (search (is_kind "SubLink") raw)) 0) in
  [b2n (wf_order raw) + 2 * b2n (cte_alias_shared raw); c02_class raw + 10 * v + 100 * vd + 1000 * b2n multi; b2n holds;
   outcome_diff (parse_query e raw src false) impl].

(** ** Go level: the struct a :one/:many method returns (or its single column),
    read back from the emitted package: db tag and Go type per field *)
From Verif Require Import Model.GoTypes Model.GoStruct.

Definition strip_suffix_ok (tag name : string) : bool :=
  String.eqb tag name || has_prefix tag (name +++ "_").

Definition col_tag_name (c : qcol) (pos : nat) : string :=
  if String.eqb (qc_name c) "" then "column_" +++ z_to_string (Z.of_nat (S pos)) else qc_name c.

Fixpoint fields_match (c : catalog) (pos : nat) (fields : list (string * string)) (cols : list qcol) (check_types : bool) : bool :=
  match fields, cols with
  | [], [] => true
  | (tag, ty) :: fr, col :: cr =>
      strip_suffix_ok tag (col_tag_name col pos)
      && (negb check_types || String.eqb ty (go_type PostgreSQL c (qc_dt col) (qc_nn col) (qc_arr col) false))
      && fields_match c (S pos) fr cr check_types
  | _, _ => false
  end.

Fixpoint forall2b {A B} (f : A -> B -> bool) (a : list A) (b : list B) : bool :=
  match a, b with
  | [], [] => true
  | x :: a', y :: b' => f x y && forall2b f a' b'
  | _, _ => false
  end.

(** the query's columns are exactly the columns of a catalog table, in order,
    referenced from that table: the method must return the table's model struct *)
Definition is_whole_table (c : catalog) (cols : list qcol) : bool :=
  existsb (fun s =>
    negb (String.eqb (sch_name s) "pg_catalog") &&
    existsb (fun t =>
      forall2b (fun (col : column) (q : qcol) =>
                  String.eqb (col_name col) (qc_name q) && String.eqb (data_type (col_type col)) (qc_dt q)
                  && Bool.eqb (col_notnull col) (qc_nn q) && Bool.eqb (col_array col) (qc_arr q)
                  && match qc_table q with
                     | Some tn => String.eqb (tn_name tn) (tab_name t)
                                  && String.eqb (if String.eqb (tn_schema tn) "" then cat_default c else tn_schema tn) (sch_name s)
                     | None => false
                     end)
               (tab_cols t) cols) (sch_tables s)) (cat_schemas c).

(** [scan_count]: destinations of the Scan call; [fields]: (db tag, Go type) of
    the returned struct's fields, or the single result; [ret_is_model]: the
    returned struct is declared in models.go.  Result: [arity+names ok; types ok; reuse ok] *)
Definition judge_go_ret (e : env) (q : query) (scan_count : nat) (ret_is_model : bool) (fields : list (string * string)) : list N :=
  let c := env_cat e in
  let n := List.length (q_columns q) in
  [ b2n (Nat.eqb scan_count n && (Nat.ltb n 2 || fields_match c 0 fields (q_columns q) false));
    b2n (match q_columns q with
         | [col] => match fields with [(_, ty)] => String.eqb ty (go_type PostgreSQL c (qc_dt col) (qc_nn col) (qc_arr col) false) | _ => false end
         | _ => fields_match c 0 fields (q_columns q) true
         end);
    b2n (if Nat.ltb n 2 then true
         else if ret_is_model then fields_match c 0 fields (q_columns q) true && list_eqb String.eqb (map fst fields) (map qc_name (q_columns q))
         else negb (is_whole_table c (q_columns q)));
    (* the db tags are exactly those of the columnsToStruct model (Model/GoStruct.v) *)
    b2n (Nat.ltb n 2 || list_eqb String.eqb (map fst fields) (row_tags (map qc_name (q_columns q)))) ].

(** ** C07: the expanded statement returns the same row, column by column, as
    the statement with stars: same names, same source columns *)
Definition src_eqb (a b : option (string * string * column)) : bool :=
  match a, b with
  | Some (s1, t1, c1), Some (s2, t2, c2) => String.eqb s1 s2 && String.eqb t1 t2 && String.eqb (col_name c1) (col_name c2)
  | None, None => true
  | _, _ => false
  end.
Definition rows_equal (a b : list sccol) : bool :=
  forall2b (fun x y => String.eqb (sc_name x) (sc_name y) && src_eqb (sc_src x) (sc_src y)) a b.

Definition has_star (raw : node) : bool :=
  existsb (fun t => let v := kid "Val" t in is_kind "ColumnRef" v && has_star_ref v) (search (is_kind "ResTarget") raw).

Definition judge_c07 (e : env) (raw : node) (src : string) (sql_raw : node) (impl : result (option query)) : list N :=
  let c := env_cat e in
  let holds :=
    match impl with
    | Ok (Some q) =>
        if has_star raw && spec_ok c raw then
          match pg_describe c (stmt_of raw), pg_describe c (stmt_of sql_raw) with
          | POk a, POk b => rows_equal a b && negb (has_star sql_raw)
          | _, _ => false
          end
        else true
    | _ => true
    end in
  [b2n (wf_order raw) + 2 * b2n (cte_alias_shared raw) + 4 * b2n (negb (has_star raw)) + 8 * b2n (spec_ok c raw);
   c02_class_e e raw; b2n holds; outcome_diff (parse_query e raw src false) impl].
