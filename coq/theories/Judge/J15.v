(** C15 — overrides apply exactly where specified. *)
From Verif Require Import Model.GoTypes Proofs.OverrideFacts.
Open Scope string_scope.
Open Scope list_scope.

Definition b2n (b : bool) : N := if b then 1%N else 0%N.

(** one generated field: the column record the compiler attached and the Go type emitted;
    [base] = the Go type emitted WITHOUT the override set (under the same rename map [rn], which
    may rename a generated enum type).
    result: [wf; known; holds; corr] where holds is the relational reading of the
    property: the type differs from [base] only if some override matches, and if one
    matches the type is that override's *)
Definition judge_field (rn : list (string * string)) (ovs : list gov) (eng : engine) (c : catalog) (tbl : option (string * string * string))
           (colname dt : string) (nn arr : bool) (impl base : string) : list N :=
  let colm := existsb (fun o => matches_column o (cat_default c) tbl colname) ovs in
  let dbm := existsb (fun o => matches_dbtype o dt (nn || arr)) ovs in
  let holds :=
    (String.eqb impl base || colm || dbm)
    && match column_override ovs (cat_default c) tbl colname with
       | Some o => String.eqb impl (gov_gotype o)
       | None => match dbtype_override ovs dt (nn || arr) with
                 | Some o => String.eqb impl ((if arr then "[]" else "") +++ gov_gotype o)
                 | None => String.eqb impl base
                 end
       end in
  let model := match eng with
               | PostgreSQL => pg_go_type_ov_r rn ovs c tbl colname dt nn arr
               | _ => go_type_ov ovs eng c tbl colname dt nn arr false
               end in
  [1%N; 0%N; b2n holds; b2n (negb (String.eqb impl model))].
