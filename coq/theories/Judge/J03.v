(** C03 — arguments bind one-to-one, in order, to the placeholders. *)
From Verif Require Import Model.Compile Spec.Placeholders Judge.JQ Model.Shape.
Open Scope string_scope.
Open Scope list_scope.

Fixpoint zinsert (x : Z) (l : list Z) : list Z :=
  match l with [] => [x] | y :: r => if (x <=? y)%Z then x :: y :: r else y :: zinsert x r end.
Definition zsort (l : list Z) : list Z := fold_right zinsert [] l.
Definition zs_eqb := list_eqb Z.eqb.

(** the property on one compiled query (PostgreSQL): the distinct $n of the
    embedded SQL are exactly 1..k and the parameters are numbered 1..k in order *)
Definition holds_c03_pg (q : query) : bool :=
  let marks := dedup_keep_first [] (pg_marks (q_sql q)) in
  let k := List.length marks in
  zs_eqb (zsort marks) (zseq 1 k) && zs_eqb (map p_num (q_params q)) (zseq 1 k).

(** MySQL: one parameter per ? mark, numbered in text order *)
Definition holds_c03_my (q : query) : bool :=
  zs_eqb (map p_num (q_params q)) (zseq 1 (my_marks (q_sql q))).

(** how many parameters one found reference resolves to (None = error / panic) *)
Definition ref_arity (e : env) (raw2 : node) (names : list (Z * string)) (r : pref) : option nat :=
  let stmt2 := kid "Stmt" raw2 in
  let rvs := filter (fun rv => match str_opt "Relname" rv with Some _ => true | None => false end)
                    (search (is_kind "RangeVar") stmt2) in
  let tables := map table_of_rangevar rvs in
  let aliases := rev (flat_map (fun rv => if is_nil (kid "Alias" rv) then []
                                          else [(str_of "Aliasname" (kid "Alias" rv), table_of_rangevar rv)]) rvs) in
  let bare := map table_of_rangevar (filter (fun rv => is_nil (kid "Alias" rv)) rvs) in
  match resolve_one e tables bare aliases (match tables with t :: _ => Some t | [] => None end) names r with
  | Ok ps => Some (List.length ps)
  | _ => None
  end.

Open Scope N_scope.
(** known-finding classes, decided on the model's view of the statement:
    1 placeholder nested below a function argument (dropped)
    2 the same placeholder twice as direct arguments of one call (duplicated)
    3 placeholder without an enclosing expression sqlc understands (dropped) *)
Definition ref_class (e : env) (raw2 : node) (names : list (Z * string)) (r : pref) : N :=
  match ref_arity e raw2 names r with
  | Some 1%nat => 0
  | Some O =>
      match pr_parent r with
      | PNode n => if is_kind "FuncCall" n then 1 else 3
      | _ => 3
      end
  | Some _ => 2
  | None => 0
  end.

Definition c03_refs (e : env) (raw : node) : result (node * list (Z * string) * list pref) :=
  let '(raw2, names, _) := named_parameters (env_engine e) raw in
  do refs0 <- find_parameters (kid "Stmt" raw2);
  Ok (raw2, names, sort_refs (unique_refs [] refs0)).

Definition c03_class (e : env) (raw : node) : N :=
  match c03_refs e raw with
  | Ok (raw2, names, refs) =>
      match filter (fun c => negb (N.eqb c 0)) (map (ref_class e raw2 names) refs) with
      | c :: _ => c
      | [] => 0
      end
  | _ => 0
  end.

(** every placeholder number of the (rewritten) statement was found by the walker *)
Definition refs_complete (e : env) (raw : node) : bool :=
  match c03_refs e raw with
  | Ok (raw2, _, refs) =>
      zs_eqb (zsort (dedup_z (map (int_of "Number") (search (is_kind "ParamRef") (kid "Stmt" raw2)))))
             (map ref_number refs)
  | _ => true
  end.

(** [wf; known; holds; diff]; known 9 = the walker missed a placeholder *)
Definition judge_c03 (e : env) (raw : node) (src : string) (impl : result (option query)) : list N :=
  let known := if refs_complete e raw then c03_class e raw else 9 in
  let holds := match impl with
               | Ok (Some q) => match env_engine e with EPostgres => holds_c03_pg q | EMySQL => holds_c03_my q end
               | _ => true
               end in
  let raw2 := fst (fst (named_parameters (env_engine e) raw)) in
  [b2n (wf_order raw && inserts_ok (kid "Stmt" raw2) && shape_ok raw2) + 2 * b2n (cte_alias_shared raw); known; b2n holds; outcome_diff (parse_query e raw src false) impl].
