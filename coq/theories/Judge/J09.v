(** Executable verdicts for C09 cases, and the finite-domain checks the
    theorems of Props/C09.v are about. *)
From Verif Require Import Base.Str Model.Catalog Model.GoTypes Spec.DocTypes.
Open Scope string_scope.
Open Scope list_scope.

Definition tclass_eqb (a b : tclass) : bool :=
  match a, b with
  | KInt16, KInt16 | KInt32, KInt32 | KInt64, KInt64 | KFloat32, KFloat32 | KFloat64, KFloat64
  | KDecimal, KDecimal | KText, KText | KBool, KBool | KTime, KTime | KBytes, KBytes | KJson, KJson
  | KUuid, KUuid | KInet, KInet | KMac, KMac => true
  | _, _ => false
  end.

(** known-finding cells: 1 = nullable int16 class, 2 = nullable float32 class *)
Open Scope N_scope.
Definition known_cell (k : tclass) (nn : bool) : N :=
  if nn then 0 else match k with KInt16 => 1 | KFloat32 => 2 | _ => 0 end.
Close Scope N_scope.

Definition doc_of (eng : engine) : list (string * tclass) :=
  match eng with PostgreSQL => doc_pg | MySQL => doc_my end.
Definition table_of (eng : engine) : list type_entry :=
  match eng with PostgreSQL => pg_type_table | MySQL => my_type_table end.
Definition relational_of (eng : engine) : list string :=
  match eng with PostgreSQL => relational_only_pg | MySQL => relational_only_my end.

(** the documented class of a type name, with MySQL's tinyint(1) *)
Definition class_of (eng : engine) (dt : string) (len1 : bool) : option tclass :=
  match eng, len1 with
  | MySQL, true => if String.eqb dt "tinyint" then Some KBool else assoc_class doc_my dt
  | _, _ => assoc_class (doc_of eng) dt
  end.

(** one (entry, name) cell of a regenerated table against the documentation *)
Definition cell_ok (eng : engine) (e : type_entry) (name : string) (nn len1 : bool) : bool :=
  match class_of eng name len1 with
  | Some k =>
      implb (N.eqb (known_cell k nn) 0) (String.eqb (entry_type e nn len1) (if nn then fst (doc_repr k) else snd (doc_repr k)))
  | None =>
      mem_str name (relational_of eng) && is_null_form (entry_type e true len1) (entry_type e false len1)
  end.

Definition bools := [true; false].
Definition table_ok (eng : engine) : bool :=
  forallb (fun e => forallb (fun name => forallb (fun nn => forallb (fun len1 =>
     cell_ok eng e name nn len1) bools) bools) (te_names e)) (table_of eng).

(** every documented name has an arm, and it is the arm the switch would take *)
Definition table_complete (eng : engine) : bool :=
  forallb (fun p => match lookup_entry (table_of eng) (fst p) with Some _ => true | None => false end) (doc_of eng)
  && forallb (fun e => forallb (fun name =>
        match lookup_entry (table_of eng) name with
        | Some e' => strs_eqb (te_names e') (te_names e)
        | None => false end) (te_names e)) (table_of eng).

Definition b2n (b : bool) : N := if b then 1%N else 0%N.

(** verdict for one executed cell: [wf; known; holds; corr] *)
Definition judge_cell (eng : engine) (c : catalog) (dt : string) (nn arr len1 : bool) (impl : string) : list N :=
  let model := go_type eng c dt nn arr len1 in
  let known := match class_of eng dt len1 with Some k => known_cell k (nn || arr) | None => 0%N end in
  let holds :=
    match class_of eng dt len1 with
    | Some k => String.eqb impl (doc_type k nn arr)
    | None =>
        if mem_str dt (relational_of eng) then true
        else String.eqb impl model   (* enum / composite / unknown: decided by the general lemmas *)
    end in
  [1%N; known; b2n holds; b2n (String.eqb impl model)].

(** a spelling through the real parser: all positions show the documented type *)
Definition judge_spelling (k : tclass) (nn arr : bool) (impl : list string) : list N :=
  [1%N; known_cell k (nn || arr); b2n (forallb (String.eqb (doc_type k nn arr)) impl); 1%N].
