(** C11 — the annotation determines the method's contract. *)
From Verif Require Import Model.Compile Spec.Contract Judge.JQ.
Open Scope string_scope.
Open Scope list_scope.

(** metadata.Parse correspondence: impl = Some (name, cmd) or None (error) *)
Definition judge_meta (text : string) (cs : comment_syntax) (impl : option (string * string)) : list N :=
  let m := meta_parse text cs in
  [1%N; 0%N; 1%N;
   match m, impl with
   | Ok (n, c), Some (n', c') => b2n (negb (String.eqb n n' && String.eqb c c'))
   | Err _, None => 0%N
   | _, _ => 1%N
   end].

(** the annotation grammar, independently of the parser's control flow: the
    first line that starts with the engine's comment prefix + " name:" decides *)
Definition spec_annotation_line (line : string) (prefix : string) : option (result (string * string)) :=
  if negb (has_prefix line (prefix +++ " name:")) then None else
  let parts := split_on " "%char (trim_space line) in
  let parts := if String.eqb prefix "/*" then removelast parts else parts in
  Some match parts with
       | [_; _] => Err "missing query type"
       | [_; _; n; c] =>
           if mem_str (trim_space c) commands && valid_query_name n then Ok (n, trim_space c) else Err "invalid"
       | _ => Err "invalid query comment"
       end.

Definition judge_contract (cmd : string) (prepared : bool) (results : list string) (call : string)
           (events : list string) (scans : nat) : list N :=
  [1%N; 0%N; b2n (contract_ok cmd prepared (mkMS results call events scans)); 0%N].
