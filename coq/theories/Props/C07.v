(** Property C07 — Star expansion lists exactly the catalog's columns, unambiguously.
    Full statement: C07_full_statement, decided per case by judge_c07 and by the
    star-versus-explicit relational check.  Proved for all inputs: a star writes
    exactly as many identifiers as inference adds columns (C07_star_arity_partial), and an
    identifier that is a reserved word of the engine is always quoted
    (C07_quoted_partial; the keyword table is regenerated from reserved.go). *)
From Verif Require Import Model.Compile Spec.PgScope Judge.JQ Judge.J02 Proofs.ColumnsFacts Proofs.ExpandFacts Proofs.StarExplicit.
Open Scope string_scope.
Open Scope list_scope.

Definition C07_full_statement : Prop :=
  forall e raw src sql_raw q a b,
    wf_raw raw = true -> c02_class_e e raw = 0%N -> has_star raw = true ->
    parse_query e raw src false = Ok (Some q) ->
    pg_describe (env_cat e) (stmt_of raw) = POk a -> pg_describe (env_cat e) (stmt_of sql_raw) = POk b ->
    rows_equal a b = true.

Theorem C07_star_arity_partial : forall e tables res ref,
  List.length (expand_cols e tables res ref) = List.length (star_columns res tables ref).
Proof. exact star_arity. Qed.
Print Assumptions C07_star_arity_partial.

Theorem C07_quoted_partial : forall e s,
  env_reserved e s = true ->
  quote_ident e s = match env_engine e with EMySQL => "`" +++ s +++ "`" | EPostgres => """" +++ s +++ """" end.
Proof. intros e s H. unfold quote_ident. rewrite H. reflexivity. Qed.
Print Assumptions C07_quoted_partial.

Theorem C07_unreserved_verbatim_partial : forall e s, env_reserved e s = false -> quote_ident e s = s.
Proof. intros e s H. unfold quote_ident. rewrite H. reflexivity. Qed.
Print Assumptions C07_unreserved_verbatim_partial.

(** `*`: exactly the columns of the tables in scope - from-list order, then
    declaration order - each qualified with its table's name exactly when its
    name occurs more than once in scope (the quoting of each part is
    C07_quoted_partial / C07_unreserved_verbatim_partial) *)
Theorem C07_unqualified_star_partial : forall e tables res ref,
  join_list (kid "Fields" ref) "." = "" -> res_name res = None ->
  expand_cols e tables res ref = flat_map (fun t => map (star_entry e tables t) (qt_cols t)) tables.
Proof. exact unqualified_star_entries. Qed.
Print Assumptions C07_unqualified_star_partial.

(** an entry written without qualifier resolves to exactly one column of the scope *)
Theorem C07_bare_entry_unambiguous_partial : forall tables t c,
  In t tables -> In c (qt_cols t) -> Nat.ltb 1 (count_name tables (qc_name c)) = false ->
  List.length (ref_candidates tables "" (qc_name c)) = 1%nat.
Proof. exact bare_entry_unambiguous. Qed.
Print Assumptions C07_bare_entry_unambiguous_partial.

Theorem C07_qualified_entry_partial : forall tables t c,
  In t tables -> In c (qt_cols t) -> In c (ref_candidates tables (tn_name (qt_rel t)) (qc_name c)).
Proof. exact qualified_entry_candidate. Qed.
Print Assumptions C07_qualified_entry_partial.

(** "The same query written with * and with the explicit list generates the same
    API": for every scope with pairwise distinct relation names and, per
    relation, pairwise distinct column names, the star and the explicit list of
    all columns - each qualified with its relation's visible name - infer the
    same result columns: number, order, names, types, nullability, array-ness and
    owning tables.  (Relations with duplicate column names are the finding
    star_over_duplicate_column_names.) *)
Theorem C07_star_equals_explicit_partial : forall e tables,
  NoDup (map (fun t => tn_name (qt_rel t)) tables) ->
  Forall (fun t => tn_name (qt_rel t) <> "" /\ NoDup (map qc_name (qt_cols t))) tables ->
  targets_columns e tables (explicit_targets tables) = targets_columns e tables [star_target].
Proof. exact star_equals_explicit. Qed.
Print Assumptions C07_star_equals_explicit_partial.
