(** Property C15 — Type overrides and renames apply exactly where specified.
    Over the transcription of goType / goInnerType / sameTableName (Model/GoTypes.v):
    adding a column override changes the Go type of a column only if it is the
    column the override names, and then gives the override's type in every
    position (model field, result field, parameter all go through go_type_ov with
    the same column record); a database-type override changes all and only the
    columns of that type with the matching nullability.  "Import emitted iff
    used" and renames are decided on the emitted package per case (the import
    heuristics are prefix tests on type strings: see known_findings.json). *)
From Verif Require Import Model.GoTypes Model.GoEnums Proofs.OverrideFacts Proofs.GoEnumFacts Judge.J15.
Open Scope string_scope.
Open Scope list_scope.

Theorem C15_column_only : forall ovs o eng c tbl colname dt nn arr len1,
  gov_dbtype o = "" ->
  go_type_ov (ovs ++ [o]) eng c tbl colname dt nn arr len1 <> go_type_ov ovs eng c tbl colname dt nn arr len1 ->
  matches_column o (cat_default c) tbl colname = true.
Proof. exact column_override_only. Qed.
Print Assumptions C15_column_only.

Theorem C15_column_everywhere : forall ovs o eng c tbl colname dt nn arr len1,
  column_override ovs (cat_default c) tbl colname = None ->
  matches_column o (cat_default c) tbl colname = true ->
  go_type_ov (ovs ++ [o]) eng c tbl colname dt nn arr len1 = gov_gotype o.
Proof. exact column_override_applies. Qed.
Print Assumptions C15_column_everywhere.

Theorem C15_dbtype : forall ovs o eng c tbl colname dt nn arr len1,
  gov_column o = "" ->
  go_type_ov (ovs ++ [o]) eng c tbl colname dt nn arr len1 <> go_type_ov ovs eng c tbl colname dt nn arr len1 ->
  matches_dbtype o dt (nn || arr) = true.
Proof. exact dbtype_override_only. Qed.
Print Assumptions C15_dbtype.

Example C15_example :
  let o := mkGov "ksuid.KSUID" "accounts.id" "id" "" "public" "accounts" "" false in
  go_type_ov [o] PostgreSQL pg_initial (Some ("", "", "accounts")) "id" "uuid" true false false = "ksuid.KSUID"
  /\ go_type_ov [o] PostgreSQL pg_initial (Some ("", "s1", "accounts")) "id" "uuid" true false false = "uuid.UUID"
  /\ go_type_ov [o] PostgreSQL pg_initial (Some ("", "", "other")) "id" "uuid" true false false = "uuid.UUID".
Proof. vm_compute. repeat split. Qed.

(** ** renames and generated enum types.  The declaration of an enum type
    (result.go buildEnums, Model/GoEnums.v) and every reference to it
    (postgresType, Model/GoTypes.v) hand StructName the same key, so for EVERY
    rename map the Go type of a column of a user-defined type is the name of a
    declared enum type (or the string form of a composite type, or interface{}):
    a rename can never make a field mention a type the package does not declare. *)
Theorem C15_enum_reference_declared_partial : forall rn c dt nn arr,
  lookup_entry pg_type_table dt = None ->
  postgres_type_r rn c dt nn arr = "interface{}"
  \/ In (postgres_type_r rn c dt nn arr) (map ge_name (build_enums rn c))
  \/ postgres_type_r rn c dt nn arr = (if nn || arr then "string" else "sql.NullString").
Proof. exact go_type_of_enum_column_declared. Qed.
Print Assumptions C15_enum_reference_declared_partial.

Theorem C15_enum_name_key : forall rn c sname n,
  enum_go_name_r rn c sname n = struct_name_rn rn (enum_db_name c sname n).
Proof. exact enum_go_name_is_decl. Qed.
Print Assumptions C15_enum_name_key.
