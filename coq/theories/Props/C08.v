(** Property C08 — Catalog is the fold of the migration history (DDL semantics).
    Statements only; proofs are in Proofs/CatalogFacts.v.

    [update]/[build]  : transcription of catalog.Update ∘ translate (Model/Catalog.v)
    [pg_exec]/[pg_run]: PostgreSQL reference semantics (Spec/PgCatalog.v)
    [Inv]             : no two schemas / relations / types / columns / labels share a name
    [known_trigger]   : the six known-finding classes of /verif/known_findings.json *)
From Verif Require Import Base.Str Base.Result Model.Catalog Spec.PgCatalog Judge.J08 Proofs.CatalogFacts.
Open Scope string_scope.
Open Scope list_scope.

(** One statement: on a state with unique names, outside the known classes,
    sqlc accepts the statement iff PostgreSQL does, the resulting catalogs are
    equal, and names stay unique. *)
Theorem C08_step : forall c d,
  Inv c -> wf_ddl d = true -> known_trigger c d = 0%N ->
  match update c d, pg_exec c d with
  | Ok c1, Ok c2 => c1 = c2 /\ Inv c1
  | Err _, Err _ => True
  | _, _ => False
  end.
Proof. exact step_agree. Qed.
Print Assumptions C08_step.

(** Every finite history from the initial catalog (no bound on its length). *)
Theorem C08_history : forall ds,
  forallb wf_ddl ds = true -> no_known pg_initial ds = true ->
  match build pg_initial ds, pg_run pg_initial ds with
  | Ok c1, Ok c2 => c1 = c2 /\ Inv c1
  | Err _, Err _ => True
  | _, _ => False
  end.
Proof. intros ds. exact (history_agree ds pg_initial Inv_initial). Qed.
Print Assumptions C08_history.

(** The unrestricted statement (no known-finding exclusion) is false of the
    faithful model: one witness per class, replayed on the implementation by
    the check (known_findings.json holds the same inputs as SQL). *)
Definition disagree (ds : list ddl) : bool :=
  negb (res_agree cat_eqb (build pg_initial ds) (pg_run pg_initial ds)).

Theorem C08_refuted_alter_table_if_exists :
  disagree [AlterTable true (mkQ "" "t1") [AddColumn false (mkCD "a" (mkQ "" "text") false false)]] = true.
Proof. vm_compute. reflexivity. Qed.
Theorem C08_refuted_add_column_if_not_exists :
  disagree [CreateTable false (mkQ "" "t1") [mkCD "a" (mkQ "" "text") false false] [];
            AlterTable false (mkQ "" "t1") [AddColumn true (mkCD "a" (mkQ "" "text") false false)]] = true.
Proof. vm_compute. reflexivity. Qed.
Theorem C08_refuted_add_value_before :
  disagree [CreateEnum (mkQ "" "e1") ["x"; "y"]; AddValue false (mkQ "" "e1") "z" (Some (true, "y"))] = true.
Proof. vm_compute. reflexivity. Qed.
Theorem C08_refuted_rename_if_exists :
  disagree [RenameTable true (mkQ "" "t1") "t2"] = true.
Proof. vm_compute. reflexivity. Qed.
Theorem C08_refuted_rename_onto_type :
  disagree [CreateEnum (mkQ "" "e1") ["x"]; CreateTable false (mkQ "" "t1") [mkCD "a" (mkQ "" "text") false false] [];
            RenameTable false (mkQ "" "t1") "e1"] = true.
Proof. vm_compute. reflexivity. Qed.
Theorem C08_refuted_enum_duplicate_label :
  disagree [CreateEnum (mkQ "" "e1") ["x"; "x"]] = true.
Proof. vm_compute. reflexivity. Qed.

(** Non-vacuity: a twelve-statement history that satisfies every hypothesis
    of C08_history, is accepted, and ends in a non-trivial catalog. *)
Definition example_history : list ddl :=
  [ CreateSchema false "s1";
    CreateSchema true "s1";
    CreateEnum (mkQ "s1" "e1") ["x"; "y"];
    CreateTable false (mkQ "s1" "t1") [mkCD "a" (mkQ "pg_catalog" "int4") true false; mkCD "b" (mkQ "s1" "e1") false true] ["a"];
    AlterTable false (mkQ "s1" "t1") [AddColumn false (mkCD "c" (mkQ "" "text") false false); DropColumn true "zz"; SetNotNull "c"];
    RenameColumn false (mkQ "s1" "t1") "c" "d";
    AddValue true (mkQ "s1" "e1") "x" None;
    AddValue false (mkQ "s1" "e1") "z" None;
    RenameValue (mkQ "s1" "e1") "y" "w";
    CommentColumn (mkQ "s1" "t1") "d" (Some "hello");
    SetSchema false (mkQ "s1" "t1") "public";
    DropSchema false ["s1"] ].
Example C08_history_nonvacuous :
  forallb wf_ddl example_history = true /\ no_known pg_initial example_history = true /\
  build pg_initial example_history =
    Ok (mkCat "public"
          [ mkSch "public" [mkTab "t1" [mkCol "a" (mkQ "pg_catalog" "int4") true false "";
                                        mkCol "b" (mkQ "s1" "e1") false true "";
                                        mkCol "d" (mkQ "" "text") true false "hello"] ""] [] "";
            mkSch "pg_temp" [] [] ""; mkSch "pg_catalog" [] [] "" ]).
Proof. vm_compute. repeat split. Qed.
