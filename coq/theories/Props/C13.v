(** Property C13 — Output is deterministic and independent of declaration order.
    result.go sorts enums, structs and queries by name with sort.Slice before the
    templates run.  Proved for every element type, every key function and every
    input: with pairwise distinct names the sorted list does not depend on the
    order of the input (C13_order_partial) nor on which (possibly unstable) sorting
    algorithm is used (C13_algorithm_partial) — so reordering queries in a file, or
    independent declarations in the schema, cannot change the order in which
    code is emitted.  The hypothesis "distinct names" is the one the proof
    forces: with colliding Go names declaration order leaks (that input also
    violates C01).  Map iteration, process-level hashing and scheduling are runtime
    behaviour: observed by generating every input in several fresh processes and
    under permutations, comparing bytes. *)
From Coq Require Import Sorting.Permutation Sorting.Sorted.
From Verif Require Import Base.Str Proofs.SortFacts Model.GoEnums Proofs.EnumOrder.
From Verif Require Import Gen.ImportTables Model.GoImports Spec.GoFileUses Proofs.ImportsOrder.
Open Scope string_scope.
Open Scope list_scope.

Theorem C13_order_partial : forall (A : Type) (key : A -> string) (l l' : list A),
  NoDup (map key l) -> Permutation l l' -> sort_by key l = sort_by key l'.
Proof. exact @sort_by_perm_invariant. Qed.
Print Assumptions C13_order_partial.

Theorem C13_algorithm_partial : forall (A : Type) (key : A -> string) (sortf : list A -> list A) (l : list A),
  (forall x, Permutation x (sortf x)) -> (forall x, Sorted (kle key) (sortf x)) ->
  NoDup (map key l) -> sortf l = sort_by key l.
Proof. exact @any_sort_agrees. Qed.
Print Assumptions C13_algorithm_partial.

Example C13_example :
  sort_by (fun x : string => x) ["GetB"; "ListA"; "Del"] = sort_by (fun x : string => x) ["Del"; "GetB"; "ListA"].
Proof. vm_compute. reflexivity. Qed.

(** The importer (Model/GoImports.v, the transcription of imports.go tied to the code through the
    verif hook on every case of the C01 check) builds its lists from three Go maps - stdlibTypes,
    the std set and the pkg set - iterated in random order, then sort.Slice.  For every input:

    - the import lists of every file do not depend on the order in which model structs and
      queries reach the importer (so not on declaration order in the schema or the query files); *)
Theorem C13_imports_declaration_order_partial : forall i i' file,
  Permutation (gi_structs i) (gi_structs i') -> Permutation (gi_queries i) (gi_queries i') ->
  gi_nenums i = gi_nenums i' -> gi_overrides i = gi_overrides i' -> gi_prepared i = gi_prepared i' ->
  imports_of i file = imports_of i' file.
Proof. exact imports_decl_order. Qed.
Print Assumptions C13_imports_declaration_order_partial.

(**  - whatever order [tbl'] Go iterates stdlibTypes in, and whatever enumeration [e] of the
       resulting set `for path := range std` produces, the sorted list the template receives is
       the same; *)
Theorem C13_imports_map_order_partial : forall tbl' e uses base w,
  Permutation stdlib_types tbl' -> NoDup base -> Permutation e (std_set_tbl tbl' uses base w) ->
  sort_by (fun x : string => x) e = sort_by (fun x : string => x) (std_set uses base w).
Proof. exact std_list_map_order. Qed.
Print Assumptions C13_imports_map_order_partial.

(**  - the same for the pkg list (sorted by path only) as long as no two specs share a path; with
       one path under two aliases the emitted order is the iteration order (the hypothesis the
       proof forces; gofmt's own import sorting runs on every emitted file and hides it). *)
Theorem C13_imports_pkg_order_partial : forall (e s : list ispec),
  NoDup (map snd s) -> Permutation e s -> sort_by (fun x : ispec => snd x) e = sort_by (fun x : ispec => snd x) s.
Proof. exact pkg_list_map_order. Qed.
Print Assumptions C13_imports_pkg_order_partial.

Theorem C13_imports_same_path_refuted :
  exists e1 e2 : list ispec, Permutation e1 e2
    /\ sort_by (fun x : ispec => snd x) e1 <> sort_by (fun x : ispec => snd x) e2.
Proof. exact pkg_list_same_path_refuted. Qed.
Print Assumptions C13_imports_same_path_refuted.

(** ** enum declarations and the lookup of user-defined types (Model/GoEnums.v,
    Model/GoTypes.v): buildEnums sorts by Go name, so the declarations do not depend on
    the order of the CREATE TYPE statements as long as the Go names are pairwise
    distinct; and the Go type found for a column of a user-defined type does not depend
    on the order of the types of its schema (names are unique within a schema: C08). *)
Theorem C13_enums_sorted : forall rn c, build_enums rn c = sort_by ge_name (enums_of rn c (cat_schemas c)).
Proof. exact build_enums_is_sort. Qed.
Print Assumptions C13_enums_sorted.

Theorem C13_enum_declarations_order_partial : forall rn c sname ts ts',
  Permutation ts ts' ->
  NoDup (map ge_name (flat_map (build_enum rn c sname) ts)) ->
  sort_by ge_name (flat_map (build_enum rn c sname) ts) = sort_by ge_name (flat_map (build_enum rn c sname) ts').
Proof. intros rn c sname ts ts' Hp Hnd. apply enums_sorted_order_independent; [exact Hnd | apply enums_perm_types; exact Hp]. Qed.
Print Assumptions C13_enum_declarations_order_partial.

Theorem C13_type_lookup_order_partial : forall rn c sname rs rnm nn ts ts',
  NoDup (map typ_name ts) -> Permutation ts ts' ->
  pg_scan_types_r rn c sname rs rnm nn ts = pg_scan_types_r rn c sname rs rnm nn ts'.
Proof. exact scan_types_order_independent. Qed.
Print Assumptions C13_type_lookup_order_partial.

(** ** the queries handed to the templates (Model/GoGen.v build_queries): sorted by method name,
    hence independent of the order of the statements and of the query files *)
From Verif Require Import Model.GoGen Proofs.QueryOrder.
Theorem C13_queries_order_partial : forall l l' : list gq_out,
  NoDup (map qo_method l) -> Permutation l l' -> fold_right ins_q [] l = fold_right ins_q [] l'.
Proof. exact queries_order_independent. Qed.
Print Assumptions C13_queries_order_partial.
