(** Property C13 — Output is deterministic and independent of declaration order.
    result.go sorts enums, structs and queries by name with sort.Slice before the
    templates run.  Proved for every element type, every key function and every
    input: with pairwise distinct names the sorted list does not depend on the
    order of the input (C13_order_partial) nor on which (possibly unstable) sorting
    algorithm is used (C13_algorithm_partial) — so reordering queries in a file, or
    independent declarations in the schema, cannot change the order in which
    code is emitted.  The hypothesis "distinct names" is the one the proof
    forces: with colliding Go names declaration order leaks (that input also
    violates C01).  Map iteration, process-level hashing and scheduling are runtime
    behaviour: observed by generating every input in several fresh processes and
    under permutations, comparing bytes. *)
From Coq Require Import Sorting.Permutation Sorting.Sorted.
From Verif Require Import Base.Str Proofs.SortFacts.
Open Scope string_scope.
Open Scope list_scope.

Theorem C13_order_partial : forall (A : Type) (key : A -> string) (l l' : list A),
  NoDup (map key l) -> Permutation l l' -> sort_by key l = sort_by key l'.
Proof. exact @sort_by_perm_invariant. Qed.
Print Assumptions C13_order_partial.

Theorem C13_algorithm_partial : forall (A : Type) (key : A -> string) (sortf : list A -> list A) (l : list A),
  (forall x, Permutation x (sortf x)) -> (forall x, Sorted (kle key) (sortf x)) ->
  NoDup (map key l) -> sortf l = sort_by key l.
Proof. exact @any_sort_agrees. Qed.
Print Assumptions C13_algorithm_partial.

Example C13_example :
  sort_by (fun x : string => x) ["GetB"; "ListA"; "Del"] = sort_by (fun x : string => x) ["Del"; "GetB"; "ListA"].
Proof. vm_compute. reflexivity. Qed.
