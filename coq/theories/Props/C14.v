(** Property C14 — Migration files: rollback parts ignored, lexical order,
    split-invariant.  Statements only; proofs are in Proofs/MigrationsFacts.v. *)
From Coq Require Import Sorting.Permutation Sorting.Sorted.
From Verif Require Import Base.Str Base.Result Model.Migrations Proofs.StrFacts Proofs.MigrationsFacts.
Open Scope string_scope.
Open Scope list_scope.

(** Within a file everything from the first goose / sql-migrate / tern / dbmate
    marker line onward is ignored — for every text, every marker position. *)
Theorem C14_strip : forall up m down,
  Forall (no_char nl) (up ++ m :: down) ->
  Forall not_marker up ->
  is_marker (drop_cr m) = true ->
  remove_rollback (join nlS (up ++ m :: down)) = join nlS (map drop_cr up).
Proof. exact strip_marker. Qed.
Print Assumptions C14_strip.

(** A file without marker line is kept whole. *)
Theorem C14_strip_id : forall ls,
  Forall (no_char nl) ls -> Forall not_marker ls ->
  remove_rollback (join nlS ls) = join nlS (map drop_cr (remove_last_if_empty ls)).
Proof. exact strip_id. Qed.
Print Assumptions C14_strip_id.

(** Listed paths in list order; a directory contributes its entries; only
    [.sql], non-hidden, non-[.down.sql] names survive. *)
Theorem C14_glob : forall fs paths,
  Forall (fun p => fs p <> None) paths ->
  glob fs paths = Ok (filter keep_file (flat_map (expand fs) paths)).
Proof. exact glob_spec. Qed.
Print Assumptions C14_glob.

Theorem C14_glob_missing : forall fs paths,
  Exists (fun p => fs p = None) paths -> exists m, glob fs paths = Err m.
Proof. exact glob_missing. Qed.
Print Assumptions C14_glob_missing.

(** Directory entries are applied in byte-lexical name order, whatever order
    the operating system lists them in. *)
Theorem C14_dir_order : forall n1 n2,
  NoDup n1 -> Permutation n1 n2 ->
  read_dir_sorted n1 = read_dir_sorted n2 /\ StronglySorted slt (read_dir_sorted n1).
Proof.
  intros n1 n2 N P. split.
  - exact (read_dir_order_irrelevant n1 n2 N P).
  - exact (read_dir_sorted_strongly n1 N).
Qed.
Print Assumptions C14_dir_order.

(** Splitting a history at statement boundaries over consecutively named files
    of a directory (plus decoys), or over a path list, never changes the
    statement sequence that reaches the catalog.  [parse] is the engine's
    parser (a parameter); the hypothesis that it is compositional at the cut
    points is the one assumption, exercised by the harness on every case. *)
Theorem C14_split_dir :
  forall (stmt : Type) (parse : string -> list stmt) (groups : list (list string)),
  parse (remove_rollback (join nlS (List.concat groups)))
    = flat_map (fun g => parse (remove_rollback (join nlS g))) groups ->
  forall fsA pA,
  fsA pA = Some (EFile (join nlS (List.concat groups))) -> keep_file pA = true ->
  forall fsB d listing names,
  fsB d = Some (EDir listing) ->
  NoDup listing ->
  StronglySorted slt names ->
  (forall n, In n names <-> In n listing /\ keep_file (path_join d n) = true) ->
  Forall2 (fun n g => fsB (path_join d n) = Some (EFile (join nlS g))) names groups ->
  load_schema parse fsB [d] = load_schema parse fsA [pA].
Proof. exact @split_dir. Qed.
Print Assumptions C14_split_dir.

Theorem C14_split_paths :
  forall (stmt : Type) (parse : string -> list stmt) (groups : list (list string)),
  parse (remove_rollback (join nlS (List.concat groups)))
    = flat_map (fun g => parse (remove_rollback (join nlS g))) groups ->
  forall fsA pA,
  fsA pA = Some (EFile (join nlS (List.concat groups))) -> keep_file pA = true ->
  forall fsB paths,
  Forall (fun p => fsB p <> None /\ forall l, fsB p <> Some (EDir l)) paths ->
  Forall2 (fun f g => fsB f = Some (EFile (join nlS g))) (filter keep_file paths) groups ->
  load_schema parse fsB paths = load_schema parse fsA [pA].
Proof. exact @split_paths. Qed.
Print Assumptions C14_split_paths.

(** Non-vacuity: a concrete file with a marker in the middle, and a concrete
    directory with decoys. *)
Example C14_strip_example :
  remove_rollback (join nlS ["CREATE TABLE a (x int);"; "-- +goose Down"; "DROP TABLE a;"])
  = "CREATE TABLE a (x int);".
Proof. vm_compute. reflexivity. Qed.

Example C14_glob_example :
  let fs := fun p => if String.eqb p "s" then Some (EDir ["2.sql"; ".h.sql"; "1.sql"; "1.down.sql"; "x.txt"])
                     else Some (EFile "") in
  glob fs ["s"; "q.sql"] = Ok ["s/1.sql"; "s/2.sql"; "q.sql"].
Proof. vm_compute. reflexivity. Qed.
