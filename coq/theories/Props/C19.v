(** Property C19 — Packages are compiled in isolation; concurrent runs do not interfere.
    The loop model is purely functional: it cannot exhibit hidden shared mutable
    state or data races, which is exactly the runtime behaviour the property is
    about.  What is proved is the data-flow half — in Generate's loop a package's
    files reach the output unchanged and independently of the other packages and
    of their order — and the runtime half is carried by differential runs of the
    real code: multi-package versus single-package, every order of the list,
    2..16 concurrent in-process generations (race-detector build in the
    thorough tier), compared byte for byte. *)
From Coq Require Import Sorting.Permutation.
From Verif Require Import Model.Driver Proofs.DriverFacts.
Open Scope string_scope.
Open Scope list_scope.

Theorem C19_isolation_partial : forall pkgs,
  forallb (fun p => negb (is_failure p)) pkgs = true ->
  NoDup (map fst (all_files pkgs)) ->
  rr_output (generate true pkgs) = Some (all_files pkgs) /\
  forall fs, In (Good fs) pkgs -> NoDup (map fst fs) ->
    rr_output (generate true [Good fs]) = Some fs /\ incl fs (all_files pkgs).
Proof. exact isolation. Qed.
Print Assumptions C19_isolation_partial.

Theorem C19_order_partial : forall pkgs pkgs',
  Permutation pkgs pkgs' ->
  forallb (fun p => negb (is_failure p)) pkgs = true ->
  NoDup (map fst (all_files pkgs)) ->
  forall kv, In kv (all_files pkgs) <-> In kv (all_files pkgs').
Proof. exact order_irrelevant. Qed.
Print Assumptions C19_order_partial.
