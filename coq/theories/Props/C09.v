(** Property C09 — Every supported database type maps to its documented Go type.
    The case arms of postgresType / mysqlType are the tables regenerated from
    /repo by /verif/translator on every run (Gen/TypeTables.v); the theorems
    below are re-checked by the kernel against whatever the code says now. *)
From Verif Require Import Base.Str Model.Catalog Model.GoTypes Spec.DocTypes Judge.J09 Proofs.GoTypesFacts.
Open Scope string_scope.
Open Scope list_scope.

(** Complete finite domain: every arm x every name x {NOT NULL, nullable} x
    {display width 1 or not} carries the documented representation of the name's
    semantic class — except the two known cells (nullable int16 / float32
    classes) — and undocumented names have one representation per nullability. *)
Theorem C09_table : forall eng e name nn len1,
  In e (table_of eng) -> In name (te_names e) ->
  cell_ok eng e name nn len1 = true.
Proof.
  assert (H : forall eng, table_ok eng = true) by (intros []; vm_compute; reflexivity).
  intros eng e name nn len1 He Hn. specialize (H eng). unfold table_ok in H.
  rewrite forallb_forall in H. specialize (H e He).
  rewrite forallb_forall in H. specialize (H name Hn).
  rewrite forallb_forall in H. specialize (H nn (ltac:(destruct nn; simpl; auto))).
  rewrite forallb_forall in H. apply H. destruct len1; simpl; auto.
Qed.
Print Assumptions C09_table.

(** Every documented type name is known to the switch, and no name is listed
    by two arms (the first arm would shadow the second). *)
Theorem C09_complete : forall eng, table_complete eng = true.
Proof. intros []; vm_compute; reflexivity. Qed.
Print Assumptions C09_complete.

(** For all strings: a name outside the table that names no catalog type is interface{}. *)
Theorem C09_unknown : forall c dt nn arr,
  lookup_entry pg_type_table dt = None ->
  (forall n, no_type_named c n) ->
  postgres_type c dt nn arr = "interface{}".
Proof. exact unknown_is_interface. Qed.
Print Assumptions C09_unknown.

(** For all inputs: an array is the slice of the NOT NULL element type. *)
Theorem C09_array : forall eng c dt nn len1,
  go_type eng c dt nn true len1 = "[]" +++ go_type eng c dt true false len1.
Proof. exact go_type_array. Qed.
Print Assumptions C09_array.

(** The two known cells really are violations of the documented mapping. *)
Theorem C09_refuted_nullable_smallint :
  go_type PostgreSQL pg_initial "pg_catalog.int2" false false false <> doc_type KInt16 false false.
Proof. vm_compute. discriminate. Qed.
Theorem C09_refuted_nullable_real :
  go_type PostgreSQL pg_initial "pg_catalog.float4" false false false <> doc_type KFloat32 false false.
Proof. vm_compute. discriminate. Qed.

Example C09_example :
  go_type PostgreSQL pg_initial "pg_catalog.timestamptz" false false false = "sql.NullTime"
  /\ go_type MySQL pg_initial "tinyint" true false true = "bool"
  /\ go_type PostgreSQL pg_initial "uuid" false true false = "[]uuid.UUID".
Proof. vm_compute. repeat split. Qed.
