(** Property C12 — Generation is all-or-nothing with a truthful exit status.
    Model/Driver.v transcribes the package loop of cmd.Generate (break on a parse
    failure, continue on a generation failure, sticky [errored], output returned
    only when not errored) and the exit status of genCmd/checkCmd.  Process exit
    and file-system effects are runtime behaviour: they are observed by running
    the real binary on every fault placement, and compared with the model. *)
From Verif Require Import Model.Driver Proofs.DriverFacts Model.CompileFiles Proofs.CompileFilesFacts.
Open Scope string_scope.
Open Scope list_scope.

(** For any number of packages and any placement of faults. *)
Theorem C12_all_or_nothing : forall config_ok pkgs,
  let r := generate config_ok pkgs in
  (config_ok = false \/ existsb is_failure pkgs = true ->
     rr_output r = None /\ rr_status r <> 0 /\ 0 < rr_diags r) /\
  (config_ok = true /\ existsb is_failure pkgs = false ->
     rr_output r = Some (put_all [] (all_files pkgs)) /\ rr_status r = 0 /\ rr_diags r = 0).
Proof. exact all_or_nothing. Qed.
Print Assumptions C12_all_or_nothing.

Theorem C12_compile_same : forall config_ok pkgs,
  let r := generate config_ok pkgs in
  files_written false r = [] /\ (rr_output r = None -> files_written true r = []).
Proof. exact compile_same. Qed.
Print Assumptions C12_compile_same.

(** with pairwise distinct output files nothing is lost: the output is the union *)
Theorem C12_complete_file_set : forall fs m,
  NoDup (map fst m ++ map fst fs) -> put_all m fs = m ++ fs.
Proof. exact union_when_distinct. Qed.
Print Assumptions C12_complete_file_set.

(** the hypothesis is needed: two packages with the same output path overwrite each other *)
Example C12_refuted_same_out :
  rr_output (generate true [Good [("db/models.go", "A")]; Good [("db/models.go", "B")]]) = Some [("db/models.go", "B")].
Proof. vm_compute. reflexivity. Qed.

Example C12_example :
  rr_status (generate true [Good [("a/db.go", "x")]; GenFail; Good [("c/db.go", "y")]]) = 1
  /\ rr_output (generate true [Good [("a/db.go", "x")]; GenFail; Good [("c/db.go", "y")]]) = None
  /\ rr_output (generate true [Good [("a/db.go", "x")]; Good [("c/db.go", "y")]]) = Some [("a/db.go", "x"); ("c/db.go", "y")].
Proof. vm_compute. repeat split. Qed.

(** ** inside one package: a failing statement in ANY query file, at ANY position,
    makes parseQueries fail (Model/CompileFiles.v compile_queries - the package is
    then ParseFail in the loop above and nothing is written), whatever the other
    files and the statements after it are; and an accepted package had no
    diagnostic in any file. *)
Theorem C12_fault_in_any_file_fails_package : forall e p name src stmts m raw fs1 fs2,
  parse_query e raw src p = Err m -> In raw stmts ->
  compile_queries e p (fs1 ++ (name, src, stmts) :: fs2) = Err "multierr".
Proof. exact failing_statement_fails_package. Qed.
Print Assumptions C12_fault_in_any_file_fails_package.

Theorem C12_accepted_package_has_no_diagnostic : forall e p files qs,
  compile_queries e p files = Ok qs ->
  diagnostics (parse_files e p files []) = [] /\ qs = queries_of (parse_files e p files []) /\ qs <> [].
Proof. exact accepted_no_diagnostics. Qed.
Print Assumptions C12_accepted_package_has_no_diagnostic.

(** ** from the statement to the process: a configuration of any number of packages in which one
    package has one failing statement - in any of its query files, at any position - exits
    non-zero, prints a diagnostic and writes nothing (Model/Package.v ties the two models). *)
From Verif Require Import Model.Package Proofs.PkgFault.
Theorem C12_failing_statement_writes_nothing : forall before after p name src stmts m raw fs1 fs2,
  pi_files p = fs1 ++ (name, src, stmts) :: fs2 ->
  parse_query (pi_env p) raw src (pi_positional p) = Err m -> In raw stmts ->
  let r := generate true (map pkg_outcome_of (before ++ p :: after)) in
  rr_output r = None /\ rr_status r <> 0 /\ 0 < rr_diags r /\ files_written true r = [].
Proof. exact failing_statement_writes_nothing. Qed.
Print Assumptions C12_failing_statement_writes_nothing.
