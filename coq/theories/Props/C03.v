(** Property C03 — Arguments bind one-to-one, in order, to the SQL placeholders.

    Model: Model/Query.v (findParameters, uniqueParamRefs, sort, validate.ParamRef,
    resolveCatalogRefs) composed in Model/Compile.v parse_query; tied to the code
    by exact correspondence of the whole compiled query on every generated case.
    The full statement ("for every statement the parameter list is 1..k and k is
    the number of distinct placeholders of the embedded SQL") is C03_full_statement;
    what is proved for all inputs is its list-level core (C03_numbered, for any
    reference list and any numbers) and the traversal-order agreement; the
    remaining link — the walker finds every placeholder and each found reference
    resolves to exactly one parameter — is decided per case by [refs_complete]
    and [c03_class] (Judge/J03.v), the classes of known_findings.json being the
    inputs on which it fails. *)
From Coq Require Import Sorting.Sorted.
From Verif Require Import Model.Compile Spec.Placeholders Judge.JQ Judge.J03 Proofs.ParamsFacts Proofs.CompileFacts.
Open Scope string_scope.
Open Scope list_scope.

Definition C03_full_statement : Prop :=
  forall e raw src q,
    wf_raw raw = true -> c03_class e raw = 0%N -> refs_complete e raw = true ->
    parse_query e raw src false = Ok (Some q) -> holds_c03_pg q = true.

(** uniqueParamRefs + sort: strictly increasing numbers, exactly those found — for every list. *)
Theorem C03_sorted_unique : forall l,
  let ns := map ref_number (sort_refs (unique_refs [] l)) in
  StronglySorted Z.lt ns /\ (forall z, In z ns <-> In z (map ref_number l)).
Proof. exact sorted_unique_numbers. Qed.
Print Assumptions C03_sorted_unique.

(** validate.ParamRef: k distinct numbers without gap are exactly 1..k. *)
Theorem C03_no_gap : forall nums,
  first_gap (dedup_z nums) 1 (List.length (dedup_z nums)) = None ->
  forall z, In z nums <-> (1 <= z <= Z.of_nat (List.length (dedup_z nums)))%Z.
Proof. exact no_gap_numbers. Qed.
Print Assumptions C03_no_gap.

(** Together: whenever the walker's references carry the statement's numbers,
    the parameter list is numbered 1, 2, ..., k in order (a repeated $n once). *)
Theorem C03_numbered_partial : forall (refs : list pref) (nums : list Z),
  (forall z, In z (map ref_number refs) <-> In z nums) ->
  first_gap (dedup_z nums) 1 (List.length (dedup_z nums)) = None ->
  map ref_number (sort_refs (unique_refs [] refs)) = zseq 1 (List.length (dedup_z nums)).
Proof. exact params_numbered. Qed.
Print Assumptions C03_numbered_partial.

(** astutils.Walk and astutils.Apply visit the children of every node kind in
    the same order (tables regenerated from walk.go / rewrite.go on every run):
    named parameters are numbered in the order the walker later finds them. *)
Theorem C03_orders_agree : orders_agree = true.
Proof. vm_compute. reflexivity. Qed.
Print Assumptions C03_orders_agree.

(** ... and on the COMPOSED model (Model/Compile.v parse_query = validate +
    named-parameter rewrite + findParameters + uniqueParamRefs + sort +
    resolveCatalogRefs + ...): whenever a statement is accepted, none of its
    references is dropped or duplicated (c03_class = 0, the complement of the
    three known-finding classes), the walker found every placeholder
    (refs_complete) and the numbers have no gap, the query's parameters are
    numbered 1, 2, ..., k in order.  This is C03_full_statement up to the lexer
    (pg_marks of the embedded text vs the ParamRef nodes of the AST), which is
    the parser's business and is compared per case. *)
Theorem C03_compiled_partial : forall e raw src q,
  parse_query e raw src false = Ok (Some q) ->
  c03_class e raw = 0%N -> refs_complete e raw = true ->
  let nums := map (int_of "Number")
                  (search (is_kind "ParamRef") (kid "Stmt" (fst (fst (named_parameters (env_engine e) raw))))) in
  first_gap (dedup_z nums) 1 (List.length (dedup_z nums)) = None ->
  map p_num (q_params q) = zseq 1 (List.length (dedup_z nums)).
Proof. exact compiled_params_numbered. Qed.
Print Assumptions C03_compiled_partial.

(** every parameter a reference resolves to carries that reference's number *)
Theorem C03_resolve_keeps_number : forall e tables bare aliases dt names r ps,
  resolve_one e tables bare aliases dt names r = Ok ps -> Forall (fun p => p_num p = ref_number r) ps.
Proof. exact resolve_one_numbers. Qed.
Print Assumptions C03_resolve_keeps_number.

(** Known findings are real: the model drops / duplicates the parameter. *)
Example C03_example_numbers :
  map ref_number (sort_refs (unique_refs []
    [mkPR PLimitCount Nil (param_ref_node 2 10) ""; mkPR PLimitOffset Nil (param_ref_node 1 20) "";
     mkPR PLimitCount Nil (param_ref_node 2 30) ""])) = [1; 2]%Z.
Proof. vm_compute. reflexivity. Qed.

(** ** whole packages.  The queries of an accepted run (Model/CompileFiles.v compile_queries, any
    number of query files) are exactly the compilations of the statements of its files, so the
    statement-level theorem holds for every query of every accepted package. *)
From Verif Require Import Model.CompileFiles Proofs.RunOrigin.
Theorem C03_run_partial : forall e files qs name q,
  compile_queries e false files = Ok qs -> In (name, q) qs ->
  exists src stmts raw,
    In (name, src, stmts) files /\ In raw stmts /\ parse_query e raw src false = Ok (Some q) /\
    (c03_class e raw = 0%N -> refs_complete e raw = true ->
     let nums := map (int_of "Number")
                     (search (is_kind "ParamRef") (kid "Stmt" (fst (fst (named_parameters (env_engine e) raw))))) in
     first_gap (dedup_z nums) 1 (List.length (dedup_z nums)) = None ->
     map p_num (q_params q) = zseq 1 (List.length (dedup_z nums))).
Proof.
  intros e files qs name q H Hin. destruct (run_query_origin e false files qs name q H Hin) as [src [stmts [raw [A [B C]]]]].
  exists src, stmts, raw. repeat split; try assumption. intros Hc Hr. exact (C03_compiled_partial e raw src q C Hc Hr).
Qed.
Print Assumptions C03_run_partial.
