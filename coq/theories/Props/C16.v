(** Property C16 — Config front-ends are equivalent and emit options orthogonal.
    C16_v1_v2: on decoded structs, a version-1 document that v1ParseConfig accepts
    and its version-2 translation are accepted together and yield the same
    settings (everything but the version string).  (The first version of this proof
    needed "every package names its engine": v1 validated "several engines" before
    filling in the default — run against the real code that was a genuine defect,
    repaired by a fix: commit; C16_default_engine keeps the witness.)
    Decoding (YAML/JSON, scalar or list paths) and the locality of each emit flag
    are runtime/template behaviour: they are decided by generating every input
    under all front-ends and option sets and comparing the outputs. *)
From Verif Require Import Model.Config Proofs.ConfigFacts.
Open Scope string_scope.
Open Scope list_scope.

Theorem C16_v1_v2 : forall c k,
  v1_parse c = Ok k ->
  exists k', v2_parse (to_v2 c) = Ok k' /\ same_settings k k'.
Proof. exact v1_v2_equivalent. Qed.
Print Assumptions C16_v1_v2.

(** the former counter-example: default and explicit postgresql next to a global override *)
Definition pk (eng : string) : v1pkg := mkV1P "db" eng "out" ["s.sql"] ["q.sql"] false false false false false false "" [].
Example C16_default_engine :
  let c := mkV1 "1" [pk ""; pk "postgresql"] [mkOv "" "uuid" false "x.ID" ""] [] in
  (exists k, v1_parse c = Ok k) /\ exists k, v2_parse (to_v2 c) = Ok k.
Proof. split; eexists; vm_compute; reflexivity. Qed.

Theorem C15_C16_combine_local : forall c s s', s_go s = s_go s' -> combine c s = combine c s'.
Proof. exact combine_local. Qed.
Print Assumptions C15_C16_combine_local.

(** ** "tags only struct tags" - over the Go generator's data layer (Model/GoGen.v buildQueries,
    Model/GoModels.v buildStructs; both compared with the generator's own values through the
    hook): two settings that differ at most in emit_db_tags / emit_json_tags /
    json_tags_case_style give the templates the same queries - same method names, commands,
    parameter and result values, same field names and field types, the same choice between a
    model struct and a row struct, in the same order - up to the tag of each struct field. *)
From Verif Require Import Model.GoGen Model.GoModels Proofs.TagsOnly.

Theorem C16_tag_options_change_only_tags_partial : forall st st' c l l' qs r r',
  same_but_tags st st' -> structs_rel l l' ->
  build_queries st c l qs = Ok r -> build_queries st' c l' qs = Ok r' ->
  map erase_q r = map erase_q r'.
Proof. exact tags_only_queries. Qed.
Print Assumptions C16_tag_options_change_only_tags_partial.

Theorem C16_tag_options_model_fields_partial : forall st st' c s t cols fs fs',
  same_but_tags st st' ->
  model_fields st c s t cols = Ok fs -> model_fields st' c s t cols = Ok fs' -> map erase_f fs = map erase_f fs'.
Proof. intros st st' c s t cols fs fs' H. exact (model_fields_tags st st' c s t H cols fs fs'). Qed.
Print Assumptions C16_tag_options_model_fields_partial.
