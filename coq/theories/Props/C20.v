(** Property C20 — Go, Kotlin and Python back-ends agree on every query's interface.

    The three back-ends consume the same compiler.Query (Model/Compile.v
    parse_query); Kotlin's is compiled in positional mode.  What is proved for
    all inputs is the positional core: the parameter list of positional mode is
    the list of the statement's placeholder occurrences in TEXT order, whatever
    order the tree walk met them in (C20_binds_text_order), and there is one
    "?" edit per occurrence (C20_one_mark_per_reference).  That the parser's
    ParamRef.Location is the byte offset of the "$n" is decided per case
    (Judge/J20.v holds_c20 compares with the lexer Spec/Placeholders.v on the
    source text).  The walk order alone does not have the property
    (C20_walk_order_refuted: LIMIT/OFFSET) — this is the defect repaired in
    /repo by "fix: positional (Kotlin) parameters follow the text order".
    The cross-language comparison of the emitted .go/.kt/.py text is decided
    per case by checks/c20.py (the code generators are not modelled). *)
From Coq Require Import Sorting.Permutation Sorting.Sorted.
From Verif Require Import Proofs.ResolveCompose Model.Compile Spec.Placeholders Judge.JQ Judge.J03 Judge.J20 Proofs.PositionalFacts Proofs.CompileFacts Model.KtPyGen Proofs.GoStructFacts Proofs.KtPyFacts.
Open Scope string_scope.
Open Scope list_scope.

Definition C20_full_statement : Prop :=
  forall e raw src q,
    wf_raw raw = true -> c20_class e raw = 0%N ->
    parse_query e raw src true = Ok (Some q) -> holds_c20 raw src q = true.

Theorem C20_binds_text_order_partial : forall (refs : list pref) (marks : list (Z * Z)),
  StronglySorted (fun a b => (fst a < fst b)%Z) marks ->
  Permutation (map mark_of refs) marks ->
  map mark_of (sort_refs_loc refs) = marks.
Proof. exact binds_text_order. Qed.
Print Assumptions C20_binds_text_order_partial.

(** ... and on the COMPOSED model: whenever parse_query in positional mode
    accepts a statement (no reference dropped or duplicated: c20_class = 0), its
    k-th parameter carries the number of the k-th placeholder occurrence in
    text order, for any strictly offset-sorted list of occurrences the found
    references are a permutation of. *)
Theorem C20_compiled_partial : forall e raw src q,
  parse_query e raw src true = Ok (Some q) ->
  c20_class e raw = 0%N ->
  exists refs0,
    find_parameters (kid "Stmt" (fst (fst (named_parameters (env_engine e) raw)))) = Ok refs0 /\
    forall marks,
      StronglySorted (fun a b => (fst a < fst b)%Z) marks ->
      Permutation (map mark_of refs0) marks ->
      map p_num (q_params q) = map snd marks.
Proof. exact compiled_binds_text_order. Qed.
Print Assumptions C20_compiled_partial.

(** the sort is stable and leaves a list already in text order alone *)
Theorem C20_sorted_fixpoint : forall refs,
  StronglySorted (fun a b => (ref_loc a <= ref_loc b)%Z) refs -> sort_refs_loc refs = refs.
Proof. exact sort_refs_loc_id. Qed.
Print Assumptions C20_sorted_fixpoint.

(** each occurrence keeps its number and is described by the very reference the
    numbered (Go, Python) mode resolves for that number: the back-ends see the
    same parameter *)
Theorem C20_positional_numbers : forall refs,
  map ref_number (positional_refs refs) = map ref_number (sort_refs_loc refs).
Proof. exact positional_numbers. Qed.
Print Assumptions C20_positional_numbers.
Theorem C20_same_reference_as_numbered_mode : forall refs r,
  In r (positional_refs refs) -> In r (unique_refs [] refs).
Proof. exact positional_refs_are_first. Qed.
Print Assumptions C20_same_reference_as_numbered_mode.

(** one "?" per found reference *)
Theorem C20_one_mark_per_reference : forall refs (base : Z),
  List.length (map (fun r => mkEdit (ref_loc r - base) ("$" +++ z_to_string (ref_number r)) "?") refs)
  = List.length (sort_refs_loc refs).
Proof.
  intros refs base. rewrite map_length. apply Permutation_length, sort_refs_loc_perm.
Qed.
Print Assumptions C20_one_mark_per_reference.

(** SELECT ... LIMIT $1 OFFSET $2: the walk meets OFFSET before LIMIT, so
    without the sort the binds are not in text order. *)
Definition limit_offset_stmt : node :=
  Node "SelectStmt" [] [] [("LimitOffset", param_ref_node 2 30); ("LimitCount", param_ref_node 1 20)].
Theorem C20_walk_order_refuted :
  exists stmt refs, wf_order stmt = true /\ find_parameters stmt = Ok refs /\
    map ref_number refs = [2; 1]%Z /\ map ref_number (sort_refs_loc refs) = [1; 2]%Z.
Proof. exists limit_offset_stmt. eexists. vm_compute. repeat split; reflexivity. Qed.
Print Assumptions C20_walk_order_refuted.

Example C20_non_vacuous :
  map mark_of (sort_refs_loc [mkPR PLimitOffset Nil (param_ref_node 2 30) ""; mkPR PLimitCount Nil (param_ref_node 1 20) ""])
  = [(20, 1); (30, 2)]%Z.
Proof. vm_compute. reflexivity. Qed.

(** ** The generators' parameter naming (Model/KtPyGen.v: ktColumnsToStruct,
    Params.Bindings, ktParamName/MemberName; Python's argument list), compared
    exactly with the emitted Kotlin signature, Kotlin bind calls and Python
    arguments of every query of the three-target runs. *)

(** the k-th positional bind passes the variable of the k-th column's
    placeholder number - with C20_compiled_partial: of the k-th placeholder of
    the source statement; and there is one bind per placeholder occurrence *)
Theorem C20_kotlin_bind_of_kth : forall cols k p,
  nth_error cols k = Some p -> nth_error (kt_bindings cols) k = Some (kt_name_of cols (fst p)).
Proof. exact kt_binding_of_kth. Qed.
Print Assumptions C20_kotlin_bind_of_kth.
Theorem C20_kotlin_binds_length : forall cols, List.length (kt_bindings cols) = List.length cols.
Proof. exact kt_bindings_length. Qed.
Print Assumptions C20_kotlin_binds_length.

(** Kotlin's names depend on which placeholders occur, not on their order in
    the text: the same names as a back-end working in number order *)
Theorem C20_kotlin_names_order_independent : forall cols cols',
  (forall a b, In a cols -> In b cols -> fst a = fst b -> a = b) ->
  Permutation cols cols' -> kt_names cols = kt_names cols'.
Proof. exact kt_names_order_independent. Qed.
Print Assumptions C20_kotlin_names_order_independent.

(** Kotlin and Python hand out exactly the suffixes Go's columnsToStruct does
    ([spec_loop] = [suffixes_of] for distinct ids, GoStructFacts.loop_is_spec),
    each keyed by its own notion of the parameter's name *)
Theorem C20_kotlin_suffixes_partial : forall ps,
  StronglySorted (fun a b => (fst a < fst b)%Z) ps ->
  kt_names ps = map (fun x => (fst (fst x), suffixed (kt_param_base (fst x)) (snd x)))
                    (combine ps (spec_loop ps [])).
Proof. exact kt_names_suffixes. Qed.
Print Assumptions C20_kotlin_suffixes_partial.
Theorem C20_python_suffixes_partial : forall ps,
  py_args ps = map (fun x => suffixed (fst x) (snd x))
                   (combine (map py_param_base ps) (spec_loop (map (fun p => (fst p, py_param_base p)) ps) [])).
Proof. exact py_args_suffixes. Qed.
Print Assumptions C20_python_suffixes_partial.

(** nullability as the emitted types show it: Python prints Optional[...] for
    every nullable column; Kotlin prints T? only for nullable NON-array columns:
    the known finding nullable_array_optional_in_python_only, kernel-checked *)
Theorem C20_python_nullable : forall inner arr nn,
  has_prefix inner "Optional[" = false -> py_says_nullable (py_type_string inner arr nn) = negb nn.
Proof. exact py_nullable_iff. Qed.
Print Assumptions C20_python_nullable.
Theorem C20_refuted_nullable_array :
  kt_says_nullable (kt_type_string "String" true false) = false /\
  py_says_nullable (py_type_string "str" true false) = true /\
  kt_says_nullable (kt_type_string "String" false false) = true /\
  py_says_nullable (py_type_string "str" false false) = true.
Proof. exact nullable_array_disagreement. Qed.
Print Assumptions C20_refuted_nullable_array.

Example C20_names_example :
  kt_bindings [(2, "n"); (2, "n"); (1, "n"); (3, "author_id"); (1, "n"); (4, "")]%Z
    = ["n_2"; "n_2"; "n"; "authorId"; "n"; "dollar4"]
  /\ kt_fields [(2, "n"); (2, "n"); (1, "n"); (3, "author_id"); (1, "n"); (4, "")]%Z = ["n_2"; "n"; "authorId"; "dollar4"]
  /\ py_args [(1, "n"); (2, "n"); (3, "author_id"); (4, "")]%Z = ["n"; "n_2"; "author_id"; "dollar_4"].
Proof. vm_compute. repeat split; reflexivity. Qed.

(** resolveCatalogRefs describes each reference on its own: what a reference list
    yields is the concatenation of what its parts yield, so a placeholder that
    occurs twice (positional mode hands the same reference over once per
    occurrence) is described twice, identically - one bind per ? mark. *)
Theorem C20_resolution_per_reference : forall e rvs names r1 r2,
  resolve_catalog_refs e rvs (r1 ++ r2) names
  = bind (resolve_catalog_refs e rvs r1 names) (fun a =>
    bind (resolve_catalog_refs e rvs r2 names) (fun b => Ok (a ++ b))).
Proof. exact resolve_refs_app. Qed.
Print Assumptions C20_resolution_per_reference.

Theorem C20_repeated_reference : forall e rvs names r ps,
  resolve_catalog_refs e rvs [r] names = Ok ps ->
  resolve_catalog_refs e rvs [r; r] names = Ok (ps ++ ps).
Proof. exact resolve_refs_repeat. Qed.
Print Assumptions C20_repeated_reference.

(** the same for every query of every accepted package compiled in positional mode *)
From Verif Require Import Model.CompileFiles Proofs.RunOrigin.
Theorem C20_run_partial : forall e files qs name q,
  compile_queries e true files = Ok qs -> In (name, q) qs ->
  exists src stmts raw,
    In (name, src, stmts) files /\ In raw stmts /\ parse_query e raw src true = Ok (Some q) /\
    (c20_class e raw = 0%N ->
     exists refs0,
       find_parameters (kid "Stmt" (fst (fst (named_parameters (env_engine e) raw)))) = Ok refs0 /\
       forall marks,
         StronglySorted (fun a b => (fst a < fst b)%Z) marks ->
         Permutation (map mark_of refs0) marks ->
         map p_num (q_params q) = map snd marks).
Proof.
  intros e files qs name q H Hin. destruct (run_query_origin e true files qs name q H Hin) as [src [stmts [raw [A [B C]]]]].
  exists src, stmts, raw. repeat split; try assumption. intro Hc. exact (C20_compiled_partial e raw src q C Hc).
Qed.
Print Assumptions C20_run_partial.
