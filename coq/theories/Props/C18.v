(** Property C18 — sqlc never crashes or hangs, whatever the input.

    Every Go panic site of the transcribed code is an explicit Panic outcome of
    the model (and the model/sqlc correspondence of the query properties compares
    Panic with a recovered Go panic on every case).  Proved:
    - C18_parse_query_partial: the composed parseQuery never panics on a statement
      whose slice lies inside the file and whose (rewritten) tree has the shape the
      parsers produce (Model/Shape.v shape_ok, inserts_ok - evaluated on every tree
      the real parsers return in the C03 check) - for every catalog and every such
      tree, sub-selects and set operations at any depth;
    - its parts, each for ALL inputs or all well-shaped trees: C18_output_columns_partial,
      C18_find_parameters_partial, C18_resolve_partial (resolveCatalogRefs: no shape
      hypothesis at all), C18_to_column_partial, C18_mutate_partial,
      C18_line_number_partial, C18_meta_partial, C18_strip_comments_partial;
    - C18_panic_sources_partial: without the shape hypotheses, where a panic can come from;
    - C18_refuted_on_malformed_tree: the hypothesis is needed (a hand-made tree no
      parser produces).
    Termination of every model function is Coq's own check (structural recursion or
    explicit fuel).  "All byte strings" pass through two third-party parsers and
    their converters, which are not modelled, and real non-termination can only be
    observed with a time limit: that half is carried by the streams of the check
    (statement kinds of both engines, over-qualified names, mutations, random bytes,
    configuration sweeps, file-system faults through the binary).  Two panics of the
    pinned tree were found that way in the last round and repaired (e5e80a8, cb978d6). *)
From Verif Require Import Model.Compile Proofs.NoPanicFacts Proofs.ResolveNoPanic Proofs.PanicSources Proofs.FindParamsNoPanic Model.Shape Proofs.WalkersNoPanic Proofs.ComposedNoPanic Model.CompileFiles Proofs.RunNoPanic.
Open Scope string_scope.
Open Scope list_scope.

Theorem C18_mutate_partial : forall raw edits, no_panic (mutate raw edits).
Proof. exact mutate_no_panic. Qed.
Print Assumptions C18_mutate_partial.

Theorem C18_line_number_partial : forall src head, no_panic (line_number src head).
Proof. exact line_number_no_panic. Qed.
Print Assumptions C18_line_number_partial.

Theorem C18_meta_partial : forall text cs, no_panic (meta_parse text cs).
Proof. intros text cs. exact (meta_parse_no_panic (split_nl text) cs). Qed.
Print Assumptions C18_meta_partial.

Theorem C18_strip_comments_partial : forall sql, no_panic (strip_comments sql).
Proof. exact strip_comments_no_panic. Qed.
Print Assumptions C18_strip_comments_partial.

(** toColumn (a cast's type name) returns an error for a name it cannot take apart - for every
    tree: a Go panic before /repo cb978d6, found by the check once its statement list had names
    with more than three parts *)
Theorem C18_to_column_partial : forall tn, no_panic (to_column tn).
Proof.
  intro tn. unfold to_column. destruct (is_nil tn); [exact I|].
  destruct (string_items (kid "Names" tn)) as [|a [|b [|c [|d l]]]]; exact I.
Qed.
Print Assumptions C18_to_column_partial.

(** resolveCatalogRefs (every branch of its switch: comparisons, function calls with positional,
    cast and named arguments - the index fun.Args[i] panicked before /repo 151ed9c -, SET / INSERT
    targets, casts - toColumn panicked before cb978d6 -, LIMIT / OFFSET) returns parameters or an
    error for every catalog, every list of range vars, every reference list and every name table,
    whatever the trees look like *)
Theorem C18_resolve_partial : forall e rvs refs names, no_panic (resolve_catalog_refs e rvs refs names).
Proof. exact resolve_catalog_refs_no_panic. Qed.
Print Assumptions C18_resolve_partial.

(** What is left of the full statement: the composed model of parseQuery (Model/Compile.v) can
    panic ONLY where Walk meets an unknown node kind, where the statement's slice of the file is
    out of range, or inside one of the four walkers over the statement's tree (findParameters,
    buildQueryCatalog, outputColumns / sourceTables, expand) - whose panic sites are dereferences
    of list fields (TargetList, FromClause, ValuesLists, Ctes, Alias) that the two parsers always
    fill in.  Those are exercised, not proved. *)
Theorem C18_panic_sources_partial : forall e raw src positional,
  is_panic_r (parse_query e raw src positional) ->
  walk_ok raw = false
  \/ is_panic_r (pluck src (int_of "StmtLocation" raw) (int_of "StmtLen" raw))
  \/ is_panic_r (validate_func_calls e raw)
  \/ (let raw2 := fst (fst (named_parameters (env_engine e) raw)) in
      let stmt2 := kid "Stmt" raw2 in
      is_panic_r (find_parameters stmt2)
      \/ is_panic_r (build_query_catalog (fuel_of raw) e stmt2)
      \/ (exists qc, is_panic_r (output_columns (fuel_of raw) e qc stmt2))
      \/ (exists qc, is_panic_r (expand (fuel_of raw) e qc raw2))).
Proof. exact parse_query_panic_sources. Qed.
Print Assumptions C18_panic_sources_partial.

(** the first of the four walkers: findParameters (paramSearch.Visit over the whole statement, with
    the INSERT special case) cannot panic on a tree in which every INSERT whose source is a SELECT
    node carries that node's TargetList and ValuesLists lists - [inserts_ok], evaluated on every
    tree the real parsers return in the C03 check (a tree that fails it is reported there) *)
Theorem C18_find_parameters_partial : forall root, inserts_ok root = true -> no_panic (find_parameters root).
Proof. exact find_parameters_no_panic. Qed.
Print Assumptions C18_find_parameters_partial.

(** ** the composed compiler.  [shape_ok] (Model/Shape.v) says that the list-typed fields the
    walkers index are lists - FromClause of UPDATE, the result / RETURNING list of every
    statement, Ctes of a WITH clause - and that a sub-select in FROM has an alias; [inserts_ok]
    the same for the source SELECT of an INSERT.  Both are evaluated on the (rewritten) tree of
    every statement the real parsers return in the C03 check; a tree that fails them is reported
    there.  Under them, and with the statement's slice inside the file, parseQuery returns a
    query, "unsupported" or an error - never a panic - for every catalog and every tree:
    sourceTables / outputColumns through sub-selects and set operations at any depth (induction
    on the fuel), buildQueryCatalog, expand, findParameters, resolveCatalogRefs, the validators,
    metadata.Parse, Mutate and StripComments. *)
Theorem C18_output_columns_partial : forall fuel e ctes n, shape_ok n = true -> no_panic (output_columns fuel e ctes n).
Proof. exact output_columns_no_panic. Qed.
Print Assumptions C18_output_columns_partial.

Theorem C18_parse_query_partial : forall e raw src positional,
  walk_ok raw = true ->
  no_panic (pluck src (int_of "StmtLocation" raw) (int_of "StmtLen" raw)) ->
  shape_ok (fst (fst (named_parameters (env_engine e) raw))) = true ->
  inserts_ok (kid "Stmt" (fst (fst (named_parameters (env_engine e) raw)))) = true ->
  no_panic (parse_query e raw src positional).
Proof. exact parse_query_no_panic. Qed.
Print Assumptions C18_parse_query_partial.

(** the hypotheses hold for a statement as the PostgreSQL parser returns it (and the conclusion is
    the interesting branch: the statement compiles) *)
Example C18_parse_query_non_vacuous :
  let cat := mkCat "public" [mkSch "public" [mkTab "t" [mkCol "id" (mkQ "pg_catalog" "int4") true false ""] ""] [] ""; mkSch "pg_catalog" [] [] ""] in
  let e := mkEnv EPostgres cat [] (fun _ => false) in
  let sel := Node "SelectStmt" [] []
    [("TargetList", NList [Node "ResTarget" [] [] [("Val", Node "ColumnRef" [] [] [("Fields", NList [Node "String" [("Str", "id")] [] []])])]]);
     ("FromClause", NList [Node "RangeVar" [("Relname", "t")] [] []])] in
  let src := "-- name: GetA :many" +++ String nl "SELECT id FROM t;" in
  let raw := Node "RawStmt" [] [("StmtLen", 36%Z)] [("Stmt", sel)] in
  walk_ok raw = true /\ shape_ok (fst (fst (named_parameters EPostgres raw))) = true
  /\ inserts_ok (kid "Stmt" (fst (fst (named_parameters EPostgres raw)))) = true
  /\ (exists q, parse_query e raw src false = Ok (Some q) /\ q_name q = "GetA").
Proof. cbv zeta. repeat split; try (vm_compute; reflexivity). eexists. split; vm_compute; reflexivity. Qed.

(** ... and for whole packages: no statement of any query file makes parseQueries panic
    (Model/CompileFiles.v), any number of files and statements *)
Theorem C18_package_partial : forall e p files seen,
  Forall (fun f : qfile => let '(_, src, stmts) := f in Forall (stmt_ok e src) stmts) files ->
  Forall (fun r => no_panic (snd r)) (parse_files e p files seen).
Proof. exact parse_files_no_panic. Qed.
Print Assumptions C18_package_partial.

(** the shape hypothesis is needed: on a tree no parser produces (an UPDATE node without its
    FromClause list) the model panics exactly where the Go code dereferences the nil list *)
Theorem C18_refuted_on_malformed_tree :
  let cat := mkCat "public" [mkSch "public" [mkTab "t" [mkCol "id" (mkQ "pg_catalog" "int4") true false ""] ""] [] ""; mkSch "pg_catalog" [] [] ""] in
  let e := mkEnv EPostgres cat [] (fun _ => false) in
  let upd := Node "UpdateStmt" [] [] [("Relation", Node "RangeVar" [("Relname", "t")] [] []); ("TargetList", NList []); ("ReturningList", NList [])] in
  let src := "-- name: U :exec" +++ String nl "UPDATE t SET id = 1;" in
  let raw := Node "RawStmt" [] [("StmtLen", 36%Z)] [("Stmt", upd)] in
  walk_ok raw = true /\ shape_ok raw = false /\ parse_query e raw src false = Panic "nil dereference: n.FromClause.Items".
Proof. vm_compute. repeat split; reflexivity. Qed.
Print Assumptions C18_refuted_on_malformed_tree.

Definition C18_full_statement : Prop :=
  forall e raw src pos, walk_ok raw = true -> no_panic (parse_query e raw src pos).
