(** Property C11 — Query annotation determines the generated method's contract.

    Proved for all strings / statements: C11_parse (an accepted annotation is an
    identifier plus one of the five commands — for every text, every comment
    syntax), C11_validate (exactly :one/:many on INSERT/UPDATE/DELETE without
    RETURNING is rejected), C11_duplicate (a repeated name is an error line and
    contributes no method).  The template half — result shape, driver entry
    point, error checks per command — is Spec/Contract.contract_ok, evaluated on
    the method read back from the emitted Go over the complete cross product of
    the property (thorough tier): C11_contract_full_statement stays a per-case
    decision because text/template execution is not modelled. *)
From Verif Require Import Model.Compile Model.CompileFiles Spec.Contract Judge.J11 Proofs.MetaFacts Proofs.CompileFilesFacts.
Open Scope string_scope.
Open Scope list_scope.

Theorem C11_parse : forall text cs n c,
  meta_parse text cs = Ok (n, c) ->
  (n = "" /\ c = "") \/ (mem_str c commands = true /\ valid_query_name n = true).
Proof. intros text cs. exact (meta_parse_sound (split_nl text) cs). Qed.
Print Assumptions C11_parse.

Theorem C11_validate : forall stmt cmd,
  cmd_ok stmt cmd = false <->
  (cmd = ":many" \/ cmd = ":one") /\
  (kind_of stmt = "DeleteStmt" \/ kind_of stmt = "InsertStmt" \/ kind_of stmt = "UpdateStmt") /\
  kid_items "ReturningList" stmt = [].
Proof. exact cmd_ok_spec. Qed.
Print Assumptions C11_validate.

Theorem C11_duplicate : forall e src pos raw rest seen q,
  parse_query e raw src pos = Ok (Some q) -> q_name q <> "" -> mem_str (q_name q) seen = true ->
  exists m, hd (Ok None) (parse_file e src pos (raw :: rest) seen) = Err m.
Proof. exact duplicate_name_rejected. Qed.
Print Assumptions C11_duplicate.

(** over all query files of a package (Model/CompileFiles.v): the names of the
    queries a run accepts are pairwise distinct - no two methods of one name -
    and every statement of every file contributes exactly one entry (a query, a
    diagnostic or, for an unsupported statement kind, nothing): C17_files_order *)
Theorem C11_accepted_names_distinct : forall e p files,
  NoDup (names_of (map snd (parse_files e p files []))).
Proof. intros e p files. rewrite <- (app_nil_r (names_of _)). apply parse_files_names_nodup. constructor. Qed.
Print Assumptions C11_accepted_names_distinct.

Definition C11_contract_full_statement : Prop :=
  forall cmd prepared (m : method_shape), mem_str cmd commands = true ->
    (* m = the method sqlc emits for a statement annotated with cmd *) contract_ok cmd prepared m = true.

Example C11_parse_examples :
  meta_parse "-- name: GetAuthor :one" (mkCS true false true) = Ok ("GetAuthor", ":one")
  /\ meta_parse "/* name: Del :execrows */" (mkCS true false true) = Ok ("Del", ":execrows")
  /\ (exists m, meta_parse "-- name: 9x :one" (mkCS true false true) = Err m)
  /\ (exists m, meta_parse "-- name: A :two" (mkCS true false true) = Err m)
  /\ meta_parse "# name: A :one" (mkCS true false true) = Ok ("", "").
Proof. vm_compute. repeat split; eexists; reflexivity. Qed.

(** every query of an accepted package is the compilation of one annotated statement of one of its
    files, and every statement that compiles to a query contributes it: one method per annotated
    statement, none without one *)
From Verif Require Import Proofs.RunOrigin.
Theorem C11_run_queries_are_statements : forall e p files qs name q,
  compile_queries e p files = Ok qs -> In (name, q) qs ->
  exists src stmts raw, In (name, src, stmts) files /\ In raw stmts /\ parse_query e raw src p = Ok (Some q).
Proof. exact run_query_origin. Qed.
Print Assumptions C11_run_queries_are_statements.

Theorem C11_run_statements_are_queries : forall e p files qs name src stmts raw q,
  compile_queries e p files = Ok qs ->
  In (name, src, stmts) files -> In raw stmts -> parse_query e raw src p = Ok (Some q) ->
  In (name, q) qs.
Proof. exact run_query_complete. Qed.
Print Assumptions C11_run_statements_are_queries.
