(** Property C06 — Parameter types and names track the column they are used with.
    Full statement: C06_full_statement, decided per case by judge_c06 (Judge/J06.v)
    against Spec/PgScope name resolution and by exact correspondence of
    resolveCatalogRefs.  Proved for all inputs: what resolveCatalogRefs gives a
    placeholder in each context the property lists, for every catalog and every
    set of tables in scope - a comparison with an unqualified column that exactly
    one table in scope has (C06_compare_partial; none / several: rejected,
    C06_compare_missing_partial / C06_compare_ambiguous_partial), a comparison
    through a declared alias (C06_alias_partial), an INSERT / UPDATE target
    (C06_target_partial), an explicit cast (C06_cast_partial), LIMIT / OFFSET
    (C06_limit_partial).  [hits_of] is the model's "tables in scope having the
    column"; that it is the set the DATABASE would consult is the part decided
    per case against Spec/PgScope (it fails for the known-finding classes). *)
From Verif Require Import Model.Compile Spec.PgScope Judge.JQ Judge.J02 Judge.J06 Proofs.ParamsFacts Proofs.ParamTypeFacts Proofs.SelectRefine Proofs.ParamRefine Proofs.ParamRefineQ.
Open Scope list_scope.

Definition C06_full_statement : Prop :=
  forall e raw src q sc,
    wf_raw raw = true -> c06_class (stmt_contexts (stmt_of raw)) = 0%N ->
    parse_query e raw src false = Ok (Some q) -> stmt_scope (env_cat e) (stmt_of raw) = Some sc ->
    forall pc, In pc (stmt_contexts (stmt_of raw)) -> occurs_once (fst pc) (stmt_contexts (stmt_of raw)) = true ->
    check_param sc (match sc with it :: _ => si_cols it | [] => [] end) false (q_params q) pc = 0%N.

(** LIMIT / OFFSET pseudo-parents always give a non-null integer, whatever the catalog. *)
Theorem C06_limit_partial : forall e tables bare aliases dt names r,
  pr_parent r = PLimitCount \/ pr_parent r = PLimitOffset ->
  exists nm, resolve_one e tables bare aliases dt names r = Ok [mkP (ref_number r) (Some (mkQC nm "integer" true false "" None))].
Proof.
  intros e tables bare aliases dt names r [H|H]; unfold resolve_one; rewrite H; eexists; reflexivity.
Qed.
Print Assumptions C06_limit_partial.

(** col OP $n, unqualified: the parameter takes the type, nullability and
    array-ness of the one column in scope with that name, and its name *)
Theorem C06_compare_partial : forall e tables bare aliases dt names r n lref rest key t col,
  pr_parent r = PNode n -> kind_of n = "A_Expr"%string ->
  search (is_kind "ColumnRef") (kid "Lexpr" n) = lref :: rest ->
  string_items (kid "Fields" lref) = [key] ->
  hits_of (env_cat e) tables tables key = [(t, col)] ->
  resolve_one e tables bare aliases dt names r = Ok [param_of_column names (ref_number r) key t col].
Proof. exact compare_unqualified. Qed.
Print Assumptions C06_compare_partial.

Theorem C06_compare_missing_partial : forall e tables bare aliases dt names r n lref rest key,
  pr_parent r = PNode n -> kind_of n = "A_Expr"%string ->
  search (is_kind "ColumnRef") (kid "Lexpr" n) = lref :: rest ->
  string_items (kid "Fields" lref) = [key] ->
  hits_of (env_cat e) tables tables key = [] ->
  resolve_one e tables bare aliases dt names r = err_at (loc_of lref) (e_col_missing key).
Proof. exact compare_unqualified_missing. Qed.
Print Assumptions C06_compare_missing_partial.

Theorem C06_compare_ambiguous_partial : forall e tables bare aliases dt names r n lref rest key h1 h2 hs,
  pr_parent r = PNode n -> kind_of n = "A_Expr"%string ->
  search (is_kind "ColumnRef") (kid "Lexpr" n) = lref :: rest ->
  string_items (kid "Fields" lref) = [key] ->
  hits_of (env_cat e) tables tables key = h1 :: h2 :: hs ->
  resolve_one e tables bare aliases dt names r = err_at (loc_of lref) (e_col_ambiguous key).
Proof. exact compare_unqualified_ambiguous. Qed.
Print Assumptions C06_compare_ambiguous_partial.

Theorem C06_alias_partial : forall e tables bare aliases dt names r n lref rest alias key orig col,
  pr_parent r = PNode n -> kind_of n = "A_Expr"%string ->
  search (is_kind "ColumnRef") (kid "Lexpr" n) = lref :: rest ->
  string_items (kid "Fields" lref) = [alias; key] -> alias <> ""%string ->
  assoc aliases alias = Some orig ->
  typemap_lookup (env_cat e) tables (tn_schema orig) (tn_name orig) key = Some col ->
  resolve_one e tables bare aliases dt names r = Ok [param_of_column names (ref_number r) key orig col].
Proof. exact compare_aliased. Qed.
Print Assumptions C06_alias_partial.

Theorem C06_cast_partial : forall e tables bare aliases dt names r n col,
  pr_parent r = PNode n -> kind_of n = "TypeCast"%string -> is_nil (kid "TypeName" n) = false ->
  to_column (kid "TypeName" n) = Ok col ->
  resolve_one e tables bare aliases dt names r
  = Ok [mkP (ref_number r) (Some (mkQC (param_name names (ref_number r) (qc_name col)) (qc_dt col) (qc_nn col) (qc_arr col) "" None))].
Proof. exact cast_type. Qed.
Print Assumptions C06_cast_partial.

Theorem C06_target_partial : forall e tables bare aliases dt names r n key col,
  pr_parent r = PNode n -> kind_of n = "ResTarget"%string -> str_opt "Name" n = Some key ->
  is_nil (pr_rv r) = false ->
  typemap_lookup (env_cat e) tables (tn_schema (table_of_rangevar (pr_rv r))) (tn_name (table_of_rangevar (pr_rv r))) key = Some col ->
  resolve_one e tables bare aliases dt names r
  = Ok [param_of_column names (ref_number r) key
          (mkTN "" (tn_schema (table_of_rangevar (pr_rv r))) (tn_name (table_of_rangevar (pr_rv r)))) col].
Proof. exact target_column. Qed.
Print Assumptions C06_target_partial.

(** ** Refinement to the reference semantics: a comparison  col OP $n  with an
    unqualified column, in a statement over base tables.  sqlc looks the column
    up in the tables of the statement's range vars; the reference semantics
    resolves the name in the scope built from the same range vars
    (SelectRefine.spec_scope).  For every catalog whose tables have pairwise
    distinct column names: sqlc types the parameter after exactly the column the
    reference semantics resolves the name to (its data type, nullability,
    array-ness, and its name unless the user named the parameter), and rejects
    exactly when that resolution fails (no such column / ambiguous). *)
Theorem C06_compare_refines_partial : forall (e : env) (rvs : list node),
  (forall t tb, cat_get_table (env_cat e) t = Some tb -> NoDup (map col_name (tab_cols tb))) ->
  forall sc bare aliases dt names r n lref rest key,
  spec_scope (env_cat e) rvs = POk sc ->
  pr_parent r = PNode n -> kind_of n = "A_Expr"%string ->
  search (is_kind "ColumnRef") (kid "Lexpr" n) = lref :: rest ->
  string_items (kid "Fields" lref) = [key] ->
  match resolve_unqualified [sc] key with
  | POk x => exists t col, src_col x = Some col /\
               resolve_one e (map table_of_rangevar rvs) bare aliases dt names r
               = Ok [param_of_column names (ref_number r) key t col]
  | PErr _ => exists m, resolve_one e (map table_of_rangevar rvs) bare aliases dt names r = Err m
  end.
Proof. exact compare_refines. Qed.
Print Assumptions C06_compare_refines_partial.

(** ... and with a QUALIFIED column, q.col OP $n, q being the visible name of a
    relation in scope (its alias, or its own name if it has none - an aliased
    table is not visible under its own name: the proof of this theorem needed
    that, the code did not have it; fix: commit 9df6005).  [alias_pairs] and
    [bare_of] are the alias table and the own-name table resolveCatalogRefs
    builds from the range vars.  An unknown qualifier is the finding
    unknown_qualifier_next_to_parameter_accepted. *)
Theorem C06_compare_qualified_refines_partial : forall (e : env) (rvs : list node),
  (forall t tb, cat_get_table (env_cat e) t = Some tb -> NoDup (map col_name (tab_cols tb))) ->
  NoDup (map visible_name rvs) ->
  forall sc dt names r n lref rest rv q key,
  spec_scope (env_cat e) rvs = POk sc -> In rv rvs -> visible_name rv = q -> q <> ""%string ->
  pr_parent r = PNode n -> kind_of n = "A_Expr"%string ->
  search (is_kind "ColumnRef") (kid "Lexpr" n) = lref :: rest ->
  string_items (kid "Fields" lref) = [q; key] ->
  match resolve_qualified [sc] q key with
  | POk x => exists col, src_col x = Some col /\
               resolve_one e (map table_of_rangevar rvs) (bare_of rvs) (rev (alias_pairs rvs)) dt names r
               = Ok [param_of_column names (ref_number r) key (table_of_rangevar rv) col]
  | PErr _ => exists m, resolve_one e (map table_of_rangevar rvs) (bare_of rvs) (rev (alias_pairs rvs)) dt names r = Err m
  end.
Proof. exact compare_qualified_refines. Qed.
Print Assumptions C06_compare_qualified_refines_partial.

(** ** the Go side (Model/GoGen.v = result.go buildQueries, tied to the generator through the verif
    hook): the argument of the method - the single value or the Params struct - carries, in parameter
    order, goType of the column each parameter was resolved to *)
From Verif Require Import Model.GoGen Proofs.GoGenFacts.
Theorem C06_go_argument_types_partial : forall st c name ps v,
  build_arg st c name ps = Ok v ->
  (forall p, In p ps -> go_type_of st c (param_col p) <> "") ->
  ret_types_of v = map (fun p => go_type_of st c (param_col p)) ps.
Proof. exact arg_types_are_param_types. Qed.
Print Assumptions C06_go_argument_types_partial.

(** ** SET col = $n / INSERT (col) VALUES ($n) take the type of the TARGET relation's column because
    the target is the first RangeVar astutils.Search meets: Walk visits the Relation field of
    UpdateStmt / InsertStmt / DeleteStmt before every other field (in particular before the WITH
    clause and the FROM items) - re-checked against the regenerated walk-order table on every run. *)
From Verif Require Import Proofs.TargetFirst.
Theorem C06_target_relation_visited_first :
  forallb relation_first ["UpdateStmt"; "InsertStmt"; "DeleteStmt"] = true.
Proof. exact target_relation_visited_first. Qed.
Print Assumptions C06_target_relation_visited_first.
