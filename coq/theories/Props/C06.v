(** Property C06 — Parameter types and names track the column they are used with.
    Full statement: C06_full_statement, decided per case by judge_c06 (Judge/J06.v)
    against Spec/PgScope name resolution and by exact correspondence of
    resolveCatalogRefs.  Proved for all inputs so far: the list-level lemmas shared
    with C03 (numbering) — the per-parameter typing statement is not yet a theorem. *)
From Verif Require Import Model.Compile Spec.PgScope Judge.JQ Judge.J02 Judge.J06 Proofs.ParamsFacts.
Open Scope list_scope.

Definition C06_full_statement : Prop :=
  forall e raw src q sc,
    wf_raw raw = true -> c06_class (stmt_contexts (stmt_of raw)) = 0%N ->
    parse_query e raw src false = Ok (Some q) -> stmt_scope (env_cat e) (stmt_of raw) = Some sc ->
    forall pc, In pc (stmt_contexts (stmt_of raw)) -> occurs_once (fst pc) (stmt_contexts (stmt_of raw)) = true ->
    check_param sc (match sc with it :: _ => si_cols it | [] => [] end) false (q_params q) pc = 0%N.

(** LIMIT / OFFSET pseudo-parents always give a non-null integer, whatever the catalog. *)
Theorem C06_limit_partial : forall e tables aliases dt names r,
  pr_parent r = PLimitCount \/ pr_parent r = PLimitOffset ->
  exists nm, resolve_one e tables aliases dt names r = Ok [mkP (ref_number r) (Some (mkQC nm "integer" true false "" None))].
Proof.
  intros e tables aliases dt names r [H|H]; unfold resolve_one; rewrite H; eexists; reflexivity.
Qed.
Print Assumptions C06_limit_partial.
