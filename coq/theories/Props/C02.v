From Verif Require Import Model.Compile Spec.PgScope Judge.J02.
Theorem C02_placeholder : True. Proof. exact I. Qed.
Print Assumptions C02_placeholder.
