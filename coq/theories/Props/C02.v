(** Property C02 — Result-row shape matches what the embedded SQL returns.

    Full statement (C02_full_statement): for every statement outside the known
    classes, the columns sqlc infers have the arity and names of the row
    Spec/PgScope.pg_describe gives for the source statement and for the embedded
    SQL.  It is decided on every generated case by judge_c02 (direct oracle on
    sqlc's output) and by the exact correspondence of the model.  Proved for all
    inputs: the two places that must agree for one star — the inferred columns
    and the identifiers the rewrite writes into the SQL — always have the same
    length (C02_star_arity_partial), so inference and embedded text cannot drift apart
    for a star whatever the tables in scope are. *)
From Verif Require Import Model.Compile Spec.PgScope Judge.JQ Judge.J02 Proofs.ColumnsFacts Proofs.CompileFacts2 Proofs.ArityFacts.
Open Scope string_scope.
Open Scope list_scope.

Definition C02_full_statement : Prop :=
  forall e raw src sql_raw q,
    wf_raw raw = true -> c02_class_e e raw = 0%N -> spec_ok (env_cat e) raw = true ->
    parse_query e raw src false = Ok (Some q) ->
    holds_c02 (env_cat e) raw sql_raw q = true.

Theorem C02_star_arity_partial : forall e tables res ref,
  List.length (expand_cols e tables res ref) = List.length (star_columns res tables ref).
Proof. exact star_arity. Qed.
Print Assumptions C02_star_arity_partial.

(** a plain column reference contributes exactly one result column *)
Theorem C02_ref_arity_partial : forall res tables ref alias name,
  ref_name_alias ref = Some (alias, name) ->
  match output_column_refs res tables ref with
  | Ok cols => List.length (ref_candidates tables alias name) = 1%nat /\ List.length cols = 1%nat
  | Err _ => List.length (ref_candidates tables alias name) <> 1%nat
  | Panic _ => False
  end.
Proof. exact column_ref_decision. Qed.
Print Assumptions C02_ref_arity_partial.

(** Whole target lists: every non-star target contributes exactly one column,
    a star as many as identifiers it is rewritten to - so the number of inferred
    columns equals the number of columns the rewritten target list spells out. *)
Theorem C02_target_arity_partial : forall e tables res a,
  target_columns e tables res = Ok a -> List.length a = sql_target_arity e tables res.
Proof. exact target_arity. Qed.
Print Assumptions C02_target_arity_partial.

Theorem C02_statement_arity_partial : forall f e ctes n cols targets t0 ts,
  output_columns (S f) e ctes n = Ok cols ->
  stmt_targets n = Some targets -> items_opt targets = Some (t0 :: ts) ->
  exists tables, source_tables f e ctes n = Ok tables /\ List.length cols = sql_arity e tables (t0 :: ts).
Proof. exact statement_arity. Qed.
Print Assumptions C02_statement_arity_partial.

(** The known classes are real: on the faithful model a derived table doubles the row. *)
Definition t_cat : catalog :=
  mkCat "public" [mkSch "public" [mkTab "t" [mkCol "id" (mkQ "pg_catalog" "int4") true false ""] ""] [] ""; mkSch "pg_catalog" [] [] ""].
Definition str_node (s : string) : node := Node "String" [("Str", s)] [] [].
Definition star_target : node :=
  Node "ResTarget" [] [] [("Val", Node "ColumnRef" [] [] [("Fields", NList [Node "A_Star" [] [] []])])].
Definition select_star_from (f : node) : node :=
  Node "SelectStmt" [] [] [("TargetList", NList [star_target]); ("FromClause", NList [f])].
Definition derived_stmt : node :=
  select_star_from (Node "RangeSubselect" [] []
     [("Subquery", select_star_from (Node "RangeVar" [("Relname", "t")] [] [])); ("Alias", Node "Alias" [("Aliasname", "s")] [] [])]).
Theorem C02_refuted_derived_table :
  exists cols, output_columns 20 (mk_env EPostgres t_cat []) [] derived_stmt = Ok cols /\ List.length cols = 2%nat
  /\ exists row, pg_describe t_cat derived_stmt = POk row /\ List.length row = 1%nat.
Proof. eexists. split; [vm_compute; reflexivity|]. split; [reflexivity|]. eexists. split; [vm_compute; reflexivity|reflexivity]. Qed.
