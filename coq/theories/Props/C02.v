(** Property C02 — Result-row shape matches what the embedded SQL returns.

    Full statement (C02_full_statement): for every statement outside the known
    classes, the columns sqlc infers have the arity and names of the row
    Spec/PgScope.pg_describe gives for the source statement and for the embedded
    SQL.  It is decided on every generated case by judge_c02 (direct oracle on
    sqlc's output) and by the exact correspondence of the model.  Proved for all
    inputs: the two places that must agree for one star — the inferred columns
    and the identifiers the rewrite writes into the SQL — always have the same
    length (C02_star_arity_partial), so inference and embedded text cannot drift apart
    for a star whatever the tables in scope are. *)
From Verif Require Import Model.Compile Spec.PgScope Judge.JQ Judge.J02 Proofs.ColumnsFacts Proofs.CompileFacts2 Proofs.ArityFacts Proofs.ScopeRefine Proofs.ScopeRefineT Proofs.SelectRefine Proofs.DeleteRefine Proofs.UpdateRefine Proofs.InsertRefine.
Open Scope string_scope.
Open Scope list_scope.

Definition C02_full_statement : Prop :=
  forall e raw src sql_raw q,
    wf_raw raw = true -> c02_class_e e raw = 0%N -> spec_ok (env_cat e) raw = true ->
    parse_query e raw src false = Ok (Some q) ->
    holds_c02 (env_cat e) raw sql_raw q = true.

Theorem C02_star_arity_partial : forall e tables res ref,
  List.length (expand_cols e tables res ref) = List.length (star_columns res tables ref).
Proof. exact star_arity. Qed.
Print Assumptions C02_star_arity_partial.

(** a plain column reference contributes exactly one result column *)
Theorem C02_ref_arity_partial : forall res tables ref alias name,
  ref_name_alias ref = Some (alias, name) ->
  match output_column_refs res tables ref with
  | Ok cols => List.length (ref_candidates tables alias name) = 1%nat /\ List.length cols = 1%nat
  | Err _ => List.length (ref_candidates tables alias name) <> 1%nat
  | Panic _ => False
  end.
Proof. exact column_ref_decision. Qed.
Print Assumptions C02_ref_arity_partial.

(** Whole target lists: every non-star target contributes exactly one column,
    a star as many as identifiers it is rewritten to - so the number of inferred
    columns equals the number of columns the rewritten target list spells out. *)
Theorem C02_target_arity_partial : forall e tables res a,
  target_columns e tables res = Ok a -> List.length a = sql_target_arity e tables res.
Proof. exact target_arity. Qed.
Print Assumptions C02_target_arity_partial.

Theorem C02_statement_arity_partial : forall f e ctes n cols targets t0 ts,
  output_columns (S f) e ctes n = Ok cols ->
  stmt_targets n = Some targets -> items_opt targets = Some (t0 :: ts) ->
  exists tables, source_tables f e ctes n = Ok tables /\ List.length cols = sql_arity e tables (t0 :: ts).
Proof. exact statement_arity. Qed.
Print Assumptions C02_statement_arity_partial.

(** The known classes are real: on the faithful model a derived table doubles the row. *)
Definition t_cat : catalog :=
  mkCat "public" [mkSch "public" [mkTab "t" [mkCol "id" (mkQ "pg_catalog" "int4") true false ""] ""] [] ""; mkSch "pg_catalog" [] [] ""].
Definition str_node (s : string) : node := Node "String" [("Str", s)] [] [].
Definition star_target : node :=
  Node "ResTarget" [] [] [("Val", Node "ColumnRef" [] [] [("Fields", NList [Node "A_Star" [] [] []])])].
Definition select_star_from (f : node) : node :=
  Node "SelectStmt" [] [] [("TargetList", NList [star_target]); ("FromClause", NList [f])].
Definition derived_stmt : node :=
  select_star_from (Node "RangeSubselect" [] []
     [("Subquery", select_star_from (Node "RangeVar" [("Relname", "t")] [] [])); ("Alias", Node "Alias" [("Aliasname", "s")] [] [])]).
Theorem C02_refuted_derived_table :
  exists cols, output_columns 20 (mk_env EPostgres t_cat []) [] derived_stmt = Ok cols /\ List.length cols = 2%nat
  /\ exists row, pg_describe t_cat derived_stmt = POk row /\ List.length row = 1%nat.
Proof. eexists. split; [vm_compute; reflexivity|]. split; [reflexivity|]. eexists. split; [vm_compute; reflexivity|reflexivity]. Qed.

(** ** Refinement to the reference semantics.

    One query level (C02_level_refines_partial): given related scopes - same
    relation names, same column names in order; distinct relation names;
    distinct column names per relation - a result list of stars and column
    references is accepted by sqlc's inference iff Spec/PgScope accepts it, and
    then both give the same number of columns with the same names in the same
    order.

    A whole statement (C02_simple_select_partial): sqlc's outputColumns and the
    row description of Spec/PgScope.describe agree on acceptance, on the NUMBER
    of result columns and, column by column, on the name (row_rel).
    The statements covered ("simple SELECT"): SELECT <targets> FROM <base
    tables, each with or without alias, separated by commas or combined by JOIN> [WHERE / GROUP BY / HAVING / ORDER BY]
    with no WITH clause and no sub-select; every target a star (bare or qualified by a
    relation name), a column reference (c or t.c, with or without AS) or an expression
    that is not a column reference, CASE, COALESCE, sub-select or cast
    ([target_ok]).  [strict] / [deep] select how much the reference semantics
    checks: strict = every column reference of every clause must resolve
    (PostgreSQL) - the theorem then needs clauses without column references -,
    non-strict = only what property C10 lists (columns paired with a parameter:
    none here); deep = references inside result expressions must resolve - the
    theorem then needs result expressions without inner references -, non-deep =
    only targets that ARE references.  The hypotheses on [from_items],
    [level_refs], [level_subselects] state these shape facts about the AST. *)
Theorem C02_level_refines_partial : forall e sc tables targets,
  scope_rel sc tables -> NoDup (map si_name sc) ->
  Forall (fun it => NoDup (map sc_name (si_cols it))) sc ->
  Forall (simple_target sc) targets ->
  match row_of sc [sc] targets, targets_columns e tables targets with
  | POk row, Ok cols => map sc_name row = map qc_name cols
  | PErr _, Err _ => True
  | _, _ => False
  end.
Proof. exact level_refines. Qed.
Print Assumptions C02_level_refines_partial.

Theorem C02_simple_select_partial : forall (e : env) (strict deep : bool) (stmt : node) (targets rvs fitems : list node) (leavess : list (list node)) (f : nat),
  kind_of stmt = "SelectStmt" -> kid "WithClause" stmt = Nil ->
  kid "TargetList" stmt = NList targets -> targets <> [] ->
  kid "FromClause" stmt = NList fitems -> Forall2 (join_tree (S f)) fitems leavess -> rvs = List.concat leavess ->
  from_items (kid "FromClause" stmt) = rvs ->
  (if strict then level_refs (NList [kid "FromClause" stmt; kid "WhereClause" stmt; kid "GroupClause" stmt;
                                     kid "HavingClause" stmt; kid "SortClause" stmt])
   else paired_refs (NList [kid "FromClause" stmt; kid "WhereClause" stmt; kid "GroupClause" stmt;
                            kid "HavingClause" stmt; kid "SortClause" stmt])) = [] ->
  level_subselects (NList ([kid "FromClause" stmt; kid "WhereClause" stmt; kid "GroupClause" stmt;
                            kid "HavingClause" stmt; kid "SortClause" stmt] ++ map (kid "Val") targets ++ [])) = [] ->
  (if deep then level_refs (NList (map (kid "Val") targets)) else direct_refs targets) = refs_of targets ->
  NoDup (map visible_name rvs) ->
  (forall sc, spec_scope (env_cat e) rvs = POk sc ->
     Forall (fun it => NoDup (map sc_name (si_cols it))) sc /\ Forall (target_ok sc) targets) ->
  forall g,
  match describe (env_cat e) strict deep (S (S f)) [] [] stmt, output_columns (S g) e [] stmt with
  | POk row, Ok cols => List.length row = List.length cols /\ Forall2 row_rel row cols
  | PErr _, Err _ => True
  | _, _ => False
  end.
Proof.
  intros e strict deep stmt targets rvs fitems leavess f H1 H2 H3 H4 H5 H6 H7 H8 H9 H10 H11 H12 H13 g.
  pose proof (simple_select_refines_t e strict deep stmt targets rvs fitems leavess f H1 H2 H3 H4 H5 H6 H7 H8 H9 H10 H11 H12 H13 g) as Ht.
  pose proof (simple_select_arity e strict deep stmt targets rvs fitems leavess f H1 H2 H3 H4 H5 H6 H7 H8 H9 H10 H11 H12 H13 g) as Ha.
  destruct (describe (env_cat e) strict deep (S (S f)) [] [] stmt); destruct (output_columns (S g) e [] stmt); auto.
Qed.
Print Assumptions C02_simple_select_partial.

(** the same for DELETE FROM <base table> [WHERE ...] RETURNING <targets> (no USING) *)
Theorem C02_simple_delete_partial : forall (e : env) (strict deep : bool) (stmt : node) (targets : list node) (f : nat),
  kind_of stmt = "DeleteStmt" -> kid "WithClause" stmt = Nil ->
  kid "ReturningList" stmt = NList targets ->
  kind_of (kid "Relation" stmt) = "RangeVar" -> kid "UsingClause" stmt = Nil ->
  (if strict then level_refs (NList [kid "WhereClause" stmt]) else paired_refs (NList [kid "WhereClause" stmt])) = [] ->
  level_subselects (NList ([kid "WhereClause" stmt] ++ map (kid "Val") targets ++ [])) = [] ->
  (if deep then level_refs (NList (map (kid "Val") targets)) else direct_refs targets) = refs_of targets ->
  (forall sc, spec_scope (env_cat e) [kid "Relation" stmt] = POk sc ->
     Forall (fun it => NoDup (map sc_name (si_cols it))) sc /\ Forall (target_ok sc) targets) ->
  forall g,
  match describe (env_cat e) strict deep (S (S f)) [] [] stmt, output_columns (S g) e [] stmt with
  | POk row, Ok cols => Forall2 row_rel row cols
  | PErr _, Err _ => True
  | _, _ => False
  end.
Proof. exact simple_delete_refines_t. Qed.
Print Assumptions C02_simple_delete_partial.

(** ... for UPDATE <base table> SET ... [WHERE ...] RETURNING <targets> (no FROM: with FROM the
    order of the scope differs - the finding update_from_returning_order), given that the SET
    targets are columns of the relation (sqlc checks those only next to a parameter) ... *)
Theorem C02_simple_update_partial : forall (e : env) (strict deep : bool) (stmt : node) (targets : list node) (f : nat),
  kind_of stmt = "UpdateStmt" -> kid "WithClause" stmt = Nil ->
  kid "ReturningList" stmt = NList targets ->
  kind_of (kid "Relation" stmt) = "RangeVar" -> kid "FromClause" stmt = NList [] ->
  (forall sc, spec_scope (env_cat e) [kid "Relation" stmt] = POk sc ->
     check_refs [firstn 1 sc]
       (map (fun t => Node "ColumnRef" [] [] [("Fields", NList [Node "String" [("Str", str_of "Name" t)] [] []])])
            (kid_items "TargetList" stmt)) = POk tt /\
     check_refs [sc] (if strict then level_refs (NList (map (kid "Val") (kid_items "TargetList" stmt))) else []) = POk tt) ->
  (if strict then level_refs (NList [kid "WhereClause" stmt; kid "FromClause" stmt])
   else paired_refs (NList [kid "WhereClause" stmt; kid "FromClause" stmt])) = [] ->
  level_subselects (NList ([kid "WhereClause" stmt; kid "FromClause" stmt] ++ map (kid "Val") targets
                           ++ map (kid "Val") (kid_items "TargetList" stmt))) = [] ->
  (if deep then level_refs (NList (map (kid "Val") targets)) else direct_refs targets) = refs_of targets ->
  (forall sc, spec_scope (env_cat e) [kid "Relation" stmt] = POk sc ->
     Forall (fun it => NoDup (map sc_name (si_cols it))) sc /\ Forall (target_ok sc) targets) ->
  forall g,
  match describe (env_cat e) strict deep (S (S f)) [] [] stmt, output_columns (S g) e [] stmt with
  | POk row, Ok cols => Forall2 row_rel row cols
  | PErr _, Err _ => True
  | _, _ => False
  end.
Proof. exact simple_update_refines_t. Qed.
Print Assumptions C02_simple_update_partial.

(** ... and for INSERT INTO <base table> (...) VALUES / SELECT ... RETURNING <targets>, given
    that the listed columns exist and the source is fine by the reference semantics. *)
Theorem C02_simple_insert_partial : forall (e : env) (strict deep : bool) (stmt : node) (targets : list node) (f : nat),
  kind_of stmt = "InsertStmt" -> kid "WithClause" stmt = Nil ->
  kid "ReturningList" stmt = NList targets ->
  kind_of (kid "Relation" stmt) = "RangeVar" ->
  (forall sc, spec_scope (env_cat e) [kid "Relation" stmt] = POk sc ->
     check_refs [sc] (map (fun t => Node "ColumnRef" [] [] [("Fields", NList [Node "String" [("Str", str_of "Name" t)] [] []])])
                          (kid_items "Cols" stmt)) = POk tt) ->
  (is_kind "SelectStmt" (kid "SelectStmt" stmt) = true ->
     exists r0, describe (env_cat e) strict deep (S f) [] [] (kid "SelectStmt" stmt) = POk r0) ->
  level_subselects (NList ([] ++ map (kid "Val") targets ++ [])) = [] ->
  (if deep then level_refs (NList (map (kid "Val") targets)) else direct_refs targets) = refs_of targets ->
  (forall sc, spec_scope (env_cat e) [kid "Relation" stmt] = POk sc ->
     Forall (fun it => NoDup (map sc_name (si_cols it))) sc /\ Forall (target_ok sc) targets) ->
  forall g,
  match describe (env_cat e) strict deep (S (S f)) [] [] stmt, output_columns (S g) e [] stmt with
  | POk row, Ok cols => Forall2 row_rel row cols
  | PErr _, Err _ => True
  | _, _ => False
  end.
Proof. exact simple_insert_refines_t. Qed.
Print Assumptions C02_simple_insert_partial.

(** the hypotheses are met by SELECT id, x.STAR, count(STAR) FROM t AS x (and the
    conclusion is the non-trivial branch: both accept, three columns) *)
Definition col_target (parts : list string) : node :=
  Node "ResTarget" [] [] [("Val", Node "ColumnRef" [] [] [("Fields", NList (map str_node parts))])].
Definition qstar_target (q : string) : node :=
  Node "ResTarget" [] [] [("Val", Node "ColumnRef" [] [] [("Fields", NList [str_node q; Node "A_Star" [] [] []])])].
Definition count_target : node :=
  Node "ResTarget" [] [] [("Val", Node "FuncCall" [] [("AggStar", 1%Z)] [("Func", Node "FuncName" [("Name", "count")] [] [])])].
Definition rv_t_as_x : node := Node "RangeVar" [("Relname", "t")] [] [("Alias", Node "Alias" [("Aliasname", "x")] [] [])].
Definition simple_stmt : node :=
  Node "SelectStmt" [] [] [("TargetList", NList [col_target ["id"]; qstar_target "x"; count_target]); ("FromClause", NList [rv_t_as_x])].
Example C02_simple_select_non_vacuous :
  exists row cols,
    describe t_cat true true 5 [] [] simple_stmt = POk row /\
    output_columns 5 (mk_env EPostgres t_cat []) [] simple_stmt = Ok cols /\
    map sc_name row = ["id"; "id"; "count"] /\ map qc_name cols = ["id"; "id"; "count"].
Proof. eexists. eexists. vm_compute. repeat split; reflexivity. Qed.
Example C02_simple_select_hypotheses :
  let e := mk_env EPostgres t_cat [] in
  let targets := [col_target ["id"]; qstar_target "x"; count_target] in
  kind_of simple_stmt = "SelectStmt" /\ kid "WithClause" simple_stmt = Nil /\
  kid "TargetList" simple_stmt = NList targets /\ kid "FromClause" simple_stmt = NList [rv_t_as_x] /\
  Forall2 (join_tree 1) [rv_t_as_x] [[rv_t_as_x]] /\
  from_items (kid "FromClause" simple_stmt) = [rv_t_as_x] /\
  level_refs (NList (map (kid "Val") targets)) = refs_of targets /\ direct_refs targets = refs_of targets /\
  (forall sc, spec_scope (env_cat e) [rv_t_as_x] = POk sc ->
     Forall (fun it => NoDup (map sc_name (si_cols it))) sc /\ Forall (target_ok sc) targets).
Proof.
  cbv zeta. repeat split; try (vm_compute; reflexivity).
  - repeat constructor.
  - vm_compute in H. inversion H; subst. repeat constructor. intros [].
  - vm_compute in H. inversion H; subst. constructor; [|constructor; [|constructor; [|constructor]]].
    + apply TO_simple. eapply ST_col; try reflexivity.
    + apply TO_simple. eapply ST_star_of with (q := "x"); try reflexivity; [discriminate|left; reflexivity].
    + apply TO_opaque; reflexivity.
Qed.
