From Verif Require Import Model.Compile Judge.JF.
Theorem C04_placeholder : True. Proof. exact I. Qed.
Print Assumptions C04_placeholder.
