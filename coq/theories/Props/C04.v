(** Property C04 — Embedded SQL is the user's statement, modulo documented rewrites.

    Proved for all inputs: C04_mutate — source.Mutate, given ANY permutation of
    edits that sit on disjoint pieces of the text and whose Old text is what
    stands at their location, returns the text with exactly those pieces
    exchanged and every other byte unchanged (the hypothesis "Old = the text at
    Location" is the one the code never checks: the known classes of
    known_findings.json are the inputs on which sqlc violates it).
    The full statement on lexemes (C04_full_statement) is decided per case by
    Judge/JF.v against Spec/SqlLexemes.v, and the transcription is tied to the
    code by exact correspondence of every compiled query file. *)
From Coq Require Import Sorting.Permutation.
From Verif Require Import Model.Compile Spec.SqlLexemes Judge.JQ Judge.J02 Judge.JF Proofs.SourceFacts Proofs.CompileFacts3 Proofs.StripFacts.
Open Scope string_scope.
Open Scope list_scope.

Definition C04_full_statement : Prop :=
  forall e src raw q,
    wf_raw raw = true -> c04_class src raw = 0%N ->
    parse_query e raw src false = Ok (Some q) ->
    c04_query_ok src raw q = true.

Theorem C04_mutate : forall segs tail edits,
  segs <> [] -> Forall seg_ok segs ->
  Permutation edits (edits_of 0 segs) ->
  mutate (text_of segs tail) edits = Ok (result_of segs tail).
Proof. exact mutate_segments. Qed.
Print Assumptions C04_mutate.

(** one edit in isolation *)
Theorem C04_one_edit : forall p o n t,
  o <> "" -> n <> "" ->
  apply_edit (p +++ o +++ t) (mkEdit (zlen p) o n) = Ok (p +++ n +++ t).
Proof. exact apply_edit_segment. Qed.
Print Assumptions C04_one_edit.

(** On the composed model: the embedded SQL of an accepted query is
    StripComments of Mutate of the statement's own text (Pluck), the edits being
    those of the parameter rewrite followed by those of star expansion ... *)
Theorem C04_compiled_source_partial : forall e raw src positional q,
  parse_query e raw src positional = Ok (Some q) ->
  exists raw_sql edits expanded,
    pluck src (int_of "StmtLocation" raw) (int_of "StmtLen" raw) = Ok raw_sql /\
    mutate raw_sql edits = Ok expanded /\
    strip_comments expanded = Ok (q_sql q, q_comments q) /\
    exists refs0 qc ex,
      find_parameters (kid "Stmt" (fst (fst (named_parameters (env_engine e) raw)))) = Ok refs0 /\
      expand (fuel_of raw) e qc (fst (fst (named_parameters (env_engine e) raw))) = Ok ex /\
      edits = (if positional
               then map (fun r => mkEdit (loc_of (pr_ref r) - int_of "StmtLocation" (fst (fst (named_parameters (env_engine e) raw))))
                                         ("$" +++ z_to_string (ref_number r)) "?") refs0
               else snd (named_parameters (env_engine e) raw)) ++ ex.
Proof. exact parse_query_sql. Qed.
Print Assumptions C04_compiled_source_partial.

(** ... hence, whenever those edits sit on disjoint pieces of the text and each
    Old text is what stands at its Location, the embedded SQL is StripComments
    of the statement with exactly those pieces exchanged, every other byte
    unchanged. *)
Theorem C04_compiled_partial : forall e raw src positional q,
  parse_query e raw src positional = Ok (Some q) ->
  exists raw_sql edits expanded,
    pluck src (int_of "StmtLocation" raw) (int_of "StmtLen" raw) = Ok raw_sql /\
    mutate raw_sql edits = Ok expanded /\
    forall segs tail,
      raw_sql = text_of segs tail -> segs <> [] -> Forall seg_ok segs ->
      Permutation edits (edits_of 0 segs) ->
      strip_comments (result_of segs tail) = Ok (q_sql q, q_comments q).
Proof. exact compiled_sql_is_edited_source. Qed.
Print Assumptions C04_compiled_partial.

(** source.StripComments removes exactly the annotation line and the full-line
    comments (lines starting with -- , or /* ... */ on one line); every other line
    is kept verbatim and in order; the comment texts become the doc comment.
    (That a line starting with -- may be the continuation of a string literal is
    the finding multiline_literal_cut_by_strip_comments.) *)
Theorem C04_strip_comments_partial : forall sql s cs,
  strip_comments sql = Ok (s, cs) ->
  exists ls, scan_lines_limited (trim_space sql) = Some ls /\
    s = join (String nl "") (filter (fun t => negb (is_annotation t) && negb (is_comment_line t)) ls) /\
    cs = flat_map comment_text ls.
Proof. exact strip_comments_spec. Qed.
Print Assumptions C04_strip_comments_partial.

(** Non-vacuity and the known class: two rewrites in one statement, given in the
    "wrong" order; and a named parameter spelled with inner spaces garbles the text. *)
Example C04_mutate_example :
  mutate "SELECT * FROM t WHERE a = sqlc.arg(x)"
         [mkEdit 26 "sqlc.arg(x)" "$1"; mkEdit 7 "*" "id, a"] = Ok "SELECT id, a FROM t WHERE a = $1".
Proof. vm_compute. reflexivity. Qed.
Example C04_refuted_spelling :
  mutate "SELECT a FROM t WHERE a = sqlc.arg( x ) AND b" [mkEdit 26 "sqlc.arg(x)" "$1"]
  = Ok "SELECT a FROM t WHERE a = $1 ) AND b".
Proof. vm_compute. reflexivity. Qed.

(** the same for every query of every accepted package (any number of query files) *)
From Verif Require Import Model.CompileFiles Proofs.RunOrigin.
Theorem C04_run_source_partial : forall e positional files qs name q,
  compile_queries e positional files = Ok qs -> In (name, q) qs ->
  exists src stmts raw,
    In (name, src, stmts) files /\ In raw stmts /\
    exists raw_sql edits expanded,
      pluck src (int_of "StmtLocation" raw) (int_of "StmtLen" raw) = Ok raw_sql /\
      mutate raw_sql edits = Ok expanded /\
      strip_comments expanded = Ok (q_sql q, q_comments q).
Proof.
  intros e positional files qs name q H Hin.
  destruct (run_query_origin e positional files qs name q H Hin) as [src [stmts [raw [A [B C]]]]].
  exists src, stmts, raw. split; [exact A|]. split; [exact B|].
  destruct (C04_compiled_source_partial e raw src positional q C) as [raw_sql [edits [expanded [P [M [S _]]]]]].
  exists raw_sql, edits, expanded. repeat split; assumption.
Qed.
Print Assumptions C04_run_source_partial.
