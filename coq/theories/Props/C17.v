(** Property C17 — Diagnostics name the right file and a line inside the statement.

    Model: Model/Source.v line_number (source.LineNumber), Model/Compile.v
    report_position / parse_file (multierr.Add + compile.go), tied to the code
    by correspondence of every reported position (checks/c17.py).

    Proved for every source text and every offset:
    - C17_line_bounds_partial: the reported line is not before the line on
      which the offset lies and never after the last line of the file (the
      pinned tree's defect - a multi-byte character moved the line past the end
      of the file - is excluded for all inputs), the column is never negative;
    - C17_column_partial: the column is at least 1 unless the file ends in a
      line break and the scan ran off its end;
    - C17_line_upper_partial: the reported line is not after the line of the first
      character at or after the offset that is neither white space nor inside a
      `--` comment as LineNumber sees comments;
    - C17_total: LineNumber returns a position for every input (no panic).
    The offset is the statement's StmtLocation, which the parser places at or
    after the end of the preceding statement; so "after the end of the preceding
    statement" follows from the lower bound.  The upper half of the region
    ("not after the statement's last line") needs a non-blank, non-comment
    character inside the statement: it is decided per case by the judge
    (Judge/JF.v holds17) and fails exactly for the class of
    known_findings.json (a `--` inside a string literal taken for a comment). *)
From Verif Require Import Model.Compile Judge.JF Proofs.LineFacts.
Open Scope string_scope.
Open Scope list_scope.

Definition C17_full_statement : Prop :=
  forall src raw msg l c,
    report_position src raw msg = Ok (l, c) ->
    let first := (1 + count_nl (take_before (int_of "StmtLocation" raw) (runes src)))%Z in
    let last := (1 + count_nl (take_before (int_of "StmtLocation" raw + int_of "StmtLen" raw) (runes src)))%Z in
    (first <= l <= last)%Z /\ (1 <= c)%Z.

Theorem C17_line_bounds_partial : forall src head l c,
  line_number src head = Ok (l, c) ->
  (1 + count_nl (take_before head (runes src)) <= l <= 1 + count_nl (runes src))%Z /\ (0 <= c)%Z.
Proof. exact line_number_bounds. Qed.
Print Assumptions C17_line_bounds_partial.

Theorem C17_column_partial : forall src head l c,
  line_number src head = Ok (l, c) -> runes src <> [] -> last_is_nl (runes src) = false -> (1 <= c)%Z.
Proof. exact line_number_col. Qed.
Print Assumptions C17_column_partial.

Theorem C17_total : forall src head, exists l c, line_number src head = Ok (l, c).
Proof. intros src head. apply loop_total. Qed.
Print Assumptions C17_total.

(** The upper half of the region: if some character at or after the offset is
    neither white space nor inside a `--` comment - as LineNumber itself sees
    comments ([flag_after]) - the reported line is not after that character's
    line.  Every statement has such a character on or before its last line
    unless `--` occurs inside a string literal or block comment before it on
    the same line: exactly the known finding. *)
Theorem C17_line_upper_partial : forall src head l c pre k post,
  line_number src head = Ok (l, c) ->
  runes src = pre ++ k :: post ->
  (head <= fst k)%Z -> is_space_rune (snd k) = false ->
  flag_after src (pre ++ [k]) false = false ->
  (l <= 1 + count_nl pre)%Z.
Proof. exact line_number_upper. Qed.
Print Assumptions C17_line_upper_partial.

(** the hypotheses are met, and the bound is tight: a statement at offset 16
    of a file whose first line holds a multi-byte comment is reported on line 2 *)
Example C17_non_vacuous :
  let src := "-- " +++ String (ascii_of_nat 195) (String (ascii_of_nat 169) "") +++ " comment" +++ String nl "SELECT 1;" in
  line_number src 14 = Ok (2, 1)%Z /\ count_nl (take_before 14 (runes src)) = 1%Z /\ last_is_nl (runes src) = false.
Proof. vm_compute. repeat split; reflexivity. Qed.
