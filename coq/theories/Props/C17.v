(** Property C17 — Diagnostics name the right file and a line inside the statement.

    Model: Model/Source.v line_number (source.LineNumber), Model/Compile.v
    report_position / parse_file (multierr.Add + compile.go), tied to the code
    by correspondence of every reported position (checks/c17.py).

    Proved for every source text and every offset:
    - C17_line_bounds_partial: the reported line is not before the line on
      which the offset lies and never after the last line of the file (the
      pinned tree's defect - a multi-byte character moved the line past the end
      of the file - is excluded for all inputs), the column is never negative;
    - C17_column_partial: the column is at least 1 unless the file ends in a
      line break and the scan ran off its end;
    - C17_line_upper_partial: the reported line is not after the line of the first
      character at or after the offset that is neither white space nor inside a
      `--` comment as LineNumber sees comments;
    - C17_total: LineNumber returns a position for every input (no panic).
    The offset is the statement's StmtLocation, which the parser places at or
    after the end of the preceding statement; so "after the end of the preceding
    statement" follows from the lower bound.  The upper half of the region
    ("not after the statement's last line") needs a non-blank, non-comment
    character inside the statement: it is decided per case by the judge
    (Judge/JF.v holds17) and fails exactly for the class of
    known_findings.json (a `--` inside a string literal taken for a comment).

    "All offending statements of all files are reported, one line each, in file
    then source order" - over Model/CompileFiles.v (the file loop of parseQueries,
    whose only state across files is the set of query names seen):
    - C17_files_order: every statement of every file contributes exactly one entry
      (diagnostic, query, or skipped), file by file in the order of the file list,
      for any number of files and statements;
    - C17_files_partial: when no query name of a file is used by an earlier file
      (otherwise the later one is a "duplicate query name" diagnostic), the run
      reports, file by file, exactly the diagnostics each file reports when it is
      the only file of the package - the equation checks/c17.py tests on the real
      compiler with 2-3 query files, each file's own report being tied to the
      model by the per-file correspondence;
    - C17_file_source_order: the diagnostics of one file are the Err entries of
      its statements in source order. *)
From Verif Require Import Model.Compile Model.CompileFiles Judge.JQ Judge.JF Proofs.LineFacts Proofs.CompileFilesFacts.
Open Scope string_scope.
Open Scope list_scope.

Definition C17_full_statement : Prop :=
  forall src raw msg l c,
    report_position src raw msg = Ok (l, c) ->
    let first := (1 + count_nl (take_before (int_of "StmtLocation" raw) (runes src)))%Z in
    let last := (1 + count_nl (take_before (int_of "StmtLocation" raw + int_of "StmtLen" raw) (runes src)))%Z in
    (first <= l <= last)%Z /\ (1 <= c)%Z.

Theorem C17_line_bounds_partial : forall src head l c,
  line_number src head = Ok (l, c) ->
  (1 + count_nl (take_before head (runes src)) <= l <= 1 + count_nl (runes src))%Z /\ (0 <= c)%Z.
Proof. exact line_number_bounds. Qed.
Print Assumptions C17_line_bounds_partial.

Theorem C17_column_partial : forall src head l c,
  line_number src head = Ok (l, c) -> runes src <> [] -> last_is_nl (runes src) = false -> (1 <= c)%Z.
Proof. exact line_number_col. Qed.
Print Assumptions C17_column_partial.

Theorem C17_total : forall src head, exists l c, line_number src head = Ok (l, c).
Proof. intros src head. apply loop_total. Qed.
Print Assumptions C17_total.

(** The upper half of the region: if some character at or after the offset is
    neither white space nor inside a `--` comment - as LineNumber itself sees
    comments ([flag_after]) - the reported line is not after that character's
    line.  Every statement has such a character on or before its last line
    unless `--` occurs inside a string literal or block comment before it on
    the same line: exactly the known finding. *)
Theorem C17_line_upper_partial : forall src head l c pre k post,
  line_number src head = Ok (l, c) ->
  runes src = pre ++ k :: post ->
  (head <= fst k)%Z -> is_space_rune (snd k) = false ->
  flag_after src (pre ++ [k]) false = false ->
  (l <= 1 + count_nl pre)%Z.
Proof. exact line_number_upper. Qed.
Print Assumptions C17_line_upper_partial.

(** the hypotheses are met, and the bound is tight: a statement at offset 16
    of a file whose first line holds a multi-byte comment is reported on line 2 *)
Example C17_non_vacuous :
  let src := "-- " +++ String (ascii_of_nat 195) (String (ascii_of_nat 169) "") +++ " comment" +++ String nl "SELECT 1;" in
  line_number src 14 = Ok (2, 1)%Z /\ count_nl (take_before 14 (runes src)) = 1%Z /\ last_is_nl (runes src) = false.
Proof. vm_compute. repeat split; reflexivity. Qed.

(** ** several query files *)
Theorem C17_files_order : forall e p files seen,
  map fst (parse_files e p files seen)
  = flat_map (fun f : qfile => let '(name, _, stmts) := f in repeat name (List.length stmts)) files.
Proof. exact parse_files_order. Qed.
Print Assumptions C17_files_order.

Theorem C17_files_partial : forall e p files,
  names_fresh e p files [] ->
  diagnostics (parse_files e p files []) = flat_map (fun f => diagnostics (alone e p f)) files.
Proof. exact diagnostics_file_by_file. Qed.
Print Assumptions C17_files_partial.

Theorem C17_file_source_order : forall e p name src stmts,
  diagnostics (alone e p (name, src, stmts))
  = flat_map (fun r => match r with Err m => [(name, m)] | _ => [] end) (parse_file e src p stmts []).
Proof. exact diagnostics_alone_subseq. Qed.
Print Assumptions C17_file_source_order.

(** Concrete statements (as the PostgreSQL parser returns them) over a one-table catalog:
    file a.sql holds GetA (fine) and GetB (unknown column), file b.sql holds GetA again -
    or, with fresh names, GetC (unknown column). *)
Definition c17_cat : catalog :=
  mkCat "public" [mkSch "public" [mkTab "t" [mkCol "id" (mkQ "pg_catalog" "int4") true false ""] ""] [] ""; mkSch "pg_catalog" [] [] ""].
Definition c17_sel (c : string) : node :=
  Node "SelectStmt" [] []
    [("TargetList", NList [Node "ResTarget" [] [] [("Val", Node "ColumnRef" [] [] [("Fields", NList [Node "String" [("Str", c)] [] []])])]]);
     ("FromClause", NList [Node "RangeVar" [("Relname", "t")] [] []])].
Definition c17_stmt (name col : string) : string := "-- name: " +++ name +++ " :many" +++ String nl ("SELECT " +++ col +++ " FROM t;").
Definition c17_raw (loc : Z) (text : string) (col : string) : node :=
  Node "RawStmt" [] [("StmtLocation", loc); ("StmtLen", Z.of_nat (String.length text) - 1)%Z] [("Stmt", c17_sel col)].
Definition c17_file (name : string) (stmts : list (string * string)) : qfile :=
  let texts := map (fun nc => c17_stmt (fst nc) (snd nc)) stmts in
  let src := String.concat (String nl "") texts in
  (name, src,
   (fix go (l : list (string * string)) (loc : Z) : list node :=
      match l with
      | [] => []
      | (n, c) :: r => c17_raw loc (c17_stmt n c) c :: go r (loc + Z.of_nat (String.length (c17_stmt n c)) + 1)%Z
      end) stmts 0%Z).
Definition c17_env : env := mk_env EPostgres c17_cat [].

(** the hypotheses of C17_files_partial are met and the conclusion is not the empty list *)
Example C17_files_non_vacuous :
  let files := [c17_file "a.sql" [("GetA", "id"); ("GetB", "nope")]; c17_file "b.sql" [("GetC", "bogus"); ("GetD", "id")]] in
  names_fresh c17_env false files []
  /\ diagnostics (parse_files c17_env false files [])
     = [("a.sql", "column ""nope"" does not exist"); ("b.sql", "column ""bogus"" does not exist")].
Proof.
  cbv zeta. split; [|vm_compute; reflexivity].
  cbn [names_fresh]. repeat split; try (intros n Hn; vm_compute in Hn; vm_compute; intuition (subst; reflexivity)).
Qed.

(** the freshness hypothesis is needed: the same query name in two files makes the
    second file report a diagnostic it does not report alone *)
Theorem C17_files_refuted_shared_name :
  let files := [c17_file "a.sql" [("GetA", "id")]; c17_file "b.sql" [("GetA", "id")]] in
  diagnostics (parse_files c17_env false files []) = [("b.sql", "duplicate query name: GetA")]
  /\ flat_map (fun f => diagnostics (alone c17_env false f)) files = [].
Proof. vm_compute. split; reflexivity. Qed.
Print Assumptions C17_files_refuted_shared_name.

(** ** "file is the query file containing the offending statement": the name printFileErr prints
    (Model/Driver.v print_name, evaluated against the real stderr of cmd.Generate for query files
    inside, next to and outside the configuration directory) *)
From Verif Require Import Model.Driver Proofs.PrintName.
Theorem C17_printed_name_inside : forall dir rel, print_name dir (dir +++ "/" +++ rel) = rel.
Proof. exact print_name_inside. Qed.
Print Assumptions C17_printed_name_inside.

Theorem C17_printed_name_outside : forall dir file, has_prefix file (dir +++ "/") = false -> print_name dir file = file.
Proof. exact print_name_outside. Qed.
Print Assumptions C17_printed_name_outside.
