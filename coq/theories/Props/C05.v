(** Property C05 — Result types track the schema column they come from.

    Full statement: C05_full_statement (decided per case by judge_c05 and the
    Go-level judge_go_ret).  Proved for all inputs: every hop of the column record
    from the catalog to a result column copies the data type, nullability,
    array-ness and owning table unchanged — catalog column -> query column
    (ConvertColumn), query column -> star result (star_columns) — so a star or a
    plain reference cannot change a type, whatever DDL history produced the
    catalog column (the history is C08's business). *)
From Verif Require Import Model.Compile Spec.PgScope Judge.JQ Judge.J02 Proofs.ColumnsFacts Proofs.TypeFlowFacts Proofs.ScopeRefine Proofs.ScopeRefineT Proofs.SelectRefine.
Open Scope string_scope.
Open Scope list_scope.

Definition C05_full_statement : Prop :=
  forall e raw src q row,
    wf_raw raw = true -> c02_class_e e raw = 0%N ->
    parse_query e raw src false = Ok (Some q) ->
    pg_describe (env_cat e) (stmt_of raw) = POk row ->
    types_agree row (q_columns q) = true.

Theorem C05_convert_partial : forall rel c,
  let q := convert_column rel c in
  qc_name q = col_name c /\ qc_dt q = data_type (col_type c) /\ qc_nn q = col_notnull c
  /\ qc_arr q = col_array c /\ qc_table q = Some rel.
Proof. exact convert_column_faithful. Qed.
Print Assumptions C05_convert_partial.

Theorem C05_star_partial : forall res tables ref,
  Forall (fun q => exists t c, In t tables /\ In c (qt_cols t) /\ same_type q c
                               /\ (res_name res = None -> qc_name q = qc_name c))
         (star_columns res tables ref).
Proof. exact star_preserves_types. Qed.
Print Assumptions C05_star_partial.

(** a plain reference (directly, or qualified by a table name / alias): the one
    result column carries the data type, nullability, array-ness and owning
    table of the one candidate column in scope, and its name unless renamed
    with AS *)
Theorem C05_ref_partial : forall res tables ref alias name cols,
  ref_name_alias ref = Some (alias, name) ->
  output_column_refs res tables ref = Ok cols ->
  exists c, ref_candidates tables alias name = [c] /\
    cols = [mkQC (some_or (qc_name c) (res_name res)) (qc_dt c) (qc_nn c) (qc_arr c) "" (qc_table c)].
Proof. exact ref_preserves_types. Qed.
Print Assumptions C05_ref_partial.

(** a catalog table seen through the query catalog, under an alias or not, and
    a CTE re-homed to its name: same columns, same attributes *)
Theorem C05_catalog_table_partial : forall e rel t qt,
  cat_get_table (env_cat e) rel = Some t -> qc_get_table e [] rel = Ok qt ->
  map attrs (qt_cols qt) = map (fun c => (data_type (col_type c), col_notnull c, col_array c)) (tab_cols t)
  /\ map qc_name (qt_cols qt) = map col_name (tab_cols t).
Proof. exact catalog_table_columns. Qed.
Print Assumptions C05_catalog_table_partial.

Theorem C05_cte_partial : forall rel cols,
  let cols' := map (fun x => mkQC (qc_name x) (qc_dt x) (qc_nn x) (qc_arr x) (qc_scope x) (Some rel)) cols in
  map attrs cols' = map attrs cols /\ map qc_name cols' = map qc_name cols.
Proof. exact cte_rehome_attrs. Qed.
Print Assumptions C05_cte_partial.

(** ** Refinement to the reference semantics, with types.  [row_rel x c]: the
    reference row entry x and sqlc's result column c have the same name, and if x comes from a catalog column,
    c has that column's data type, nullability and array-ness.  For a simple
    SELECT sqlc and the reference semantics accept the same statements and
    their rows are related column by column - whether the column is referenced
    directly, through an alias, through a star, or renamed with AS.
    The statements covered ("simple SELECT"): SELECT <targets> FROM <base
    tables, each with or without alias, separated by commas or combined by JOIN> [WHERE / GROUP BY / HAVING / ORDER BY]
    with no WITH clause and no sub-select; every target a star (bare or qualified by a
    relation name), a column reference (c or t.c, with or without AS) or an expression
    that is not a column reference, CASE, COALESCE, sub-select or cast
    ([target_ok]).  [strict] / [deep] select how much the reference semantics
    checks: strict = every column reference of every clause must resolve
    (PostgreSQL) - the theorem then needs clauses without column references -,
    non-strict = only what property C10 lists (columns paired with a parameter:
    none here); deep = references inside result expressions must resolve - the
    theorem then needs result expressions without inner references -, non-deep =
    only targets that ARE references.  The hypotheses on [from_items],
    [level_refs], [level_subselects] state these shape facts about the AST. *)
Theorem C05_level_types_partial : forall e sc tables targets,
  scope_rel_t sc tables -> NoDup (map si_name sc) ->
  Forall (fun it => NoDup (map sc_name (si_cols it))) sc ->
  Forall (target_ok sc) targets ->
  match row_of sc [sc] targets, targets_columns e tables targets with
  | POk row, Ok cols => Forall2 row_rel row cols
  | PErr _, Err _ => True
  | _, _ => False
  end.
Proof. exact level_refines_t. Qed.
Print Assumptions C05_level_types_partial.

Theorem C05_simple_select_types_partial : forall (e : env) (strict deep : bool) (stmt : node) (targets rvs fitems : list node) (leavess : list (list node)) (f : nat),
  kind_of stmt = "SelectStmt" -> kid "WithClause" stmt = Nil ->
  kid "TargetList" stmt = NList targets -> targets <> [] ->
  kid "FromClause" stmt = NList fitems -> Forall2 (join_tree (S f)) fitems leavess -> rvs = List.concat leavess ->
  from_items (kid "FromClause" stmt) = rvs ->
  (if strict then level_refs (NList [kid "FromClause" stmt; kid "WhereClause" stmt; kid "GroupClause" stmt;
                                     kid "HavingClause" stmt; kid "SortClause" stmt])
   else paired_refs (NList [kid "FromClause" stmt; kid "WhereClause" stmt; kid "GroupClause" stmt;
                            kid "HavingClause" stmt; kid "SortClause" stmt])) = [] ->
  level_subselects (NList ([kid "FromClause" stmt; kid "WhereClause" stmt; kid "GroupClause" stmt;
                            kid "HavingClause" stmt; kid "SortClause" stmt] ++ map (kid "Val") targets ++ [])) = [] ->
  (if deep then level_refs (NList (map (kid "Val") targets)) else direct_refs targets) = refs_of targets ->
  NoDup (map visible_name rvs) ->
  (forall sc, spec_scope (env_cat e) rvs = POk sc ->
     Forall (fun it => NoDup (map sc_name (si_cols it))) sc /\ Forall (target_ok sc) targets) ->
  forall g,
  match describe (env_cat e) strict deep (S (S f)) [] [] stmt, output_columns (S g) e [] stmt with
  | POk row, Ok cols => Forall2 row_rel row cols
  | PErr _, Err _ => True
  | _, _ => False
  end.
Proof. exact simple_select_refines_t. Qed.
Print Assumptions C05_simple_select_types_partial.

(** ** the Go side (Model/GoGen.v = result.go buildQueries, compared exactly with the generator's own
    values through the verif hook on every case of the C01 check) *)
From Verif Require Import Model.GoGen Proofs.GoGenFacts Model.GoModels Proofs.GoModelsFacts.

(** whatever a query returns - the single value, a fresh Row struct or a reused model struct - its Go
    types are, in order, goType of the query's result columns (which C05_*_partial above tie to the
    catalog column): the last hop of "result types track the column" *)
Theorem C05_go_result_types_partial : forall st c structs name cols v,
  build_ret st c structs name cols = Ok v ->
  (forall col, In col cols -> go_type_of st c col <> "") ->
  ret_types_of v = map (go_type_of st c) cols.
Proof. exact ret_types_are_column_types. Qed.
Print Assumptions C05_go_result_types_partial.

(** the model-type clause, soundness: a method returns a table's model struct only if its columns are,
    position by position, that table's fields - same Go-cased name, same Go type, and each column
    really belongs to that table *)
Theorem C05_model_struct_reuse_sound_partial : forall st c structs name cols v s,
  build_ret st c structs name cols = Ok v -> vo_emit v = false -> vo_struct v = Some s ->
  In s structs /\ List.length (gst_fields s) = List.length cols
  /\ forall k f col, nth_error (gst_fields s) k = Some f -> nth_error cols k = Some col ->
       field_name f = struct_name_r st (column_name col k)
       /\ field_type f = go_type_of st c col
       /\ same_table c col (gst_table s) = true.
Proof. exact reuse_sound. Qed.
Print Assumptions C05_model_struct_reuse_sound_partial.

Example C05_reuse_non_vacuous :
  build_ret gg_st gg_cat gg_structs "Get" [gg_col "id" "pg_catalog.int4" true; gg_col "bio" "text" false]
    = Ok (mkVO false "i" "" (Some (mkGSt "Author" ("public", "authors") [("ID", "int32", ""); ("Bio", "sql.NullString", "")])))
  /\ build_ret gg_st gg_cat gg_structs "Get" [gg_col "bio" "text" false; gg_col "id" "pg_catalog.int4" true]
    = Ok (mkVO true "i" "" (Some (mkGSt "GetRow" ("", "") [("Bio", "sql.NullString", ""); ("ID", "int32", "")]))).
Proof. exact reuse_example. Qed.

(** ** model structs (Model/GoModels.v, the transcription of buildStructs, compared with the
    generator's own structs on every generated package).  The struct of a table matches the
    table's own columns field by field - same Go name, same Go type (goType of the converted
    column, so the declared type, nullability and array-ness), same table - hence a query
    whose result columns are exactly those columns returns a model struct, not a row struct. *)
Theorem C05_model_struct_matches_own_columns : forall st c s t cols pos fs,
  s <> "" ->
  (forall col, In col cols -> col_name col <> "") ->
  model_fields st c s t cols = Ok fs ->
  fields_same st c (s, tab_name t) pos fs (map (model_col s t) cols) = true.
Proof. exact model_fields_same. Qed.
Print Assumptions C05_model_struct_matches_own_columns.

Theorem C05_own_columns_reuse_partial : forall st c s t fs name structs1 structs2,
  s <> "" ->
  (forall col, In col (tab_cols t) -> col_name col <> "") ->
  model_fields st c s t (tab_cols t) = Ok fs ->
  exists g, reuse_struct st c (structs1 ++ mkGSt name (s, tab_name t) fs :: structs2) (map (model_col s t) (tab_cols t)) = Some g.
Proof. exact own_columns_reuse_some_struct. Qed.
Print Assumptions C05_own_columns_reuse_partial.
