From Verif Require Import Model.Compile Spec.PgScope Judge.J02.
Theorem C05_placeholder : True. Proof. exact I. Qed.
Print Assumptions C05_placeholder.
