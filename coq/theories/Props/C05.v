(** Property C05 — Result types track the schema column they come from.

    Full statement: C05_full_statement (decided per case by judge_c05 and the
    Go-level judge_go_ret).  Proved for all inputs: every hop of the column record
    from the catalog to a result column copies the data type, nullability,
    array-ness and owning table unchanged — catalog column -> query column
    (ConvertColumn), query column -> star result (star_columns) — so a star or a
    plain reference cannot change a type, whatever DDL history produced the
    catalog column (the history is C08's business). *)
From Verif Require Import Model.Compile Spec.PgScope Judge.JQ Judge.J02 Proofs.ColumnsFacts.
Open Scope string_scope.
Open Scope list_scope.

Definition C05_full_statement : Prop :=
  forall e raw src q row,
    wf_raw raw = true -> c02_class_e e raw = 0%N ->
    parse_query e raw src false = Ok (Some q) ->
    pg_describe (env_cat e) (stmt_of raw) = POk row ->
    types_agree row (q_columns q) = true.

Theorem C05_convert_partial : forall rel c,
  let q := convert_column rel c in
  qc_name q = col_name c /\ qc_dt q = data_type (col_type c) /\ qc_nn q = col_notnull c
  /\ qc_arr q = col_array c /\ qc_table q = Some rel.
Proof. exact convert_column_faithful. Qed.
Print Assumptions C05_convert_partial.

Theorem C05_star_partial : forall res tables ref,
  Forall (fun q => exists t c, In t tables /\ In c (qt_cols t) /\ same_type q c
                               /\ (res_name res = None -> qc_name q = qc_name c))
         (star_columns res tables ref).
Proof. exact star_preserves_types. Qed.
Print Assumptions C05_star_partial.
