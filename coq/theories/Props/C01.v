(** Property C01 — Generated Go package always compiles.

    "Syntactically valid, gofmt-stable, type-checks as one unit" is a statement
    about go/format and the Go type checker, which are not formalised: that part
    is decided by compiling every generated package (go build) and by the two-way
    agreement between the compiler and Spec/GoPkgWf.pkg_wf (the declaration rules
    an emitted package exercises) on every case.  There is no Gallina model of
    the text/template half of the generator, so C01_full_statement is a per-case
    decision; what is proved for all inputs are properties of the identifier
    derivation the templates rely on (partial). *)
From Coq Require Import Sorting.Sorted.
From Verif Require Import Model.GoNames Model.GoStruct Spec.GoPkgWf Proofs.GoStructFacts.
From Verif Require Import Model.GoImports Spec.GoFileUses Proofs.ImportsFacts.
Open Scope string_scope.
Open Scope list_scope.

Definition C01_full_statement : Prop :=
  forall (files : list gofile), (* files = the summary of a package sqlc emitted *) pkg_wf files = 0%N.

(** strings.Title never changes the length of a name (so an empty part stays
    empty and a non-empty one stays non-empty) *)
Lemma title_aux_length b s : String.length (title_aux b s) = String.length s.
Proof. revert b. induction s as [|c s IH]; intros b; simpl; [reflexivity|]. rewrite IH. reflexivity. Qed.
Theorem C01_title_length_partial : forall s, String.length (title s) = String.length s.
Proof. intros s. apply title_aux_length. Qed.
Print Assumptions C01_title_length_partial.

(** the "id" -> "ID" special case and Go-casing of the documented examples *)
Example C01_struct_name_examples :
  struct_name "author_id" = "AuthorID" /\ struct_name "id" = "ID" /\ struct_name "users" = "Users"
  /\ struct_name "order_items" = "OrderItems" /\ struct_name "a__b" = "AB".
Proof. vm_compute. repeat split. Qed.

(** two different SQL names with one Go name: the collision class of known_findings.json is real *)
Theorem C01_refuted_casing_collision : exists a b, a <> b /\ struct_name a = struct_name b.
Proof. exists "a_b", "a__b". split; [discriminate|vm_compute; reflexivity]. Qed.

(** pkg_wf rejects the classic :one redeclaration *)
Example C01_pkg_wf_redeclared :
  pkg_wf [mkGF "query.sql.go" ["context"] ["context"] ["getOne"] []
            [mkGM "Queries" "GetOne" "q" ["ctx"; "id"] ["row"; "id"; "err"] [] []]] = 5%N.
Proof. vm_compute. reflexivity. Qed.

(** ... and the :many loop whose single result column is called like the
    slice it is appended to (`var items T` inside the loop hides `var items []T`) *)
Example C01_pkg_wf_inner_shadow :
  pkg_wf [mkGF "query.sql.go" ["context"] ["context"] ["list"] []
            [mkGM "Queries" "List" "q" ["ctx"] ["rows"; "err"; "items"] [] ["items"]]] = 7%N.
Proof. vm_compute. reflexivity. Qed.

(** Field names of a *Row / *Params struct (result.go columnsToStruct,
    Model/GoStruct.v, compared with the emitted struct tags on every case of the
    C02 check): columns that share a name receive strictly increasing suffixes,
    hence pairwise different field names, whenever their ids differ (result
    columns: positions; parameters: distinct numbers). *)
Theorem C01_suffixes_increase_partial : forall cols nm,
  NoDup (map fst cols) -> StronglySorted lt (named nm cols (suffixes_of cols)).
Proof. exact same_name_suffixes_increase. Qed.
Print Assumptions C01_suffixes_increase_partial.

Example C01_row_tags_example :
  row_tags ["id"; "id"; "name"; ""; "id"] = ["id"; "id_2"; "name"; "column_4"; "id_3"].
Proof. vm_compute. reflexivity. Qed.

(** "Every import is both needed and present" (the import half of C01), as a theorem
    between the transcription of imports.go (Model/GoImports, compared with the real
    importer's answers on every generated package through the hook golang.VerifGenerate)
    and what the templates of gen.go mention (Spec/GoFileUses, compared with the
    qualifiers go/parser finds in every emitted file): for every set of model structs,
    enums and queries whose Go types are unqualified names or types of the regenerated
    type tables (also as slices), without custom overrides, every emitted file - db.go,
    models.go, querier.go and each query file - imports exactly the packages it
    mentions, unless a bare parameter or result is a slice of a qualified type (the
    finding class, refuted below).  Partial: configurations with go_type overrides are
    decided per case (go build + pkg_wf rules 3 and 4). *)
Theorem C01_imports_needed_present_partial : forall i file,
  no_custom (gi_overrides i) -> ok_importer i = true ->
  (forall q, In q (gi_queries i) -> query_in_slice_class q = false) ->
  imports_exact i file = true.
Proof. exact imports_needed_present. Qed.
Print Assumptions C01_imports_needed_present_partial.

(** the importer's prefix rules and the qualifier of a type agree on every Go type of the
    regenerated tables (re-checked against postgresql_type.go / mysql_type.go / stdlibTypes) *)
Theorem C01_table_types_covered :
  forallb (fun t => ok_typeb t && ok_typeb ("[]" +++ t)) table_go_types = true.
Proof. exact table_types_ok. Qed.
Print Assumptions C01_table_types_covered.

Theorem C01_imports_refuted_bare_slice :
  ok_importer slice_witness = true /\ imports_exact slice_witness "query.sql" = false.
Proof. exact imports_refuted_bare_slice. Qed.
Print Assumptions C01_imports_refuted_bare_slice.

Example C01_imports_non_vacuous :
  ok_importer imports_example = true
  /\ forallb (fun q => negb (query_in_slice_class q)) (gi_queries imports_example) = true
  /\ import_paths (imports_of imports_example "query.sql")
     = ["context"; "database/sql"; "net"; "time"; "github.com/lib/pq"; "github.com/google/uuid"].
Proof. exact imports_example_ok. Qed.
