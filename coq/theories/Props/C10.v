(** Property C10 — Unresolvable or ambiguous names are rejected; resolvable ones accepted.

    Full statement: C10_full_statement (decided per case by judge_c10 against
    Spec/PgScope.pg_names_ok).  Proved for all inputs: the decision procedure for
    one result-list reference — accepted iff exactly one column of the tables in
    scope (restricted to the qualifier, if any) has the name; "does not exist" /
    "ambiguous" otherwise; never a panic (C10_ref_decision_partial). *)
From Verif Require Import Model.Compile Spec.PgScope Judge.JQ Judge.J02 Proofs.ColumnsFacts Proofs.CompileFacts2 Proofs.ScopeRefine Proofs.ScopeRefineT Proofs.SelectRefine.
Open Scope string_scope.
Open Scope list_scope.

Definition C10_full_statement : Prop :=
  forall e raw src,
    wf_raw raw = true -> c02_class_e e raw = 0%N ->
    (names_verdict (env_cat e) raw = 0%N -> exists r, parse_query e raw src false = Ok r \/ True) /\
    (names_verdict (env_cat e) raw <> 0%N -> names_verdict (env_cat e) raw <> 9%N ->
     exists m, parse_query e raw src false = Err m).

Theorem C10_ref_decision_partial : forall res tables ref alias name,
  ref_name_alias ref = Some (alias, name) ->
  match output_column_refs res tables ref with
  | Ok cols => List.length (ref_candidates tables alias name) = 1%nat /\ List.length cols = 1%nat
  | Err _ => List.length (ref_candidates tables alias name) <> 1%nat
  | Panic _ => False
  end.
Proof. exact column_ref_decision. Qed.
Print Assumptions C10_ref_decision_partial.

(** On the composed model.  Accepting direction: a query parse_query accepts
    passed every stage; in particular every relation of its from-list exists
    (as a CTE of the statement or a table of the catalog) and every plain column
    reference of its result / RETURNING list has exactly one candidate among the
    columns in scope. *)
Theorem C10_accepted_passed_every_stage : forall e raw src positional q,
  parse_query e raw src positional = Ok (Some q) ->
  let raw2 := fst (fst (named_parameters (env_engine e) raw)) in
  let names := snd (fst (named_parameters (env_engine e) raw)) in
  let stmt2 := kid "Stmt" raw2 in
  exists raw_sql refs0 qc ex expanded,
    walk_ok raw = true /\ param_style_ok raw = true /\ param_ref_gap raw = None /\
    supported_stmt (kind_of (kid "Stmt" raw)) = true /\
    pluck src (int_of "StmtLocation" raw) (int_of "StmtLen" raw) = Ok raw_sql /\
    meta_parse (trim_space raw_sql) (comment_syntax_of (env_engine e)) = Ok (Compile.q_name q, q_cmd q) /\
    cmd_ok (kid "Stmt" raw) (q_cmd q) = true /\
    find_parameters stmt2 = Ok refs0 /\
    resolve_catalog_refs e (search (is_kind "RangeVar") stmt2)
      (if positional then positional_refs refs0 else sort_refs (unique_refs [] refs0)) names = Ok (q_params q) /\
    build_query_catalog (fuel_of raw) e stmt2 = Ok qc /\
    output_columns (fuel_of raw) e qc stmt2 = Ok (q_columns q) /\
    expand (fuel_of raw) e qc raw2 = Ok ex /\
    strip_comments expanded = Ok (q_sql q, q_comments q).
Proof. exact parse_query_inv. Qed.
Print Assumptions C10_accepted_passed_every_stage.

Theorem C10_accepted_targets_resolve_partial : forall e raw src positional q,
  parse_query e raw src positional = Ok (Some q) ->
  let stmt2 := kid "Stmt" (fst (fst (named_parameters (env_engine e) raw))) in
  exists qc tables, build_query_catalog (fuel_of raw) e stmt2 = Ok qc /\
    source_tables (node_size raw) e qc stmt2 = Ok tables /\
    forall targets res alias name,
      stmt_targets stmt2 = Some targets -> In res (items targets) ->
      is_kind "ResTarget" res = true -> kind_of (kid "Val" res) = "ColumnRef" ->
      has_star_ref (kid "Val" res) = false ->
      ref_name_alias (kid "Val" res) = Some (alias, name) ->
      List.length (ref_candidates tables alias name) = 1%nat.
Proof. exact accepted_query_targets_resolve. Qed.
Print Assumptions C10_accepted_targets_resolve_partial.

Theorem C10_accepted_relations_exist_partial : forall f e ctes n tables,
  source_tables f e ctes n = Ok tables ->
  exists its, source_items n = Some its /\
    forall it, In it its -> is_kind "RangeSubselect" it = false -> is_kind "RangeVar" it = true ->
      exists t, qc_get_table e ctes (table_of_rangevar it) = Ok t.
Proof. exact accepted_relations_exist. Qed.
Print Assumptions C10_accepted_relations_exist_partial.

Theorem C10_relation_resolves_iff : forall e ctes rel,
  (exists t, qc_get_table e ctes rel = Ok t) <->
  ((tn_schema rel = "" /\ assoc ctes (tn_name rel) <> None) \/ cat_get_table (env_cat e) rel <> None).
Proof. exact relation_resolves_iff. Qed.
Print Assumptions C10_relation_resolves_iff.

(** Rejecting direction: a plain result reference that no column, or more than
    one column, in scope answers to makes outputColumns - hence the query - fail. *)
Theorem C10_unresolved_target_rejected_partial : forall f e ctes n tables targets res alias name,
  source_tables f e ctes n = Ok tables ->
  stmt_targets n = Some targets -> In res (items targets) ->
  is_kind "ResTarget" res = true -> kind_of (kid "Val" res) = "ColumnRef" ->
  has_star_ref (kid "Val" res) = false ->
  ref_name_alias (kid "Val" res) = Some (alias, name) ->
  List.length (ref_candidates tables alias name) <> 1%nat ->
  forall cols, output_columns (S f) e ctes n <> Ok cols.
Proof. exact unresolved_target_rejects. Qed.
Print Assumptions C10_unresolved_target_rejected_partial.

(** For a simple SELECT sqlc accepts exactly the statements the reference
    semantics accepts (every relation exists; every column reference the mode
    looks at resolves to exactly one column).
    The statements covered ("simple SELECT"): SELECT <targets> FROM <base
    tables, each with or without alias, separated by commas or combined by JOIN> [WHERE / GROUP BY / HAVING / ORDER BY]
    with no WITH clause and no sub-select; every target a star (bare or qualified by a
    relation name), a column reference (c or t.c, with or without AS) or an expression
    that is not a column reference, CASE, COALESCE, sub-select or cast
    ([target_ok]).  [strict] / [deep] select how much the reference semantics
    checks: strict = every column reference of every clause must resolve
    (PostgreSQL) - the theorem then needs clauses without column references -,
    non-strict = only what property C10 lists (columns paired with a parameter:
    none here); deep = references inside result expressions must resolve - the
    theorem then needs result expressions without inner references -, non-deep =
    only targets that ARE references.  The hypotheses on [from_items],
    [level_refs], [level_subselects] state these shape facts about the AST. *)
Theorem C10_simple_select_decision_partial : forall (e : env) (strict deep : bool) (stmt : node) (targets rvs fitems : list node) (leavess : list (list node)) (f : nat),
  kind_of stmt = "SelectStmt" -> kid "WithClause" stmt = Nil ->
  kid "TargetList" stmt = NList targets -> targets <> [] ->
  kid "FromClause" stmt = NList fitems -> Forall2 (join_tree (S f)) fitems leavess -> rvs = List.concat leavess ->
  from_items (kid "FromClause" stmt) = rvs ->
  (if strict then level_refs (NList [kid "FromClause" stmt; kid "WhereClause" stmt; kid "GroupClause" stmt;
                                     kid "HavingClause" stmt; kid "SortClause" stmt])
   else paired_refs (NList [kid "FromClause" stmt; kid "WhereClause" stmt; kid "GroupClause" stmt;
                            kid "HavingClause" stmt; kid "SortClause" stmt])) = [] ->
  level_subselects (NList ([kid "FromClause" stmt; kid "WhereClause" stmt; kid "GroupClause" stmt;
                            kid "HavingClause" stmt; kid "SortClause" stmt] ++ map (kid "Val") targets ++ [])) = [] ->
  (if deep then level_refs (NList (map (kid "Val") targets)) else direct_refs targets) = refs_of targets ->
  NoDup (map visible_name rvs) ->
  (forall sc, spec_scope (env_cat e) rvs = POk sc ->
     Forall (fun it => NoDup (map sc_name (si_cols it))) sc /\ Forall (target_ok sc) targets) ->
  forall g,
  (exists row, describe (env_cat e) strict deep (S (S f)) [] [] stmt = POk row)
  <-> (exists cols, output_columns (S g) e [] stmt = Ok cols).
Proof. exact simple_select_decision. Qed.
Print Assumptions C10_simple_select_decision_partial.
