(** Property C10 — Unresolvable or ambiguous names are rejected; resolvable ones accepted.

    Full statement: C10_full_statement (decided per case by judge_c10 against
    Spec/PgScope.pg_names_ok).  Proved for all inputs: the decision procedure for
    one result-list reference — accepted iff exactly one column of the tables in
    scope (restricted to the qualifier, if any) has the name; "does not exist" /
    "ambiguous" otherwise; never a panic (C10_ref_decision_partial). *)
From Verif Require Import Model.Compile Spec.PgScope Judge.JQ Judge.J02 Proofs.ColumnsFacts.
Open Scope string_scope.
Open Scope list_scope.

Definition C10_full_statement : Prop :=
  forall e raw src,
    wf_raw raw = true -> c02_class_e e raw = 0%N ->
    (names_verdict (env_cat e) raw = 0%N -> exists r, parse_query e raw src false = Ok r \/ True) /\
    (names_verdict (env_cat e) raw <> 0%N -> names_verdict (env_cat e) raw <> 9%N ->
     exists m, parse_query e raw src false = Err m).

Theorem C10_ref_decision_partial : forall res tables ref alias name,
  ref_name_alias ref = Some (alias, name) ->
  match output_column_refs res tables ref with
  | Ok cols => List.length (ref_candidates tables alias name) = 1%nat /\ List.length cols = 1%nat
  | Err _ => List.length (ref_candidates tables alias name) <> 1%nat
  | Panic _ => False
  end.
Proof. exact column_ref_decision. Qed.
Print Assumptions C10_ref_decision_partial.
