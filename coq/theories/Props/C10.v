From Verif Require Import Model.Compile Spec.PgScope Judge.J02.
Theorem C10_placeholder : True. Proof. exact I. Qed.
Print Assumptions C10_placeholder.
