(** the Go type of a column whose type is an enum is the type buildEnums declares *)
From Scratch Require Import GoEnums.
Open Scope string_scope.
Open Scope list_scope.

Lemma enum_go_name_is_decl rn c sname n :
  enum_go_name_r rn c sname n = struct_name_rn rn (enum_db_name c sname n).
Proof. unfold enum_go_name_r, enum_db_name. destruct (String.eqb sname (cat_default c)); reflexivity. Qed.

Lemma scan_types_declared rn c sname rs rnm nn : forall ts t,
  pg_scan_types_r rn c sname rs rnm nn ts = Some t ->
  In t (map ge_name (flat_map (build_enum rn c sname) ts)) \/ t = (if nn then "string" else "sql.NullString").
Proof.
  induction ts as [|[n v cm|n cm] ts IH]; intros t H; cbn [pg_scan_types_r] in H; [discriminate| |].
  - cbn [flat_map build_enum app map ge_name].
    destruct (String.eqb rnm n && String.eqb rs sname).
    + injection H as <-. left. left. symmetry. apply enum_go_name_is_decl.
    + destruct (IH t H) as [Hin|Hc]; [left; right; exact Hin | right; exact Hc].
  - cbn [flat_map build_enum app].
    destruct (String.eqb rnm n && String.eqb rs sname).
    + injection H as <-. right. reflexivity.
    + exact (IH t H).
Qed.

(** every reference to a user-defined type is either the name of a declared enum
    type or the string representation of a composite type - under every rename map *)
Theorem enum_reference_declared rn c rs rnm nn : forall ss t,
  pg_scan_schemas_r rn c rs rnm nn ss = Some t ->
  In t (map ge_name (enums_of rn c ss)) \/ t = (if nn then "string" else "sql.NullString").
Proof.
  induction ss as [|s ss IH]; intros t H; cbn [pg_scan_schemas_r] in H; [discriminate|].
  unfold enums_of. cbn [flat_map]. fold (enums_of rn c ss).
  destruct (String.eqb (sch_name s) "pg_catalog").
  - cbn [app]. exact (IH t H).
  - rewrite map_app.
    destruct (pg_scan_types_r rn c (sch_name s) rs rnm nn (sch_types s)) as [t'|] eqn:Hs.
    + injection H as <-. destruct (scan_types_declared _ _ _ _ _ _ _ _ Hs) as [Hin|Hc]; [left; apply in_or_app; left; exact Hin | right; exact Hc].
    + destruct (IH t H) as [Hin|Hc]; [left; apply in_or_app; right; exact Hin | right; exact Hc].
Qed.

Lemma ins_enum_in x y l : In y (ins_enum x l) <-> y = x \/ In y l.
Proof.
  induction l as [|z l IH]; cbn [ins_enum In]; [intuition congruence|].
  destruct (String.leb (ge_name x) (ge_name z)); cbn [In]; [intuition congruence|].
  rewrite IH. intuition congruence.
Qed.

Lemma build_enums_in rn c g : In g (build_enums rn c) <-> In g (enums_of rn c (cat_schemas c)).
Proof.
  unfold build_enums. induction (enums_of rn c (cat_schemas c)) as [|x l IH]; cbn [fold_right In]; [tauto|].
  rewrite ins_enum_in, IH. intuition congruence.
Qed.

Theorem go_type_of_enum_column_declared rn c dt nn arr :
  lookup_entry pg_type_table dt = None ->
  postgres_type_r rn c dt nn arr = "interface{}"
  \/ In (postgres_type_r rn c dt nn arr) (map ge_name (build_enums rn c))
  \/ postgres_type_r rn c dt nn arr = (if nn || arr then "string" else "sql.NullString").
Proof.
  intro Hl. unfold postgres_type_r. rewrite Hl. unfold pg_default_r.
  destruct (match split_on "." dt with [n] => Some ("", n) | [s; n] => Some (s, n) | [_; s; n] => Some (s, n) | _ => None end) as [[s n]|];
    [|left; reflexivity].
  destruct (pg_scan_schemas_r rn c (if String.eqb s "" then cat_default c else s) n (nn || arr) (cat_schemas c)) as [t|] eqn:Hs;
    [|left; reflexivity].
  destruct (enum_reference_declared _ _ _ _ _ _ _ Hs) as [Hin|Hc]; [|right; right; exact Hc].
  right. left. apply in_map_iff in Hin. destruct Hin as [g [Hg Hin]]. apply in_map_iff. exists g. split; [exact Hg|].
  apply build_enums_in. exact Hin.
Qed.

(** a rename that hits the declaration hits the reference (and vice versa): both are
    [struct_name_rn] of the same key *)
Example rename_hits_both :
  let c := mkCat "public" [mkSch "public" [] [] ""; mkSch "support" [] [Enum "status" ["new"; "done"] ""] ""] in
  let rn := [("support_status", "TicketState")] in
  map ge_name (build_enums rn c) = ["TicketState"]
  /\ postgres_type_r rn c "support.status" true false = "TicketState"
  /\ map ge_consts (build_enums rn c) = [[("SupportStatusNew", "new"); ("SupportStatusDone", "done")]].
Proof. vm_compute. repeat split; reflexivity. Qed.
