package main

import (
	"fmt"
	"strings"

	"github.com/kyleconroy/sqlc/internal/codegen/golang"
	"github.com/kyleconroy/sqlc/internal/compiler"
	"github.com/kyleconroy/sqlc/internal/config"
	"github.com/kyleconroy/sqlc/internal/sql/ast"
	"github.com/kyleconroy/sqlc/internal/sql/catalog"
)

func init() {
	ops["gotypes"] = opGoTypes
}

// gotypes: tabulates goType by execution, without any SQL parser:
// {"engine":…, "types":[{"schema":…, "name":…, "kind":"enum"|"composite"}],
//  "cols":[{"dt":…, "notnull":bool, "array":bool, "len": int|-1}]}
// -> {"model":[go types], "result":[…], "param":[…]}
func opGoTypes(j Job) Res {
	eng := config.Engine(str(j, "engine"))
	cat := catalog.New("public")
	cat.Schemas = append(cat.Schemas, &catalog.Schema{Name: "pg_catalog"})
	getSchema := func(name string) *catalog.Schema {
		for _, s := range cat.Schemas {
			if s.Name == name {
				return s
			}
		}
		s := &catalog.Schema{Name: name}
		cat.Schemas = append(cat.Schemas, s)
		return s
	}
	if ts, ok := j["types"].([]interface{}); ok {
		for _, t := range ts {
			m := t.(map[string]interface{})
			s := getSchema(m["schema"].(string))
			if m["kind"] == "enum" {
				s.Types = append(s.Types, &catalog.Enum{Name: m["name"].(string), Vals: []string{"a"}})
			} else {
				s.Types = append(s.Types, &catalog.CompositeType{Name: m["name"].(string)})
			}
		}
	}
	rel := &ast.TableName{Name: "t"}
	tbl := &catalog.Table{Rel: rel}
	q := &compiler.Query{Name: "Q", Cmd: ":many", SQL: "SELECT 1", Filename: "q.sql"}
	cols, _ := j["cols"].([]interface{})
	for i, c := range cols {
		m := c.(map[string]interface{})
		dt := m["dt"].(string)
		nn, _ := m["notnull"].(bool)
		arr, _ := m["array"].(bool)
		var length *int
		if l, ok := m["len"].(float64); ok && l >= 0 {
			li := int(l)
			length = &li
		}
		name := fmt.Sprintf("c%d", i)
		col := &catalog.Column{Name: name, Type: ast.TypeName{Name: dt}, IsNotNull: nn, IsArray: arr, Length: length}
		tbl.Columns = append(tbl.Columns, col)
		mk := func() *compiler.Column {
			return &compiler.Column{Name: name, DataType: dt, NotNull: nn, IsArray: arr, Length: length}
		}
		q.Columns = append(q.Columns, mk())
		q.Params = append(q.Params, compiler.Parameter{Number: i + 1, Column: mk()})
	}
	cat.Schemas[0].Tables = append(cat.Schemas[0].Tables, tbl)
	if len(cols) == 1 {
		// keep struct emission: a single column/param is emitted bare
		q.Columns = append(q.Columns, &compiler.Column{Name: "pad", DataType: "text", NotNull: true})
		q.Params = append(q.Params, compiler.Parameter{Number: 2, Column: &compiler.Column{Name: "pad", DataType: "text", NotNull: true}})
	}
	r := &compiler.Result{Catalog: cat, Queries: []*compiler.Query{q}}
	settings := config.CombinedSettings{
		Package: config.SQL{Engine: eng},
		Go:      config.SQLGo{Package: "db", Out: "db"},
	}
	files, err := golang.Generate(r, settings)
	if err != nil {
		return Res{"err": err.Error()}
	}
	sum := summarize(files)
	res := Res{}
	pick := func(file, structName string) []string {
		out := []string{}
		fm, _ := sum[file].(map[string]interface{})
		if fm == nil {
			return out
		}
		for _, st := range fm["structs"].([]map[string]interface{}) {
			if st["name"] == structName {
				for _, f := range st["fields"].([]fieldT) {
					out = append(out, f.Type)
				}
			}
		}
		return out
	}
	n := len(cols)
	trim := func(x []string) []string {
		if len(x) > n {
			return x[:n]
		}
		return x
	}
	res["model"] = trim(pick("models.go", "T"))
	res["result"] = trim(pick("q.sql.go", "QRow"))
	res["param"] = trim(pick("q.sql.go", "QParams"))
	return res
}

func init() {
	ops["config"] = opConfig
}

// config: {"text": s} -> {"packages":[{"overrides":[…], "rename":{…}}]} | {"err":…}
func opConfig(j Job) Res {
	conf, err := config.ParseConfig(strings.NewReader(str(j, "text")))
	if err != nil {
		return Res{"err": err.Error()}
	}
	pkgs := []interface{}{}
	for _, s := range conf.SQL {
		cs := config.Combine(conf, s)
		ovs := []interface{}{}
		for _, o := range cs.Overrides {
			ovs = append(ovs, map[string]interface{}{
				"go_type_name": o.GoTypeName, "column": o.Column, "column_name": o.ColumnName,
				"catalog": o.Table.Catalog, "schema": o.Table.Schema, "rel": o.Table.Rel,
				"db_type": o.DBType, "nullable": o.Nullable, "import": o.GoImportPath, "package": o.GoPackage, "basic": o.GoBasicType,
			})
		}
		pkgs = append(pkgs, map[string]interface{}{"overrides": ovs, "rename": cs.Rename, "engine": string(s.Engine)})
	}
	return Res{"packages": pkgs}
}
