module github.com/kyleconroy/sqlc/verifharness

go 1.15

require github.com/kyleconroy/sqlc v0.0.0

replace github.com/kyleconroy/sqlc => /repo
