// verifharness drives the real sqlc code (from /repo's working tree, through a
// replace directive) on job files written by the checks in /verif/checks.
//
// usage: verifharness <jobs.jsonl> <results.jsonl> [workers]
//
// Every job is one JSON object with an "op" field; every result is one JSON
// object carrying the job's "id".  Each job runs under recover(): a Go panic in
// sqlc becomes {"panic": "..."} in the result.
package main

import (
	"bufio"
	"encoding/json"
	"fmt"
	"os"
	"runtime/debug"
	"strconv"
	"sync"
)

type Job map[string]interface{}
type Res map[string]interface{}

var ops = map[string]func(Job) Res{}

func runJob(j Job) (r Res) {
	defer func() {
		if e := recover(); e != nil {
			r = Res{"panic": fmt.Sprint(e), "stack": string(debug.Stack())}
		}
		r["id"] = j["id"]
	}()
	op, _ := j["op"].(string)
	f, ok := ops[op]
	if !ok {
		return Res{"harness_error": "unknown op " + op}
	}
	return f(j)
}

func main() {
	if len(os.Args) < 3 {
		fmt.Fprintln(os.Stderr, "usage: verifharness jobs.jsonl results.jsonl [workers]")
		os.Exit(2)
	}
	workers := 8
	if len(os.Args) > 3 {
		workers, _ = strconv.Atoi(os.Args[3])
	}
	in, err := os.Open(os.Args[1])
	if err != nil {
		fmt.Fprintln(os.Stderr, err)
		os.Exit(2)
	}
	defer in.Close()
	var jobs []Job
	sc := bufio.NewScanner(in)
	sc.Buffer(make([]byte, 1<<20), 1<<28)
	for sc.Scan() {
		if len(sc.Bytes()) == 0 {
			continue
		}
		var j Job
		if err := json.Unmarshal(sc.Bytes(), &j); err != nil {
			fmt.Fprintln(os.Stderr, "bad job:", err)
			os.Exit(2)
		}
		jobs = append(jobs, j)
	}
	if err := sc.Err(); err != nil {
		fmt.Fprintln(os.Stderr, err)
		os.Exit(2)
	}
	results := make([]Res, len(jobs))
	var wg sync.WaitGroup
	ch := make(chan int)
	for w := 0; w < workers; w++ {
		wg.Add(1)
		go func() {
			defer wg.Done()
			for i := range ch {
				results[i] = runJob(jobs[i])
			}
		}()
	}
	for i := range jobs {
		ch <- i
	}
	close(ch)
	wg.Wait()
	out, err := os.Create(os.Args[2])
	if err != nil {
		fmt.Fprintln(os.Stderr, err)
		os.Exit(2)
	}
	w := bufio.NewWriter(out)
	enc := json.NewEncoder(w)
	enc.SetEscapeHTML(false)
	for _, r := range results {
		if err := enc.Encode(r); err != nil {
			fmt.Fprintln(os.Stderr, err)
			os.Exit(2)
		}
	}
	w.Flush()
	out.Close()
}

func str(j Job, k string) string {
	s, _ := j[k].(string)
	return s
}

func strs(j Job, k string) []string {
	a, _ := j[k].([]interface{})
	var out []string
	for _, x := range a {
		s, _ := x.(string)
		out = append(out, s)
	}
	return out
}

func num(j Job, k string) int {
	f, _ := j[k].(float64)
	return int(f)
}
