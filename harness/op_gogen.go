package main

import (
	"bytes"
	"io/ioutil"
	"path/filepath"
	"os"
	"sort"

	"github.com/kyleconroy/sqlc/internal/codegen/golang"
	"github.com/kyleconroy/sqlc/internal/compiler"
	"github.com/kyleconroy/sqlc/internal/config"
	"github.com/kyleconroy/sqlc/internal/opts"
)

func init() {
	ops["gogen"] = opGoGen
}

// gogen: {"files": {"sqlc.json":…, schema/query files…}}
//   runs, for the first Go package of the configuration, exactly what cmd.Generate runs
//   (ParseConfig, Combine, NewCompiler, ParseCatalog, ParseQueries, golang.Generate) and returns
//   next to the emitted files' summary the generator's intermediate values through the
//   verif-tagged hook golang.VerifGenerate: enums, structs, queries (Arg/Ret) and the
//   importer's answer for every emitted file.
func opGoGen(j Job) Res {
	dir, err := writeTree(j)
	if dir != "" {
		defer os.RemoveAll(dir)
	}
	if err != nil {
		return Res{"harness_error": err.Error()}
	}
	blob, err := ioutil.ReadFile(filepath.Join(dir, "sqlc.json"))
	if err != nil {
		return Res{"harness_error": err.Error()}
	}
	conf, err := config.ParseConfig(bytes.NewReader(blob))
	if err != nil {
		return Res{"ok": false, "stage": "config", "err": err.Error()}
	}
	for _, sql := range conf.SQL {
		if sql.Gen.Go == nil {
			continue
		}
		combo := config.Combine(conf, sql)
		joined := []string{}
		for _, s := range sql.Schema {
			joined = append(joined, filepath.Join(dir, s))
		}
		sql.Schema = joined
		joined = []string{}
		for _, q := range sql.Queries {
			joined = append(joined, filepath.Join(dir, q))
		}
		sql.Queries = joined
		c := compiler.NewCompiler(sql, combo)
		if err := c.ParseCatalog(sql.Schema); err != nil {
			return Res{"ok": false, "stage": "schema", "err": err.Error()}
		}
		if err := c.ParseQueries(sql.Queries, opts.Parser{}); err != nil {
			return Res{"ok": false, "stage": "queries", "err": err.Error()}
		}
		result := c.Result()
		files, gerr := golang.Generate(result, combo)
		if gerr != nil {
			return Res{"ok": false, "stage": "generate", "err": gerr.Error()}
		}
		d := golang.VerifGenerate(result, combo)
		res := Res{"ok": true}
		structs := []interface{}{}
		for _, s := range d.Structs {
			structs = append(structs, dumpGoStruct(&s))
		}
		res["structs"] = structs
		res["n_enums"] = len(d.Enums)
		enums := []interface{}{}
		for _, e := range d.Enums {
			cs := [][2]string{}
			for _, k := range e.Constants {
				cs = append(cs, [2]string{k.Name, k.Value})
			}
			enums = append(enums, map[string]interface{}{"name": e.Name, "consts": cs})
		}
		res["enums"] = enums
		qs := []interface{}{}
		for _, q := range d.Queries {
			qs = append(qs, map[string]interface{}{"cmd": q.Cmd, "method": q.MethodName, "source": q.SourceName, "has_ret": q.HasRetType,
				"ret": dumpGoValue(q.Ret), "arg": dumpGoValue(q.Arg)})
		}
		res["queries"] = qs
		ovs := []interface{}{}
		for _, o := range combo.Overrides {
			ovs = append(ovs, map[string]interface{}{"basic": o.GoBasicType, "type_name": o.GoTypeName, "import_path": o.GoImportPath, "package": o.GoPackage})
		}
		res["overrides"] = ovs
		res["settings"] = dumpSettings(combo)
		res["compiled"] = dumpCompiled(result)
		res["catalog"] = dumpCatalog(result.Catalog)
		res["default_schema"] = result.Catalog.DefaultSchema
		res["engine"] = string(sql.Engine)
		res["prepared"] = combo.Go.EmitPreparedQueries
		res["interface"] = combo.Go.EmitInterface
		imps := map[string]interface{}{}
		for f, groups := range d.Imports {
			gs := []interface{}{}
			for _, g := range groups {
				specs := [][2]string{}
				for _, s := range g {
					specs = append(specs, [2]string{s.ID, s.Path})
				}
				gs = append(gs, specs)
			}
			imps[f] = gs
		}
		res["imports"] = imps
		names := []string{}
		for n := range files {
			names = append(names, n)
		}
		sort.Strings(names)
		res["names"] = names
		res["summary"] = summarize(files)
		if w, _ := j["want_files"].(bool); w {
			res["out"] = files
		}
		return res
	}
	return Res{"ok": false, "stage": "config", "err": "no go package"}
}

func dumpGoStruct(s *golang.Struct) interface{} {
	if s == nil {
		return nil
	}
	fs := []interface{}{}
	for _, f := range s.Fields {
		fs = append(fs, map[string]interface{}{"name": f.Name, "type": f.Type, "tag": f.Tag()})
	}
	return map[string]interface{}{"name": s.Name, "fields": fs, "table_schema": s.Table.Schema, "table_rel": s.Table.Rel}
}

func dumpGoValue(v golang.VerifValue) interface{} {
	return map[string]interface{}{"empty": v.Empty, "emit": v.Emit, "is_struct": v.IsStruct, "name": v.Name, "type": v.Type, "typ": v.Typ, "struct": dumpGoStruct(v.Struct)}
}

// dumpSettings: what buildQueries / goType read from the combined settings
func dumpSettings(combo config.CombinedSettings) map[string]interface{} {
	ovs := []interface{}{}
	for _, o := range combo.Overrides {
		ovs = append(ovs, map[string]interface{}{"go_type_name": o.GoTypeName, "column": o.Column, "column_name": o.ColumnName,
			"table_catalog": o.Table.Catalog, "table_schema": o.Table.Schema, "table_rel": o.Table.Rel, "db_type": o.DBType, "nullable": o.Nullable})
	}
	ren := [][2]string{}
	for k, v := range combo.Rename {
		ren = append(ren, [2]string{k, v})
	}
	sort.Slice(ren, func(i, j int) bool { return ren[i][0] < ren[j][0] })
	return map[string]interface{}{"overrides": ovs, "rename": ren, "db_tags": combo.Go.EmitDBTags, "json_tags": combo.Go.EmitJSONTags,
		"json_style": combo.Go.JSONTagsCaseStyle, "exact_table_names": combo.Go.EmitExactTableNames}
}

func dumpCompiled(result *compiler.Result) []interface{} {
	qs := []interface{}{}
	for _, q := range result.Queries {
		cols := []interface{}{}
		for _, col := range q.Columns {
			cols = append(cols, dumpColumn(col))
		}
		params := []interface{}{}
		for _, p := range q.Params {
			params = append(params, map[string]interface{}{"number": p.Number, "column": dumpColumn(p.Column)})
		}
		comments := append([]string{}, q.Comments...)
		qs = append(qs, map[string]interface{}{"name": q.Name, "cmd": q.Cmd, "sql": q.SQL, "comments": comments, "columns": cols, "params": params, "filename": q.Filename})
	}
	return qs
}
