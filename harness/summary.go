package main

import (
	"bytes"
	"go/ast"
	"go/format"
	"go/parser"
	"go/token"
	"go/types"
	"sort"
	"strconv"
	"strings"
)

// summarize parses every emitted *.go file and returns a structural summary:
// only what the properties talk about, never whole files.
func summarize(files map[string]string) map[string]interface{} {
	out := map[string]interface{}{}
	// methods declared anywhere in the output, keyed "dir|Type.Method"
	pkgMethods := map[string]bool{}
	for name, src := range files {
		if !strings.HasSuffix(name, ".go") {
			continue
		}
		if f, err := parser.ParseFile(token.NewFileSet(), name, src, 0); err == nil {
			for _, d := range f.Decls {
				if fd, ok := d.(*ast.FuncDecl); ok && fd.Recv != nil && len(fd.Recv.List) > 0 {
					pkgMethods[dirOf(name)+"|"+strings.TrimPrefix(exprStr(fd.Recv.List[0].Type), "*")+"."+fd.Name.Name] = true
				}
			}
		}
	}
	for name, src := range files {
		if !strings.HasSuffix(name, ".go") {
			continue
		}
		out[name] = summarizeFile(name, src, pkgMethods)
	}
	return out
}

func dirOf(name string) string {
	if i := strings.LastIndex(name, "/"); i >= 0 {
		return name[:i]
	}
	return ""
}

func exprStr(e ast.Expr) string {
	if e == nil {
		return ""
	}
	return types.ExprString(e)
}

type fieldT struct {
	Name string `json:"name"`
	Type string `json:"type"`
	Tag  string `json:"tag"`
}

func fieldsOf(fl *ast.FieldList) []fieldT {
	out := []fieldT{}
	if fl == nil {
		return out
	}
	for _, f := range fl.List {
		tag := ""
		if f.Tag != nil {
			tag, _ = strconv.Unquote(f.Tag.Value)
		}
		if len(f.Names) == 0 {
			out = append(out, fieldT{"", exprStr(f.Type), tag})
		}
		for _, n := range f.Names {
			out = append(out, fieldT{n.Name, exprStr(f.Type), tag})
		}
	}
	return out
}

func summarizeFile(name, src string, pkgMethods map[string]bool) map[string]interface{} {
	res := map[string]interface{}{}
	fset := token.NewFileSet()
	f, err := parser.ParseFile(fset, name, src, parser.ParseComments)
	if err != nil {
		res["parse_error"] = err.Error()
		return res
	}
	fm, ferr := format.Source([]byte(src))
	res["gofmt_stable"] = ferr == nil && bytes.Equal(fm, []byte(src))
	res["package"] = f.Name.Name

	imports := [][2]string{}
	for _, im := range f.Imports {
		p, _ := strconv.Unquote(im.Path.Value)
		alias := ""
		if im.Name != nil {
			alias = im.Name.Name
		}
		imports = append(imports, [2]string{alias, p})
	}
	res["imports"] = imports
	importNames := map[string]bool{}
	inames := []string{}
	for _, im := range imports {
		n := im[0]
		if n == "" {
			parts := strings.Split(im[1], "/")
			n = parts[len(parts)-1]
			if len(parts) >= 2 && len(n) >= 2 && n[0] == 'v' && strings.Trim(n[1:], "0123456789") == "" {
				n = parts[len(parts)-2]
			}
			n = strings.TrimSuffix(strings.TrimPrefix(n, "go-"), "-go")
		}
		importNames[n] = true
		inames = append(inames, n)
	}
	res["import_names"] = inames

	// qualifiers used: X of X.Sel where X is an identifier not resolved in
	// the file (package names are not file-scope objects for go/parser).
	quals := map[string]bool{}
	ast.Inspect(f, func(n ast.Node) bool {
		if se, ok := n.(*ast.SelectorExpr); ok {
			if id, ok := se.X.(*ast.Ident); ok && (id.Obj == nil || importNames[id.Name]) {
				quals[id.Name] = true
			}
		}
		return true
	})
	ql := []string{}
	for q := range quals {
		ql = append(ql, q)
	}
	sort.Strings(ql)
	res["qualifiers"] = ql

	decls := [][2]string{} // kind, name  (methods as "method", "Recv.Name")
	structs := []map[string]interface{}{}
	named := []map[string]interface{}{}
	consts := []map[string]interface{}{}
	ifaces := []map[string]interface{}{}
	methods := []map[string]interface{}{}
	funcs := []map[string]interface{}{}

	for _, d := range f.Decls {
		switch d := d.(type) {
		case *ast.GenDecl:
			for _, sp := range d.Specs {
				switch sp := sp.(type) {
				case *ast.TypeSpec:
					decls = append(decls, [2]string{"type", sp.Name.Name})
					doc := ""
					if d.Doc != nil {
						doc = d.Doc.Text()
					}
					switch t := sp.Type.(type) {
					case *ast.StructType:
						fdocs := []string{}
						for _, fl := range t.Fields.List {
							c := ""
							if fl.Doc != nil {
								c = fl.Doc.Text()
							}
							for range fl.Names {
								fdocs = append(fdocs, c)
							}
						}
						structs = append(structs, map[string]interface{}{
							"name": sp.Name.Name, "fields": fieldsOf(t.Fields), "doc": doc, "field_docs": fdocs})
					case *ast.InterfaceType:
						ms := []map[string]interface{}{}
						for _, m := range t.Methods.List {
							ft, ok := m.Type.(*ast.FuncType)
							if !ok || len(m.Names) == 0 {
								continue
							}
							ms = append(ms, map[string]interface{}{
								"name": m.Names[0].Name, "params": fieldsOf(ft.Params), "results": fieldsOf(ft.Results)})
						}
						ifaces = append(ifaces, map[string]interface{}{"name": sp.Name.Name, "methods": ms})
					default:
						named = append(named, map[string]interface{}{"name": sp.Name.Name, "type": exprStr(sp.Type), "doc": doc})
					}
				case *ast.ValueSpec:
					kind := "var"
					if d.Tok == token.CONST {
						kind = "const"
					}
					for i, n := range sp.Names {
						decls = append(decls, [2]string{kind, n.Name})
						if kind == "const" {
							val := ""
							if i < len(sp.Values) {
								if bl, ok := sp.Values[i].(*ast.BasicLit); ok && bl.Kind == token.STRING {
									val, _ = strconv.Unquote(bl.Value)
								} else {
									val = exprStr(sp.Values[i])
								}
							}
							consts = append(consts, map[string]interface{}{"name": n.Name, "type": exprStr(sp.Type), "value": val})
						}
					}
				}
			}
		case *ast.FuncDecl:
			if d.Recv == nil {
				decls = append(decls, [2]string{"func", d.Name.Name})
				funcs = append(funcs, map[string]interface{}{"name": d.Name.Name,
					"params": fieldsOf(d.Type.Params), "results": fieldsOf(d.Type.Results)})
				continue
			}
			recv := exprStr(d.Recv.List[0].Type)
			recv = strings.TrimPrefix(recv, "*")
			decls = append(decls, [2]string{"method", recv + "." + d.Name.Name})
			mm := summarizeMethod(recv, d)
			mq := map[string]bool{}
			ast.Inspect(d, func(n ast.Node) bool {
				if se, ok := n.(*ast.SelectorExpr); ok {
					if id, ok := se.X.(*ast.Ident); ok && importNames[id.Name] {
						mq[id.Name] = true
					}
				}
				return true
			})
			mql := []string{}
			for k := range mq {
				mql = append(mql, k)
			}
			sort.Strings(mql)
			mm["quals"] = mql
			// package names that are really shadowed: a receiver/parameter name used as a
			// qualifier in the body, or a local used as a qualifier after its declaration
			shadowed := map[string]bool{}
			if d.Body != nil {
				scopeStart := map[string]token.Pos{}
				if d.Recv != nil {
					for _, n := range d.Recv.List[0].Names {
						scopeStart[n.Name] = d.Body.Pos()
					}
				}
				if d.Type.Params != nil {
					for _, f := range d.Type.Params.List {
						for _, n := range f.Names {
							scopeStart[n.Name] = d.Body.Pos()
						}
					}
				}
				for _, st := range d.Body.List {
					switch st := st.(type) {
					case *ast.DeclStmt:
						if gd, ok := st.Decl.(*ast.GenDecl); ok {
							for _, sp := range gd.Specs {
								if vs, ok := sp.(*ast.ValueSpec); ok {
									for _, n := range vs.Names {
										if _, seen := scopeStart[n.Name]; !seen {
											scopeStart[n.Name] = vs.End()
										}
									}
								}
							}
						}
					case *ast.AssignStmt:
						if st.Tok == token.DEFINE {
							for _, l := range st.Lhs {
								if id, ok := l.(*ast.Ident); ok {
									if _, seen := scopeStart[id.Name]; !seen {
										scopeStart[id.Name] = st.End()
									}
								}
							}
						}
					}
				}
				ast.Inspect(d.Body, func(n ast.Node) bool {
					if se, ok := n.(*ast.SelectorExpr); ok {
						if id, ok := se.X.(*ast.Ident); ok && importNames[id.Name] {
							if p, ok := scopeStart[id.Name]; ok && id.Pos() >= p {
								shadowed[id.Name] = true
							}
						}
					}
					return true
				})
			}
			sh := []string{}
			for k := range shadowed {
				sh = append(sh, k)
			}
			sort.Strings(sh)
			mm["shadowed"] = sh
			// a variable declared in a nested block that hides a variable of the function
			// and is then used, in that block, where the OUTER variable is meant:
			// as the slice of append(x, ...) or as the receiver of a method call x.M(...)
			inner := map[string]bool{}
			if d.Body != nil {
				outer := map[string]bool{}
				if d.Type.Params != nil {
					for _, f := range d.Type.Params.List {
						for _, n := range f.Names {
							outer[n.Name] = true
						}
					}
				}
				for _, st := range d.Body.List {
					switch st := st.(type) {
					case *ast.DeclStmt:
						if gd, ok := st.Decl.(*ast.GenDecl); ok {
							for _, sp := range gd.Specs {
								if vs, ok := sp.(*ast.ValueSpec); ok {
									for _, n := range vs.Names {
										outer[n.Name] = true
									}
								}
							}
						}
					case *ast.AssignStmt:
						if st.Tok == token.DEFINE {
							for _, l := range st.Lhs {
								if id, ok := l.(*ast.Ident); ok {
									outer[id.Name] = true
								}
							}
						}
					}
				}
				ast.Inspect(d.Body, func(n ast.Node) bool {
					blk, ok := n.(*ast.BlockStmt)
					if !ok || blk == d.Body {
						return true
					}
					declared := map[string]token.Pos{}
					declType := map[string]string{}
					for _, st := range blk.List {
						if ds, ok := st.(*ast.DeclStmt); ok {
							if gd, ok := ds.Decl.(*ast.GenDecl); ok {
								for _, sp := range gd.Specs {
									if vs, ok := sp.(*ast.ValueSpec); ok {
										for _, nm := range vs.Names {
											if outer[nm.Name] {
												declared[nm.Name] = vs.End()
												declType[nm.Name] = exprStr(vs.Type)
											}
										}
									}
								}
							}
						}
					}
					if len(declared) == 0 {
						return true
					}
					ast.Inspect(blk, func(m ast.Node) bool {
						ce, ok := m.(*ast.CallExpr)
						if !ok {
							return true
						}
						if fid, ok := ce.Fun.(*ast.Ident); ok && fid.Name == "append" && len(ce.Args) > 0 {
							if a0, ok := ce.Args[0].(*ast.Ident); ok {
								if p, ok := declared[a0.Name]; ok && a0.Pos() >= p {
									inner[a0.Name] = true
								}
							}
						}
						if se, ok := ce.Fun.(*ast.SelectorExpr); ok {
							if x, ok := se.X.(*ast.Ident); ok {
								if p, ok := declared[x.Name]; ok && x.Pos() >= p && !typeHasMethod(pkgMethods, dirOf(name), declType[x.Name], se.Sel.Name) {
									inner[x.Name] = true
								}
							}
						}
						return true
					})
					return true
				})
			}
			il := []string{}
			for k := range inner {
				il = append(il, k)
			}
			sort.Strings(il)
			mm["inner_shadow"] = il
			methods = append(methods, mm)
		}
	}
	res["decls"] = decls
	res["structs"] = structs
	res["named"] = named
	res["consts"] = consts
	res["interfaces"] = ifaces
	res["methods"] = methods
	res["funcs"] = funcs
	return res
}

// typeHasMethod: does the (hiding) variable's own type have the method that is
// called on it?  Types of the package (the generated enums have Scan) and the
// database/sql, uuid and pq types that implement sql.Scanner.
func typeHasMethod(pkgMethods map[string]bool, dir, typ, method string) bool {
	if pkgMethods[dir+"|"+typ+"."+method] {
		return true
	}
	if method == "Scan" {
		for _, pre := range []string{"sql.Null", "uuid.UUID", "uuid.NullUUID", "pq.", "pgtype."} {
			if strings.HasPrefix(typ, pre) {
				return true
			}
		}
	}
	return false
}

var driverCalls = map[string]bool{
	"QueryRowContext": true, "QueryContext": true, "ExecContext": true,
	"queryRow": true, "query": true, "exec": true,
}

func summarizeMethod(recv string, d *ast.FuncDecl) map[string]interface{} {
	m := map[string]interface{}{
		"recv":    recv,
		"name":    d.Name.Name,
		"params":  fieldsOf(d.Type.Params),
		"results": fieldsOf(d.Type.Results),
	}
	doc := []string{}
	if d.Doc != nil {
		for _, c := range d.Doc.List {
			doc = append(doc, strings.TrimPrefix(c.Text, "//"))
		}
	}
	m["doc"] = doc
	if d.Recv != nil && len(d.Recv.List[0].Names) > 0 {
		m["recv_name"] = d.Recv.List[0].Names[0].Name
	}
	locals := []string{}   // top-level locals of the function block
	events := []string{}   // structural skeleton
	var callSel, callConst string
	callArgs := []string{}
	scanArgs := []string{}
	scanCount := 0
	var walkStmts func(list []ast.Stmt, top bool)
	noteCall := func(e ast.Expr) {
		ast.Inspect(e, func(n ast.Node) bool {
			ce, ok := n.(*ast.CallExpr)
			if !ok {
				return true
			}
			se, ok := ce.Fun.(*ast.SelectorExpr)
			if !ok {
				return true
			}
			switch {
			case driverCalls[se.Sel.Name] && len(ce.Args) >= 2:
				callSel = exprStr(ce.Fun)
				rest := ce.Args[1:]
				if se.Sel.Name == "queryRow" || se.Sel.Name == "query" || se.Sel.Name == "exec" {
					m["stmt_field"] = exprStr(rest[0])
					rest = rest[1:]
				}
				if len(rest) > 0 {
					callConst = exprStr(rest[0])
					for _, a := range rest[1:] {
						callArgs = append(callArgs, exprStr(a))
					}
				}
				events = append(events, "call:"+se.Sel.Name)
			case se.Sel.Name == "Scan":
				scanCount++
				scanArgs = scanArgs[:0]
				for _, a := range ce.Args {
					scanArgs = append(scanArgs, exprStr(a))
				}
				events = append(events, "scan:"+exprStr(se.X))
			case se.Sel.Name == "Close" || se.Sel.Name == "Err" || se.Sel.Name == "Next" || se.Sel.Name == "RowsAffected":
				events = append(events, strings.ToLower(se.Sel.Name)+":"+exprStr(se.X))
			}
			return true
		})
	}
	walkStmts = func(list []ast.Stmt, top bool) {
		for _, s := range list {
			switch s := s.(type) {
			case *ast.AssignStmt:
				if s.Tok == token.DEFINE && top {
					for _, l := range s.Lhs {
						if id, ok := l.(*ast.Ident); ok && id.Name != "_" {
							locals = append(locals, id.Name)
						}
					}
				}
				for _, r := range s.Rhs {
					noteCall(r)
				}
			case *ast.DeclStmt:
				if gd, ok := s.Decl.(*ast.GenDecl); ok {
					for _, sp := range gd.Specs {
						if vs, ok := sp.(*ast.ValueSpec); ok {
							for _, n := range vs.Names {
								if top {
									locals = append(locals, n.Name)
								}
								events = append(events, "var:"+n.Name+":"+exprStr(vs.Type))
							}
							for _, v := range vs.Values {
								noteCall(v)
							}
						}
					}
				}
			case *ast.IfStmt:
				events = append(events, "if{")
				if s.Init != nil {
					walkStmts([]ast.Stmt{s.Init}, false)
				}
				events = append(events, "cond:"+exprStr(s.Cond))
				walkStmts(s.Body.List, false)
				events = append(events, "}")
			case *ast.ForStmt:
				events = append(events, "for{")
				if s.Cond != nil {
					noteCall(s.Cond)
				}
				walkStmts(s.Body.List, false)
				events = append(events, "}")
			case *ast.DeferStmt:
				events = append(events, "defer:"+exprStr(s.Call.Fun))
			case *ast.ReturnStmt:
				rs := []string{}
				for _, r := range s.Results {
					noteCall(r)
					rs = append(rs, exprStr(r))
				}
				events = append(events, "return:"+strings.Join(rs, ","))
			case *ast.ExprStmt:
				noteCall(s.X)
			case *ast.BlockStmt:
				walkStmts(s.List, false)
			}
		}
	}
	if d.Body != nil {
		walkStmts(d.Body.List, true)
	}
	m["locals"] = locals
	m["events"] = events
	m["call"] = callSel
	m["call_const"] = callConst
	m["call_args"] = callArgs
	m["scan_args"] = append([]string{}, scanArgs...)
	m["scan_count"] = scanCount
	return m
}
