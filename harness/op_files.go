package main

import (
	"bytes"
	"fmt"
	"sync"
	"io/ioutil"
	"os"
	"path/filepath"
	"sort"
	"strings"

	"github.com/kyleconroy/sqlc/internal/cmd"
	"github.com/kyleconroy/sqlc/internal/metadata"
	"github.com/kyleconroy/sqlc/internal/migrations"
	"github.com/kyleconroy/sqlc/internal/sql/sqlpath"
)

func init() {
	ops["rollback"] = opRollback
	ops["glob"] = opGlob
	ops["generate"] = opGenerate
}

// rollback: {"text": s} -> {"out": RemoveRollbackStatements(s)}
func opRollback(j Job) Res {
	return Res{"out": migrations.RemoveRollbackStatements(str(j, "text"))}
}

// writeTree materialises {"files": {rel: content}, "dirs": [rel...]} under a
// fresh temporary directory and returns it.
func writeTree(j Job) (string, error) {
	dir, err := ioutil.TempDir("", "verifh")
	if err != nil {
		return "", err
	}
	if ds, ok := j["dirs"].([]interface{}); ok {
		for _, d := range ds {
			os.MkdirAll(filepath.Join(dir, d.(string)), 0755)
		}
	}
	if fs, ok := j["files"].(map[string]interface{}); ok {
		for rel, c := range fs {
			p := filepath.Join(dir, rel)
			os.MkdirAll(filepath.Dir(p), 0755)
			if err := ioutil.WriteFile(p, []byte(c.(string)), 0644); err != nil {
				return dir, err
			}
		}
	}
	return dir, nil
}

// glob: {"files":…, "dirs":…, "paths":[rel…]} -> {"out":[rel…]} | {"err":…}
func opGlob(j Job) Res {
	dir, err := writeTree(j)
	if dir != "" {
		defer os.RemoveAll(dir)
	}
	if err != nil {
		return Res{"harness_error": err.Error()}
	}
	var paths []string
	for _, p := range strs(j, "paths") {
		paths = append(paths, filepath.Join(dir, p))
	}
	got, err := sqlpath.Glob(paths)
	if err != nil {
		return Res{"err": strings.ReplaceAll(err.Error(), dir+"/", "")}
	}
	out := []string{}
	for _, g := range got {
		out = append(out, strings.TrimPrefix(g, dir+"/"))
	}
	return Res{"out": out}
}

// generate: {"files":…, "dirs":…, "experimental": bool, "summary": bool}
//   -> {"ok": bool, "stderr": s, "out": {rel: content}, "names":[sorted rel]}
func opGenerate(j Job) Res {
	dir, err := writeTree(j)
	if dir != "" {
		defer os.RemoveAll(dir)
	}
	if err != nil {
		return Res{"harness_error": err.Error()}
	}
	exp, _ := j["experimental"].(bool)
	var stderr bytes.Buffer
	// "config_dir": the configuration file is not at the top of the tree (query files may then lie outside its directory)
	run := dir
	if cd, _ := j["config_dir"].(string); cd != "" {
		run = filepath.Join(dir, cd)
	}
	out, gerr := cmd.Generate(cmd.Env{ExperimentalFeatures: exp}, run, "", &stderr)
	res := Res{"stderr": strings.ReplaceAll(stderr.String(), dir+"/", "")}
	if gerr != nil {
		res["ok"] = false
		res["err"] = gerr.Error()
		res["nil_out"] = out == nil
		return res
	}
	res["ok"] = true
	files := map[string]string{}
	names := []string{}
	for p, c := range out {
		rel := strings.TrimPrefix(p, dir+"/")
		files[rel] = c
		names = append(names, rel)
	}
	sort.Strings(names)
	res["names"] = names
	if nf, _ := j["nofiles"].(bool); !nf {
		res["out"] = files
	}
	if s, _ := j["summary"].(bool); s {
		res["summary"] = summarize(files)
	}
	return res
}

func init() {
	ops["meta"] = opMeta
}

// meta: {"text": s, "dash": bool, "hash": bool, "slashstar": bool} -> {"name","cmd"} | {"err"}
func opMeta(j Job) Res {
	d, _ := j["dash"].(bool)
	h, _ := j["hash"].(bool)
	s, _ := j["slashstar"].(bool)
	name, cmd, err := metadata.Parse(str(j, "text"), metadata.CommentSyntax{Dash: d, Hash: h, SlashStar: s})
	if err != nil {
		return Res{"err": err.Error()}
	}
	return Res{"name": name, "cmd": cmd}
}

func init() {
	ops["generate_concurrent"] = opGenerateConcurrent
}

// generate_concurrent: {"cases":[{"files":…}…]} — every case is generated in its own
// goroutine at the same time (one process: shared package-level state, race detector
// when the harness is built with -race); -> {"outs":[{ok, out, stderr}…]}
func opGenerateConcurrent(j Job) Res {
	cases, _ := j["cases"].([]interface{})
	outs := make([]interface{}, len(cases))
	var wg sync.WaitGroup
	start := make(chan struct{})
	for i, c := range cases {
		wg.Add(1)
		go func(i int, c map[string]interface{}) {
			defer wg.Done()
			defer func() {
				if e := recover(); e != nil {
					outs[i] = map[string]interface{}{"panic": fmt.Sprint(e)}
				}
			}()
			<-start
			r := opGenerate(Job(c))
			outs[i] = map[string]interface{}(r)
		}(i, c.(map[string]interface{}))
	}
	close(start)
	wg.Wait()
	return Res{"outs": outs}
}
