package main

import (
	"fmt"
	"io/ioutil"
	"os"
	"path/filepath"
	"reflect"
	"strings"

	"github.com/kyleconroy/sqlc/internal/compiler"
	"github.com/kyleconroy/sqlc/internal/config"
	"github.com/kyleconroy/sqlc/internal/engine/dolphin"
	"github.com/kyleconroy/sqlc/internal/engine/postgresql"
	"github.com/kyleconroy/sqlc/internal/multierr"
	"github.com/kyleconroy/sqlc/internal/opts"
	"github.com/kyleconroy/sqlc/internal/sql/ast"
)

func init() {
	ops["compile"] = opCompile
	ops["ast"] = opAst
}

var nodeType = reflect.TypeOf((*ast.Node)(nil)).Elem()

// dumpNode renders an ast.Node generically: kind, string attributes, integer
// attributes (bools as 0/1; zero values omitted), child nodes by field name.
func dumpNode(v interface{}) interface{} {
	if v == nil {
		return nil
	}
	rv := reflect.ValueOf(v)
	if rv.Kind() == reflect.Ptr {
		if rv.IsNil() {
			return nil
		}
		rv = rv.Elem()
	}
	if rv.Kind() != reflect.Struct {
		return map[string]interface{}{"k": "?" + rv.Kind().String()}
	}
	t := rv.Type()
	if t.Name() == "List" && t.PkgPath() == "github.com/kyleconroy/sqlc/internal/sql/ast" {
		items := []interface{}{}
		f := rv.FieldByName("Items")
		for i := 0; i < f.Len(); i++ {
			items = append(items, dumpNode(f.Index(i).Interface()))
		}
		return map[string]interface{}{"k": "List", "items": items}
	}
	s := map[string]interface{}{}
	in := map[string]interface{}{}
	c := map[string]interface{}{}
	for i := 0; i < t.NumField(); i++ {
		ft := t.Field(i)
		if ft.PkgPath != "" {
			continue
		}
		fv := rv.Field(i)
		switch fv.Kind() {
		case reflect.String:
			if fv.String() != "" {
				s[ft.Name] = fv.String()
			}
		case reflect.Bool:
			if fv.Bool() {
				in[ft.Name] = 1
			}
		case reflect.Int, reflect.Int8, reflect.Int16, reflect.Int32, reflect.Int64:
			if fv.Int() != 0 {
				in[ft.Name] = fv.Int()
			}
		case reflect.Uint, reflect.Uint8, reflect.Uint16, reflect.Uint32, reflect.Uint64:
			if fv.Uint() != 0 {
				in[ft.Name] = fv.Uint()
			}
		case reflect.Ptr:
			if fv.IsNil() {
				continue
			}
			switch fv.Elem().Kind() {
			case reflect.String:
				s[ft.Name] = fv.Elem().String()
			case reflect.Int, reflect.Int64, reflect.Int32:
				in[ft.Name] = fv.Elem().Int()
			case reflect.Bool:
				if fv.Elem().Bool() {
					in[ft.Name] = 1
				}
			case reflect.Struct:
				c[ft.Name] = dumpNode(fv.Interface())
			}
		case reflect.Interface:
			if fv.IsNil() {
				continue
			}
			c[ft.Name] = dumpNode(fv.Interface())
		case reflect.Slice:
			if fv.Len() == 0 {
				continue
			}
			items := []interface{}{}
			for k := 0; k < fv.Len(); k++ {
				e := fv.Index(k)
				if e.Kind() == reflect.Ptr || e.Kind() == reflect.Interface {
					items = append(items, dumpNode(e.Interface()))
				}
			}
			c[ft.Name] = map[string]interface{}{"k": "List", "items": items}
		case reflect.Struct:
			c[ft.Name] = dumpNode(fv.Addr().Interface())
		}
	}
	out := map[string]interface{}{"k": t.Name()}
	if len(s) > 0 {
		out["s"] = s
	}
	if len(in) > 0 {
		out["i"] = in
	}
	if len(c) > 0 {
		out["c"] = c
	}
	return out
}

func parserFor(engine string) compiler.Parser {
	if engine == "mysql" {
		return dolphin.NewParser()
	}
	return postgresql.NewParser()
}

// ast: {"engine":…, "sql": text} -> {"stmts":[dump of RawStmt…]} | {"err":…}
func opAst(j Job) Res {
	p := parserFor(str(j, "engine"))
	stmts, err := p.Parse(strings.NewReader(str(j, "sql")))
	if err != nil {
		return Res{"err": err.Error()}
	}
	out := []interface{}{}
	for _, s := range stmts {
		out = append(out, dumpNode(s.Raw))
	}
	return Res{"stmts": out}
}

func dumpColumn(c *compiler.Column) interface{} {
	if c == nil {
		return nil
	}
	m := map[string]interface{}{"name": c.Name, "datatype": c.DataType, "notnull": c.NotNull, "array": c.IsArray, "scope": c.Scope}
	if c.Table != nil {
		m["table"] = map[string]interface{}{"catalog": c.Table.Catalog, "schema": c.Table.Schema, "name": c.Table.Name}
	}
	if c.Length != nil {
		m["length"] = *c.Length
	}
	return m
}

// compile: {"engine":…, "schema": text, "queries": text, "positional": bool, "want_ast": bool}
//   -> {"ok": true, "queries":[…]} | {"ok": false, "stage": "schema"|"queries", "errs":[{line,col,msg}]}
func opCompile(j Job) (out Res) {
	dir, err := ioutil.TempDir("", "verifq")
	if err != nil {
		return Res{"harness_error": err.Error()}
	}
	defer os.RemoveAll(dir)
	sp := filepath.Join(dir, "schema.sql")
	qp := filepath.Join(dir, "query.sql")
	ioutil.WriteFile(sp, []byte(str(j, "schema")), 0644)
	ioutil.WriteFile(qp, []byte(str(j, "queries")), 0644)
	eng := config.Engine(str(j, "engine"))
	conf := config.SQL{Engine: eng, Schema: []string{sp}, Queries: []string{qp}}
	if qf, ok := j["query_files"].(map[string]interface{}); ok {
		// several query files: a directory handed to the compiler as one path (read in sqlpath.Glob order)
		qd := filepath.Join(dir, "queries")
		os.MkdirAll(qd, 0755)
		for name, text := range qf {
			t, _ := text.(string)
			ioutil.WriteFile(filepath.Join(qd, name), []byte(t), 0644)
		}
		conf.Queries = []string{qd}
	}
	res := Res{}
	if w, _ := j["want_ast"].(bool); w {
		stmts, perr := parserFor(str(j, "engine")).Parse(strings.NewReader(str(j, "queries")))
		if perr == nil {
			out := []interface{}{}
			for _, s := range stmts {
				out = append(out, dumpNode(s.Raw))
			}
			res["ast"] = out
		} else {
			res["ast_err"] = perr.Error()
		}
	}
	defer func() {
		// a Go panic inside the compiler is an outcome of its own (the AST and catalog dumps are kept)
		if e := recover(); e != nil {
			res["panic"] = fmt.Sprint(e)
			delete(res, "ok")
			out = res
		}
	}()
	c := compiler.NewCompiler(conf, config.CombinedSettings{})
	fail := func(stage string, err error) Res {
		errs := []interface{}{}
		if me, ok := err.(*multierr.Error); ok {
			for _, fe := range me.Errs() {
				errs = append(errs, map[string]interface{}{"file": filepath.Base(fe.Filename), "line": fe.Line, "col": fe.Column, "msg": fe.Err.Error()})
			}
		} else {
			errs = append(errs, map[string]interface{}{"msg": err.Error()})
		}
		res["ok"] = false
		res["stage"] = stage
		res["errs"] = errs
		return res
	}
	if err := c.ParseCatalog(conf.Schema); err != nil {
		return fail("schema", err)
	}
	if w, _ := j["want_catalog"].(bool); w {
		res["catalog"] = dumpCatalog(c.Catalog())
		fl := []interface{}{}
		want := map[string]bool{}
		for _, n := range strs(j, "funcs") {
			want[strings.ToLower(n)] = true
		}
		for _, s := range c.Catalog().Schemas {
			for _, f := range s.Funcs {
				if !want[strings.ToLower(f.Name)] {
					continue
				}
				args := []interface{}{}
				for _, a := range f.InArgs() {
					ts, tn := "", ""
					if a.Type != nil {
						ts, tn = a.Type.Schema, a.Type.Name
					}
					args = append(args, map[string]interface{}{"name": a.Name, "type_schema": ts, "type_name": tn,
						"default": a.HasDefault, "variadic": a.Mode == ast.FuncParamVariadic})
				}
				rs, rn := "", ""
				if f.ReturnType != nil {
					rs, rn = f.ReturnType.Schema, f.ReturnType.Name
				}
				fl = append(fl, map[string]interface{}{"schema": s.Name, "name": f.Name, "args": args, "ret_schema": rs, "ret_name": rn,
					"nargs_all": len(f.Args)})
			}
		}
		res["funcs"] = fl
	}
	pos, _ := j["positional"].(bool)
	if err := c.ParseQueries(conf.Queries, opts.Parser{UsePositionalParameters: pos}); err != nil {
		return fail("queries", err)
	}
	qs := []interface{}{}
	for _, q := range c.Result().Queries {
		cols := []interface{}{}
		for _, col := range q.Columns {
			cols = append(cols, dumpColumn(col))
		}
		params := []interface{}{}
		for _, p := range q.Params {
			params = append(params, map[string]interface{}{"number": p.Number, "column": dumpColumn(p.Column)})
		}
		comments := append([]string{}, q.Comments...)
		qm := map[string]interface{}{"name": q.Name, "cmd": q.Cmd, "sql": q.SQL, "comments": comments, "columns": cols, "params": params}
		if w, _ := j["want_sql_ast"].(bool); w {
			// the embedded SQL as a database would see it
			if st, perr := parserFor(str(j, "engine")).Parse(strings.NewReader(q.SQL)); perr == nil && len(st) == 1 {
				qm["sql_ast"] = dumpNode(st[0].Raw)
			} else if perr != nil {
				qm["sql_ast_err"] = perr.Error()
			}
		}
		qs = append(qs, qm)
	}
	res["ok"] = true
	res["queries"] = qs
	return res
}
