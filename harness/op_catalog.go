package main

import (
	"io/ioutil"
	"os"
	"path/filepath"

	"github.com/kyleconroy/sqlc/internal/compiler"
	"github.com/kyleconroy/sqlc/internal/config"
	"github.com/kyleconroy/sqlc/internal/multierr"
	"github.com/kyleconroy/sqlc/internal/sql/catalog"
)

func init() {
	ops["catalog"] = opCatalog
}

func dumpCatalog(c *catalog.Catalog) []interface{} {
	out := []interface{}{}
	for _, s := range c.Schemas {
		if s.Name == "pg_catalog" && len(s.Funcs) > 0 && len(s.Tables) == 0 && len(s.Types) == 0 {
			// the generated function catalog: keep the schema, drop the functions
		}
		tables := []interface{}{}
		for _, t := range s.Tables {
			cols := []interface{}{}
			for _, col := range t.Columns {
				cols = append(cols, map[string]interface{}{
					"name": col.Name, "type_schema": col.Type.Schema, "type_name": col.Type.Name,
					"notnull": col.IsNotNull, "array": col.IsArray, "comment": col.Comment,
				})
			}
			tables = append(tables, map[string]interface{}{"name": t.Rel.Name, "comment": t.Comment, "cols": cols})
		}
		types := []interface{}{}
		for _, ty := range s.Types {
			switch ty := ty.(type) {
			case *catalog.Enum:
				vals := append([]string{}, ty.Vals...)
				types = append(types, map[string]interface{}{"kind": "enum", "name": ty.Name, "vals": vals, "comment": ty.Comment})
			case *catalog.CompositeType:
				types = append(types, map[string]interface{}{"kind": "composite", "name": ty.Name, "comment": ty.Comment})
			}
		}
		out = append(out, map[string]interface{}{"name": s.Name, "comment": s.Comment, "tables": tables, "types": types})
	}
	return out
}

// catalog: {"engine": "postgresql"|"mysql", "schema": text} -> {"ok": bool, "catalog": …, "errs": [...]}
func opCatalog(j Job) Res {
	dir, err := ioutil.TempDir("", "verifc")
	if err != nil {
		return Res{"harness_error": err.Error()}
	}
	defer os.RemoveAll(dir)
	p := filepath.Join(dir, "schema.sql")
	if err := ioutil.WriteFile(p, []byte(str(j, "schema")), 0644); err != nil {
		return Res{"harness_error": err.Error()}
	}
	eng := config.Engine(str(j, "engine"))
	if eng == "" {
		eng = config.EnginePostgreSQL
	}
	conf := config.SQL{Engine: eng}
	c := compiler.NewCompiler(conf, config.CombinedSettings{})
	if err := c.ParseCatalog([]string{p}); err != nil {
		errs := []string{}
		if me, ok := err.(*multierr.Error); ok {
			for _, fe := range me.Errs() {
				errs = append(errs, fe.Err.Error())
			}
		} else {
			errs = append(errs, err.Error())
		}
		return Res{"ok": false, "errs": errs}
	}
	return Res{"ok": true, "catalog": dumpCatalog(c.Catalog())}
}
