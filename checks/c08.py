"""C08 — Catalog is the fold of the migration history (DDL semantics)."""
import json
import random
from common import *

PROP = "C08"
HEADER = ("From Verif Require Import Base.Str Base.Result Model.Catalog Spec.PgCatalog Judge.J08.\n"
          "Open Scope string_scope. Open Scope list_scope. Open Scope N_scope.\n")

SCHEMAS = ["public", "s1", "s2"]
RELS = ["t1", "t2", "t3", "e1"]
COLS = ["a", "b", "c", "d"]
TYPES = ["e1", "e2", "t1"]
LABELS = ["x", "y", "z", "w"]
# (type schema, type name as the engine reports it) -> SQL spelling
COLTYPES = [(("pg_catalog", "int4"), "int"), (("", "text"), "text"), (("pg_catalog", "bool"), "boolean"),
            (("", "e1"), "e1"), (("s1", "e1"), "s1.e1"), (("pg_catalog", "int8"), "bigint")]

KNOWN_CLASSES = {1: "alter_table_if_exists", 2: "add_column_if_not_exists", 3: "add_value_before_after",
                 4: "rename_if_exists", 5: "rename_onto_type_name", 6: "enum_duplicate_label"}


def q_sql(q):
    return (q[0] + "." if q[0] else "") + q[1]


def q_coq(q):
    return "(mkQ %s %s)" % (coqstr(q[0]), coqstr(q[1]))


def cd_coq(cd):
    name, ty, nn, arr = cd
    return "(mkCD %s %s %s %s)" % (coqstr(name), q_coq(ty[0]), coqbool(nn), coqbool(arr))


def ty_sql(ty, arr):
    return ty[1] + ("[]" if arr else "")


def lit(s):
    return "'" + s.replace("'", "''") + "'"


class Shadow:
    """Light shadow of the catalog so that most generated statements are valid."""

    def __init__(self):
        self.s = {"public": {"tables": {}, "types": {}}}

    def ns(self, q):
        return q[0] or "public"

    def tables(self):
        return [((s if s != "public" else ""), t) for s, v in self.s.items() for t in v["tables"]]

    def types(self):
        return [((s if s != "public" else ""), t) for s, v in self.s.items() for t in v["types"]]


def gen_history(rng, n):
    sh = Shadow()
    out = []  # (sql, coq)
    P = 0.97  # probability that a statement is aimed to be valid

    def pick_schema(existing=True):
        if existing and rng.random() < P and sh.s:
            return rng.choice(list(sh.s))
        if not existing and rng.random() < P:
            free = [x for x in SCHEMAS if x not in sh.s]
            if free:
                return rng.choice(free)
        return rng.choice(SCHEMAS)

    def qual(s):
        if s == "public":
            return rng.choice(["", "", "public"])
        return s

    def pick_table(existing=True):
        ts = sh.tables()
        if existing and ts and rng.random() < P:
            s, t = rng.choice(ts)
            return (qual(s or "public"), t)
        sc = pick_schema()
        if not existing and rng.random() < P and sc in sh.s:
            free = [x for x in RELS if x not in sh.s[sc]["tables"] and x not in sh.s[sc]["types"]]
            if free:
                return (qual(sc), rng.choice(free))
        return (qual(sc), rng.choice(RELS))

    def pick_type(existing=True):
        ts = sh.types()
        if existing and ts and rng.random() < P:
            s, t = rng.choice(ts)
            return (qual(s or "public"), t)
        sc = pick_schema()
        if not existing and rng.random() < P and sc in sh.s:
            free = [x for x in TYPES if x not in sh.s[sc]["tables"] and x not in sh.s[sc]["types"]]
            if free:
                return (qual(sc), rng.choice(free))
        return (qual(sc), rng.choice(TYPES))

    def pick_col(q, existing=True):
        cols = sh.s.get(sh.ns(q), {"tables": {}})["tables"].get(q[1])
        if existing and cols and rng.random() < P:
            return rng.choice(cols)
        if not existing and cols is not None and rng.random() < P:
            free = [x for x in COLS if x not in cols]
            if free:
                return rng.choice(free)
        return rng.choice(COLS)

    def coldef(name):
        ty = rng.choice(COLTYPES)
        return (name, ty, rng.random() < 0.4, rng.random() < 0.15)

    for _ in range(n):
        r = rng.random()
        ie = rng.random() < 0.25
        if rng.random() < P:
            if not sh.s:
                r = 0.0
            elif not sh.tables() and (0.32 <= r < 0.70 or (r >= 0.92 and rng.random() < 0.6)):
                r = 0.2
            elif not sh.types() and 0.78 <= r < 0.92:
                r = 0.75
        if r < 0.08:
            name = pick_schema(existing=rng.random() < 0.1)
            sql = "CREATE SCHEMA %s%s;" % ("IF NOT EXISTS " if ie else "", name)
            coq = "CreateSchema %s %s" % (coqbool(ie), coqstr(name))
            sh.s.setdefault(name, {"tables": {}, "types": {}})
        elif r < 0.12:
            names = [pick_schema() for _ in range(rng.choice([1, 1, 2]))]
            sql = "DROP SCHEMA %s%s CASCADE;" % ("IF EXISTS " if ie else "", ", ".join(names))
            coq = "DropSchema %s %s" % (coqbool(ie), coqlist([coqstr(x) for x in names]))
            for x in names:
                sh.s.pop(x, None)
        elif r < 0.32:
            q = pick_table(existing=rng.random() < 0.05)
            ncols = rng.randint(1, 4)
            names = rng.sample(COLS, ncols)
            if rng.random() < 0.02:
                names.append(rng.choice(names))
            cds = [coldef(x) for x in names]
            pk = []
            mode = rng.random()
            if mode < 0.25:
                pk = rng.sample(sorted(set(names)), rng.randint(1, min(2, len(set(names)))))
            parts = []
            used_pk_col = False
            for (nm, ty, nn, arr) in cds:
                cons = ""
                if nn:
                    if not pk and not used_pk_col and rng.random() < 0.3:
                        cons = " PRIMARY KEY"
                        used_pk_col = True
                    else:
                        cons = " NOT NULL"
                parts.append("%s %s%s" % (nm, ty_sql(ty, arr), cons))
            if pk:
                # a table-level key may stand anywhere among the column definitions, with or without a constraint name
                parts.insert(rng.randrange(len(parts) + 1) if rng.random() < 0.5 else len(parts),
                             "%sPRIMARY KEY (%s)" % (rng.choice(["", "", "CONSTRAINT pk_%d " % rng.randrange(1000)]), ", ".join(pk)))
            sql = "CREATE TABLE %s%s (%s);" % ("IF NOT EXISTS " if ie else "", q_sql(q), ", ".join(parts))
            coq = "CreateTable %s %s %s %s" % (coqbool(ie), q_coq(q), coqlist([cd_coq(c) for c in cds]),
                                               coqlist([coqstr(x) for x in pk]))
            if sh.ns(q) in sh.s and q[1] not in sh.s[sh.ns(q)]["tables"]:
                sh.s[sh.ns(q)]["tables"][q[1]] = list(names)
        elif r < 0.37:
            qs = [pick_table() for _ in range(rng.choice([1, 1, 2]))]
            sql = "DROP TABLE %s%s;" % ("IF EXISTS " if ie else "", ", ".join(q_sql(q) for q in qs))
            coq = "DropTable %s %s" % (coqbool(ie), coqlist([q_coq(q) for q in qs]))
            for q in qs:
                sh.s.get(sh.ns(q), {"tables": {}})["tables"].pop(q[1], None)
        elif r < 0.42:
            q = pick_table()
            new = rng.choice(RELS)
            d0 = sh.s.get(sh.ns(q))
            if d0 is not None and rng.random() < P:
                free = [x for x in RELS if x not in d0["tables"] and x not in d0["types"]]
                if free:
                    new = rng.choice(free)
            ie2 = rng.random() < 0.1
            sql = "ALTER TABLE %s%s RENAME TO %s;" % ("IF EXISTS " if ie2 else "", q_sql(q), new)
            coq = "RenameTable %s %s %s" % (coqbool(ie2), q_coq(q), coqstr(new))
            tabs = sh.s.get(sh.ns(q), {"tables": {}})["tables"]
            if q[1] in tabs and new not in tabs:
                tabs[new] = tabs.pop(q[1])
        elif r < 0.46:
            q = pick_table()
            new = pick_schema()
            ie2 = rng.random() < 0.1
            sql = "ALTER TABLE %s%s SET SCHEMA %s;" % ("IF EXISTS " if ie2 else "", q_sql(q), new)
            coq = "SetSchema %s %s %s" % (coqbool(ie2), q_coq(q), coqstr(new))
            tabs = sh.s.get(sh.ns(q), {"tables": {}})["tables"]
            if q[1] in tabs and new in sh.s and q[1] not in sh.s[new]["tables"]:
                sh.s[new]["tables"][q[1]] = tabs.pop(q[1])
        elif r < 0.66:
            q = pick_table()
            ie2 = rng.random() < 0.08
            cmds_sql, cmds_coq = [], []
            for _ in range(rng.choice([1, 1, 1, 2, 3])):
                k = rng.random()
                cols = sh.s.get(sh.ns(q), {"tables": {}})["tables"].get(q[1])
                if k < 0.35:
                    cd = coldef(pick_col(q, existing=rng.random() < 0.05))
                    ine = rng.random() < 0.12
                    cmds_sql.append("ADD COLUMN %s%s %s%s" % ("IF NOT EXISTS " if ine else "", cd[0], ty_sql(cd[1], cd[3]),
                                                                (" PRIMARY KEY" if rng.random() < 0.25 else " NOT NULL") if cd[2] else ""))
                    cmds_coq.append("AddColumn %s %s" % (coqbool(ine), cd_coq(cd)))
                    if cols is not None and cd[0] not in cols:
                        cols.append(cd[0])
                elif k < 0.55:
                    c = pick_col(q)
                    iec = rng.random() < 0.2
                    cmds_sql.append("DROP COLUMN %s%s" % ("IF EXISTS " if iec else "", c))
                    cmds_coq.append("DropColumn %s %s" % (coqbool(iec), coqstr(c)))
                    if cols is not None and c in cols:
                        cols.remove(c)
                elif k < 0.7:
                    c = pick_col(q)
                    ty = rng.choice(COLTYPES)
                    arr = rng.random() < 0.2
                    cmds_sql.append("ALTER COLUMN %s %s %s" % (c, rng.choice(["TYPE", "SET DATA TYPE"]), ty_sql(ty, arr)))
                    cmds_coq.append("AlterColumnType %s %s %s" % (coqstr(c), q_coq(ty[0]), coqbool(arr)))
                elif k < 0.85:
                    c = pick_col(q)
                    cmds_sql.append("ALTER COLUMN %s SET NOT NULL" % c)
                    cmds_coq.append("SetNotNull %s" % coqstr(c))
                else:
                    c = pick_col(q)
                    cmds_sql.append("ALTER COLUMN %s DROP NOT NULL" % c)
                    cmds_coq.append("DropNotNull %s" % coqstr(c))
            if rng.random() < 0.15:
                # an action sqlc does not model (and that cannot fail for catalog reasons) in the same statement, at any position:
                # the modelled actions of the statement still apply
                extra = rng.choice(["ENABLE ROW LEVEL SECURITY", "SET (fillfactor = 70)", "OWNER TO CURRENT_USER", "ADD CONSTRAINT ck_%d CHECK (true)" % len(out),
                                    "SET WITHOUT OIDS", "DISABLE TRIGGER USER"])
                cmds_sql.insert(rng.randint(0, len(cmds_sql)), extra)
            sql = "ALTER TABLE %s%s %s;" % ("IF EXISTS " if ie2 else "", q_sql(q), ", ".join(cmds_sql))
            coq = "AlterTable %s %s %s" % (coqbool(ie2), q_coq(q), coqlist(["(%s)" % x for x in cmds_coq]))
        elif r < 0.70:
            q = pick_table()
            old, new = pick_col(q), pick_col(q, existing=False)
            ie2 = rng.random() < 0.08
            sql = "ALTER TABLE %s%s RENAME COLUMN %s TO %s;" % ("IF EXISTS " if ie2 else "", q_sql(q), old, new)
            coq = "RenameColumn %s %s %s %s" % (coqbool(ie2), q_coq(q), coqstr(old), coqstr(new))
            cols = sh.s.get(sh.ns(q), {"tables": {}})["tables"].get(q[1])
            if cols is not None and old in cols and new not in cols:
                cols[cols.index(old)] = new
        elif r < 0.78:
            q = pick_type(existing=rng.random() < 0.05)
            if rng.random() < 0.75:
                vals = rng.sample(LABELS, rng.randint(1, 3)) if rng.random() > 0.06 else []      # an enum may be created without labels
                if vals and rng.random() < 0.02:
                    vals.append(vals[0])
                sql = "CREATE TYPE %s AS ENUM (%s);" % (q_sql(q), ", ".join(lit(v) for v in vals))
                coq = "CreateEnum %s %s" % (q_coq(q), coqlist([coqstr(v) for v in vals]))
                kind = ["enum", list(vals)]
            else:
                sql = "CREATE TYPE %s AS (f1 int, f2 text);" % q_sql(q)
                coq = "CreateComposite %s" % q_coq(q)
                kind = ["comp", []]
            d = sh.s.get(sh.ns(q))
            if d is not None and q[1] not in d["types"] and q[1] not in d["tables"]:
                d["types"][q[1]] = kind
        elif r < 0.85:
            q = pick_type()
            ent = sh.s.get(sh.ns(q), {"types": {}})["types"].get(q[1])
            v = rng.choice(LABELS)
            if ent and ent[0] == "enum" and rng.random() < P and not ie:
                free = [x for x in LABELS if x not in ent[1]]
                if free:
                    v = rng.choice(free)
            pos = None
            if rng.random() < 0.2:
                nb = rng.choice(ent[1]) if ent and ent[1] and rng.random() < 0.85 else rng.choice(LABELS)
                pos = (rng.random() < 0.5, nb)
            sql = "ALTER TYPE %s ADD VALUE %s%s%s;" % (q_sql(q), "IF NOT EXISTS " if ie else "", lit(v),
                                                        "" if pos is None else (" BEFORE " if pos[0] else " AFTER ") + lit(pos[1]))
            coq = "AddValue %s %s %s %s" % (coqbool(ie), q_coq(q), coqstr(v),
                                            "None" if pos is None else "(Some (%s, %s))" % (coqbool(pos[0]), coqstr(pos[1])))
            if ent and ent[0] == "enum" and v not in ent[1]:
                ent[1].append(v)
        elif r < 0.88:
            q = pick_type()
            ent = sh.s.get(sh.ns(q), {"types": {}})["types"].get(q[1])
            old = rng.choice(ent[1]) if ent and ent[1] and rng.random() < 0.85 else rng.choice(LABELS)
            new = rng.choice(LABELS)
            if ent and ent[0] == "enum" and rng.random() < P:
                free = [x for x in LABELS if x not in ent[1]]
                if free:
                    new = rng.choice(free)
            sql = "ALTER TYPE %s RENAME VALUE %s TO %s;" % (q_sql(q), lit(old), lit(new))
            coq = "RenameValue %s %s %s" % (q_coq(q), coqstr(old), coqstr(new))
            if ent and ent[0] == "enum" and old in ent[1] and new not in ent[1]:
                ent[1][ent[1].index(old)] = new
        elif r < 0.92:
            qs = [pick_type() for _ in range(rng.choice([1, 1, 2]))]
            sql = "DROP TYPE %s%s;" % ("IF EXISTS " if ie else "", ", ".join(q_sql(q) for q in qs))
            coq = "DropType %s %s" % (coqbool(ie), coqlist([q_coq(q) for q in qs]))
            for q in qs:
                sh.s.get(sh.ns(q), {"types": {}})["types"].pop(q[1], None)
        else:
            cm = None if rng.random() < 0.2 else rng.choice(["hello", "it's", "x y"])
            cm_sql = "NULL" if cm is None else lit(cm)
            cm_coq = "None" if cm is None else "(Some %s)" % coqstr(cm)
            k = rng.random()
            if not sh.tables() and 0.2 <= k < 0.8:
                k = 0.1
            if not sh.types() and k >= 0.8:
                k = 0.1
            if k < 0.2:
                n = pick_schema()
                sql = "COMMENT ON SCHEMA %s IS %s;" % (n, cm_sql)
                coq = "CommentSchema %s %s" % (coqstr(n), cm_coq)
            elif k < 0.5:
                q = pick_table()
                sql = "COMMENT ON TABLE %s IS %s;" % (q_sql(q), cm_sql)
                coq = "CommentTable %s %s" % (q_coq(q), cm_coq)
            elif k < 0.8:
                q = pick_table()
                c = pick_col(q)
                sql = "COMMENT ON COLUMN %s.%s IS %s;" % (q_sql(q), c, cm_sql)
                coq = "CommentColumn %s %s %s" % (q_coq(q), coqstr(c), cm_coq)
            else:
                q = pick_type()
                sql = "COMMENT ON TYPE %s IS %s;" % (q_sql(q), cm_sql)
                coq = "CommentType %s %s" % (q_coq(q), cm_coq)
        out.append((sql, "(" + coq + ")"))
    return out


def dump_to_coq(cat):
    schemas = []
    for s in cat:
        tabs = []
        for t in s["tables"]:
            cols = ["(mkCol %s (mkQ %s %s) %s %s %s)" % (coqstr(c["name"]), coqstr(c["type_schema"]), coqstr(c["type_name"]),
                                                      coqbool(c["notnull"]), coqbool(c["array"]), coqstr(c["comment"])) for c in t["cols"]]
            tabs.append("(mkTab %s %s %s)" % (coqstr(t["name"]), coqlist(cols), coqstr(t["comment"])))
        tys = []
        for ty in s["types"]:
            if ty["kind"] == "enum":
                tys.append("(Enum %s %s %s)" % (coqstr(ty["name"]), coqlist([coqstr(v) for v in ty["vals"]]), coqstr(ty["comment"])))
            else:
                tys.append("(Composite %s %s)" % (coqstr(ty["name"]), coqstr(ty["comment"])))
        schemas.append("(mkSch %s %s %s %s)" % (coqstr(s["name"]), coqlist(tabs), coqlist(tys), coqstr(s["comment"])))
    return '(Ok (mkCat "public" %s))' % coqlist(schemas)


def shrink_prefix(hist, pred):
    """shortest prefix for which pred still holds (pred(hist) is true)"""
    lo, hi = 1, len(hist)
    while lo < hi:
        mid = (lo + hi) // 2
        if pred(hist[:mid]):
            hi = mid
        else:
            lo = mid + 1
    return hist[:lo]


def evaluate(hists):
    jobs = [{"op": "catalog", "engine": "postgresql", "schema": "\n".join(s for s, _ in h) + "\n"} for h in hists]
    res = run_harness(jobs)
    exprs = []
    for h, r in zip(hists, res):
        if "panic" in r:
            impl = '(Panic "")'
        elif r.get("ok"):
            impl = dump_to_coq(r["catalog"])
        else:
            impl = '(Err "")'
        exprs.append("judge08 %s %s" % (coqlist([c for _, c in h]), impl))
    return res, coq_eval(HEADER, exprs, tag="c08")


def models_check(rep, hists, res):
    """models.go must show exactly the catalog: per table the columns in order (db tags), per enum
    the labels in order (constant values).  Relational check on the implementation."""
    idx = [i for i, r in enumerate(res) if r.get("ok")]
    idx = idx[::3]
    cfg = json.dumps({"version": "1", "packages": [{"path": "db", "engine": "postgresql", "schema": "schema.sql",
                      "queries": "query.sql", "emit_db_tags": True, "emit_exact_table_names": True}]})
    jobs = [{"op": "generate", "summary": True, "nofiles": True,
             "files": {"sqlc.json": cfg, "schema.sql": "\n".join(s for s, _ in hists[i]) + "\n",
                       "query.sql": "-- name: Ping :exec\nSELECT 1;\n"}} for i in idx]
    out = run_harness(jobs)
    for i, g in zip(idx, out):
        rep.count("models-checked")
        hist = [s for s, _ in hists[i]]
        if "panic" in g:
            rep.violation("Go panic in generate: " + g["panic"], {"history": hist})
            continue
        if not g.get("ok"):
            # only name collisions after Go-casing can make generation fail (C01's domain)
            rep.count("models-generate-failed")
            continue
        m = g["summary"].get("db/models.go", {})
        got_structs = sorted(tuple(f["tag"] for f in st["fields"]) for st in m.get("structs", []))
        want_structs = sorted(tuple('db:"%s"' % c["name"] for c in t["cols"])
                              for sc in res[i]["catalog"] if sc["name"] != "pg_catalog" for t in sc["tables"])
        consts = {}
        for c in m.get("consts", []):
            consts.setdefault(c["type"], []).append(c["value"])
        got_enums = sorted(tuple(v) for v in consts.values())
        want_enums = sorted(tuple(ty["vals"]) for sc in res[i]["catalog"] if sc["name"] != "pg_catalog"
                            for ty in sc["types"] if ty["kind"] == "enum" and ty["vals"])
        # every enum of the catalog - also one without labels - is a declared type of the package
        n_named = len(m.get("named", []))
        n_enums = sum(1 for sc in res[i]["catalog"] if sc["name"] != "pg_catalog" for ty in sc["types"] if ty["kind"] == "enum")
        if n_named != n_enums:
            rep.violation("models.go declares %d enum types, the catalog has %d" % (n_named, n_enums), {"history": hist, "named": m.get("named")})
        if got_structs != want_structs or got_enums != want_enums:
            rep.violation("models.go does not show the catalog (tables/columns or enum labels differ)",
                          {"history": hist, "structs": got_structs, "tables": want_structs, "enums": got_enums, "catalog_enums": want_enums})


SUBCHECK_WHAT = {
    "C01": "models.go is generated from a catalog that differs from the schema the DDL history defines (duplicate or missing struct fields follow)",
    "C02": "the columns a star or RETURNING list expands to are taken from a catalog that differs from the schema the DDL history defines",
    "C05": "result types are taken from a catalog whose columns differ (name, order, type, nullability) from the schema the DDL history defines",
    "C06": "parameter types are taken from a catalog whose columns differ from the schema the DDL history defines",
    "C07": "star expansion lists the columns of a catalog that differs from the schema the DDL history defines",
    "C09": "the declared type / nullability the Go type is computed from is not the one the DDL history declares",
    "C10": "names are resolved against a catalog that differs from the schema the DDL history defines (dropped columns accepted, existing ones rejected)",
}


def history_subcheck(rep, prop, seed, n):
    """Every query-level property quantifies over schemas reached through DDL histories; its oracle reads the
    catalog sqlc built.  This sub-check ties that catalog to the reference semantics (Spec/PgCatalog.pg_run) on
    random histories, so that a defect of catalog.Update shows up under the property whose inputs it corrupts.
    Histories inside C08's known-finding classes are C08's business and skipped here."""
    rng = random.Random(seed * 7919 + 17)
    hists = [gen_history(rng, rng.choice([3, 5, 8, 12, 20, 30])) for _ in range(n)]
    res, verdicts = evaluate(hists)
    what = SUBCHECK_WHAT.get(prop, "the catalog differs from the schema the DDL history defines")
    for h, r, v in zip(hists, res, verdicts):
        wf, known, holds, corr = v
        if not wf:
            continue
        rep.count("ddl-history-subcheck")
        hist = [s for s, _ in h]
        if "panic" in r:
            rep.violation("Go panic while applying a DDL history: " + r["panic"], {"history": hist})
        elif not holds and known in (0, 99):
            def still(hp):
                _, vs = evaluate([hp])
                return vs[0][2] == 0
            hp = shrink_prefix(h, still) if len(h) > 1 and len(rep.violations) < 3 else h
            rep.violation(what, {"history": [s for s, _ in hp], "catalog_sqlc_built": r.get("catalog"), "error": r.get("err")})


def run(tier, seed):
    rep = Report(PROP, tier, seed)
    ok, info = prep(PROP)
    ob, dis = proof_gate(rep, PROP, ok, info)
    rng = random.Random(seed)
    n = 12000 if tier == "quick" else 60000
    hists = []
    cpath = os.path.join(VERIF, "corpus", "C08.json")
    if os.path.exists(cpath):
        hists += [[tuple(x) for x in h] for h in json.load(open(cpath))]
    for i in range(n):
        ln = rng.choice([1, 2, 3, 5, 8, 12, 20, 30, 40])
        hists.append(gen_history(rng, ln))
    for lo in range(0, len(hists), 4000):
        chunk = hists[lo:lo + 4000]
        res, verdicts = evaluate(chunk)
        models_check(rep, chunk, res)
        for i, (h, r, v) in enumerate(zip(chunk, res, verdicts)):
            wf, known, holds, corr = v
            accepted = bool(r.get("ok"))
            rep.case(tuple(s for s, _ in h), nontrivial=len(h) >= 3,
                     sample={"history": [s for s, _ in h][:12], "accepted": accepted} if (lo + i) % 211 == 0 else None)
            rep.count("len=%d" % len(h))
            rep.count("accepted" if accepted else "rejected")
            for s, _ in h:
                rep.count("stmt:" + " ".join(s.split()[:2]))
            if not wf:
                rep.count("not-wf")
                continue
            if known:
                rep.count("known-class:%d" % known)
            if "panic" in r:
                rep.violation("Go panic while applying a DDL history: " + r["panic"], {"history": [s for s, _ in h]})
                continue
            if not holds:
                klass = KNOWN_CLASSES.get(known)
                if known == 99 or klass is None or klass not in rep.known:
                    # shrink to the shortest failing prefix for the replay
                    def still(hp):
                        _, vs = evaluate([hp])
                        return vs[0][2] == 0
                    hp = shrink_prefix(h, still) if len(h) > 1 else h
                    rep.violation("models/catalog after the history differ from the PostgreSQL reference semantics (class %s)" % known,
                                  {"history": [s for s, _ in hp], "impl": r, "class": known})
                else:
                    rep.violation("known", {"history": [s for s, _ in h]}, klass=klass)
            elif not corr:
                rep.violation("correspondence corr:C08:catalog broken (model != implementation) although the property holds on this input",
                              {"history": [s for s, _ in h], "impl": r}, no_input=True)
    # the catalog is the fold of the history IN THE ORDER the configuration lists the schema files (not their lexical order):
    # histories cut in two or three files whose names sort the other way round, through cmd.Generate
    cfgj = lambda paths: json.dumps({"version": "1", "packages": [{"path": "db", "engine": "postgresql", "schema": paths, "queries": "query.sql"}]})
    q0 = "-- name: Ping :exec\nSELECT 1;\n"
    jobs, meta = [], []
    for _ in range(150 if tier == "quick" else 3000):
        h = [s_ for s_, _ in gen_history(rng, rng.choice([3, 5, 8, 12]))]
        k = rng.randint(1, len(h) - 1)
        names = rng.choice([["tables.sql", "cleanup.sql"], ["z_first.sql", "a_second.sql"], ["2.sql", "10.sql"], ["b/1.sql", "a/2.sql"]])
        parts = [h[:k], h[k:]]
        if len(h) > 3 and rng.random() < 0.4:
            k2 = rng.randint(k + 1, len(h) - 1) if k + 1 <= len(h) - 1 else k
            if k2 > k:
                parts, names = [h[:k], h[k:k2], h[k2:]], names + ["0_last.sql"]
        single = {"sqlc.json": cfgj("schema.sql"), "schema.sql": "\n".join(h) + "\n", "query.sql": q0}
        multi = dict({"sqlc.json": cfgj(names), "query.sql": q0}, **{nm: "\n".join(p_) + "\n" for nm, p_ in zip(names, parts)})
        jobs += [{"op": "generate", "files": single}, {"op": "generate", "files": multi}]
        meta.append((h, names))
    res = run_harness(jobs)
    for i, (h, names) in enumerate(meta):
        a, b = res[2 * i], res[2 * i + 1]
        rep.case(("listed-order", tuple(h), tuple(names)), nontrivial=True)
        rep.count("listed-order:%s" % ("ok" if a.get("ok") else "rejected"))
        va = a["out"].get("db/models.go") if a.get("ok") else "ERR"
        vb = b["out"].get("db/models.go") if b.get("ok") else "ERR"
        if "panic" in a or "panic" in b or va != vb:
            rep.violation("the history applied from files listed as %s gives other models (or another verdict) than the same history in one file: the catalog is not the fold of the history in listed order" % names,
                          {"history": h, "files": names, "single_ok": a.get("ok"), "listed_ok": b.get("ok"), "single_stderr": a.get("stderr"), "listed_stderr": b.get("stderr")})
    if getattr(rep, "proof_broken", None) and not rep.violations:
        rep.violation("proof obligation no longer checks: " + rep.proof_broken, {"theorem_file": "coq/theories/Props/C08.v", "detail": info}, no_input=True)
    return rep.finish("proof", ob, dis, checker_cmd(PROP),
                      rule="random DDL histories (length 1..40) over 3 schemas x 4 relation names x 4 columns x 6 types x 4 labels, ~85% of the names chosen among existing objects; rendered to SQL, run through the real PostgreSQL parser + catalog.Update, compared with pg_run (reference) and build (model) inside Coq; histories cut into 2-3 schema files whose names sort against the listed order, through cmd.Generate, against the one-file layout; non-trivial = at least 3 statements",
                      assumptions=["Spec/PgCatalog.pg_exec stands in for PostgreSQL (no server in the sandbox)",
                                   "type existence/dependency errors are outside the property and not modelled"])
