"""C06 — Parameter types and names track the column they are used with."""
from cq import *

PROP = "C06"
KNOWN = {1: "placeholder_left_of_operator_untyped"}


def gen(rng):
    c = gen_case(rng)
    return c


def run(tier, seed):
    return run_query_property(
        PROP, "judge_c06", "From Verif Require Import Judge.J06.", KNOWN,
        rule="random schemas x statements with placeholders in comparisons (either side), IN lists, VALUES rows, SET lists, LIMIT/OFFSET and casts, over 1-3 tables with shared column names and aliases; judged where the statement has a single query level and each positional placeholder occurs once (the other cases still go through the correspondence)",
        assumptions=["Spec/PgScope.resolve_ref decides which column a reference next to a placeholder denotes"],
        tier=tier, seed=seed, what="a parameter does not carry the type / name of the column it is used with", gen=gen)
