"""C04 — Embedded SQL is the user's statement, modulo documented rewrites."""
from cfile import *

PROP = "C04"
KNOWN = {1: "multiline_literal_cut_by_strip_comments", 2: "sqlc_arg_spelling_changes_replaced_length", 3: "named_parameter_with_two_casts",
         4: "named_parameters_numbered_in_traversal_order"}


def run(tier, seed):
    rep = Report(PROP, tier, seed)
    ok, info = prep(PROP)
    ob, dis = proof_gate(rep, PROP, ok, info)
    rng = random.Random(seed)
    n = 700 if tier == "quick" else 20000
    cases = [gen_file(rng) for _ in range(n)]
    for c, r, v in run_files(rep, cases):
        wf, known, holds, diff, holds17, _k17 = v
        rep.case((c["schema"], c["queries"]), nontrivial=True,
                 sample={"queries": c["queries"], "accepted": bool(r.get("ok"))} if len(rep.samples) < 4 else None)
        rep.count(c["kind"])
        rep.count("accepted" if r.get("ok") else ("panic" if "panic" in r else "rejected"))
        replay = {"schema": c["schema"], "queries": c["queries"], "impl": {k: r.get(k) for k in ("ok", "errs", "queries", "panic")}}
        strict_fails, known = divmod(known, 100)
        reparse = (not r.get("ok")) and any("edited query syntax is invalid" in e.get("msg", "") for e in r.get("errs", []))
        if known == 5:
            rep.count("star-expansion-defect-class(C02/C07)")
            continue
        if strict_fails and known:
            rep.violation("known", replay, klass=KNOWN.get(known))
        if reparse:
            rep.count("reparse-rejected")
            rep.violation("a statement is rejected because the rewritten SQL no longer parses (%s)" % [e["msg"] for e in r["errs"] if "edited" in e["msg"]][0][:90],
                          replay, klass=KNOWN.get(known))
        elif not holds:
            rep.violation("the embedded SQL / doc comment of a query is not the source statement modulo the documented rewrites", replay)
        elif diff and wf:
            rep.violation("correspondence corr:C04:parse_file broken (model and sqlc differ, code %d); the property holds on this input" % diff, replay, no_input=True)
    if getattr(rep, "proof_broken", None) and not rep.violations:
        rep.violation("proof obligation no longer checks: " + rep.proof_broken, {"theorem_file": "coq/theories/Props/C04.v", "detail": info}, no_input=True)
    return rep.finish("proof", ob, dis, checker_cmd(PROP),
                      rule="query files with 1-5 statements in random layout (blank lines, indentation, inline and block comments, full-line doc comments, string literals containing --, $1, *, @x, ;, multi-byte characters), positional and named parameters, stars; per query the lexemes of the embedded SQL must equal those of the source statement with named parameters renumbered in first-use order (Spec/SqlLexemes.v) and the doc comment must be the statement's full-line -- comments",
                      assumptions=["the engine's parser is not modelled; statement boundaries (StmtLocation/StmtLen) are the real parser's",
                                   "'still parses in the dialect' is checked by sqlc's own re-parse and by re-parsing the embedded SQL in the C02/C07 checks"])
