"""C04 — Embedded SQL is the user's statement, modulo documented rewrites."""
from cfile import *

PROP = "C04"
KNOWN = {1: "multiline_literal_cut_by_strip_comments", 2: "sqlc_arg_spelling_changes_replaced_length", 3: "named_parameter_with_two_casts",
         4: "named_parameters_numbered_in_traversal_order", 6: "named_parameter_in_multi_column_assignment"}


def end_to_end(rep, accepted, tier):
    """The judge above looks at the compiler's result (harness op compile).  What the user gets is the constant in the
    emitted Go file, produced by cmd.Generate under some configuration: it must carry exactly that SQL, whatever else the
    configuration contains (a Kotlin target for the same engine listed before or next to the Go target, version 1 or 2)."""
    import json as _json
    pick = accepted[:150] if tier == "quick" else accepted[:3000]
    v1 = _json.dumps({"version": "1", "packages": [{"path": "db", "engine": "postgresql", "schema": "schema.sql", "queries": "query.sql"}]})
    kt_first = _json.dumps({"version": "2", "sql": [
        {"schema": "schema.sql", "queries": "query.sql", "engine": "postgresql", "gen": {"kotlin": {"package": "kt", "out": "kt"}}},
        {"schema": "schema.sql", "queries": "query.sql", "engine": "postgresql", "gen": {"go": {"package": "db", "out": "db"}}}]})
    same_block = _json.dumps({"version": "2", "sql": [
        {"schema": "schema.sql", "queries": "query.sql", "engine": "postgresql",
         "gen": {"go": {"package": "db", "out": "db"}, "kotlin": {"package": "kt", "out": "kt"}}}]})
    go_then_kt = _json.dumps({"version": "2", "sql": [
        {"schema": "schema.sql", "queries": "query.sql", "engine": "postgresql", "gen": {"go": {"package": "db", "out": "db"}}},
        {"schema": "schema.sql", "queries": "query.sql", "engine": "postgresql", "gen": {"kotlin": {"package": "kt", "out": "kt"}}}]})
    variants = [("v1-go", v1), ("kotlin-block-then-go-block", kt_first), ("go-and-kotlin-one-block", same_block), ("go-block-then-kotlin-block", go_then_kt)]
    jobs, meta = [], []
    for c, r in pick:
        for vn, cfg in variants:
            jobs.append({"op": "generate", "summary": True, "nofiles": True,
                         "files": {"sqlc.json": cfg, "schema.sql": c["schema"], "query.sql": c["queries"]}})
            meta.append((c, r, vn))
    res = run_harness(jobs)
    for (c, r, vn), g in zip(meta, res):
        replay = {"schema": c["schema"], "queries": c["queries"], "configuration": vn}
        if "panic" in g:
            rep.violation("sqlc panics under configuration %s: %s" % (vn, g["panic"][:100]), replay)
            continue
        if not g.get("ok"):
            # the Go target alone must compile what the compiler accepted (the generator may still refuse names that are
            # not Go identifiers, with a diagnostic: C01's domain); a Kotlin target may refuse more
            if vn == "v1-go" and "error generating code" not in (g.get("stderr") or ""):
                rep.violation("cmd.Generate rejects a query file the compiler accepts: %s" % (g.get("stderr") or "")[:160], replay)
            else:
                rep.count("e2e:%s:not-generated" % vn)
            continue
        rep.count("e2e:%s" % vn)
        consts = {}
        for f, sm in g["summary"].items():
            if f.startswith("db/") and f.endswith(".sql.go"):
                for k in sm.get("consts", []):
                    consts[k["name"]] = k["value"]
        for q in r.get("queries") or []:
            name = q["name"]
            cname = name[:1].lower() + name[1:]
            want = "-- name: %s %s\n%s\n" % (name, q["cmd"], q["sql"])
            if consts.get(cname) != want:
                rep.violation("under configuration %s the SQL constant of %s in the emitted Go file is not the statement the compiler produced for the Go target"
                              % (vn, name), dict(replay, emitted=consts.get(cname), expected=want))
                break


def run(tier, seed):
    rep = Report(PROP, tier, seed)
    ok, info = prep(PROP)
    ob, dis = proof_gate(rep, PROP, ok, info)
    rng = random.Random(seed)
    n = 700 if tier == "quick" else 20000
    cases = [gen_file(rng) for _ in range(n)]
    accepted = []
    for c, r, v in run_files(rep, cases):
        if r.get("ok"):
            accepted.append((c, r))
        wf, known, holds, diff, holds17, _k17 = v
        rep.case((c["schema"], c["queries"]), nontrivial=True,
                 sample={"queries": c["queries"], "accepted": bool(r.get("ok"))} if len(rep.samples) < 4 else None)
        rep.count(c["kind"])
        rep.count("accepted" if r.get("ok") else ("panic" if "panic" in r else "rejected"))
        replay = {"schema": c["schema"], "queries": c["queries"], "impl": {k: r.get(k) for k in ("ok", "errs", "queries", "panic")}}
        strict_fails, known = divmod(known, 100)
        reparse = (not r.get("ok")) and any("edited query syntax is invalid" in e.get("msg", "") for e in r.get("errs", []))
        if known == 5:
            rep.count("star-expansion-defect-class(C02/C07)")
            continue
        if strict_fails and known:
            rep.violation("known", replay, klass=KNOWN.get(known))
        if reparse:
            rep.count("reparse-rejected")
            rep.violation("a statement is rejected because the rewritten SQL no longer parses (%s)" % [e["msg"] for e in r["errs"] if "edited" in e["msg"]][0][:90],
                          replay, klass=KNOWN.get(known))
        elif not holds:
            rep.violation("the embedded SQL / doc comment of a query is not the source statement modulo the documented rewrites", replay)
        elif diff and wf:
            rep.violation("correspondence corr:C04:parse_file broken (model and sqlc differ, code %d); the property holds on this input" % diff, replay, no_input=True)
    end_to_end(rep, accepted, tier)
    import mysqlq
    mysqlq.mysql_subcheck(rep, PROP, seed, 600 if tier == "quick" else 12000)
    if getattr(rep, "proof_broken", None) and not rep.violations:
        rep.violation("proof obligation no longer checks: " + rep.proof_broken, {"theorem_file": "coq/theories/Props/C04.v", "detail": info}, no_input=True)
    return rep.finish("proof", ob, dis, checker_cmd(PROP),
                      rule="query files with 1-5 statements in random layout (blank lines, indentation, inline and block comments, full-line doc comments, string literals containing --, $1, *, @x, ;, multi-byte characters), positional and named parameters, stars; per query the lexemes of the embedded SQL must equal those of the source statement with named parameters renumbered in first-use order (Spec/SqlLexemes.v) and the doc comment must be the statement's full-line -- comments",
                      assumptions=["the engine's parser is not modelled; statement boundaries (StmtLocation/StmtLen) are the real parser's",
                                   "'still parses in the dialect' is checked by sqlc's own re-parse and by re-parsing the embedded SQL in the C02/C07 checks"])
