"""C01 — Generated Go package always compiles."""
import itertools
import json
import random
import re
import shutil
import subprocess
import tempfile
from common import *

PROP = "C01"
FLAGS = ["emit_interface", "emit_json_tags", "emit_db_tags", "emit_prepared_queries", "emit_exact_table_names", "emit_empty_slices"]

# names chosen to collide after Go-casing / singularisation, or to be Go keywords / the generator's own identifiers
TABLES = ["user", "users", "order_item", "order_items", "status", "type", "items", "queries", "db_tx", "author", "authors", "row", "q"]
COLUMNS = ["id", "name", "type", "range", "err", "ctx", "q", "row", "rows", "items", "sql", "arg", "i", "count", "user_id", "created_at", "ids", "func", "db"]
COLTYPES = ["int", "bigint", "text", "text NOT NULL", "uuid", "uuid[]", "timestamptz", "timestamptz[]", "json", "inet", "boolean", "status_t", "numeric", "bytea", "text[]", "interval", "macaddr",
            "public.status_t", "status_t NOT NULL", "public.status_t[]", "pg_catalog.int4", "pg_catalog.timestamptz NOT NULL"]
QNAMES = ["GetOne", "List", "Create", "db", "New", "Queries", "WithTx", "Prepare", "Close", "DBTX", "Querier", "Del", "Exec2", "getOne"]


def q(n):
    return '"%s"' % n if n in ("user", "type", "order", "range", "func") else n


BENIGN_TABLES = ["author", "book", "venue", "city", "tag", "invoice"]
BENIGN_COLUMNS = ["id", "name", "title", "created_at", "ids", "owner_id", "price", "tags", "meta", "addr", "mac", "stamp"]
BENIGN_QNAMES = ["GetOne", "ListAll", "Create", "Remove", "Touch", "CountThem", "FindByTime", "FindByIds"]


MYSQL_TYPES = ["int", "integer", "smallint", "mediumint", "bigint", "tinyint", "tinyint(1)", "bool", "year", "varchar(10)", "text", "char(3)", "longtext", "blob", "binary(4)",
               "varbinary(8)", "double", "float", "real", "decimal(10,2)", "numeric(5)", "date", "timestamp", "datetime", "time", "json", "float(7,2)", "double precision", "bit(1)", "bit(8)"]


def gen_input_mysql(rng):
    """a MySQL package: every column type, nullable and not, in models, parameters and results"""
    lines, queries = [], []
    for ti in range(rng.randint(1, 2)):
        cols = [("id", "int", True)] + [("c%d" % j, rng.choice(MYSQL_TYPES), rng.random() < 0.5) for j in range(rng.randint(2, 5))]
        lines.append("CREATE TABLE t%d (%s);" % (ti, ", ".join("%s %s%s" % (c, ty, " NOT NULL" if nn else "") for c, ty, nn in cols)))
        c1, c2 = rng.choice(cols)[0], rng.choice(cols)[0]
        queries.append("-- name: Get%d :one\nSELECT * FROM t%d WHERE %s = ?;" % (ti, ti, c1))
        queries.append("-- name: List%d :many\nSELECT %s, %s FROM t%d WHERE %s = ? AND %s = ?;" % (ti, c1, c2, ti, c1, c2))
        queries.append("-- name: One%d :one\nSELECT %s FROM t%d WHERE id = ?;" % (ti, c2, ti))
        queries.append("-- name: Ins%d :exec\nINSERT INTO t%d (%s) VALUES (%s);" % (ti, ti, ", ".join(c for c, _, _ in cols), ", ".join("?" for _ in cols)))
    pkg = {"path": "db", "engine": "mysql", "schema": "schema.sql", "queries": "query.sql"}
    for f in FLAGS:
        if rng.random() < 0.3:
            pkg[f] = True
    return {"sqlc.json": json.dumps({"version": "1", "packages": [pkg]}), "schema.sql": "\n".join(lines) + "\n", "query.sql": "\n\n".join(queries) + "\n"}


def gen_input(rng):
    if rng.random() < 0.05:
        return gen_input_mysql(rng)
    benign = rng.random() < 0.55
    tables, columns, qnames = (BENIGN_TABLES, BENIGN_COLUMNS, BENIGN_QNAMES) if benign else (TABLES, COLUMNS, QNAMES)
    return gen_input_from(rng, tables, columns, qnames, benign)


def gen_input_from(rng, TABLES, COLUMNS, QNAMES, benign):
    tabs = rng.sample(TABLES, rng.randint(1, 3))
    lines = ["CREATE TYPE status_t AS ENUM ('open', 'closed', 'in-progress', 'in progress');"]
    if rng.random() < 0.2:
        lines.append("CREATE TYPE %s AS ENUM ('a', 'A', 'a-b', 'a_b');" % rng.choice(["status", "kind", "user_role"]))
    coltypes = list(COLTYPES)
    if rng.random() < 0.25:
        # an enum outside the default schema: its Go name is prefixed with the schema's; a rename may hit any of the keys
        lines.append("CREATE SCHEMA support;")
        lines.append("CREATE TYPE support.status AS ENUM ('new', 'done');")
        coltypes += ["support.status", "support.status NOT NULL", "support.status"]
    cols = {}
    for t in tabs:
        cs = ["id"] + rng.sample(COLUMNS[1:], rng.randint(1, 4))
        cols[t] = cs
        lines.append("CREATE TABLE %s (%s);" % (q(t), ", ".join("%s %s" % (q(c), rng.choice(coltypes)) for c in cs)))
    queries = []
    names = rng.sample(QNAMES, rng.randint(1, 4))
    class _S:           # the schema as the statement generator of the query properties wants it
        pass
    gs = _S()
    gs.tables = {q(t): [q(c) for c in cols[t]] for t in tabs}
    gs.rng = rng
    for nm in names:
        t = rng.choice(tabs)
        cs = cols[t]
        kind = rng.random()
        if rng.random() < 0.2:
            # a statement of the full supported grammar (joins, sub-selects over the same table, CTEs, set operations,
            # repeated placeholders): whatever the compiler accepts must come out as Go that compiles
            from qcommon import QGen
            sql, k_ = QGen(rng, gs, named="pos").statement()
            cmd = rng.choice(["one", "many"]) if k_ in ("select", "cte") else rng.choice(["exec", "execrows", "many", "one"])
            if k_ not in ("select", "cte") and cmd in ("one", "many") and "RETURNING" not in sql:
                cmd = "exec"
            queries.append("-- name: %s :%s\n%s;" % (nm, cmd, sql))
            continue
        c1, c2 = rng.choice(cs), rng.choice(cs)
        if benign and c1 == c2 and len(cs) > 1:
            c2 = [c for c in cs if c != c1][0]
        if kind < 0.25:
            queries.append("-- name: %s :%s\nSELECT %s FROM %s WHERE %s = $1;" % (nm, rng.choice(["one", "many"]), q(c1), q(t), q(c2)))
        elif kind < 0.45:
            queries.append("-- name: %s :many\nSELECT * FROM %s WHERE %s = $1 AND %s = $2;" % (nm, q(t), q(c1), q(c2)))
        elif kind < 0.6:
            queries.append("-- name: %s :many\nSELECT %s, %s, count(*), count(*) FROM %s GROUP BY 1, 2;" % (nm, q(c1), q(c2), q(t)))
        elif kind < 0.75:
            queries.append("-- name: %s :one\nINSERT INTO %s (%s) VALUES (%s) RETURNING *;" % (nm, q(t), ", ".join(q(c) for c in cs), ", ".join("$%d" % (i + 1) for i in range(len(cs)))))
        elif kind < 0.85:
            queries.append("-- name: %s :exec\nUPDATE %s SET %s = $1 WHERE %s = $2;" % (nm, q(t), q(c1), q(c2)))
        elif kind < 0.92:
            queries.append("-- name: %s :execrows\nDELETE FROM %s WHERE %s = ANY($1::%s);" % (nm, q(t), q(c1), rng.choice(["int[]", "uuid[]", "text[]"])))
        elif kind < 0.96:
            queries.append("-- name: %s :execresult\nDELETE FROM %s;" % (nm, q(t)))
        else:
            # a command that scans nothing, with a RETURNING list: the row struct is still emitted
            queries.append("-- name: %s :%s\nUPDATE %s SET %s = $1 WHERE %s = $2 RETURNING %s;"
                           % (nm, rng.choice(["exec", "execrows", "execresult"]), q(t), q(c1), q(c2),
                              rng.choice(["*", ", ".join(q(c) for c in cs[:2]), q(c1)])))
    flags = [f for f in FLAGS if rng.random() < 0.35]
    files_split = len(queries) > 1 and rng.random() < (0.4 if benign else 0.3)
    pkg = {"path": "db", "engine": "postgresql", "schema": "schema.sql", "queries": ["query.sql", "more.sql"] if files_split else "query.sql"}
    for f in flags:
        pkg[f] = True
    cfg = {"version": "1", "packages": [pkg]}
    if rng.random() < 0.3:
        cfg["overrides"] = [rng.choice([{"go_type": "github.com/google/uuid.UUID", "db_type": "text"},
                                        {"go_type": "github.com/lib/pq.StringArray", "db_type": "text", "nullable": True},
                                        {"go_type": "string", "db_type": "uuid"},
                                        {"go_type": {"import": "database/sql", "package": "orm", "type": "NullInt64"}, "db_type": "pg_catalog.int8", "nullable": True}])]
    if rng.random() < 0.15:
        cfg["rename"] = {rng.choice(["id", "name", "type", "support_status", "status", "support", "status_t"]): rng.choice(["Ident", "Type", "Err", "TicketState"])}
    if "emit_json_tags" in flags and rng.random() < 0.5:
        pkg["json_tags_case_style"] = rng.choice(["camel", "pascal", "snake", "none"])
    if rng.random() < 0.15:
        cfg.setdefault("overrides", []).append({"go_type": rng.choice(["github.com/google/uuid.UUID", {"import": "github.com/lib/pq", "package": "pqx", "type": "NullTime"}]),
                                                "column": "%s.%s" % (tabs[0], cols[tabs[0]][0])})
    out = {"sqlc.json": json.dumps(cfg), "schema.sql": "\n".join(lines) + "\n", "query.sql": "\n\n".join(queries) + "\n"}
    if files_split:
        out["query.sql"] = "\n\n".join(queries[:1]) + "\n"
        out["more.sql"] = "\n\n".join(queries[1:]) + "\n"
        if rng.random() < 0.3:
            # the same name again in the second file: must be rejected
            out["more.sql"] += "\n" + queries[0] + "\n"
    return out


HEADER = "From Verif Require Import Spec.GoPkgWf Model.GoGen Model.GoEnums Model.GoModels Judge.J01.\nOpen Scope string_scope. Open Scope list_scope.\n"
WF_CLASS = {1: "duplicate_top_level_identifier", 2: "duplicate_method_or_field", 3: "qualifier_used_but_not_imported",
            4: "import_not_used", 5: "parameter_or_local_declared_twice", 6: "parameter_or_local_shadows_a_package",
            7: "parameter_or_local_declared_twice"}


def gv_coq(v):
    st = v.get("struct")
    s = "None" if not st else "(Some (%s, %s))" % (coqstr(st["name"]), coqlist([coqstr(f["type"]) for f in st["fields"]]))
    return "(mkGV %s %s %s %s)" % (coqbool(v["emit"]), coqstr(v["name"]), coqstr(v["typ"]), s)


def importer_coq(r):
    """the values golang.Generate hands to its templates and importer (hook golang.VerifGenerate) as a Model/GoImports.gimporter"""
    structs = coqlist([coqlist([coqstr(f["type"]) for f in s["fields"]]) for s in r["structs"]])
    qs = coqlist(["(mkGQ %s %s %s %s)" % (coqstr(x["cmd"]), coqstr(x["source"]), gv_coq(x["ret"]), gv_coq(x["arg"])) for x in r["queries"]])
    ovs = coqlist(["(mkOV %s %s %s %s)" % (coqbool(o["basic"]), coqstr(o["type_name"]), coqstr(o["import_path"]), coqstr(o["package"])) for o in r["overrides"]])
    return "(mkGI %s %d %s %s %s)" % (structs, r["n_enums"], qs, ovs, coqbool(r["prepared"]))


def j01_coq(r):
    fs = []
    for key, groups in sorted(r["imports"].items()):
        emitted = key if key.endswith(".go") else key + ".go"
        summ = r["summary"].get(emitted, {})
        std = coqlist([coqstr(p) for _, p in groups[0]])
        pkg = coqlist(["(%s, %s)" % (coqstr(i), coqstr(p)) for i, p in groups[1]])
        fs.append("(mkFO %s %s %s %s)" % (coqstr(key), std, pkg, coqlist([coqstr(x) for x in summ.get("qualifiers", [])])))
    return "(j01 %s %s)" % (importer_coq(r), coqlist(fs))


def gst_coq(st):
    return "(mkGSt %s (%s, %s) %s)" % (coqstr(st["name"]), coqstr(st.get("table_schema", "")), coqstr(st.get("table_rel", "")),
                                      coqlist(["(%s, %s, %s)" % (coqstr(f["name"]), coqstr(f["type"]), coqstr(f["tag"])) for f in st["fields"]]))


def vo_coq(v):
    st = v.get("struct")
    return "(mkVO %s %s %s %s)" % (coqbool(v["emit"]), coqstr(v["name"]), coqstr(v["typ"]), "None" if not st else "(Some %s)" % gst_coq(st))


def settings_coq(s_):
    ovs = coqlist(["(mkGov %s %s %s %s %s %s %s %s)" % (coqstr(o["go_type_name"]), coqstr(o["column"]), coqstr(o["column_name"]), coqstr(o["table_catalog"]),
                                                       coqstr(o["table_schema"]), coqstr(o["table_rel"]), coqstr(o["db_type"]), coqbool(o["nullable"]))
                   for o in s_["overrides"]])
    ren = coqlist(["(%s, %s)" % (coqstr(k), coqstr(v)) for k, v in s_["rename"]])
    return "(mkGS %s %s %s %s %s)" % (ovs, ren, coqbool(s_["db_tags"]), coqbool(s_["json_tags"]), coqstr(s_["json_style"]))


def j01_gen_coq(g):
    """buildQueries: what the compiler produced + catalog + settings + model structs  ->  Arg / Ret of every query (hook) vs Model/GoGen"""
    from qcommon import catalog_coq, query_coq
    qs = coqlist(["(%s, %s)" % (query_coq(x), coqstr(x["filename"])) for x in g["compiled"]])
    obs = coqlist(["(mkQO %s %s %s %s %s)" % (coqstr(x["method"]), coqstr(x["cmd"]), coqstr(x["source"]), vo_coq(x["ret"]), vo_coq(x["arg"])) for x in g["queries"]])
    return "(j01_gen %s %s %s %s %s)" % (settings_coq(g["settings"]), catalog_coq(g["catalog"]), coqlist([gst_coq(x) for x in g["structs"]]), qs, obs)


def j01_models_coq(g):
    """buildStructs / buildEnums: catalog + settings -> model structs (fields) and enum declarations (hook) vs Model/GoModels, Model/GoEnums"""
    from qcommon import catalog_coq
    enums = coqlist(["(mkGE %s %s)" % (coqstr(e["name"]), coqlist(["(%s, %s)" % (coqstr(k), coqstr(v)) for k, v in e["consts"]])) for e in g.get("enums", [])])
    return "(j01_models %s %s %s %s %s)" % (settings_coq(g["settings"]), catalog_coq(g["catalog"]), coqbool(g["settings"].get("exact_table_names")),
                                            coqlist([gst_coq(x) for x in g["structs"]]), enums)


def pkg_coq(summary):
    files = []
    for fname, f in sorted(summary.items()):
        decls = [n for k, n in f.get("decls", []) if k != "method"]
        fields = ["(%s, %s)" % (coqstr(st["name"]), coqlist([coqstr(x["name"]) for x in st["fields"] if x["name"]])) for st in f.get("structs", [])]
        methods = []
        for m in f.get("methods", []):
            methods.append("(mkGM %s %s %s %s %s %s %s)" % (coqstr(m["recv"]), coqstr(m["name"]), coqstr(m.get("recv_name", "")),
                                                       coqlist([coqstr(p["name"]) for p in m["params"] if p["name"]]),
                                                       coqlist([coqstr(x) for x in m["locals"]]), coqlist([coqstr(x) for x in m.get("shadowed", [])]),
                                                       coqlist([coqstr(x) for x in m.get("inner_shadow", [])])))
        files.append("(mkGF %s %s %s %s %s %s)" % (coqstr(fname), coqlist([coqstr(x) for x in f.get("import_names", [])]),
                                                 coqlist([coqstr(x) for x in f.get("qualifiers", [])]), coqlist([coqstr(x) for x in decls]),
                                                 coqlist(fields), coqlist(methods)))
    return "[pkg_wf %s]" % coqlist(files)


GO_MOD = """module scratch

go 1.15

require (
	github.com/google/uuid v1.1.2
	github.com/lib/pq v1.10.0
)
"""

KNOWN_PATTERNS = [
    (r"(\w+) redeclared in this block|already declared|other declaration of", "name_collision"),
    (r"undefined: (uuid|time|json|net|pq|sql)\b", "missing_import_for_array_or_single_value"),
    (r"imported and not used", "unused_import"),
    (r"expected|syntax error|cannot use .* as .* value", "other"),
]


def classify(err, inp):
    if re.search(r"undefined: (uuid|time|json|net|pq)\b", err):
        return "import_missing_for_bare_array_or_scalar"
    if re.search(r"redeclared in this block|already declared|duplicate (field|method)|field and method with the same name", err):
        # which kind of collision?
        if re.search(r"\b(id|name|\w+) redeclared in this block", err) and re.search(r"query\.sql\.go", err) and "var " not in err:
            pass
        return "go_identifier_collision"
    if re.search(r"declared (and|but) not used|imported and not used", err):
        return "unused_import_or_variable"
    if re.search(r"undefined: \w+|cannot use|is not a type|has no field or method|not enough arguments|too many arguments|invalid operation", err):
        return "go_identifier_shadowing"
    return None


def run(tier, seed):
    rep = Report(PROP, tier, seed)
    ok, info = prep(PROP)
    ob, dis = proof_gate(rep, PROP, ok, info)
    rng = random.Random(seed)
    n = 1500 if tier == "quick" else 15000
    inputs = [gen_input(rng) for _ in range(n)]
    res = run_harness([{"op": "generate", "files": f, "summary": True} for f in inputs])
    root = tempfile.mkdtemp(prefix="c01mod", dir=os.path.join(BUILD, "tmp"))
    try:
        open(os.path.join(root, "go.mod"), "w").write(GO_MOD)
        shutil.copyfile(os.path.join(REPO, "go.sum"), os.path.join(root, "go.sum"))
        pk = {}
        for i, (inp, r) in enumerate(zip(inputs, res)):
            rep.case(json.dumps(inp, sort_keys=True), nontrivial=True,
                     sample={"schema": inp["schema.sql"], "queries": inp["query.sql"], "ok": r.get("ok")} if len(rep.samples) < 3 else None)
            replay = dict(inp)
            if "panic" in r:
                rep.violation("sqlc panics: " + r["panic"][:120], replay, klass="panic_in_generator")
                continue
            if not r.get("ok"):
                rep.count("rejected-with-diagnostic")
                if not (r.get("stderr") or "").strip():
                    rep.violation("generation fails without any diagnostic", replay)
                continue
            rep.count("generated")
            bad = [f for f, s in r["summary"].items() if s.get("parse_error") or not s.get("gofmt_stable")]
            if bad:
                rep.violation("emitted file is not valid / gofmt-stable Go: %s" % bad, replay)
                continue
            # imports vs qualifiers, file by file (the part of Spec/GoPkgWf that needs no type checker)
            d = os.path.join(root, "p%d" % i)
            os.makedirs(d)
            for f, src in r["out"].items():
                open(os.path.join(d, os.path.basename(f)), "w").write(src)
            pk[i] = d
        if pk:
            p = subprocess.run(["go", "build", "-gcflags=-e", "./..."], cwd=root, env=GOENV, stdout=subprocess.PIPE, stderr=subprocess.STDOUT, text=True, timeout=3000)
            errs = {}
            for line in p.stdout.splitlines():
                m = re.match(r"\.?/?p(\d+)/([^:]+):(\d+):(\d+): (.*)", line.strip())
                if m:
                    errs.setdefault(int(m.group(1)), []).append("%s:%s: %s" % (m.group(2), m.group(3), m.group(5)))
            rep.extra["go_build_status"] = p.returncode
            rep.extra["packages_compiled"] = len(pk)
            idxs = sorted(pk)
            wfs = coq_eval(HEADER, [pkg_coq(res[i]["summary"]) for i in idxs], tag="c01")
            for i, w in zip(idxs, wfs):
                wf = w[0]
                es = errs.get(i)
                rep.count("pkg_wf=%d/%s" % (wf, "compiles" if not es else "fails"))
                if es and wf == 0:
                    rep.violation("the emitted package does not compile although Spec/GoPkgWf accepts it: " + es[0][:140], dict(inputs[i], go_build=es[:8]))
                elif es:
                    klass = WF_CLASS[wf]
                    qnames = re.findall(r"-- name: (\S+)", inputs[i]["query.sql"] + inputs[i].get("more.sql", ""))
                    if wf in (1, 2) and len(qnames) != len(set(qnames)):
                        klass = None      # the same query name twice must have been rejected, not generated
                    if wf == 2:
                        # two fields / methods of one name on a type: known only (a) for a query named like a method or field of
                        # Queries itself, (b) for a params struct whose query passes one placeholder twice to one function call
                        # (C03's finding: two Parameters with one number, hence one field name twice)
                        allq = inputs[i]["query.sql"] + inputs[i].get("more.sql", "")
                        twice = any(len(re.findall(r"\$%s\b" % n_, args)) > 1 for args in re.findall(r"\w+\(([^()]*)\)", allq) for n_ in set(re.findall(r"\$(\d+)", args)))
                        if any(nm_ in ("WithTx", "Close", "Prepare", "db", "exec", "query", "queryRow", "prepare", "tx") for nm_ in qnames):
                            klass = "duplicate_method_or_field"
                        elif twice:
                            klass = "duplicate_params_field_for_placeholder_twice_in_one_call"
                        elif any(("%s redeclared" % v_) in " ".join(es) for v_ in json.loads(inputs[i]["sqlc.json"]).get("rename", {}).values()):
                            klass = "rename_target_collides_with_another_field"
                        else:
                            klass = None
                    if wf == 3:
                        # known only for array types of bare (non-struct) parameters / results
                        for fname, f in res[i]["summary"].items():
                            missing = [x for x in f.get("qualifiers", []) if x not in f.get("import_names", [])]
                            for x in missing:
                                uses = [t["type"] for m in f.get("methods", []) + [mm for it in f.get("interfaces", []) for mm in it["methods"]]
                                        for t in m["params"] + m["results"] if (x + ".") in t["type"]]
                                if not uses or not all(u.startswith("[]") for u in uses):
                                    klass = None
                    rep.violation("the emitted package does not compile (%s): %s" % (WF_CLASS[wf], es[0][:120]), dict(inputs[i], go_build=es[:8]), klass=klass)
                elif wf != 0:
                    rep.violation("Spec/GoPkgWf rejects (rule %d) a package the Go compiler accepts: the abstraction of the type checker is too strict" % wf,
                                  dict(inputs[i], rule=wf), no_input=True)
            if p.returncode != 0 and not errs:
                rep.violation("go build failed without attributable errors: " + p.stdout[-300:], {}, no_input=True)
            # the import half: importer vs Model/GoImports, emitted qualifiers vs Spec/GoFileUses, needed = present
            idxs = [i for i in idxs if '"engine": "mysql"' not in inputs[i]["sqlc.json"]]      # the generator's data layer is modelled for PostgreSQL
            gres = run_harness([{"op": "gogen", "files": inputs[i]} for i in idxs])
            gok = [(i, g) for i, g in zip(idxs, gres) if g.get("ok")]
            for i, g in zip(idxs, gres):
                if not g.get("ok"):
                    rep.violation("golang.Generate run step by step (harness op gogen) fails where cmd.Generate succeeded: %s" % (g.get("err") or g.get("panic") or g.get("harness_error")),
                                  dict(inputs[i]), no_input=True)
            for (i, g), v in zip(gok, coq_eval(HEADER, [j01_coq(g) for _, g in gok], tag="c01imp")):
                _, known, holds, diff = v
                rep.count("imports:%s" % ("needed=present" if holds else "differ"))
                if g["overrides"]:
                    rep.count("imports:with-overrides")
                view = {"importer": g["imports"], "qualifiers": {k: s_.get("qualifiers") for k, s_ in g["summary"].items()}}
                if not holds:
                    rep.violation("an emitted file's imports are not exactly the packages it mentions (Spec/GoFileUses vs Model/GoImports on the generator's own values)",
                                  dict(inputs[i], **view), klass=WF_CLASS[3] if known == 1 else None)
                elif diff & 1:
                    rep.violation("correspondence corr:C01:imports broken: the importer (imports.go) and Model/GoImports.imports_of answer differently; needed = present still holds on this input",
                                  dict(inputs[i], **view), no_input=True)
                elif diff & 2:
                    rep.violation("correspondence corr:C01:file_uses broken: the package qualifiers in an emitted file are not those Spec/GoFileUses reads off the templates",
                                  dict(inputs[i], **view), no_input=True)
            # the generator's data layer: buildQueries (Arg / Ret of every query) against Model/GoGen, exactly
            for (i, g), v in zip(gok, coq_eval(HEADER, [j01_gen_coq(g) for _, g in gok], tag="c01gen")):
                rep.count("buildQueries:%s" % ("model=code" if v[0] == 0 else "differ"))
                if v[0] != 0:
                    k = v[0] - 1
                    rep.violation("correspondence corr:C01:buildQueries broken: the Arg / Ret values golang.buildQueries hands to the templates differ from Model/GoGen.build_queries (query #%d by method name)" % v[0],
                                  dict(inputs[i], generator_value=g["queries"][k] if k < len(g["queries"]) else None, verdict=v[0]), no_input=True)
            # ... and buildStructs / buildEnums (fields of every model struct, enum declarations with their constants)
            what = {1: "the number of model structs", 2: "the fields of a model struct", 3: "the name of a model struct (emit_exact_table_names)",
                    4: "the enum declarations", 98: "(the model panics)", 99: "(the model fails)"}
            for (i, g), v in zip(gok, coq_eval(HEADER, [j01_models_coq(g) for _, g in gok], tag="c01models")):
                rep.count("buildStructs/buildEnums:%s" % ("model=code" if v[0] == 0 else "differ"))
                if v[0] != 0:
                    rep.violation("correspondence corr:C01:buildStructs broken: %s differ(s) between golang.buildStructs / buildEnums and Model/GoModels, Model/GoEnums" % what.get(v[0], v[0]),
                                  dict(inputs[i], structs=g["structs"], enums=g.get("enums"), verdict=v[0]), no_input=True)
            rep.count("compiles", len(pk) - len(errs))
            rep.count("does-not-compile", len(errs))
    finally:
        shutil.rmtree(root, ignore_errors=True)
    import c08
    c08.history_subcheck(rep, PROP, seed, 2500 if tier == "quick" else 20000)
    if getattr(rep, "proof_broken", None) and not rep.violations:
        rep.violation("proof obligation no longer checks: " + rep.proof_broken, {"theorem_file": "coq/theories/Props/C01.v", "detail": info}, no_input=True)
    return rep.finish("proof", ob, dis, checker_cmd(PROP),
                      rule="random schemas whose table / column / enum / query names are chosen to collide after Go-casing or singularisation, to be Go keywords or the generator's own identifiers, with array and imported column types, all combinations of the six emit options, overrides and renames; every successfully generated package is parsed, checked for gofmt stability and COMPILED (go build, offline, lib/pq and uuid from the module cache)",
                      assumptions=["'type-checks as one unit' is decided by the Go compiler on every generated package, not by a theorem: the Go type checker is not formalised",
                                   "the theorems of Props/C01.v cover the naming functions only (partial)"])
