"""C05 — Result types track the schema column they come from."""
from cq import *
from c02 import sql_ast_arg, go_ret_expr

PROP = "C05"
KNOWN = {1: "derived_table_columns_leak", 2: "update_from_returning_order", 3: "cte_alias_shared", 5: "star_over_unnamed_cte_column", 6: "star_over_qualified_cast_column", 7: "star_over_duplicate_column_names"}


def go_handle_c05(rep, c, r, v, replay):
    rep.count("go-level-checked")
    if v[1] == 0:
        rep.violation("a field of the returned struct does not have the Go type of the column it carries", replay)
    elif v[2] == 0:
        rep.violation("model struct reuse: a model type is returned although its fields differ from the query's columns, or the whole table is selected and the model type is not returned", replay)


def run(tier, seed):
    return run_query_property(
        PROP, "judge_c05", "From Verif Require Import Judge.J02.", KNOWN,
        rule="random schemas (all column types x nullability x arrays, enum types, non-default schema, an ALTER history) and statements whose result columns reference table columns directly, through aliases, joins, CTEs, RETURNING and stars; each plain reference (as resolved by Spec/PgScope.v) must carry the catalog column's type, nullability and array-ness",
        assumptions=["Spec/PgScope.pg_describe decides which result columns are plain references and to which column",
                     "the Go type is a function of (data type, not null, array) — C09_positions"],
        tier=tier, seed=seed, what="a plain column reference does not carry the column's declared type",
        extra_args=sql_ast_arg, with_generate=True, second=(go_ret_expr, go_handle_c05))
