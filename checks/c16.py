"""C16 — Config front-ends are equivalent and emit options orthogonal."""
import itertools
import json
import random
import re
from common import *
from qcommon import Schema, QGen

PROP = "C16"
FLAGS = ["emit_interface", "emit_json_tags", "emit_db_tags", "emit_prepared_queries", "emit_exact_table_names", "emit_empty_slices"]


def to_yaml(obj, ind=0):
    """a small YAML writer (block style) so that the YAML decoder path is exercised, not only JSON-as-YAML"""
    sp = "  " * ind
    if isinstance(obj, dict):
        out = []
        for k, v in obj.items():
            if isinstance(v, (dict, list)) and v:
                out.append("%s%s:\n%s" % (sp, k, to_yaml(v, ind + 1)))
            else:
                out.append("%s%s: %s" % (sp, k, json.dumps(v)))
        return "\n".join(out)
    if isinstance(obj, list):
        out = []
        for v in obj:
            if isinstance(v, dict):
                body = to_yaml(v, ind + 1)
                out.append("%s- %s" % (sp, body.lstrip()))
            else:
                out.append("%s- %s" % (sp, json.dumps(v)))
        return "\n".join(out)
    return sp + json.dumps(obj)


def inputs(rng):
    sch = Schema(rng)
    qs = []
    for i in range(rng.randint(1, 4)):
        g = QGen(rng, sch, named="pos")
        sql, kind = g.statement()
        cmd = rng.choice([":one", ":many"]) if kind in ("select", "cte") else rng.choice([":exec", ":execrows", ":many", ":one"])
        qs.append("-- name: Q%d %s\n%s;\n" % (i, cmd, sql))
    return sch.sql, "\n".join(qs)


def v1_config(flags, paths_as_list, overrides=None, rename=None, name="db", qpath="query.sql"):
    pkg = {"path": "out", "engine": "postgresql", "schema": ["schema.sql"] if paths_as_list else "schema.sql",
           "queries": [qpath] if paths_as_list else qpath}
    if name:
        pkg["name"] = name
    for f in flags:
        pkg[f] = True
    cfg = {"version": "1", "packages": [pkg]}
    if overrides:
        cfg["overrides"] = overrides
    if rename:
        cfg["rename"] = rename
    return cfg


def v2_config(flags, paths_as_list, overrides=None, rename=None, name="db", qpath="query.sql"):
    go = {"out": "out"}
    if name:
        go["package"] = name
    for f in flags:
        go[f] = True
    cfg = {"version": "2", "sql": [{"engine": "postgresql", "schema": ["schema.sql"] if paths_as_list else "schema.sql",
                                    "queries": [qpath] if paths_as_list else qpath, "gen": {"go": go}}]}
    if overrides or rename:
        cfg["overrides"] = {"go": {}}
        if overrides:
            cfg["overrides"]["go"]["overrides"] = overrides
        if rename:
            cfg["overrides"]["go"]["rename"] = rename
    return cfg


def gen_job(schema, queries, cfg, fmt):
    files = {"schema.sql": schema}
    if isinstance(queries, dict):          # several query files in one directory
        files.update({"queries/" + k: v for k, v in queries.items()})
    else:
        files["query.sql"] = queries
    if fmt == "json":
        files["sqlc.json"] = json.dumps(cfg)
    else:
        files["sqlc.yaml"] = to_yaml(cfg) + "\n"
    return {"op": "generate", "files": files, "summary": True}


TAG_RE = re.compile(r" `[^`\n]*`")


def strip_tags(src):
    return "\n".join(re.sub(r"\s+$", "", TAG_RE.sub("", l)) for l in src.split("\n"))


def normalise_ws(src):
    return re.sub(r"[ \t]+", " ", src)


def api_facts(summary, exact_names=False):
    """what no emit option may change: SQL constants, parameter lists, field types"""
    facts = {}
    for fname, f in summary.items():
        if fname.endswith("querier.go") or fname.endswith("db.go"):
            continue
        # no emit option changes what a query file or models.go imports
        facts[("imports", fname)] = sorted(f.get("import_names", []))
        for c in f.get("consts", []):
            if "-- name:" in c["value"]:
                facts[("sql", c["value"].split("\n")[0])] = c["value"]
        for m in f.get("methods", []):
            if m["recv"] != "Queries":
                continue
            facts[("params", m["name"])] = [(p["name"], p["type"]) for p in m["params"]]
            facts[("args", m["name"])] = m["call_args"]
            facts[("nresults", m["name"])] = len(m["results"])
            facts[("scan", m["name"])] = m["scan_args"]
        for st in f.get("structs", []):
            if fname.endswith("models.go"):
                # model type names may change under emit_exact_table_names: compare by field list
                facts.setdefault(("model-fields",), []).append([(x["name"], x["type"]) for x in st["fields"]])
            else:
                facts[("struct", st["name"])] = [(x["name"], x["type"]) for x in st["fields"]]
        if fname.endswith("models.go"):
            # named non-struct types (enums) and their constants: no emit option renames them
            facts[("enum-types",)] = sorted((x["name"], x["type"]) for x in f.get("named", []))
            facts[("enum-consts",)] = sorted((c["name"], c["type"], c["value"]) for c in f.get("consts", []))
    if ("model-fields",) in facts:
        facts[("model-fields",)] = sorted(facts[("model-fields",)])
    return facts


def run(tier, seed):
    rep = Report(PROP, tier, seed)
    ok, info = prep(PROP)
    ob, dis = proof_gate(rep, PROP, ok, info)
    rng = random.Random(seed)
    n_inputs = 60 if tier == "quick" else 500
    flagsets = [tuple(f for f, b in zip(FLAGS, bits) if b) for bits in itertools.product([0, 1], repeat=6)]
    fixed = [("CREATE TABLE a (id int PRIMARY KEY, name text);\nCREATE TABLE b (id int PRIMARY KEY, name text);\nCREATE TABLE c (id int PRIMARY KEY, count int);\n",
              "-- name: Triple :many\nSELECT a.id, b.id, c.id, a.name, b.name FROM a, b, c WHERE a.id = $1 AND b.id = $2 AND c.id = $3 AND a.name = $4;\n\n"
              "-- name: Counts :one\nSELECT count(*), count(*), c.count FROM c;\n"),
             # enum types with plural names: emit_exact_table_names is about TABLE model names, enum type names must not move
             ("CREATE TYPE order_states AS ENUM ('new', 'done');\nCREATE TYPE moods AS ENUM ('ok', 'sad');\nCREATE TYPE statuses AS ENUM ('a');\n"
              "CREATE TABLE orders (id int PRIMARY KEY, state order_states NOT NULL, mood moods, st statuses[]);\n",
              "-- name: SetState :exec\nUPDATE orders SET state = $1 WHERE id = $2;\n\n"
              "-- name: ByMood :many\nSELECT id, state, st FROM orders WHERE mood = $1;\n\n"
              "-- name: OneMood :one\nSELECT mood FROM orders WHERE id = $1;\n")]
    # two query files: a type that needs an import stands bare (single parameter / single result) in one file only - no option
    # may make the other file differ
    fixed.append(("CREATE TABLE people (id uuid PRIMARY KEY, nick text, born timestamptz NOT NULL, n int);\n",
                  {"a_people.sql": "-- name: ByNick :many\nSELECT id, n FROM people WHERE nick = $1;\n\n-- name: Born :one\nSELECT born FROM people WHERE n = $1;\n",
                   "b_plain.sql": "-- name: CountPeople :one\nSELECT count(*) FROM people;\n\n-- name: Purge :exec\nDELETE FROM people WHERE n = 0;\n"}))
    fixed.append(("CREATE TABLE visits (id int PRIMARY KEY, hits int NOT NULL, hits_2 int NOT NULL, hits2 int);\n",
                  "-- name: Pairs :many\nSELECT a.hits, b.hits, a.hits_2, b.hits2 FROM visits a JOIN visits b ON a.id = b.id WHERE a.hits = $1 AND b.hits = $2 AND a.hits_2 = $3;\n"))
    for inp in range(n_inputs):
        schema, queries = fixed[inp] if inp < len(fixed) else inputs(rng)
        if isinstance(queries, str) and inp >= len(fixed) and queries.count("-- name:") > 1 and rng.random() < 0.4:
            parts = ["-- name:" + x for x in queries.split("-- name:")[1:]]
            k = rng.randint(1, len(parts) - 1)
            queries = {"a.sql": "".join(parts[:k]), "b.sql": "".join(parts[k:])}
        qpath = "queries" if isinstance(queries, dict) else "query.sql"
        ov = [{"go_type": "example.com/x.ID", "db_type": "uuid"}] if rng.random() < 0.4 else None
        if rng.random() < 0.3:
            # the table part of a column override is the table's name, not the name of its model struct
            ov = (ov or []) + [{"go_type": "example.com/x.Text", "column": rng.choice(["author.bio", "author.name", "book.title", "order.id", "item.name", "author.id"])}]
        rn = {"id": "Ident"} if rng.random() < 0.3 else None
        nm = rng.choice(["db", "db", ""])
        jobs, meta = [], []
        singles = [fs for fs in flagsets if len(fs) == 1]
        sets = flagsets if tier != "quick" else ([flagsets[0], flagsets[-1]] + singles + rng.sample([fs for fs in flagsets[1:-1] if len(fs) > 1], 8))
        for fl in sets:
            variants = [("v1", "json", False), ("v1", "yaml", True), ("v2", "json", True), ("v2", "yaml", False)]
            if fl not in (flagsets[0], flagsets[-1]) and tier == "quick":
                variants = [rng.choice(variants[:2]), rng.choice(variants[2:])]
            for ver, fmt, as_list in variants:
                cfg = (v1_config if ver == "v1" else v2_config)(fl, as_list, ov, rn, nm, qpath)
                jobs.append(gen_job(schema, queries, cfg, fmt))
                meta.append((fl, ver, fmt, as_list))
        res = run_harness(jobs)
        by_flags = {}
        for (fl, ver, fmt, as_list), r in zip(meta, res):
            by_flags.setdefault(fl, []).append(((ver, fmt, as_list), r))
        base = None
        for fl, lst in by_flags.items():
            # (1) front-end equivalence: byte-identical outputs (or identical failure) under every version / encoding / path form
            rep.case((inp, fl), nontrivial=True, sample={"flags": list(fl), "variants": [v for v, _ in lst], "ok": lst[0][1].get("ok")} if len(rep.samples) < 4 else None)
            rep.count("flags=%d" % len(fl))
            ref_v, ref = lst[0]
            for v, r in lst[1:]:
                if (r.get("ok"), r.get("out")) != (ref.get("ok"), ref.get("out")) or ("panic" in r) != ("panic" in ref):
                    differs = sorted(k for k in set((r.get("out") or {})) | set((ref.get("out") or {})) if (r.get("out") or {}).get(k) != (ref.get("out") or {}).get(k))
                    rep.violation("the same configuration as %s and as %s gives different output (%s)" % (ref_v, v, differs or (ref.get("stderr"), r.get("stderr"))),
                                  {"schema": schema, "queries": queries, "flags": list(fl), "a": ref_v, "b": v,
                                   "a_stderr": ref.get("stderr"), "b_stderr": r.get("stderr"), "differs": differs})
                    break
            if fl == ():
                base = ref
        # (2) orthogonality of the emit options against the no-flag output
        if base is None or not base.get("ok"):
            rep.count("base-rejected")
            continue
        base_facts = api_facts(base["summary"])
        for fl, lst in by_flags.items():
            r = lst[0][1]
            if not r.get("ok"):
                rep.violation("switching on %s makes generation fail: %s" % (list(fl), (r.get("stderr") or "")[:100]),
                              {"schema": schema, "queries": queries, "flags": list(fl)})
                continue
            facts = api_facts(r["summary"])
            keys = set(base_facts) | set(facts)
            bad = sorted(str(k) for k in keys if base_facts.get(k) != facts.get(k)
                         and not (("emit_exact_table_names" in fl or True) and k[0] in ("params", "struct", "scan", "args") and False))
            if "emit_exact_table_names" in fl:
                # model type names legitimately change; they occur in params/structs only as return types, which api_facts does not record
                pass
            if bad:
                rep.violation("emit options %s change the embedded SQL, parameter order or a field type: %s" % (list(fl), bad[:4]),
                              {"schema": schema, "queries": queries, "flags": list(fl), "changed": bad,
                               "base": {k: base_facts.get(eval(k)) for k in bad[:4]}, "with_flags": {k: facts.get(eval(k)) for k in bad[:4]}})
                continue
            # option-local checks on the file level
            out, bout = r["out"], base["out"]
            only_tags = set(fl) <= {"emit_json_tags", "emit_db_tags"} and fl
            if only_tags:
                for f in bout:
                    if normalise_ws(strip_tags(out.get(f, ""))) != normalise_ws(strip_tags(bout[f])) or set(out) != set(bout):
                        rep.violation("tag options %s change more than struct tags in %s" % (list(fl), f), {"schema": schema, "queries": queries, "flags": list(fl), "file": f})
                        break
            if fl == ("emit_interface",):
                extra = set(out) - set(bout)
                if extra != {"out/querier.go"} or any(out[f] != bout[f] for f in bout):
                    rep.violation("emit_interface does more than add querier.go", {"schema": schema, "queries": queries, "extra": sorted(extra)})
            if fl == ("emit_empty_slices",):
                for f in bout:
                    a = re.sub(r"items := \[\](\S+)\{\}", r"var items []\1", out.get(f, ""))
                    if a != bout[f]:
                        rep.violation("emit_empty_slices changes more than the slice initialiser in %s" % f, {"schema": schema, "queries": queries, "file": f})
                        break
    # (3) the hypothesis the equivalence proof needs: engines are compared before the default is filled in
    schema, queries = "CREATE TABLE t (id uuid PRIMARY KEY);\n", "-- name: Q :one\nSELECT id FROM t;\n"
    mixed_v1 = {"version": "1", "overrides": [{"go_type": "example.com/x.ID", "db_type": "uuid"}],
                "packages": [{"path": "a", "schema": "schema.sql", "queries": "query.sql"},
                             {"path": "b", "engine": "postgresql", "schema": "schema.sql", "queries": "query.sql"}]}
    mixed_v2 = {"version": "2", "overrides": {"go": {"overrides": [{"go_type": "example.com/x.ID", "db_type": "uuid"}]}},
                "sql": [{"engine": "postgresql", "schema": "schema.sql", "queries": "query.sql", "gen": {"go": {"out": "a"}}},
                        {"engine": "postgresql", "schema": "schema.sql", "queries": "query.sql", "gen": {"go": {"out": "b"}}}]}
    ra, rb = run_harness([gen_job(schema, queries, mixed_v1, "json"), gen_job(schema, queries, mixed_v2, "json")])
    rep.case(("default-engine",), nontrivial=True)
    if (ra.get("ok"), ra.get("out")) != (rb.get("ok"), rb.get("out")):
        rep.violation("a v1 configuration that relies on the default engine in one package and names it in another is treated differently from its v2 translation: " + (ra.get("stderr") or "")[:120],
                      {"v1": mixed_v1, "v2": mixed_v2, "v1_stderr": ra.get("stderr"), "v2_ok": rb.get("ok")}, klass="v1_default_engine_counted_as_second_engine")
    rep.extra["exhaustive"] = tier != "quick"
    if getattr(rep, "proof_broken", None) and not rep.violations:
        rep.violation("proof obligation no longer checks: " + rep.proof_broken, {"theorem_file": "coq/theories/Props/C16.v", "detail": info}, no_input=True)
    return rep.finish("proof", ob, dis, checker_cmd(PROP),
                      rule="random schemas and query sets under option sets drawn from the 2^6 emit flags (all 64 in thorough; none, all and 14 random ones in quick), each as v1/v2 x JSON/YAML x scalar/list paths through the real config.ParseConfig and generator: byte comparison across front-ends, structural comparison (SQL constants, parameter lists, field types, file-level diffs) across option sets",
                      assumptions=["YAML/JSON decoding is exercised, not modelled; the struct-level equivalence is C16_v1_v2"])
