"""C11 — Query annotation determines the generated method's contract."""
import itertools
import json
import random
from common import *

PROP = "C11"
HEADER = ("From Verif Require Import Model.Compile Spec.Contract Judge.JQ Judge.J11.\n"
          "Open Scope string_scope. Open Scope list_scope.\n")
CMDS = [":one", ":many", ":exec", ":execrows", ":execresult"]
SCHEMA = "CREATE TABLE t (id int PRIMARY KEY, name text, n int NOT NULL);\n"

# statement kind -> (sql with {P} placeholders already numbered, has result row, is DML without RETURNING)
STMTS = {
    "select0": ("SELECT id FROM t", True, False),
    "select1": ("SELECT id, name FROM t WHERE id = $1", True, False),
    "select2": ("SELECT id, name, n FROM t WHERE id = $1 AND n = $2", True, False),
    "insert": ("INSERT INTO t (id, name, n) VALUES ($1, $2, $3)", False, True),
    "insert_ret": ("INSERT INTO t (id, n) VALUES ($1, $2) RETURNING id", True, False),
    "update": ("UPDATE t SET name = $1 WHERE id = $2", False, True),
    "update_ret": ("UPDATE t SET name = $1 WHERE id = $2 RETURNING *", True, False),
    "delete": ("DELETE FROM t WHERE id = $1", False, True),
    "delete_ret": ("DELETE FROM t WHERE id = $1 RETURNING id, name", True, False),
    "truncate": ("TRUNCATE t", False, False),
}


# what may stand in front of the annotation line (after the previous statement's ';' or at the start of the file)
PREFIXES = ["", "-- a comment about the query\n", "/* banner */\n", "/*\n * Authors\n */\n", "\n\n", "/* multi\n   line */\n-- and a line\n",
            "-- name: First :exec\nDELETE FROM t WHERE n = $1;\n\n", "-- name: First :exec\nDELETE FROM t WHERE n = $1;\n/*\n * second part\n */\n\n",
            # the annotation on the line of the previous statement's semicolon, or right after a trailing comment
            "-- name: First :exec\nDELETE FROM t WHERE n = $1; ", "-- name: First :exec\nDELETE FROM t WHERE n = $1; -- done\n",
            "-- name: First :exec\nDELETE FROM t WHERE n = $1;\t"]


def ann(syntax, name, cmd):
    if syntax == "--":
        return "-- name: %s %s" % (name, cmd)
    if syntax == "/*":
        return "/* name: %s %s */" % (name, cmd)
    return "# name: %s %s" % (name, cmd)


def meta_variants(rng, n):
    out = []
    names = ["GetX", "x", "_a1", "A_b", "9x", "a-b", "", "Get X", "db", "Über"]
    for syntax in ("--", "/*", "#"):
        for cmd in CMDS + [":two", ":ONE", "one", ":one:", ""]:
            for name in names:
                out.append(ann(syntax, name, cmd))
    extra = ["-- name: A", "-- name:", "--name: A :one", "-- name:A :one", " -- name: A :one", "-- name: A  :one", "-- name: A :one ",
             "-- name: A :one extra", "-- name: A\t:one", "/* name: A :one*/", "/* name: A :one */ trailing", "/*name: A :one */",
             "-- Name: A :one", "--  name: A :one", "-- name: A :one\r", "# name: A :exec", "-- comment\n-- name: A :many\nSELECT 1",
             "SELECT 1\n-- name: Late :one", "-- name: A :one\n-- name: B :many", "/* name: A :one */\n-- name: B :many", "", "\n\n-- name: A :exec",
             "-- name: A :exec -- why", "/* name: A\n:one */", "-- name: %s :one" % ("N" * 300)]
    out += extra
    alphabet = ["-- name:", "/* name:", "# name:", " ", "  ", "A", "b_1", ":one", ":many", ":exec", "*/", "\n", "\t", "--", "9", ":"]
    for _ in range(n):
        out.append("".join(rng.choice(alphabet) for _ in range(rng.randint(1, 7))))
    return out


def run(tier, seed):
    rep = Report(PROP, tier, seed)
    ok, info = prep(PROP)
    ob, dis = proof_gate(rep, PROP, ok, info)
    rng = random.Random(seed)

    # --- A. metadata.Parse against the model, all three comment syntaxes switched on and off
    texts = meta_variants(rng, 10000 if tier == "quick" else 150000)
    jobs, meta = [], []
    for t in texts:
        if any(ord(ch) > 127 for ch in t):
            continue        # non-ASCII names: unicode.IsLetter is outside the model
        for (d, h, s) in ((True, False, True), (True, True, True), (False, True, False)):
            jobs.append({"op": "meta", "text": t, "dash": d, "hash": h, "slashstar": s})
            meta.append((t, d, h, s))
    res = run_harness(jobs)
    exprs = []
    for (t, d, h, s), r in zip(meta, res):
        impl = "None" if "err" in r else "(Some (%s, %s))" % (coqstr(r.get("name", "")), coqstr(r.get("cmd", "")))
        if "panic" in r:
            impl = "None"
        exprs.append("judge_meta %s (mkCS %s %s %s) %s" % (coqstr(t), coqbool(d), coqbool(h), coqbool(s), impl))
    for (t, d, h, s), r, v in zip(meta, res, coq_eval(HEADER, exprs, tag="c11m")):
        rep.case(("meta", t, d, h, s), nontrivial=True, sample={"annotation": t, "result": r} if len(rep.samples) < 3 else None)
        rep.count("meta:" + ("err" if "err" in r else "ok"))
        if "panic" in r:
            rep.violation("metadata.Parse panics: " + r["panic"], {"text": t})
        else:
            # the property on the implementation: accepted => identifier + one of the five commands
            bad = False
            if "err" not in r and r.get("name"):
                nm, cmd = r["name"], r["cmd"]
                if cmd not in CMDS or not (nm[0].isalpha() or nm[0] == "_") or not all(ch.isalnum() or ch == "_" for ch in nm):
                    bad = True
                    rep.violation("an annotation with a non-identifier name or unknown command is accepted", {"text": t, "impl": r})
            if v[3] and not bad:
                rep.violation("correspondence corr:C11:meta_parse broken: model and metadata.Parse differ on %r" % t[:60], {"text": t, "syntax": [d, h, s], "impl": r}, no_input=True)

    # --- B. the cross product command x statement x syntax x prepared x interface through sqlc generate
    combos = list(itertools.product(CMDS, STMTS, ("--", "/*"), (False, True), (False, True), range(len(PREFIXES))))
    if tier == "quick":
        rng.shuffle(combos)
        combos = combos[:240]
    jobs = []
    for cmd, sk, syntax, prepared, iface, pf in combos:
        sql, _, _ = STMTS[sk]
        q = "%s%s\n%s;\n\nSELECT 1;\n" % (PREFIXES[pf], ann(syntax, "TheQuery", cmd), sql)      # the last statement has no annotation
        cfg = json.dumps({"version": "1", "packages": [{"path": "db", "engine": "postgresql", "schema": "schema.sql", "queries": "query.sql",
                                                        "emit_prepared_queries": prepared, "emit_interface": iface}]})
        jobs.append({"op": "generate", "summary": True, "nofiles": True, "files": {"sqlc.json": cfg, "schema.sql": SCHEMA, "query.sql": q}})
    # duplicates and unannotated files
    dup = "-- name: A :one\nSELECT id FROM t;\n-- name: A :many\nSELECT id FROM t;\n"
    cfg0 = json.dumps({"version": "1", "packages": [{"path": "db", "engine": "postgresql", "schema": "schema.sql", "queries": "query.sql"}]})
    jobs.append({"op": "generate", "summary": True, "nofiles": True, "files": {"sqlc.json": cfg0, "schema.sql": SCHEMA, "query.sql": dup}})
    cfg2 = json.dumps({"version": "1", "packages": [{"path": "db", "engine": "postgresql", "schema": "schema.sql", "queries": ["q1.sql", "q2.sql"]}]})
    jobs.append({"op": "generate", "summary": True, "nofiles": True,
                 "files": {"sqlc.json": cfg2, "schema.sql": SCHEMA, "q1.sql": "-- name: A :one\nSELECT id FROM t;\n", "q2.sql": "-- name: B :exec\nDELETE FROM t;\n-- name: A :execrows\nDELETE FROM t;\n"}})
    res = run_harness(jobs)
    dupres2 = res.pop()
    dupres = res.pop()
    rep.case(("dup",), nontrivial=True)
    rep.case(("dup2",), nontrivial=True)
    if dupres.get("ok") or "duplicate query name" not in dupres.get("stderr", ""):
        rep.violation("two statements annotated with the same name are not rejected", {"queries": dup, "impl": dupres})
    if dupres2.get("ok") or "duplicate query name" not in dupres2.get("stderr", ""):
        rep.violation("the same query name in two query files of one package is not rejected", {"impl": dupres2})
    exprs, keys = [], []
    for (cmd, sk, syntax, prepared, iface, pf), r in zip(combos, res):
        sql, has_row, dml_noret = STMTS[sk]
        expect_names = (["First"] if "First" in PREFIXES[pf] else []) + ["TheQuery"]
        rep.count("prefix:%d" % pf)
        rep.case(("gen", cmd, sk, syntax, prepared, iface, pf), nontrivial=True,
                 sample={"cmd": cmd, "stmt": sql, "prepared": prepared, "interface": iface, "ok": r.get("ok")} if len(rep.samples) < 6 else None)
        rep.count("cell:%s:%s" % (cmd, "accepted" if r.get("ok") else "rejected"))
        replay = {"cmd": cmd, "stmt": sql, "syntax": syntax, "prepared": prepared, "interface": iface, "stderr": r.get("stderr"), "panic": r.get("panic"),
                  "text_before_annotation": PREFIXES[pf]}
        if "panic" in r:
            rep.violation("sqlc panics: " + r["panic"][:100], replay, klass="one_many_on_statement_without_result_panics" if not has_row else None)
            continue
        must_reject = cmd in (":one", ":many") and dml_noret
        if must_reject:
            if r.get("ok"):
                rep.violation(":one/:many on a data-modifying statement without RETURNING is accepted", replay)
            continue
        if not r.get("ok"):
            if cmd in (":one", ":many") and not has_row:
                rep.count("one/many on TRUNCATE rejected with a diagnostic")
                continue
            rep.violation("a well-formed annotated statement is rejected: %s" % (r.get("stderr") or "")[:120], replay)
            continue
        s = r["summary"]
        methods = [m for m in s.get("db/query.sql.go", {}).get("methods", []) if m["recv"] == "Queries"]
        names = [m["name"] for m in methods]
        if sorted(names) != sorted(expect_names):
            rep.violation("the method set %s is not exactly the annotated names %s (every annotated statement one method, the unannotated statement nothing)" % (names, expect_names), replay)
            continue
        m = [m for m in methods if m["name"] == "TheQuery"][0]
        if iface:
            qi = [i for i in s.get("db/querier.go", {}).get("interfaces", []) if i["name"] == "Querier"]
            sig = lambda ps: [p["type"] for p in ps]
            qm = [x for x in qi[0]["methods"] if x["name"] == "TheQuery"] if qi else []
            if not qi or sorted(x["name"] for x in qi[0]["methods"]) != sorted(expect_names) or sig(qm[0]["params"]) != sig(m["params"]) \
               or sig(qm[0]["results"]) != sig(m["results"]):
                rep.violation("the Querier interface does not list the method with the same signature", replay)
        exprs.append("judge_contract %s %s %s %s %s %d" % (coqstr(cmd), coqbool(prepared), coqlist([coqstr(x["type"]) for x in m["results"]]),
                                                        coqstr(m["call"].split(".")[-1]), coqlist([coqstr(e) for e in m["events"]]), m["scan_count"]))
        keys.append((replay, m))
    for (replay, m), v in zip(keys, coq_eval(HEADER, exprs, tag="c11c")):
        if not v[2]:
            replay = dict(replay, method={k: m[k] for k in ("results", "call", "events", "scan_count")})
            rep.violation("the generated method does not follow the contract of its command (Spec/Contract.v)", replay)
    # --- C. the annotated statements of EVERY query file of a package (a directory, or a list of paths) become methods, whatever
    # the files are called, as long as the name is one sqlc reads (ends in .sql, not hidden, not a *.down.sql rollback)
    TRICKY = ["breakdown.sql", "countdown.sql", "shutdown.sql", "1_down.sql", "x-down.sql", "a.up.sql", "a.DOWN.sql", "down.sql", "downs.sql",
              "q.sql", "Query.sql", "0.sql", "_x.sql", "a b.sql", "q.sql.sql", "authors.sql"]
    mf_cases = []
    for _ in range(40 if tier == "quick" else 1500):
        names = rng.sample(TRICKY, rng.randint(2, 4))
        files, expect, k = {}, {}, 0
        for nm in names:
            body = ""
            for _ in range(rng.randint(1, 2)):
                k += 1
                cmd = rng.choice(CMDS)
                sk = rng.choice([x for x in STMTS if not (cmd in (":one", ":many") and (STMTS[x][2] or not STMTS[x][1]))])
                body += "%s\n%s;\n\n" % (ann(rng.choice(["--", "/*"]), "M%d" % k, cmd), STMTS[sk][0])
                expect.setdefault(nm, []).append("M%d" % k)
            files[nm] = body
        as_list = rng.random() < 0.4
        paths = ["queries/" + nm for nm in names] if as_list else "queries"
        cfg = json.dumps({"version": "1", "packages": [{"path": "db", "engine": "postgresql", "schema": "schema.sql", "queries": paths}]})
        job = {"op": "generate", "summary": True, "nofiles": True, "files": dict({"sqlc.json": cfg, "schema.sql": SCHEMA}, **{"queries/" + nm: t for nm, t in files.items()})}
        mf_cases.append((files, expect, as_list, job))
    for (files, expect, as_list, job), r in zip(mf_cases, run_harness([c[3] for c in mf_cases])):
        rep.case(("multifile", json.dumps(files, sort_keys=True), as_list), nontrivial=True,
                 sample={"query_files": sorted(files), "ok": r.get("ok")} if len(rep.samples) < 8 else None)
        rep.count("multi-file:%s" % ("list" if as_list else "directory"))
        replay = {"query_files": files, "as_path_list": as_list, "stderr": r.get("stderr"), "panic": r.get("panic")}
        if "panic" in r or not r.get("ok"):
            rep.violation("a package of well-formed annotated statements in %d query files is rejected: %s" % (len(files), (r.get("stderr") or r.get("panic") or "")[:120]), replay)
            continue
        got = {}
        for f, sm in r["summary"].items():
            if f.startswith("db/") and f.endswith(".sql.go"):
                got[f[3:-3]] = sorted(m["name"] for m in sm.get("methods", []) if m["recv"] == "Queries")
        want = {nm: sorted(v) for nm, v in expect.items()}
        if got != want:
            rep.violation("the methods per query file %s are not the annotated statements %s" % (got, want), replay)
    # --- D. MySQL: every annotated statement kind the dialect adds (REPLACE, INSERT ... SET, multi-row INSERT, INSERT IGNORE,
    # ON DUPLICATE KEY UPDATE) yields its method - or a diagnostic, never silence
    MY_SCHEMA = "CREATE TABLE t (id int PRIMARY KEY, name varchar(20), n int);\n"
    MY_STMTS = ["REPLACE INTO t (id, name) VALUES (?, ?)", "REPLACE LOW_PRIORITY INTO t (id, name, n) VALUES (?, ?, ?)", "INSERT IGNORE INTO t (id, name) VALUES (?, ?)",
                "INSERT INTO t (id, name) VALUES (?, ?), (?, ?)", "INSERT INTO t (id, name) VALUES (?, ?) ON DUPLICATE KEY UPDATE name = ?", "INSERT INTO t SET id = ?, name = ?",
                "UPDATE t SET name = ? WHERE id = ? LIMIT 1", "DELETE FROM t WHERE id = ? LIMIT 1", "DELETE FROM t ORDER BY id LIMIT 2", "SELECT id FROM t WHERE id = ? LIMIT 1",
                "SELECT SQL_NO_CACHE id, name FROM t", "INSERT INTO t (id) SELECT id FROM t WHERE n = ?", "UPDATE LOW_PRIORITY t SET n = n + 1", "TRUNCATE TABLE t"]
    cfgm = json.dumps({"version": "1", "packages": [{"path": "db", "engine": "mysql", "schema": "schema.sql", "queries": "query.sql"}]})
    my_cases = [(st, cmd) for st in MY_STMTS for cmd in ((":exec", ":execrows", ":execresult") if not st.startswith("SELECT") else (":one", ":many"))]
    my_res = run_harness([{"op": "generate", "summary": True, "nofiles": True,
                           "files": {"sqlc.json": cfgm, "schema.sql": MY_SCHEMA, "query.sql": "-- name: Keep :exec\nDELETE FROM t WHERE id = ?;\n\n%s\n%s;\n" % (ann("--", "TheQuery", cmd), st)}}
                          for st, cmd in my_cases])
    for (st, cmd), r in zip(my_cases, my_res):
        rep.case(("mysql", st, cmd), nontrivial=True)
        rep.count("mysql:%s" % ("accepted" if r.get("ok") else "rejected"))
        replay = {"engine": "mysql", "stmt": st, "cmd": cmd, "stderr": r.get("stderr"), "panic": r.get("panic")}
        if "panic" in r:
            rep.violation("sqlc panics on an annotated MySQL statement: " + r["panic"][:100], replay)
        elif r.get("ok"):
            names = [m["name"] for m in r["summary"].get("db/query.sql.go", {}).get("methods", []) if m["recv"] == "Queries"]
            if sorted(names) != ["Keep", "TheQuery"]:
                rep.violation("an annotated MySQL statement yields no method and no diagnostic (methods: %s)" % names, replay)
        elif not (r.get("stderr") or "").strip():
            rep.violation("an annotated MySQL statement is rejected without a diagnostic", replay)
    rep.extra["exhaustive"] = tier != "quick"
    if getattr(rep, "proof_broken", None) and not rep.violations:
        rep.violation("proof obligation no longer checks: " + rep.proof_broken, {"theorem_file": "coq/theories/Props/C11.v", "detail": info}, no_input=True)
    return rep.finish("proof", ob, dis, checker_cmd(PROP),
                      rule="(A) annotation lines: every command x comment syntax x name form plus malformed variants and random token strings, through metadata.Parse with three CommentSyntax settings, against the Gallina transcription; (B) the cross product 5 commands x 10 statement shapes (SELECT/INSERT/UPDATE/DELETE/TRUNCATE, with/without RETURNING, 0..3 parameters, 1..3 result columns) x 2 comment syntaxes x prepared x interface x 11 texts in front of the annotation (comments, multi-line block comments, blank lines, a preceding annotated statement) through sqlc generate (complete in thorough, a sample of 240 cells in quick), the emitted method's structure read back with go/parser and judged by Spec/Contract.v; (C) packages of 2-4 query files with unusual but valid file names (directory or path list): the methods per emitted file are the annotated statements of that file",
                      assumptions=["the template half of the property is tied to the code by reading the emitted Go back (go/parser), not by a model of text/template",
                                   "query names are ASCII (unicode.IsLetter/IsDigit outside ASCII is not modelled)"])
